import logging, random, itertools, copy, json, pickle
logging.disable(logging.CRITICAL)
from datetime import datetime, timedelta, timezone
from geostructures import *
from geostructures.time import TimeInterval as T
from geostructures.parsers import parse_wkt, parse_geojson
from geostructures._geometry import is_counter_clockwise
C=Coordinate
def d(n): return datetime(2020,1,1,tzinfo=timezone.utc)+timedelta(hours=n)
rng=random.Random(21); bad={}
def chk(n,c,i):
    if not c: bad.setdefault(n,[]).append(i)
def ring(cx,cy,r,n):
    import math
    pts=[]
    for k in range(n):
        a=2*math.pi*k/n+rng.random()*0.3
        pts.append((round(cx+r*math.cos(a)*(0.6+0.4*rng.random()),rng.choice([0,1,3,6])), round(cy+r*math.sin(a)*(0.6+0.4*rng.random()),rng.choice([0,1,3,6]))))
    out=[]
    for p in pts:
        if p not in out: out.append(p)
    return out
def rdt():
    r=rng.random()
    if r<.34: return None
    if r<.67: return d(rng.randint(0,5))
    a=rng.randint(0,5); return T(d(a),d(a+rng.randint(1,5)))
def rprops(): return rng.choice([{}, {'a':1}, {'name':'x','n':2.5}])
def rpoly(cx=None,cy=None,r=None,holes=True,z=False):
    cx=cx if cx is not None else rng.uniform(-100,100); cy=cy if cy is not None else rng.uniform(-60,60); r=r or rng.uniform(0.01,10)
    pts=ring(cx,cy,r,rng.randint(3,7))
    while len(pts)<3: pts=ring(cx,cy,r,5)
    cs=[C(x,y,z=(rng.choice([0.0,5.0]) if z else None)) for x,y in pts]
    hs=[]
    if holes and rng.random()<.5:
        for k in range(rng.randint(1,2)):
            hp=ring(cx+(k-0.5)*r*0.3,cy,r*0.1,4)
            if len(hp)>=3: hs.append(GeoPolygon([C(x,y) for x,y in hp]+[C(*hp[0])]))
    return GeoPolygon(cs+[cs[0]],holes=hs or None)
def rshape(kind=None, top=True):
    kind=kind or rng.choice(['point','line','poly','box','circle','ellipse','ring','wedge','mpoint','mline','mpoly'])
    if kind=='point': s=GeoPoint(C(round(rng.uniform(-179,179),rng.choice([0,2,6])),round(rng.uniform(-89,89),rng.choice([0,2,6])), z=rng.choice([None,None,0.0,12.5])))
    elif kind=='line': s=GeoLineString([C(x,y) for x,y in ring(rng.uniform(-50,50),rng.uniform(-50,50),5,rng.randint(2,6))] or [C(0,0),C(1,1)])
    elif kind=='poly': s=rpoly(z=rng.random()<.2)
    elif kind=='box': x=rng.uniform(-100,100); y=rng.uniform(-60,60); s=GeoBox(C(x,y+1),C(x+2,y))
    elif kind=='circle': s=GeoCircle(C(rng.uniform(-100,100),rng.uniform(-60,60)),rng.uniform(100,50000), holes=[GeoCircle(C(0,0),5)] if rng.random()<.2 else None)
    elif kind=='ellipse': s=GeoEllipse(C(rng.uniform(-100,100),rng.uniform(-60,60)),rng.uniform(2000,5000),rng.uniform(500,2000),rng.uniform(0,360))
    elif kind=='ring': s=GeoRing(C(rng.uniform(-100,100),rng.uniform(-60,60)),rng.uniform(100,500),rng.uniform(600,5000))
    elif kind=='wedge': a=rng.uniform(1,180); s=GeoRing(C(rng.uniform(-100,100),rng.uniform(-60,60)),rng.uniform(100,500),rng.uniform(600,5000),a,a+rng.uniform(10,170))
    elif kind=='mpoint': s=MultiGeoPoint([rshape('point',False) for _ in range(rng.randint(1,4))])
    elif kind=='mline': s=MultiGeoLineString([rshape('line',False) for _ in range(rng.randint(1,4))])
    elif kind=='mpoly': s=MultiGeoPolygon([rpoly() for _ in range(rng.randint(1,4))])
    if top:
        s.set_dt(rdt())
        for k,v in rprops().items(): s.set_property(k,v)
    return s
SIMPLE=('GeoPoint','GeoLineString','GeoPolygon','MultiGeoPoint','MultiGeoLineString','MultiGeoPolygon')
for it in range(4000):
    s=rshape(); tn=type(s).__name__
    # C15
    c=s.copy(); chk('copy_eq', c==s and s==c,tn); chk('copy_hash', hash(c)==hash(s),tn)
    chk('copy_props', c._properties is not s._properties,tn); chk('copy_dt', s.dt is None or c.dt is not s.dt,tn)
    p=pickle.loads(pickle.dumps(s)); chk('pickle_eq', p==s and hash(p)==hash(s),tn)
    try: p.to_shapely(); p.bounds
    except Exception as e: chk('pickle_usable', False,(tn,repr(e)))
    # C14
    try:
        g=s.to_geojson(); json.dumps(g)
        g0=copy.deepcopy(g)
        if tn in SIMPLE:
            b=parse_geojson(g); chk('gj_pure', g==g0,tn); b2=parse_geojson(json.dumps(g))
            chk('gj_rt', b==s and b2==s,(tn,)); chk('gj_dt', b.dt==s.dt,tn); chk('gj_props', b._properties==s._properties,(tn,b._properties,s._properties))
        # orientation
        geom=g['geometry']
        polys=[geom['coordinates']] if geom['type']=='Polygon' else geom['coordinates'] if geom['type']=='MultiPolygon' else []
        for rings in polys:
            for i,r in enumerate(rings):
                chk('closed', r[0]==r[-1],tn)
                a2=sum((x2[0]-x1[0])*(x2[1]+x1[1]) for x1,x2 in zip(r,r[1:]))
                chk('orient', (a2<=0) if i==0 else (a2>=0),(tn,i,a2))
    except Exception as e: chk('gj_exc', False,(tn,repr(e)))
    # C13
    try:
        w=s.to_wkt()
        if tn in SIMPLE:
            b=type(s).from_wkt(w,dt=s.dt); chk('wkt_rt', b==s,(tn,w[:80])); chk('wkt_dispatch', parse_wkt(w).set_dt(s.dt)==s,(tn,))
    except Exception as e: chk('wkt_exc', False,(tn,repr(e)[:100]))
for k,v in bad.items(): print(k,len(v),v[:4])
print('ok')
# diagnose wkt_rt failures
rng=random.Random(21)
cnt=0
for it in range(4000):
    s=rshape(); tn=type(s).__name__
    if tn in ('GeoPolygon','MultiGeoPolygon'):
        w=s.to_wkt(); b=type(s).from_wkt(w,dt=s.dt)
        if b!=s:
            cnt+=1
            if cnt<=2:
                print(w)
                ps=s.geoshapes if tn=='MultiGeoPolygon' else [s]; pb=b.geoshapes if tn=='MultiGeoPolygon' else [b]
                for x,y in zip(ps,pb):
                    print(' outline eq', x.outline==y.outline, len(x.holes),len(y.holes))
                    for hx,hy in zip(x.holes,y.holes): print('  hole', [c.to_float() for c in hx.outline],[c.to_float() for c in hy.outline], hx==hy)
