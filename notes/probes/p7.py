import logging
logging.disable(logging.CRITICAL)
from geostructures import *
from geostructures.geohash import NiemeyerHasher, _coord_to_niemeyer, _decode_niemeyer, niemeyer_to_geobox
C=Coordinate
for base in (16,32,64):
    c = C(179.9, 10.0)
    h = _coord_to_niemeyer(c, 3, base)
    b = niemeyer_to_geobox(h, base)
    print(base, h, _decode_niemeyer(h, base), b.nw_bound, b.se_bound, b.contains_coordinate(c))
    c = C(10, 90.0)
    h = _coord_to_niemeyer(c, 3, base)
    b = niemeyer_to_geobox(h, base)
    print(base, h, _decode_niemeyer(h, base), b.nw_bound, b.se_bound, b.contains_coordinate(c))
    c = C(-180, -90.0)
    h = _coord_to_niemeyer(c, 3, base)
    b = niemeyer_to_geobox(h, base)
    print(base, h, _decode_niemeyer(h, base), b.nw_bound, b.se_bound, b.contains_coordinate(c))
    # re-encode centre
    lon,lat,_,_ = _decode_niemeyer(h, base); print('  re-encode centre', _coord_to_niemeyer(C(lon,lat),3,base)==h)
# surrounding at edges
print(NiemeyerHasher._get_surrounding(_coord_to_niemeyer(C(179.9,10),2,32),32))
# hash shape near antimeridian
H = NiemeyerHasher(2, 32)
p = GeoPolygon([C(170,0),C(179,0),C(179,9),C(170,9),C(170,0)])
print(sorted(H.hash_shape(p)))
