import warnings, logging
logging.disable(logging.CRITICAL)
from datetime import datetime, timedelta, timezone
from geostructures import *
from geostructures.time import TimeInterval
C=Coordinate
# C01 diamond centre
d = GeoPolygon([C(0,1),C(1,0),C(0,-1),C(-1,0),C(0,1)])
print('C01 diamond centre', d.contains_coordinate(C(0,0)), 'expect True')
print('C01 diamond (0.5,0)', d.contains_coordinate(C(0.5,0)), 'expect True')
print('C01 diamond (-0.5,0)', d.contains_coordinate(C(-0.5,0)), 'expect True')
sq = GeoPolygon([C(0,0),C(2,0),C(2,2),C(0,2),C(0,0)])
print('C01 square (1,1)', sq.contains_coordinate(C(1,1)))
print('C01 square on edge (0,1)', sq.contains_coordinate(C(0,1)), 'expect False')
print('C01 square on horiz edge (1,0)', sq.contains_coordinate(C(1,0)), 'expect False')
print('C01 square on vertex', sq.contains_coordinate(C(0,0)), 'expect False')
# square with collinear vertex on west edge, level with the point
sq2 = GeoPolygon([C(0,0),C(2,0),C(2,2),C(0,2),C(0,1),C(0,0)])
print('C01 sq2 (1,1) level with collinear vertex', sq2.contains_coordinate(C(1,1)), 'expect True')
# outside point level with vertex
print('C01 diamond outside (2,0)', d.contains_coordinate(C(2,0)))
# hole boundary
sqh = GeoPolygon([C(0,0),C(4,0),C(4,4),C(0,4),C(0,0)], holes=[GeoPolygon([C(1,1),C(3,1),C(3,3),C(1,3),C(1,1)])])
print('C01 on hole edge (1,2)', sqh.contains_coordinate(C(1,2)), 'expect True')
print('C01 in hole (2,2)', sqh.contains_coordinate(C(2,2)), 'expect False')
print('C01 (3.5, 2)', sqh.contains_coordinate(C(3.5,2)), 'expect True')
print('C01 (3.5, 1) level with hole vertex, east of hole', sqh.contains_coordinate(C(3.5,1)), 'expect True')
b = GeoBox(C(0,2),C(2,0))
print('box edge', b.contains_coordinate(C(0,1)), b.contains_coordinate(C(2,2)))
