import logging, math
logging.disable(logging.CRITICAL)
from geostructures import *
from geostructures.calc import *
from geostructures._geometry import dist_xyz_meters
C=Coordinate
# bearing rounding to 360
for lon in [-1e-9,-1e-8,-1e-7,-3e-8]:
    print('bearing', lon, bearing_degrees(C(0,0), C(lon, 1)))
# ring with holes to_wkt
r = GeoRing(C(0,0),500,1000, holes=[GeoCircle(C(0.007,0),50)])
w = r.to_wkt(k=4); print(w.count('('), r.to_polygon(k=4).to_wkt().count('('))
r2 = GeoRing(C(0,0),500,1000)
print(r2.to_wkt(k=4)); print(r2.to_polygon(k=4).to_wkt())
# z=0
p = GeoPoint(C(1,2,z=0.0)); print(p.to_wkt(), p.to_geojson()['geometry'])
# haversine symmetric & antimeridian
a=C(179.5,10); b=C(-179.5,-5)
print(haversine_distance_meters(a,b), haversine_distance_meters(b,a), dist_xyz_meters(a,b))
print('identical', haversine_distance_meters(a,a), 'xyz identical', end=' ')
try: print(dist_xyz_meters(a,a))
except Exception as e: print(type(e).__name__, e)
cs=[C(12.3,45.6), C(0.1,0.1), C(100,-70), C(-33.3,12)]
bad=0
for c in cs:
    try: dist_xyz_meters(c,c)
    except Exception as e: bad+=1
print('xyz self-dist domain errors', bad)
print('antipodal', haversine_distance_meters(C(0,0),C(-180,0)), math.pi*6371000)
# inverse
s=C(10,50); d=inverse_haversine_degrees(s, 77, 123456.0); print(d, haversine_distance_meters(s,d), bearing_degrees(s,d))
d2=inverse_haversine_radians(s, math.radians(77), 123456.0); print(d==d2)
# rotate
pts=[C(1,1),C(2,0)]
r=rotate_coordinates(pts,C(0,0),90); print(r)
r2=rotate_coordinates(rotate_coordinates(pts,C(0,0),30),C(0,0),60); print(r2)
