import logging, json, copy, tempfile, os
logging.disable(logging.CRITICAL)
from datetime import datetime, timedelta, timezone
from zipfile import ZipFile
from geostructures import *
from geostructures.time import TimeInterval
C=Coordinate
def d(n): return datetime(2020,1,1,tzinfo=timezone.utc)+timedelta(hours=n)
T=TimeInterval
def sq(x0,y0,x1,y1, **kw): return GeoPolygon([C(x0,y0),C(x1,y0),C(x1,y1),C(x0,y1),C(x0,y0)], **kw)
shapes = [
  GeoPoint(C(1,2), dt=d(1), properties={'name':'a','n':1}),
  sq(0,0,10,10, holes=[sq(2,2,3,3), sq(5,5,6,6)], dt=T(d(0),d(5)), properties={'name':'b','n':2}),
  GeoLineString([C(0,0),C(1,1),C(2,0)], properties={'name':'c','n':3}),
  MultiGeoPolygon([sq(0,0,10,10, holes=[sq(2,2,3,3)]), sq(20,20,21,21)], dt=d(2), properties={'name':'d','n':4}),
  MultiGeoPoint([GeoPoint(C(0,0)),GeoPoint(C(1,1))], properties={'name':'e','n':5}),
  MultiGeoLineString([GeoLineString([C(0,0),C(1,1)]), GeoLineString([C(3,3),C(4,4),C(5,3)])], properties={'name':'f','n':6}),
  GeoPoint(C(3,4), properties={'name':'g','n':7}),
]
fc = FeatureCollection(shapes)
with tempfile.TemporaryDirectory() as td:
    zp = os.path.join(td,'x.zip')
    with ZipFile(zp,'w') as z: fc.to_shapefile(z)
    back = FeatureCollection.from_shapefile(zp)
for s in back: print(type(s).__name__, s.dt, s._properties, getattr(s,'outline',None) and [x.to_float() for x in s.outline], [ [x.to_float() for x in h.outline] for h in getattr(s,'holes',[])])
print('---geopandas')
df = fc.to_geopandas(); print(df)
b2 = FeatureCollection.from_geopandas(df)
for s,o in zip(b2, shapes): print(type(s).__name__, s==o, s.dt, o.dt, s._properties)
print('---kml')
f = fc.to_fastkml_folder('x')
b3 = FeatureCollection.from_fastkml_folder(f)
for s,o in zip(b3, shapes): print(type(s).__name__, s==o, s.dt, o.dt, s._properties)
