import logging, random, itertools
logging.disable(logging.CRITICAL)
from geostructures import *
from geostructures._geometry import convex_hull
C=Coordinate
def cross(o,a,b): return (a[0]-o[0])*(b[1]-o[1])-(a[1]-o[1])*(b[0]-o[0])
rng=random.Random(3); bad={}
def chk(n,c,i):
    if not c: bad.setdefault(n,[]).append(i)
for it in range(20000):
    n=rng.randint(1,12); R=rng.choice([1,2,3,6])
    mode=rng.random()
    if mode<.15: pts=[(k, 2*k) for k in [rng.randint(0,R) for _ in range(n)]]  # collinear
    elif mode<.3: pts=[(rng.randint(0,R),rng.choice([0,R])) for _ in range(n)]
    else: pts=[(rng.randint(0,R),rng.randint(0,R)) for _ in range(n)]
    h=[(c.longitude,c.latitude) for c in convex_hull([C(*p) for p in pts])]
    S=set(pts)
    chk('subset', set(h)<=S,(pts,h))
    if len(S)>=2: chk('closed', h[0]==h[-1],(pts,h))
    ring=h[:-1] if len(S)>=2 else h
    chk('nodup', len(set(ring))==len(ring),(pts,h))
    noncol=any(cross(a,b,c)!=0 for a,b,c in itertools.combinations(S,3)) if len(S)>=3 else False
    if noncol:
        m=len(ring)
        chk('strictleft', all(cross(ring[i],ring[(i+1)%m],ring[(i+2)%m])>0 for i in range(m)),(pts,h))
        chk('contains', all(cross(ring[i],ring[(i+1)%m],p)>=0 for i in range(m) for p in S),(pts,h))
    else:
        if len(S)>=2: chk('collinear_form', len(h)==3 and h[0]==min(S) and h[1]==max(S),(pts,h))
    p2=pts[:]; rng.shuffle(p2); p2+=p2[:2]
    h2=[(c.longitude,c.latitude) for c in convex_hull([C(*p) for p in p2])]
    chk('perm', h2==h,(pts,h,h2))
for k,v in bad.items(): print(k,len(v),v[:3])
print('ok')
