import logging, random, itertools, copy, json
logging.disable(logging.CRITICAL)
from datetime import datetime, timedelta, timezone
from geostructures import *
from geostructures.time import TimeInterval as T
C=Coordinate
def d(n): return datetime(2020,1,1,tzinfo=timezone.utc)+timedelta(hours=n)
rng=random.Random(5); bad={}
def chk(n,c,i):
    if not c: bad.setdefault(n,[]).append(i)
def sq(x0,y0,x1,y1,**kw): return GeoPolygon([C(x0,y0),C(x1,y0),C(x1,y1),C(x0,y1),C(x0,y0)],**kw)
def mk():
    k=rng.choice(['point','line','poly','polyh','box','circle','ellipse','ring','mpoint','mline','mpoly'])
    x=rng.randint(0,6); y=rng.randint(0,6); w=rng.choice([1,2,4])
    if k=='point': return GeoPoint(C(x+rng.choice([0,.5]),y+rng.choice([0,.5])))
    if k=='line': return GeoLineString([C(x,y),C(x+w,y+w),C(x+w,y)])
    if k=='poly': return sq(x,y,x+w,y+w)
    if k=='polyh': return sq(x,y,x+4,y+4,holes=[sq(x+1,y+1,x+3,y+3)])
    if k=='box': return GeoBox(C(x,y+w),C(x+w,y))
    if k=='circle': return GeoCircle(C(x,y),w*60000)
    if k=='ellipse': return GeoEllipse(C(x,y),w*60000,w*30000,30)
    if k=='ring': return GeoRing(C(x,y),w*20000,w*60000)
    if k=='mpoint': return MultiGeoPoint([GeoPoint(C(rng.randint(0,6),rng.randint(0,6))) for _ in range(rng.randint(1,3))])
    if k=='mline': return MultiGeoLineString([GeoLineString([C(rng.randint(0,6),rng.randint(0,6)),C(rng.randint(0,6),rng.randint(0,6)+.5)]) for _ in range(rng.randint(1,3))])
    if k=='mpoly': return MultiGeoPolygon([sq(a,b,a+1,b+1) for a,b in [(rng.randint(0,6),rng.randint(0,6)) for _ in range(rng.randint(1,3))]])
def rdt():
    r=rng.random()
    if r<.3: return None
    a=rng.randint(0,4)
    if r<.6: return T(d(a),d(a))
    return T(d(a),d(a+rng.randint(1,3)))
errs={}
for it in range(20000):
    a=mk(); b=mk()
    try:
        si=a.intersects_shape(b); sc=a.contains_shape(b)
    except Exception as e:
        errs.setdefault((type(a).__name__,type(b).__name__,type(e).__name__),0); errs[(type(a).__name__,type(b).__name__,type(e).__name__)]+=1; continue
    da,db=rdt(),rdt(); a.set_dt(da); b.set_dt(db)
    key=(type(a).__name__,type(b).__name__)
    chk('timefree_int', a.intersects_shape(b)==si, key); chk('timefree_con', a.contains_shape(b)==sc,key)
    ti = True if (da is None or db is None) else da.intersects(db)
    tc = True if (da is None or db is None) else (db in da)
    chk('int_compose', a.intersects(b)==(si and ti),(key,str(da),str(db),si,ti,a.intersects(b)))
    chk('con_compose', a.contains(b)==(sc and tc),(key,str(da),str(db)))
    chk('in', (b in a)==a.contains(b),key)
    try: chk('int_sym', b.intersects_shape(a)==si,(key,))
    except Exception as e: chk('int_sym_exc',False,(key,repr(e)[:60]))
    if sc: chk('con_imp_int', si,(key,))
for k,v in bad.items(): 
    from collections import Counter
    print(k,len(v),Counter([str(x[0]) if isinstance(x,tuple) and isinstance(x[0],tuple) else str(x) for x in v]).most_common(8))
print('errors',errs)
