import logging, random, math, sys
logging.disable(logging.CRITICAL)
from geostructures import Coordinate as C
rng=random.Random(2); bad={}
def chk(n,c,i):
    if not c: bad.setdefault(n,[]).append(i)
def xyz(lon,lat):
    la=math.radians(lat); lo=math.radians(lon); return (math.cos(la)*math.cos(lo),math.cos(la)*math.sin(lo),math.sin(la))
specials=[0.0,-0.0,90,-90,180,-180,270,-270,360,-360,450,540,720,-540,1e5,-1e5,99990,89.99999999999999,90.00000000000001,179.99999999999997,180.00000000000003,-180.00000000000003,-179.99999999999997,359.99999999999994,360.00000000000006]
for it in range(60000):
    lon=rng.choice(specials) if rng.random()<.3 else rng.uniform(-1e5,1e5) if rng.random()<.5 else rng.randint(-4000,4000)/8
    lat=rng.choice(specials) if rng.random()<.3 else rng.uniform(-1e5,1e5) if rng.random()<.5 else rng.randint(-4000,4000)/8
    form=rng.choice(['f','i','s'])
    a,b=(lon,lat)
    if form=='i': a,b=int(lon),int(lat); lon,lat=float(a),float(b)
    if form=='s': a,b=repr(lon),repr(lat)
    c=C(a,b)
    chk('range', -180<=c.longitude<180 and -90<=c.latitude<=90,(a,b,c.longitude,c.latitude))
    c2=C(c.longitude,c.latitude); chk('idem', (c2.longitude,c2.latitude)==(c.longitude,c.latitude),(a,b))
    u=xyz(lon,lat); v=xyz(c.longitude,c.latitude)
    tol=1e-9*max(1,abs(lon),abs(lat))/100
    chk('same_pt', max(abs(x-y) for x,y in zip(u,v))<1e-9+tol,(a,b,c.longitude,c.latitude,u,v))
    # xyz roundtrip
    if abs(c.latitude)<89.999:
        r=C._from_xyz(c.xyz); dl=abs(r.longitude-c.longitude); dl=min(dl,360-dl)
        chk('xyz_rt', dl<1e-9/max(1e-3,math.cos(math.radians(c.latitude))) and abs(r.latitude-c.latitude)<1e-9,(c.longitude,c.latitude,r.longitude,r.latitude))
for k,v in bad.items(): print(k,len(v),v[:4])
print('ok')
