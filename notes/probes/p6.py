import logging, json, copy
logging.disable(logging.CRITICAL)
from datetime import datetime, timedelta, timezone
from geostructures import *
from geostructures.time import TimeInterval
from geostructures.geohash import NiemeyerHasher, _coord_to_niemeyer, _decode_niemeyer, niemeyer_to_geobox, _get_niemeyer_subhashes
C=Coordinate
def sq(x0,y0,x1,y1, **kw): return GeoPolygon([C(x0,y0),C(x1,y0),C(x1,y1),C(x0,y1),C(x0,y0)], **kw)
for base in (16,32,64):
    h=_coord_to_niemeyer(C(-0.154092,51.539865),8,base); print(base,h,_decode_niemeyer(h,base), _coord_to_niemeyer(C(-0.154092,51.539865),5,base))
    print(' edge', _coord_to_niemeyer(C(0,0),2,base), _coord_to_niemeyer(C(-180,-90),2,base), _coord_to_niemeyer(C(179.999999,90),2,base))
try: _decode_niemeyer('a!',16)
except ValueError as e: print('rejects', e)
try: print(_decode_niemeyer('A',16))
except Exception as e: print('uppercase 16', type(e).__name__, e)
try: print(_decode_niemeyer('a',32))
except Exception as e: print('a in 32', type(e).__name__, e)
# box of cell
b = niemeyer_to_geobox('f', 16); print('f16', b.bounds)
b = niemeyer_to_geobox('5', 16); print('516', b.bounds)
# C12
H = NiemeyerHasher(3, 16)
big = sq(-40,-40,40,40)
hs = H.hash_shape(big); print('cells', len(hs))
# every contained coordinate's cell in result?
import random
random.seed(1); miss=0
for _ in range(2000):
    c = C(random.uniform(-40,40), random.uniform(-40,40))
    if _coord_to_niemeyer(c,3,16) not in hs: miss+=1
print('C12 missing cells for contained coords', miss)
H2 = NiemeyerHasher(4,16)
hs = H2.hash_shape(sq(1,1,30,30)); 
random.seed(1); miss=0
for _ in range(2000):
    c = C(random.uniform(1,30), random.uniform(1,30))
    if _coord_to_niemeyer(c,4,16) not in hs: miss+=1
print('cells', len(hs), 'missing', miss)
