import logging
logging.disable(logging.CRITICAL)
from datetime import datetime, timedelta, timezone
from geostructures import *
from geostructures.time import TimeInterval
C=Coordinate
def sq(x0,y0,x1,y1, **kw): return GeoPolygon([C(x0,y0),C(x1,y0),C(x1,y1),C(x0,y1),C(x0,y0)], **kw)
A = sq(0,0,1,1); B = sq(1,1,2,2)
print('corner touch A.int(B), B.int(A)', A.intersects_shape(B), B.intersects_shape(A))
B2 = sq(1,0.25,2,0.75)
print('vertex-to-edge/ shared edge part', A.intersects_shape(B2), B2.intersects_shape(A))
T = GeoPolygon([C(1,0.5),C(2,0),C(2,1),C(1,0.5)])
print('vertex touches edge', A.intersects_shape(T), T.intersects_shape(A))
B3 = sq(1,0,2,1)
print('share full edge', A.intersects_shape(B3), B3.intersects_shape(A))
# nested with first vertex level with an outer vertex
O = GeoPolygon([C(0,0),C(4,0),C(4,4),C(0,4),C(0,2),C(0,0)])
I = sq(1,2,2,3)
print('nested first vertex level', O.intersects_shape(I), I.intersects_shape(O), O.contains_shape(I))
# out and back path
L = GeoLineString([C(0,0),C(1,1),C(0,0)])
try:
    print('out-and-back', A.intersects_shape(L))
except Exception as e:
    print('out-and-back raises', type(e).__name__, e)
L2 = GeoLineString([C(-1,0.5),C(2,0.5),C(-1,0.5)])
try:
    print('out-and-back 2', L2.intersects_shape(A))
except Exception as e:
    print('out-and-back2 raises', type(e).__name__, e)
# time-bounded point
P = GeoPoint(C(0.5,0.5), dt=datetime(2020,1,1))
At = sq(0,0,1,1, dt=datetime(2021,1,1))
print('time-bounded point spatial', At.intersects_shape(P), At.contains_shape(P), P.intersects_shape(At))
# boxes
b1 = GeoBox(C(0,1),C(1,0)); b2 = GeoBox(C(1,2),C(2,1))
print('box corner touch', b1.intersects_shape(b2), b2.intersects_shape(b1))
# contains implies intersects
big = sq(0,0,10,10); small = sq(2,2,3,3)
print('contains/intersects', big.contains_shape(small), big.intersects_shape(small), small.intersects_shape(big))
# nested inside a hole
bh = sq(0,0,10,10, holes=[sq(2,2,8,8)])
ins = sq(4,4,5,5)
print('nested in hole', bh.intersects_shape(ins), ins.intersects_shape(bh), bh.contains_shape(ins))
# linestring contains
LL = GeoLineString([C(0,0),C(1,1),C(2,0),C(3,1)])
print('ls contains sub', LL.contains_shape(GeoLineString([C(1,1),C(2,0)])), LL.contains_shape(GeoLineString([C(0,0),C(2,0)])))
print('ls contains reversed sub', LL.contains_shape(GeoLineString([C(2,0),C(1,1)])))
# line touching polygon at a vertex
Lt = GeoLineString([C(1,1),C(2,2)])
print('line touch vertex', A.intersects_shape(Lt), Lt.intersects_shape(A))
Lc = GeoLineString([C(-1,0.5),C(2,0.5)])
print('line crossing', A.intersects_shape(Lc), Lc.intersects_shape(A))
# line collinear with an edge
Le = GeoLineString([C(0,0),C(1,0)])
print('line collinear on edge', A.intersects_shape(Le), Le.intersects_shape(A))
# point on polygon boundary
Pb = GeoPoint(C(0,0.5))
print('point on boundary', A.intersects_shape(Pb), Pb.intersects_shape(A))
