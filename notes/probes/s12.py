import logging, random, itertools, math, time
logging.disable(logging.CRITICAL)
from geostructures import *
from geostructures.geohash import NiemeyerHasher, _coord_to_niemeyer as enc, _decode_niemeyer as dec, niemeyer_to_geobox, _NIEMEYER_CONFIG as CFG
C=Coordinate
rng=random.Random(4)
def cells_in_window(base,L,b):
    # enumerate all cells overlapping bounds b=(minx,miny,maxx,maxy) enlarged by one cell
    h0=enc(C(b[0],b[1]),L,base); lon,lat,ex,ey=dec(h0,base)
    out=set(); x=lon-2*ex
    while x<=b[2]+4*ex:
        y=lat-2*ey
        while y<=b[3]+4*ey:
            if -180<=x<180 and -90<=y<=90: out.add(enc(C(x,y),L,base))
            y+=2*ey
        x+=2*ex
    return out
bad=[]; n=0; t0=time.time()
for it in range(60):
    base=rng.choice([16,32,64]); L={16:rng.choice([3,4]),32:rng.choice([2,3]),64:2}[base]
    _,_,ex,ey=dec(CFG[base]['charset'][0]*L,base)
    cx=rng.uniform(-150,150); cy=rng.uniform(-60,60); w=ex*2*rng.uniform(1.5,6); h=ey*2*rng.uniform(1.5,6)
    kind=rng.choice(['poly','polyhole','line','box','circle'])
    if kind=='poly': s=GeoPolygon([C(cx,cy),C(cx+w,cy+h*0.2),C(cx+w*0.8,cy+h),C(cx+0.1*w,cy+0.7*h),C(cx,cy)])
    elif kind=='polyhole': s=GeoPolygon([C(cx,cy),C(cx+w,cy),C(cx+w,cy+h),C(cx,cy+h),C(cx,cy)],holes=[GeoPolygon([C(cx+w*.3,cy+h*.3),C(cx+w*.7,cy+h*.3),C(cx+w*.7,cy+h*.7),C(cx+w*.3,cy+h*.7),C(cx+w*.3,cy+h*.3)])])
    elif kind=='line': s=GeoLineString([C(cx,cy),C(cx+w,cy+h),C(cx+w,cy)])
    elif kind=='box': s=GeoBox(C(cx,cy+h),C(cx+w,cy))
    else: s=GeoCircle(C(cx,cy), min(w,h)*111000/2*math.cos(math.radians(cy)))
    got=NiemeyerHasher(L,base).hash_shape(s)
    win=cells_in_window(base,L,s.bounds)
    touched={c for c in win if niemeyer_to_geobox(c,base).intersects_shape(s)}
    n+=1
    if got!=touched: bad.append((kind,base,L,len(got),len(touched),sorted(touched-got)[:3],sorted(got-touched)[:3]))
print(n,'shapes',round(time.time()-t0,1),'s; mismatches',len(bad)); 
for b in bad[:8]: print(b)
