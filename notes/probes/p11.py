import logging, math, random
logging.disable(logging.CRITICAL)
from geostructures import *
C=Coordinate
random.seed(3)
worst=0; wc=None; n=0; bad=0
for _ in range(200000):
    lon = round(random.uniform(-179.9,179.9),6); lat = round(random.uniform(-89.9,89.9),6)
    c=C(lon,lat)
    q=c.to_qdms()
    # skip the trailing-zero bug: emulate fixed formatting check by string length
    if len(q[0])!=10 or len(q[1])!=9: continue
    dms=c.to_dms()
    # skip cases where hundredths have trailing zero (bug class)
    s0=str(round(dms[0][2]+1e-14,2)); s1=str(round(dms[1][2]+1e-14,2))
    if len(s0.split('.')[1])<2 or len(s1.split('.')[1])<2: continue
    b=Coordinate.from_qdms(*q); n+=1
    e=max(abs(b.longitude-lon),abs(b.latitude-lat))*3600
    if e>worst: worst=e; wc=(lon,lat,q,b.to_float())
    if e>0.005: bad+=1
print(n, worst, wc, bad)
