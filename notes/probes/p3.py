import logging
logging.disable(logging.CRITICAL)
from datetime import datetime, timedelta, timezone
from geostructures import *
from geostructures.time import TimeInterval
C=Coordinate
def sq(x0,y0,x1,y1, **kw): return GeoPolygon([C(x0,y0),C(x1,y0),C(x1,y1),C(x0,y1),C(x0,y0)], **kw)
A = sq(0,0,1,1)
L = GeoLineString([C(5,5),C(6,6),C(5,5)])
for f in (lambda: A.intersects_shape(L), lambda: L.intersects_shape(A), lambda: A.contains_shape(L)):
    try: print(f())
    except Exception as e: print('raises', type(e).__name__, e)
def dia(cx,cy,r=1): return GeoPolygon([C(cx,cy+r),C(cx+r,cy),C(cx,cy-r),C(cx-r,cy),C(cx,cy+r)])
D1=dia(0,0); D2=dia(0,2)
print('diamonds corner touch', D1.intersects_shape(D2), D2.intersects_shape(D1))
D3=dia(2,0)
print('diamonds side corner touch', D1.intersects_shape(D3), D3.intersects_shape(D1))
# TimeInterval probes
T=TimeInterval
def d(n): return datetime(2020,1,1,tzinfo=timezone.utc)+timedelta(hours=n)
I=T(d(0),d(10)); J=T(d(10),d(10)); K=T(d(10),d(20))
print('I disjoint J', I.isdisjoint(J), J.isdisjoint(I), 'dt in I', d(10) in I, 'J subset I', J.issubset(I), 'I.intersection(J)', I.intersection(J))
print('I disjoint K', I.isdisjoint(K), 'intersection', I.intersection(K))
J0=T(d(0),d(0))
print('J0 in I', J0.issubset(I), I.intersects(J0), I.intersection(J0), d(0) in I)
print('J in J', J.issubset(J), J.intersects(J), J.intersection(J))
Jm=T(d(5),d(5))
print('Jm', Jm.issubset(I), I.intersects(Jm), I.intersection(Jm))
print('union', I.union(K), T(d(0),d(1)).union(T(d(5),d(6))))
try: T(d(5),d(4))
except ValueError as e: print('rejects', e)
print(hash(T(d(0),d(1)))==hash(T(d(0),d(1))))
# aware in different tz equal?
from datetime import timezone as tz
e1 = datetime(2020,1,1,12,tzinfo=tz.utc); e2 = datetime(2020,1,1,13,tzinfo=tz(timedelta(hours=1)))
print('tz eq', T(e1,e1)==T(e2,e2), hash(T(e1,e1))==hash(T(e2,e2)))
print('naive', T(datetime(2020,1,1),datetime(2020,1,2)).start)
# Coordinates
c1=C(1,2,m=5); c2=C(1,2,m=6)
print('coord eq/hash M', c1==c2, hash(c1)==hash(c2))
for v in [(180,0),(-180,0),(540,0),(181,0),(0,91),(0,-91),(10,100),(0,270),(0,450),(-0.0,0.0),('1.5','2'),(360,0),(720.5, 1000)]:
    c=C(*v); print(v, c.longitude, c.latitude)
