import logging, itertools, random
logging.disable(logging.CRITICAL)
from fractions import Fraction as F
from geostructures import Coordinate as C
from geostructures.geohash import _coord_to_niemeyer as enc, _decode_niemeyer as dec, _get_niemeyer_subhashes as subs, _NIEMEYER_CONFIG as CFG
bad={}
def chk(n,c,i):
    if not c: bad.setdefault(n,[]).append(i)
depth={16:3,32:2,64:2}
for base,cfg in CFG.items():
    cs=cfg['charset']
    # config sanity
    chk('inverse', all(cfg['inverse'][ord(ch)]==i for i,ch in enumerate(cs)) and len(set(cs))==base and len(cfg['inverse'])==base, base)
    for L in range(1,depth[base]+1):
        for tup in itertools.product(cs, repeat=L):
            h=''.join(tup); lon,lat,elon,elat=dec(h,base)
            inside = -90<=lat-elat and lat+elat<=90 and -180<=lon-elon and lon+elon<=180
            if not inside: continue
            chk('reencode', enc(C(lon,lat),L,base)==h, (base,h))
            # children tile
            ch=[dec(x,base) for x in sorted(subs(h,base))]
            chk('nchildren', len(ch)==base,(base,h))
            area=sum(F(c[2])*F(c[3])*4 for c in ch); chk('area', area==F(elon)*F(elat)*4,(base,h))
            chk('within', all(lon-elon<=c[0]-c[2] and c[0]+c[2]<=lon+elon and lat-elat<=c[1]-c[3] and c[1]+c[3]<=lat+elat for c in ch),(base,h))
            # pairwise interior disjoint
            boxes=[(c[0]-c[2],c[0]+c[2],c[1]-c[3],c[1]+c[3]) for c in ch]
            ov=any(max(a[0],b[0])<min(a[1],b[1]) and max(a[2],b[2])<min(a[3],b[3]) for a,b in itertools.combinations(boxes,2)); chk('disjoint', not ov,(base,h))
            # corners/edges: encode of corner coords lands in a cell containing it
            for (x,y) in [(lon-elon,lat-elat),(lon+elon,lat+elat),(lon-elon,lat+elat),(lon+elon,lat-elat),(lon,lat-elat)]:
                if x>=180: continue
                g=enc(C(x,y),L,base); glon,glat,ge1,ge2=dec(g,base)
                chk('edge_contains', abs(x-glon)<=ge1 and abs(y-glat)<=ge2,(base,h,x,y,g))
rng=random.Random(5)
for _ in range(20000):
    base=rng.choice([16,32,64]); x=rng.uniform(-180,179.999999); y=rng.uniform(-90,90)
    if rng.random()<.2: x=rng.choice([-180,0,90,-90,45,179.99999999999997,11.25]); 
    if rng.random()<.2: y=rng.choice([-90,90,0,45,-45,5.625])
    c=C(x,y); L=rng.randint(1,12); h=enc(c,L,base)
    chk('len', len(h)==L and all(ch in CFG[base]['charset'] for ch in h),(base,x,y,L))
    lon,lat,e1,e2=dec(h,base); chk('contains', abs(c.longitude-lon)<=e1 and abs(c.latitude-lat)<=e2,(base,x,y,L,h))
    L2=rng.randint(1,L); chk('prefix', enc(c,L2,base)==h[:L2],(base,x,y,L,L2))
for k,v in bad.items(): print(k,len(v),v[:5])
print('ok')
