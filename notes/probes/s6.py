# C06 statements after repair: exhaustive on a 7-point timeline
import itertools
from datetime import datetime, timedelta, timezone
from geostructures.time import TimeInterval as T
def d(n): return datetime(2020,1,1,tzinfo=timezone.utc)+timedelta(hours=n)
N=7
ivs=[(a,b) for a in range(N) for b in range(a,N)]
def mem(t,i): return t==i[0] if i[0]==i[1] else i[0]<=t<i[1]
# use half-points too to model density
pts=[x/2 for x in range(-1,2*N+1)]
def S(i): return {t for t in pts if mem(t,i)}
bad={}
def chk(name,cond,info):
    if not cond: bad.setdefault(name,[]).append(info)
for a in ivs:
    A=T(d(a[0]),d(a[1]))
    for t in range(N): chk('contains', (d(t) in A)==mem(t,a), (a,t)); chk('intersects_dt', A.intersects(d(t))==mem(t,a),(a,t))
    for b in ivs:
        B=T(d(b[0]),d(b[1])); sa,sb=S(a),S(b)
        chk('issubset', A.issubset(B)==(sa<=sb), (a,b))
        chk('issuperset', A.issuperset(B)==(sb<=sa), (a,b))
        chk('in', (B in A)==(sb<=sa),(a,b))
        chk('isdisjoint', A.isdisjoint(B)==(not(sa&sb)), (a,b))
        chk('disj_sym', A.isdisjoint(B)==B.isdisjoint(A),(a,b))
        chk('intersects', A.intersects(B)==bool(sa&sb),(a,b))
        I=A.intersection(B)
        if not (sa&sb): chk('intersection_none', I is None,(a,b))
        else:
            chk('intersection_some', I is not None and S(((I.start-d(0)).total_seconds()/3600,(I.end-d(0)).total_seconds()/3600))==(sa&sb),(a,b))
        U=A.union(B); u=((U.start-d(0)).total_seconds()/3600,(U.end-d(0)).total_seconds()/3600)
        chk('union_hull', u==(min(a[0],b[0]),max(a[1],b[1])),(a,b))
        chk('union_covers', (sa|sb)<=S(u),(a,b))
        if A.issubset(B) and B.issubset(A): chk('mutual', A==B,(a,b))
        if A==B: chk('hash', hash(A)==hash(B),(a,b))
for k,v in bad.items(): print(k,len(v),v[:6])
print('done', len(ivs))
