import logging, random, math
logging.disable(logging.CRITICAL)
from geostructures import *
from geostructures.calc import haversine_distance_meters as hd, bearing_degrees as bd, inverse_haversine_degrees as inv
C=Coordinate
rng=random.Random(8)
R=6371000
def vinc_dist(a,b):
    # independent: vector angle via atan2(|axb|, a.b)
    import numpy as np
    def v(c): 
        la=math.radians(c.latitude); lo=math.radians(c.longitude); return np.array([math.cos(la)*math.cos(lo),math.cos(la)*math.sin(lo),math.sin(la)])
    x,y=v(a),v(b); return R*math.atan2(np.linalg.norm(np.cross(x,y)), float(np.dot(x,y)))
worst={'circle_pt':0,'ellipse_pt':0,'ring_pt':0,'bounds_circle':0,'bounds_ellipse':0,'bounds_ring':0,'bounds_wedge':0,'hav_vs_vec':0,'dest':0}
for it in range(3000):
    c=C(rng.uniform(-170,170), rng.uniform(-75,75)); r=10**rng.uniform(1,5); k=rng.choice([None,3,4,7,36,360])
    circ=GeoCircle(c,r); pts=circ.bounding_coords(k=k)
    worst['circle_pt']=max(worst['circle_pt'], max(abs(vinc_dist(c,p)-r) for p in pts))
    a=r; b=r*rng.uniform(0.1,1); rot=rng.uniform(0,360); el=GeoEllipse(c,a,b,rot)
    kk=k or math.ceil(36*a/b)
    for i,p in zip(range(kk,-1,-1), el.bounding_coords(k=k)):
        ang=(math.pi*2/kk)*i; rad=a*b/math.sqrt(a*a*math.sin(ang)**2+b*b*math.cos(ang)**2)
        worst['ellipse_pt']=max(worst['ellipse_pt'], abs(vinc_dist(c,p)-rad))
    ring=GeoRing(c,r*0.5,r); 
    for p in ring.bounding_coords(k=k): worst['ring_pt']=max(worst['ring_pt'],abs(vinc_dist(c,p)-r))
    worst['hav_vs_vec']=max(worst['hav_vs_vec'], abs(hd(c,pts[1])-vinc_dist(c,pts[1])))
    if r<=10000:
        # true extents via dense sampling
        def ext(shape,kd=720):
            P=shape.bounding_coords(k=kd); lons=[p.longitude for p in P]; lats=[p.latitude for p in P]
            # unwrap around centre
            lons=[x-360 if x-c.longitude>180 else x+360 if x-c.longitude<-180 else x for x in lons]
            return min(lons),min(lats),max(lons),max(lats)
        def relerr(shape,rad,key):
            b=shape.bounds; e=ext(shape)
            bl=[b[0],b[1],b[2],b[3]]
            bl[0]=bl[0]-360 if bl[0]-c.longitude>180 else bl[0]+360 if bl[0]-c.longitude<-180 else bl[0]
            bl[2]=bl[2]-360 if bl[2]-c.longitude>180 else bl[2]+360 if bl[2]-c.longitude<-180 else bl[2]
            m_per_deg_lat=R*math.pi/180; m_per_deg_lon=m_per_deg_lat*math.cos(math.radians(c.latitude))
            err=max(abs(bl[0]-e[0])*m_per_deg_lon,abs(bl[2]-e[2])*m_per_deg_lon,abs(bl[1]-e[1])*m_per_deg_lat,abs(bl[3]-e[3])*m_per_deg_lat)/rad
            if err>worst[key]: worst[key]=err; worst[key+'_at']=(c.to_float(),rad,b,e)
        relerr(circ,r,'bounds_circle'); relerr(el,a,'bounds_ellipse'); relerr(ring,r,'bounds_ring')
        a0=rng.uniform(1,170); w=GeoRing(c,r*.5,r,a0,a0+rng.uniform(10,180)); relerr(w,r,'bounds_wedge')
for k,v in worst.items(): print(k,v)
