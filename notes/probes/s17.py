import logging, random, itertools
logging.disable(logging.CRITICAL)
from datetime import datetime, timedelta, timezone
from geostructures import *
from geostructures.time import TimeInterval as T
from geostructures.calc import haversine_distance_meters as hd
C=Coordinate
def d(n): return datetime(2020,1,1,tzinfo=timezone.utc)+timedelta(minutes=n)
rng=random.Random(9); bad={}
def chk(n,c,i):
    if not c: bad.setdefault(n,[]).append(i)
for it in range(3000):
    n=rng.randint(1,10); items=[]
    for k in range(n):
        s=rng.randint(0,8); e=s if rng.random()<.5 else s+rng.choice([1,2,20])
        x=rng.choice([0,0.001,0.002,0.5,1.0])
        items.append(GeoPoint(C(x,0),dt=T(d(s),d(e)),properties={'id':k}))
    tr=Track(items)
    ids=lambda t:[s._properties.get('id') for s in t]
    chk('sorted', all(a.start<=b.start for a,b in zip(tr.geoshapes,tr.geoshapes[1:])),ids(tr))
    # stability: equals python stable sort of the input
    chk('stable', ids(tr)==[s._properties['id'] for s in sorted(items,key=lambda s:s.start)],ids(tr))
    a=rng.choice([None]+list(range(-1,12))); b=rng.choice([None]+list(range(-1,30)))
    sl=tr[(d(a) if a is not None else None):(d(b) if b is not None else None)]
    exp=[s._properties['id'] for s in tr if (a is None or d(a)<=s.start) and (b is None or s.end<d(b))]
    chk('slice', ids(sl)==exp,(ids(tr),a,b,ids(sl),exp))
    # fij
    v=rng.choice([0.5,2,5,50,2000])
    out=tr.filter_impossible_journeys(v)
    kept=[tr.geoshapes[0]]
    for s in tr.geoshapes[1:]:
        dt=(s.start-kept[-1].start).total_seconds()
        if dt>0 and hd(kept[-1].centroid,s.centroid)<=v*dt: kept.append(s)
    chk('fij', ids(out)==[s._properties['id'] for s in kept],(ids(tr),v))
    # convolve
    cv=tr.convolve_duplicate_timestamps()
    dts=[s.dt for s in cv]; chk('conv_nodup', len(set(dts))==len(dts),ids(tr)); chk('conv_same', set(dts)=={s.dt for s in tr},ids(tr))
    chk('conv_sorted', all(a.start<=b.start for a,b in zip(cv.geoshapes,cv.geoshapes[1:])),ids(tr))
for k,v in bad.items(): print(k,len(v),v[:3])
print('ok')
