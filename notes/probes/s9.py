import logging, random, math
logging.disable(logging.CRITICAL)
from geostructures import *
from geostructures._geometry import dist_xyz_meters as dx
from geostructures.calc import haversine_distance_meters as hd
C=Coordinate
rng=random.Random(12); worst_out=0; worst_seed=0; fails=[]; n=0; exc={}
for it in range(400):
    cx=rng.uniform(-170,170); cy=rng.uniform(-70,70); ext=10**rng.uniform(-1.7,1.3)
    k=rng.randint(3,9)
    pts=sorted({(round(cx+ext*rng.random(),6),round(cy+ext*rng.random()*.5,6)) for _ in range(k)})
    if len(pts)<3: continue
    # star order
    mx=sum(p[0] for p in pts)/len(pts); my=sum(p[1] for p in pts)/len(pts)
    pts.sort(key=lambda p: math.atan2(p[1]-my,p[0]-mx))
    poly=GeoPolygon([C(*p) for p in pts]+[C(*pts[0])])
    rads=[]
    for seed in range(16):
        random.seed(seed)
        try: cc=poly.circumscribing_circle()
        except Exception as e:
            exc[type(e).__name__]=exc.get(type(e).__name__,0)+1; continue
        out=max(hd(v,cc.center)-cc.radius for v in poly.outline)/cc.radius
        worst_out=max(worst_out,out)
        if out>1e-6: fails.append((pts,seed,out,cc.radius))
        rads.append(cc.radius)
    if rads:
        sp=(max(rads)-min(rads))/max(rads); worst_seed=max(worst_seed,sp)
        if sp>1e-6: fails.append(('seedspread',pts,sp))
    n+=1
print(n,'polys; worst outside/r',worst_out,'worst seed spread',worst_seed,'fails',len(fails),'exc',exc)
for f in fails[:4]: print(f)
big=[f for f in fails if f[0]!='seedspread' and f[2]>1e-3]
print('big',len(big))
big.sort(key=lambda f:-f[2])
for f in big[:3]: print(f)
# how many distinct polys have big failures, and by vertex count
from collections import Counter
print(Counter(len(f[0]) for f in big))
sm=[f for f in fails if f[0]!='seedspread' and f[2]<=1e-3]
print('small exceedances',len(sm),'max',max(f[2] for f in sm),'radii',min(f[3] for f in sm),max(f[3] for f in sm))
ss=[f for f in fails if f[0]=='seedspread']; print('seedspread>1e-6',len(ss), sorted(f[2] for f in ss)[-3:])
