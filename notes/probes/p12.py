import logging, random, math, itertools
logging.disable(logging.CRITICAL)
from fractions import Fraction as F
from geostructures import *
C=Coordinate
def on_seg(p,a,b):
    cr=(b[0]-a[0])*(p[1]-a[1])-(b[1]-a[1])*(p[0]-a[0])
    return cr==0 and min(a[0],b[0])<=p[0]<=max(a[0],b[0]) and min(a[1],b[1])<=p[1]<=max(a[1],b[1])
def ref(p, ring):  # ring open list
    n=len(ring); inside=False
    for i in range(n):
        a,b=ring[i],ring[(i+1)%n]
        if on_seg(p,a,b): return False
        if (a[1]>p[1])!=(b[1]>p[1]):
            x=F(a[0])+F(p[1]-a[1])*(b[0]-a[0])/(b[1]-a[1])
            if x>p[0]: inside=not inside
    return inside
def star(rng,n,R=8):
    # random star-shaped polygon around (R,R) with integer vertices sorted by angle
    pts=set()
    while len(pts)<n: pts.add((rng.randint(0,2*R),rng.randint(0,2*R)))
    pts=[p for p in pts if p!=(R,R)]
    pts.sort(key=lambda p: math.atan2(p[1]-R,p[0]-R))
    # drop points with same angle
    out=[]
    for p in pts:
        if out and math.atan2(out[-1][1]-R,out[-1][0]-R)==math.atan2(p[1]-R,p[0]-R): continue
        out.append(p)
    return out
rng=random.Random(7); bad=0; tot=0; level=0
fixed=[[(0,4),(4,0),(8,4),(4,8)], [(0,0),(8,0),(8,8),(0,8),(0,4)], [(0,0),(8,0),(8,8),(4,4),(0,8)], [(0,0),(4,0),(4,4),(8,4),(8,8),(0,8)], [(0,0),(8,0),(8,2),(2,2),(2,6),(8,6),(8,8),(0,8)]]
polys=fixed+[star(rng,rng.randint(3,9)) for _ in range(150)]
for ring in polys:
    if len(ring)<3: continue
    for rot in range(len(ring)):
        for rev in (False,True):
            r=ring[rot:]+ring[:rot]
            if rev: r=r[::-1]
            poly=GeoPolygon([C(*v) for v in r]+[C(*r[0])])
            for x2 in range(-2,35,1):
                for y2 in range(-2,35,1):
                    p=(F(x2,2),F(y2,2)); tot+=1
                    if any(v[1]==p[1] for v in ring): level+=1
                    got=poly.contains_coordinate(C(float(p[0]),float(p[1])))
                    if got!=ref(p,ring):
                        bad+=1
                        if bad<6: print('MISMATCH',ring,rot,rev,p,got)
            break
        if rot>=2: break
print('total',tot,'level-with-vertex',level,'bad',bad)
