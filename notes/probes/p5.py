import logging, json, copy, pickle
logging.disable(logging.CRITICAL)
from datetime import datetime, timedelta, timezone
from geostructures import *
from geostructures.time import TimeInterval
from geostructures.parsers import parse_wkt, parse_geojson
C=Coordinate
def sq(x0,y0,x1,y1, **kw): return GeoPolygon([C(x0,y0),C(x1,y0),C(x1,y1),C(x0,y1),C(x0,y0)], **kw)
# C13
mp = MultiGeoPolygon([sq(0,0,10,10, holes=[sq(2,2,3,3)]), sq(20,20,21,21)])
w = mp.to_wkt(); print(w)
back = MultiGeoPolygon.from_wkt(w)
print('C13 multipoly hole roundtrip eq', back == mp, [ (p.outline, p.holes) for p in back.geoshapes][:1])
p = GeoPoint(C(0.00001, 5)); print(p.to_wkt())
try: print(GeoPoint.from_wkt(p.to_wkt()))
except Exception as e: print('C13 exp raises', type(e).__name__, e)
ph = sq(0,0,10,10, holes=[sq(2,2,3,3)])
print('poly hole wkt rt', GeoPolygon.from_wkt(ph.to_wkt()) == ph, ph.to_wkt())
for bad in ['POINT(1 2', 'POLYGON(1 2)', 'LINESTRING((0 0, 1 1))', 'POINT(1)', 'POINT(a b)', 'point(1 2)', 'POINT (1 2)', 'POINT(1234 5)', 'POINT(1 2 3 4 5)']:
    try: print(repr(bad), '->', parse_wkt(bad))
    except Exception as e: print(repr(bad), 'raises', type(e).__name__)
pz = GeoPoint(C(1,2,z=3)); print(pz.to_wkt(), GeoPoint.from_wkt(pz.to_wkt()).coordinate)
# shapely agreement
print(ph.to_shapely().wkt)
# C14
g = GeoPoint(C(1,2), dt=datetime(2020,1,1), properties={'a':1}).to_geojson()
print(g)
s1 = GeoPoint.from_geojson(g); print('after import doc', g); s2 = GeoPoint.from_geojson(g)
print('C14 import twice eq', s1==s2, s1.dt, s2.dt)
print(json.dumps(sq(0,0,1,1,dt=TimeInterval(datetime(2020,1,1),datetime(2020,1,2))).to_geojson())[:300])
ring = GeoRing(C(0,0), 500, 1000)
gj = ring.to_geojson(k=8)
from geostructures._geometry import is_counter_clockwise
print('ring rings ccw?', [is_counter_clockwise([C(*x) for x in r]) for r in gj['geometry']['coordinates']])
cir = GeoCircle(C(0,0),1000, holes=[GeoCircle(C(0,0),100)])
gj = cir.to_geojson(k=8)
print('circle w/ hole rings ccw?', [is_counter_clockwise([C(*x) for x in r]) for r in gj['geometry']['coordinates']])
gj = ph.to_geojson()
print('poly w/ hole rings ccw?', [is_counter_clockwise([C(*x) for x in r]) for r in gj['geometry']['coordinates']])
print('poly rt', GeoPolygon.from_geojson(copy.deepcopy(gj)) == ph, GeoPolygon.from_geojson(copy.deepcopy(gj)).holes[0].outline, ph.holes[0].outline)
gjm = mp.to_geojson(); print('multi rt', MultiGeoPolygon.from_geojson(copy.deepcopy(gjm)) == mp)
# C15
a = sq(0,0,1,1); b = GeoPolygon([C(1,0),C(1,1),C(0,1),C(0,0),C(1,0)])
print('C15 rotated eq/hash', a==b, hash(a)==hash(b))
m1 = MultiGeoPoint([GeoPoint(C(0,0)),GeoPoint(C(1,1))]); m2 = MultiGeoPoint([GeoPoint(C(1,1)),GeoPoint(C(0,0))])
print('C15 multi perm eq/hash', m1==m2, hash(m1)==hash(m2))
print('box vs holes eq', GeoBox(C(0,1),C(1,0))==GeoBox(C(0,1),C(1,0),holes=[GeoCircle(C(0.5,0.5),10)]))
print('poly diff props eq', sq(0,0,1,1,properties={'a':1})==sq(0,0,1,1))
pk = pickle.loads(pickle.dumps(ph)); print('pickle', pk==ph, pk.to_shapely().wkt[:30])
cp = ph.copy(); print('copy shares holes list?', cp.holes is ph.holes, cp.holes[0] is ph.holes[0], cp._properties is ph._properties)
mc = MultiGeoPolygon([sq(0,0,1,1)], dt=TimeInterval(datetime(2020,1,1),datetime(2020,1,2))); mcc = mc.copy(); print('multi copy shares dt', mcc.dt is mc.dt)
ls = GeoLineString([C(0,0),C(1,1)]); lc = ls.copy(); print('ls copy shares vertices', lc.vertices is ls.vertices)
# C16
r = GeoRing(C(0,0),500,1000)
print('C16 holes before', len(r.holes)); r.to_polygon(); r.to_polygon(); print('holes after 2x to_polygon', len(r.holes))
c = GeoCircle(C(0,0),1000, dt=TimeInterval(datetime(2020,1,1),datetime(2020,1,2)))
v1 = c.volume; c.buffer_dt(timedelta(hours=1)); v2=c.volume
f = GeoCircle(C(0,0),1000, dt=c.dt).volume
print('C16 volume stale', v1, v2, f)
w = GeoRing(C(0,0),500,1000, angle_min=10, angle_max=90)
print('wedge centroid twice', w.centroid.to_float(), len(w.holes), w.centroid.to_float(), len(w.holes))
