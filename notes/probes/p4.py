import logging
logging.disable(logging.CRITICAL)
from datetime import datetime, timedelta, timezone
from geostructures import *
from geostructures.time import TimeInterval
from geostructures._geometry import convex_hull
C=Coordinate
def sq(x0,y0,x1,y1, **kw): return GeoPolygon([C(x0,y0),C(x1,y0),C(x1,y1),C(x0,y1),C(x0,y0)], **kw)
M = MultiGeoPolygon([sq(0,0,1,1), sq(5,5,6,6)])
X = sq(5.2,5.2,5.8,5.8)
print('C04 multi.int(x), x.int(multi)', M.intersects_shape(X), X.intersects_shape(M), 'contains', M.contains_shape(X))
print('bounds', M.bounds)
print('split', [ (s, s.dt, s.properties) for s in MultiGeoPolygon([sq(0,0,1,1)], dt=datetime(2020,1,1), properties={'a':1}).split()])
# C09 box circle
b = GeoBox(C(0,61),C(2,60))
cc = b.circumscribing_circle()
from geostructures.calc import haversine_distance_meters as hd
print('C09 box circle radius', cc.radius, [hd(x, cc.center) for x in b.bounding_coords()])
p = sq(0,60,2,61)
cc = p.circumscribing_circle()
print('poly circle', cc.radius, [hd(x, cc.center)-cc.radius for x in p.bounding_coords()])
import random
res=set()
for s in range(20):
    random.seed(s); cc=p.circumscribing_circle(); res.add((cc.center.longitude, cc.center.latitude, cc.radius))
print('seeds distinct results', len(res), res)
# C10
pts=[C(0,0),C(1,0),C(2,0),C(2,2),C(0,2),C(1,1),C(0,0),C(2,1),C(1,2)]
print('hull', [x.to_float() for x in convex_hull(pts)])
print('hull collinear', [x.to_float() for x in convex_hull([C(0,0),C(1,1),C(2,2)])])
print('hull two', [x.to_float() for x in convex_hull([C(0,0),C(1,1)])])
print('hull one', [x.to_float() for x in convex_hull([C(0,0),C(0,0)])])
try:
    print(MultiGeoPoint([GeoPoint(C(0,0)), GeoPoint(C(1,1))]).convex_hull().outline)
except Exception as e: print('hull 2pt poly raises', type(e).__name__, e)
try:
    print(MultiGeoPoint([GeoPoint(C(0,0))]).convex_hull().outline)
except Exception as e: print('hull 1pt poly raises', type(e).__name__, e)
print('hull with z dup', [ (x.to_float()) for x in convex_hull([C(0,0),C(0,0,z=1),C(1,0),C(0,1)])])
