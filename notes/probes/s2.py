import logging, random, itertools
logging.disable(logging.CRITICAL)
from geostructures import *
from geostructures._geometry import do_edges_intersect, find_line_intersection
C=Coordinate
rng=random.Random(11)
def seg(): 
    return (C(rng.randint(0,6),rng.randint(0,6)), C(rng.randint(0,6),rng.randint(0,6)))
bad={'brute':[], 'sym':[], 'err':[], 'hitsym':[]}
for it in range(30000):
    na,nb=rng.randint(1,4),rng.randint(1,4)
    ea=[seg() for _ in range(na)]; eb=[seg() for _ in range(nb)]
    if rng.random()<.3: ea.append((ea[0][1],ea[0][0]))   # retrace
    if rng.random()<.2: eb.append(eb[0])
    brute=any(find_line_intersection(a,b) is not None for a in ea for b in eb)
    for a in ea:
        for b in eb:
            if (find_line_intersection(a,b) is None)!=(find_line_intersection(b,a) is None): bad['hitsym'].append((a,b))
    try:
        r1=do_edges_intersect(ea,eb); r2=do_edges_intersect(eb,ea)
    except Exception as e:
        bad['err'].append((ea,eb,repr(e))); continue
    if r1!=brute: bad['brute'].append((ea,eb,r1,brute))
    if r1!=r2: bad['sym'].append((ea,eb))
for k,v in bad.items(): print(k,len(v), [ [ (s[0].to_float(),s[1].to_float()) for s in x] for x in v[0][:2]] if v and k!='hitsym' else v[:2])
