N=7
ivs=[(a,b) for a in range(N) for b in range(a,N)]
pts=[x/2 for x in range(-1,2*N+1)]
def mem(t,i): return t==i[0] if i[0]==i[1] else i[0]<=t<i[1]
def S(i): return {t for t in pts if mem(t,i)}
mis=0;cnt=0
for a in ivs:
    for b in ivs:
        u=(min(a[0],b[0]),max(a[1],b[1]))
        fails=not ((S(a)|S(b))<=S(u))
        sig=(u[0]<u[1]) and any(x[0]==x[1]==u[1] for x in (a,b))
        cnt+=fails
        if fails!=sig: mis+=1
print(cnt,mis)
