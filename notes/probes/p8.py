import logging, json, copy
logging.disable(logging.CRITICAL)
from datetime import datetime, timedelta, timezone
from geostructures import *
from geostructures.time import TimeInterval
C=Coordinate
def d(n): return datetime(2020,1,1,tzinfo=timezone.utc)+timedelta(hours=n)
T=TimeInterval
P=lambda x,dt: GeoPoint(C(x,0),dt=dt)
tr = Track([P(0,T(d(0),d(100))), P(1,d(1)), P(2,d(2)), P(3,T(d(3),d(4)))])
print('C17 open slice', [ (s.start.hour, s.end) for s in tr[d(0):]], 'expected all 4')
print('slice [1,3)', [s.centroid.longitude for s in tr[d(1):d(3)]])
print('slice [:2]', [s.centroid.longitude for s in tr[:d(2)]])
print('slice none', [s.centroid.longitude for s in tr[:]])
try: Track([GeoPoint(C(0,0))])
except ValueError as e: print('rejects', e)
# ordering stable
tr2 = Track([P(5,d(2)),P(4,d(2)),P(1,d(1))]); print([s.centroid.longitude for s in tr2])
# convolve
tr3 = Track([P(0,d(1)),P(2,d(1)),P(5,d(2)), P(7,T(d(1),d(1)))]); c = tr3.convolve_duplicate_timestamps(); print('convolve', [(s.centroid.longitude,s.start.hour) for s in c])
# mixed: instant and interval with the same start
tr4 = Track([P(0,d(1)),P(2,T(d(1),d(2)))]); print('has dup', tr4.has_duplicate_timestamps, len(tr4.convolve_duplicate_timestamps()))
# impossible journeys
tr5 = Track([P(0,d(0)),P(10,d(1)),P(0.001,d(2)),P(0.002,d(3))])
print('fij', [s.centroid.longitude for s in tr5.filter_impossible_journeys(5)])
# dup timestamps
tr6 = Track([P(0,d(0)),P(0.0001,d(0)),P(0.0002,d(1))]); print('fij dups', [s.centroid.longitude for s in tr6.filter_impossible_journeys(5)])
# empty track slice
try: print(Track([])[d(0):d(1)])
except Exception as e: print('empty slice raises', type(e).__name__, e)
try: print(Track([]).filter_impossible_journeys(3))
except Exception as e: print('empty fij raises', type(e).__name__, e)
# C18
fc = FeatureCollection([P(0,d(0)), GeoPoint(C(1,0)), P(2,T(d(0),d(5)))])
print('filter_by_dt instant', [s.centroid.longitude for s in fc.filter_by_dt(d(0))], 'interval', [s.centroid.longitude for s in fc.filter_by_dt(T(d(0),d(1)))])
box = GeoBox(C(-1,1),C(1.5,-1))
print('filter_by_intersection', [s.centroid.longitude for s in fc.filter_by_intersection(box)])
print('contained_by', [s.centroid.longitude for s in fc.filter_contained_by(box)])
print('type', type(Track([P(0,d(0))]).filter_by_intersection(box)))
try: print(FeatureCollection([]).bounds)
except Exception as e: print('empty bounds raises', type(e).__name__)
# C19
for c in [C(-0.154092,51.539865), C(10.0033333333,20.0), C(12.5,-45.25), C(0.999999999, 59.99999999)]:
    dms=c.to_dms(); q=c.to_qdms(); print(dms, q, Coordinate.from_dms(*dms).to_float(), Coordinate.from_qdms(*q).to_float())
print(C(-0.154092,51.539865).to_mgrs(), Coordinate.from_mgrs(C(-0.154092,51.539865).to_mgrs()).to_float())
pr = C(-0.154092,51.539865).to_projection('EPSG:3857'); print('proj', pr.to_float(), pr.z)
pr = C(-0.154092,51.539865).to_projection('EPSG:27700'); print('proj', pr.to_float(), pr.z)
