#!/usr/bin/env python3
"""Regenerates, from <repo>/geostructures/geohash.py, the two generated files of property C11:

(1) main(repo, out)        -> GeohashCfgGen.v : the _NIEMEYER_CONFIG tables.
The module is imported from the tree under check (a fresh interpreter, so that the tables are
the ones of THAT tree and not of a module cached in the harness process) and the tables are
dumped as Gallina literals: masks, alphabet (code points), inverse map (sorted by key: a dict
has no duplicate keys, so the sorted association list denotes the same map), ranges (floats as
exact fractions), and the set of supported bases as a lookup function.

(2) main_codec(repo, out)  -> GeohashGen.v : the codec FUNCTIONS, re-translated from the source text
  _decode_niemeyer        -> g_decode_niemeyer_for_mask        one iteration of `for mask in config['bits']`
                             g_decode_niemeyer_for_character   one iteration of `for character in geohash` (res: it can raise)
                             g_decode_niemeyer                 initialisation + loop + the centre
  _coord_to_niemeyer      -> g_coord_to_niemeyer_cond / _step  the `while` condition / body on the loop state
                             g_coord_to_niemeyer               base check + initialisation + loop + `return geohash`
  _get_niemeyer_subhashes -> g_get_niemeyer_subhashes
  niemeyer_to_geobox      -> g_niemeyer_to_geobox              (Section GeoboxGen, variable mk_coordinate)
  NiemeyerHasher.__init__ -> g_hasher_init
(NiemeyerHasher.hash_coordinates and the rest of the class are translated by tools/gen_flood.py, property C12.)

tools/translate.py is used unchanged; this file SUBCLASSES its translator (TrG).  TrG has its own statement
translator (imperative code: every loop is a state transformer over the tuple of the variables the loop assigns,
in the order of their first binding in the function) and accepts, each only in the exact shape given:

  G1  X = [a, b]  (two floats)       -> the pair (a, b) : Q * Q;  X[0] / X[1] -> fst X / snd X;
      X[0] = e                       -> let X := (e, snd X) in ...   (X[1] likewise).  A pair is never aliased: `Y = X` abstains.
  G2  config['bits'|'charset'|'inverse'|'min_x'|...]   -> the field of the record GeohashM.cfg
      `base in _NIEMEYER_CONFIG`     -> py_config_has base;   config = _NIEMEYER_CONFIG[base]  -> match py_config_get base
                                        with None => Err KeyError | Some config => ...  (the tables of GeohashCfgGen.v)
      v = D[k]  (D a dict field)     -> match py_dict_get D k with None => Err KeyError | Some v => ...
      L[i]  (tuple / str by an int)  -> py_index L i  (IndexError and negative indices are NOT modelled; GeohashGenEq proves
                                        0 <= bit < len(bits) along the loop, C11's cfg_ok gives the alphabet index its range)
  G3  float arithmetic over Q: + - * exact; a / b -> py_fdiv a b = Qred (a / b) (the quotient in lowest terms, as the model
      keeps it; Qred q == q); a > b -> py_fgt, < <= >= likewise; int: + - * & | and comparisons over Z
  G4  x op= e                        -> let x := x op e in ...;   a, b = e1, e2 (no ei mentions a target) -> two lets;
      a, b = c.to_float()            -> let '(a, b) := c in ...;  a, b, c, d = _decode_niemeyer(..) -> match ... with Err/Ok
  G5  s = '' ; s += ch ; s + ch      -> a str is the list of its code points; ord(ch) -> ch; ch in s -> py_char_in ch s;
      len(L)                         -> py_len L
  G6  for x in XS: BODY              -> fold_left (hoisted body) XS state, or py_for_res when BODY contains `raise`
                                        (`if c: raise E` -> if c then Err E else ...; `pass` -> nothing)
      if c: A else: B   inside a loop -> let 'state := if c then A;state else B;state in ...   (a branch may bind new
                                        locals, which die with the branch, and may assign state variables only)
  G7  while c: BODY                  -> the two hoisted definitions _cond/_step and
                                        match py_while cond step fuel state with None => None | Some state => ... end.
      FUEL: the generated function takes an extra first argument fuel : nat (Python has none) and returns an option
      (None = fuel exhausted); GeohashGenEq proves that every fuel > length * len(bits) gives Some of the model's value.
  G8  {e for x in S}                 -> py_set_of_list (map (fun x => e) S): a set is the duplicate-free list of its
                                        elements in first-insertion order
  G9  GeoBox(nw, se, dt=.., properties=..) -> (nw, se)   (dt and properties are not part of C11's model);
      Coordinate(x, y) -> the Section variable mk_coordinate x y (instantiated with GeohashM.coordinate in GeohashGenEq)
  G10 __init__ made of `self.f = e` only, fields exactly {length, base} -> mkhasher
Anything else abstains (comment in the generated file; the GenEq lemmas about that function then fail).

Datatype abstraction: float -> Q (exact: the bisection midpoints are dyadic, DESIGN section 3), str -> list Z of code
points, a character -> Z, Coordinate -> Q * Q (longitude, latitude), config dict -> GeohashM.cfg, exceptions -> Err kind."""
import ast
import json
import os
import subprocess
import sys

DUMP = r'''
import json, sys
from fractions import Fraction
from geostructures.geohash import _NIEMEYER_CONFIG as C
out = {}
for base, cfg in C.items():
    assert set(cfg.keys()) == {'bits', 'charset', 'inverse', 'min_y', 'max_y', 'min_x', 'max_x'}, cfg.keys()
    fr = lambda v: [Fraction(v).numerator, Fraction(v).denominator]
    out[int(base)] = {
        'bits': [int(x) for x in cfg['bits']],
        'charset': [ord(ch) for ch in cfg['charset']],
        'inverse': sorted([int(k), int(v)] for k, v in cfg['inverse'].items()),
        'minx': fr(cfg['min_x']), 'maxx': fr(cfg['max_x']), 'miny': fr(cfg['min_y']), 'maxy': fr(cfg['max_y']),
    }
json.dump(out, sys.stdout)
'''

HEADER = '''(* GENERATED by tools/gen_geohash.py from geostructures/geohash.py (_NIEMEYER_CONFIG) -- do not edit. *)
From Coq Require Import QArith.
From GV Require Import Prelude GeohashM.
Open Scope Z_scope.
'''


def z(v):
    return f'({v})' if v < 0 else str(v)


def q(p):
    return f'({z(p[0])} # {p[1]})'


def main(repo, out):
    env = dict(os.environ)
    env['PYTHONPATH'] = repo
    r = subprocess.run([sys.executable, '-B', '-W', 'ignore', '-c', DUMP], env=env, stdout=subprocess.PIPE,
                       stderr=subprocess.PIPE, text=True, timeout=120)
    rep = {}
    if r.returncode != 0:
        # fail closed: an empty file makes every GenEq lemma fail
        open(out, 'w').write(HEADER + f'(* could not import the tables: {r.stderr[-300:]!r} *)\n')
        return {'_NIEMEYER_CONFIG': 'abstained(import failed)'}
    tabs = {int(k): v for k, v in json.loads(r.stdout).items()}
    lines = [HEADER]
    for base, t in tabs.items():
        lines.append(f'Definition cfg{base} : cfg := mkcfg\n'
                     f'  [{"; ".join(z(x) for x in t["bits"])}]\n'
                     f'  [{"; ".join(z(x) for x in t["charset"])}]\n'
                     f'  [{"; ".join(f"({z(k)}, {z(v)})" for k, v in t["inverse"])}]\n'
                     f'  {q(t["minx"])} {q(t["maxx"])} {q(t["miny"])} {q(t["maxy"])}.\n')
        rep[f'_NIEMEYER_CONFIG[{base}]'] = 'dumped'
    body = ' else '.join(f'if b =? {z(base)} then Some cfg{base}' for base in tabs)
    lines.append(f'Definition cfg_of_base (b : Z) : option cfg :=\n  {body} else None.\n')
    lines.append(f'Definition bases : list Z := [{"; ".join(z(b) for b in tabs)}].\n')
    open(out, 'w').write('\n'.join(lines))
    return rep


# ====================================================================================================================
# (2) the codec functions
# ====================================================================================================================
sys.path.insert(0, os.path.dirname(os.path.abspath(__file__)))
from translate import Env, FnSpec, Tr, Abstain, find_def, fail   # noqa: E402

CODEC_HEADER = """(* GENERATED by tools/gen_geohash.py (main_codec) from geostructures/geohash.py -- do not edit.
   float -> Q (exact arithmetic; a / b -> Qred (a / b), the same rational in lowest terms); str -> list Z of code points;
   character -> Z; Coordinate -> Q * Q; config dict -> GeohashM.cfg, _NIEMEYER_CONFIG -> the tables of GeohashCfgGen.v;
   a two-element list of floats -> a pair; a dict -> its association list; a set -> the duplicate-free list of its elements
   in insertion order; exceptions -> Err kind; IndexError / negative indices of L[i] are not modelled (GeohashGenEq proves the
   index range along the loop); GeoBox(nw, se, dt, properties) -> (nw, se); Coordinate(x, y) -> Section variable;
   the while loop takes an explicit fuel (None = fuel exhausted). *)
From Coq Require Import QArith Qreduction.
From GV Require Import Prelude GeohashM.
From GVgen Require GeohashCfgGen.
Open Scope Z_scope.

Definition py_config_get (base : Z) : option cfg := GeohashCfgGen.cfg_of_base base.          (* _NIEMEYER_CONFIG[base] *)
Definition py_config_has (base : Z) : bool :=                                                (* base in _NIEMEYER_CONFIG *)
  match py_config_get base with Some _ => true | None => false end.
Fixpoint py_dict_get (d : list (Z * Z)) (k : Z) : option Z :=                                (* d[k]; None = KeyError *)
  match d with
  | [] => None
  | (k', v) :: d' => if k =? k' then Some v else py_dict_get d' k
  end.
Definition py_index (l : list Z) (i : Z) : Z := nth (Z.to_nat i) l 0.                        (* l[i], 0 <= i < len(l) *)
Definition py_len {A} (l : list A) : Z := Z.of_nat (length l).
Definition py_char_in (ch : Z) (s : list Z) : bool := existsb (Z.eqb ch) s.                  (* ch in s, ch one character *)
Definition py_fdiv (a b : Q) : Q := Qred (a / b).                                            (* a / b *)
Definition py_fgt (a b : Q) : bool := negb (Qle_bool a b).                                   (* a > b *)
Definition py_flt (a b : Q) : bool := negb (Qle_bool b a).                                   (* a < b *)
Definition py_fge (a b : Q) : bool := Qle_bool b a.                                          (* a >= b *)
Definition py_fle (a b : Q) : bool := Qle_bool a b.                                          (* a <= b *)
Definition py_str_eqb : list Z -> list Z -> bool := list_eqb Z.eqb.
Fixpoint py_set_of_list (l : list (list Z)) (acc : list (list Z)) : list (list Z) :=         (* set(l), insertion order *)
  match l with
  | [] => acc
  | x :: l' => py_set_of_list l' (if existsb (py_str_eqb x) acc then acc else acc ++ [x])
  end.
(* for x in xs: s = body(s, x), where body may raise *)
Fixpoint py_for_res {S A} (body : S -> A -> res S) (xs : list A) (s : S) : res S :=
  match xs with
  | [] => Ok s
  | x :: xs' => match body s x with Ok s' => py_for_res body xs' s' | Err e => Err e end
  end.
(* while cond(s): s = step(s)     None: fuel exhausted *)
Fixpoint py_while {S} (cond : S -> bool) (step : S -> S) (fuel : nat) (s : S) : option S :=
  match fuel with
  | O => None
  | Datatypes.S f => if cond s then py_while cond step f (step s) else Some s
  end.
Record hasher := mkhasher { h_length : Z; h_base : Z }.
"""

SEC_GEOBOX = """
Section GeoboxGen.
  Variable mk_coordinate : Q -> Q -> Q * Q.                          (* Coordinate(lon, lat), bounded (C08) *)
"""

CFG_FIELDS = {'bits': ('bits', ('list', 'Z')), 'charset': ('charset', 'str'), 'inverse': ('inverse', ('dict', 'Z', 'Z')),
              'min_x': ('minx', 'Q'), 'max_x': ('maxx', 'Q'), 'min_y': ('miny', 'Q'), 'max_y': ('maxy', 'Q')}
GTG = {'Z': 'Z', 'Q': 'Q', 'bool': 'bool', 'str': 'list Z', 'char': 'Z', 'cfg': 'cfg', 'ival': '(Q * Q)', 'coord': '(Q * Q)',
       'gbox': '((Q * Q) * (Q * Q))', 'hasher': 'hasher'}
CMP_Q = {ast.Gt: '(py_fgt {0} {1})', ast.Lt: '(py_flt {0} {1})', ast.GtE: '(py_fge {0} {1})', ast.LtE: '(py_fle {0} {1})'}
CMP_ZS = {ast.Lt: '({0} <? {1})%Z', ast.LtE: '({0} <=? {1})%Z', ast.Gt: '({1} <? {0})%Z',
          ast.GtE: '({1} <=? {0})%Z', ast.Eq: '({0} =? {1})%Z', ast.NotEq: '(negb ({0} =? {1})%Z)'}
EXCS = ('ValueError', 'KeyError', 'TypeError', 'IndexError')
RESERVED = {'fst', 'snd', 'bits', 'charset', 'inverse', 'minx', 'maxx', 'miny', 'maxy', 'fuel', 'e_', 'st', 'cfg', 'nth', 'map',
            'fold_left', 'negb', 'Ok', 'Err', 'Some', 'None', 'Qred', 'mk_coordinate', 'mkhasher', 'end', 'at', 'in', 'fun',
            'let', 'match', 'with', 'if', 'then', 'else', 'return', 'fix', 'forall', 'exists', 'Type', 'Prop', 'Set', 'mod', '_'}


def gt(t):
    if isinstance(t, str):
        if t not in GTG:
            raise Abstain(f'type {t}')
        return GTG[t]
    k = t[0]
    if k == 'res':
        return f'res ({gt(t[1])})'
    if k == 'opt':
        return f'option ({gt(t[1])})'
    if k in ('list', 'set'):
        return f'list ({gt(t[1])})'
    if k == 'dict':
        return f'list ({gt(t[1])} * {gt(t[2])})'
    if k == 'pair':
        return f'({gt(t[1])} * {gt(t[2])})'
    if k == 'tuple':
        return '(' + ' * '.join(gt(x) for x in t[1:]) + ')'
    raise Abstain(f'type {t}')


def conc(t):
    return {'numZ': 'Z', 'numQ': 'Q'}.get(t, t)


def names_in(nodes):
    out = []
    for n in nodes:
        for x in ast.walk(n):
            if isinstance(x, ast.Name) and x.id not in out:
                out.append(x.id)
    return out


def const_int(n):
    return n.value if isinstance(n, ast.Constant) and isinstance(n.value, int) and not isinstance(n.value, bool) else None


def assigned_names(stmts):
    """names bound by assignment anywhere in the statements (not loop targets), and the loop targets"""
    asg, tg = [], []

    def add(lst, x):
        if x not in lst:
            lst.append(x)

    def target(t):
        if isinstance(t, ast.Name):
            add(asg, t.id)
        elif isinstance(t, ast.Tuple):
            for x in t.elts:
                target(x)
        elif isinstance(t, ast.Subscript) and isinstance(t.value, ast.Name):
            add(asg, t.value.id)
        else:
            fail(t, 'assignment target')
    for s in stmts:
        for x in ast.walk(s):
            if isinstance(x, ast.Assign):
                for t in x.targets:
                    target(t)
            elif isinstance(x, (ast.AugAssign, ast.AnnAssign)):
                target(x.target)
            elif isinstance(x, ast.For):
                if not isinstance(x.target, ast.Name):
                    fail(x, 'loop target')
                add(tg, x.target.id)
            elif isinstance(x, (ast.NamedExpr, ast.With, ast.Try, ast.Delete, ast.Global, ast.Nonlocal, ast.FunctionDef,
                                ast.Lambda, ast.ClassDef, ast.Import, ast.ImportFrom, ast.Break, ast.Continue, ast.Return,
                                ast.comprehension, ast.Yield, ast.Await)):
                fail(x, 'statement kind inside a loop')
    return asg, tg


class TrG(Tr):
    def __init__(self, env, spec, fuelled):
        super().__init__(env, spec)
        self.fuelled = fuelled
        self.hoisted = []
        self.scope = [p for p, _ in spec.params]      # every variable, in the order of its first binding
        self.frozen = set()                           # variables a branch must not assign (they are not loop state)
        self.nwhile = 0
        for p in self.scope:
            if p in RESERVED:
                raise Abstain(f'parameter name {p}')

    # ------------------------------------------------------------------ expressions
    def lit(self, v, t, want):
        """a value of type t where `want` is expected: literals take the scope of the expected type"""
        if t in ('numZ', 'numQ'):
            if want == 'Q':
                return f'({v})%Q'
            if want == 'Z' and t == 'numZ':
                return f'({v})%Z'
            fail(v, f'literal of kind {t} where {want} is expected')
        if t != want:
            fail(v, f'{t} where {want} is expected')
        return v

    def join(self, ta, tb, n):
        if ta == tb:
            return ta
        for a, b in ((ta, tb), (tb, ta)):
            if a == 'numZ' and b in ('Z', 'Q', 'numQ'):
                return b
            if a == 'numQ' and b == 'Q':
                return b
        fail(n, f'type join {ta} {tb}')

    def expr(self, n):
        if isinstance(n, ast.Name) and n.id not in self.vars and n.id not in self.env.consts:
            fail(n, 'unknown name')
        if isinstance(n, ast.Constant):
            v = n.value
            if isinstance(v, bool) or v is None:
                return super().expr(n)
            if isinstance(v, int):
                return (str(v) if v >= 0 else f'({v})'), 'numZ'
            if isinstance(v, float):
                if v != v or v in (float('inf'), float('-inf')) or not v.is_integer():
                    fail(n, 'float constant that is not an integer value')
                return (str(int(v)) if v >= 0 else f'({int(v)})'), 'numQ'
            if isinstance(v, str) and v == '':
                return '(@nil Z)', 'str'
            fail(n, 'constant')
        if isinstance(n, ast.Tuple):
            parts = [self.expr(x) for x in n.elts]
            if len(parts) < 2 or any(t in ('numZ', 'numQ') for _, t in parts):
                fail(n, 'tuple shape')
            return '(' + ', '.join(v for v, _ in parts) + ')', ('tuple',) + tuple(t for _, t in parts)
        if isinstance(n, ast.List):                                                                       # G1
            parts = [self.expr(x) for x in n.elts]
            if len(parts) != 2:
                fail(n, 'list literal that is not a two-element interval')
            return f'({self.lit(parts[0][0], parts[0][1], "Q")}, {self.lit(parts[1][0], parts[1][1], "Q")})', 'ival!'
        if isinstance(n, ast.Subscript):
            if not isinstance(n.ctx, ast.Load):
                fail(n, 'subscript store')
            v, t = self.expr(n.value)
            if t == 'cfg':                                                                                # G2
                if isinstance(n.slice, ast.Constant) and n.slice.value in CFG_FIELDS and isinstance(n.slice.value, str):
                    f, ft = CFG_FIELDS[n.slice.value]
                    return f'({f} {v})', ft
                fail(n, 'config key')
            if t == 'ival':                                                                               # G1
                k = const_int(n.slice)
                if k not in (0, 1):
                    fail(n, 'interval index')
                return f'({"fst" if k == 0 else "snd"} {v})', 'Q'
            if t in (('list', 'Z'), 'str'):
                k, tk = self.expr(n.slice)
                if tk not in ('Z', 'numZ') or (tk == 'numZ' and const_int(n.slice) is None) or \
                        (const_int(n.slice) is not None and const_int(n.slice) < 0):
                    fail(n, f'index of type {tk}')
                return f'(py_index {v} {self.lit(k, tk, "Z")})', ('char' if t == 'str' else 'Z')
            fail(n, f'subscript of {t} (a dict lookup is a statement: v = D[k])')
        if isinstance(n, ast.UnaryOp):
            if isinstance(n.op, ast.Not):
                return f'(negb {self.boolean(n.operand)})', 'bool'
            if isinstance(n.op, ast.USub):
                v, t = self.expr(n.operand)
                if conc(t) not in ('Z', 'Q'):
                    fail(n, f'negation of {t}')
                if t in ('numZ', 'numQ'):
                    return f'(- {v})', t
                return f'(- {v})%{conc(t)}', t
            fail(n, 'unary op')
        if isinstance(n, ast.BinOp):
            return self.binop(n.left, n.op, n.right, n)
        if isinstance(n, ast.Call):
            return self.gcall(n)
        if isinstance(n, ast.SetComp):                                                                    # G8
            if len(n.generators) != 1:
                fail(n, 'set comprehension shape')
            g = n.generators[0]
            if g.ifs or g.is_async or not isinstance(g.target, ast.Name) or g.target.id in self.vars \
                    or g.target.id in RESERVED:
                fail(n, 'set comprehension shape')
            it, t = self.expr(g.iter)
            if t != 'str':
                fail(n, f'set comprehension over {t}')
            saved = dict(self.vars)
            self.vars[g.target.id] = 'char'
            ev, et = self.expr(n.elt)
            self.vars = saved
            if et != 'str':
                fail(n, f'set of {et}')
            return f'(py_set_of_list (map (fun {g.target.id} => {ev}) {it}) [])', ('set', 'str')
        if isinstance(n, (ast.Name, ast.BoolOp, ast.Compare, ast.IfExp)):
            if isinstance(n, ast.IfExp):
                fail(n, 'conditional expression')
            return super().expr(n)
        fail(n, 'expression')

    def binop(self, l, op, r, n):
        a, ta = self.expr(l)
        b, tb = self.expr(r)
        if isinstance(op, ast.Add) and ta == 'str':                                                      # G5
            if tb == 'char':
                return f'({a} ++ [{b}])', 'str'
            if tb == 'str':
                return f'({a} ++ {b})', 'str'
            fail(n, f'str + {tb}')
        t = self.join(ta, tb, n)
        ct = conc(t)
        if ct not in ('Z', 'Q'):
            fail(n, f'arithmetic on {t}')
        ops = {ast.Add: '+', ast.Sub: '-', ast.Mult: '*'}
        if type(op) in ops:
            return f'({a} {ops[type(op)]} {b})%{ct}', ct
        if isinstance(op, ast.Div):                                                                      # G3
            if ct != 'Q':
                fail(n, 'true division of integers')
            return f'(py_fdiv {self.lit(a, ta, "Q")} {self.lit(b, tb, "Q")})', 'Q'
        if isinstance(op, (ast.BitAnd, ast.BitOr)):
            if ct != 'Z':
                fail(n, f'bit operation on {t}')
            f = 'Z.land' if isinstance(op, ast.BitAnd) else 'Z.lor'
            return f'({f} {self.lit(a, ta, "Z")} {self.lit(b, tb, "Z")})', 'Z'
        fail(n, 'binary op')

    def cmp1(self, l, op, r, n):
        if isinstance(op, (ast.In, ast.NotIn)):
            if isinstance(r, ast.Name) and r.id == '_NIEMEYER_CONFIG' and r.id not in self.vars:         # G2
                k, tk = self.expr(l)
                s = f'(py_config_has {self.lit(k, tk, "Z")})'
            else:
                item, ti = self.expr(l)
                cont, tc = self.expr(r)
                if (ti, tc) != ('char', 'str'):
                    fail(n, f'`in` for {ti} in {tc}')
                s = f'(py_char_in {item} {cont})'
            return s if isinstance(op, ast.In) else f'(negb {s})'
        a, ta = self.expr(l)
        b, tb = self.expr(r)
        t = conc(self.join(ta, tb, n))
        if t == 'Z' and type(op) in CMP_ZS:
            return CMP_ZS[type(op)].format(a, b)
        if t == 'Q' and type(op) in CMP_Q:
            return CMP_Q[type(op)].format(self.lit(a, ta, 'Q'), self.lit(b, tb, 'Q'))
        fail(n, f'comparison at type {t}')

    def boolean(self, n):
        v, t = self.expr(n)
        if t != 'bool':
            fail(n, f'truthiness of {t}')
        return v

    def gcall(self, n):
        f = n.func
        if isinstance(f, ast.Name) and f.id not in self.vars:
            args = [self.expr(a) for a in n.args]
            ats = tuple(t for _, t in args)
            if f.id == 'GeoBox':                                                                         # G9
                if ats != ('coord', 'coord') or any(k.arg not in ('dt', 'properties') for k in n.keywords) \
                        or len({k.arg for k in n.keywords}) != len(n.keywords):
                    fail(n, 'GeoBox(...) shape')
                return f'({args[0][0]}, {args[1][0]})', 'gbox'
            if n.keywords:
                fail(n, 'keyword arguments')
            if f.id == 'len' and len(args) == 1 and (ats[0] == 'str' or (isinstance(ats[0], tuple) and ats[0][0] == 'list')):
                return f'(py_len {args[0][0]})', 'Z'
            if f.id == 'ord' and ats == ('char',):                                                       # G5
                return args[0][0], 'Z'
            if f.id == 'Coordinate' and len(args) == 2 and all(conc(t) == 'Q' for t in ats) and 'mk_coordinate' in self.env.consts:
                return f'(mk_coordinate {self.lit(args[0][0], ats[0], "Q")} {self.lit(args[1][0], ats[1], "Q")})', 'coord'
            if (f.id,) + ats in self.env.funcs:
                fmt, rt = self.env.funcs[(f.id,) + ats]
                return fmt.format(*[v for v, _ in args]), rt
            fail(n, f'call {f.id}{ats}')
        if isinstance(f, ast.Attribute) and f.attr == 'to_float' and not n.args and not n.keywords:      # G4
            v, t = self.expr(f.value)
            if t != 'coord':
                fail(n, f'to_float of {t}')
            return v, ('tuple', 'Q', 'Q')
        fail(n, 'call form')

    # ------------------------------------------------------------------ binding
    def tup(self, names):
        return names[0] if len(names) == 1 else '(' + ', '.join(names) + ')'

    def tuptype(self, names):
        return gt(self.vars[names[0]]) if len(names) == 1 else '(' + ' * '.join(gt(self.vars[x]) for x in names) + ')%type'

    def letpat(self, names, value, rest):
        if len(names) == 1:
            return f'(let {names[0]} := {value} in {rest})'
        return f"(let '{self.tup(names)} := {value} in {rest})"

    def bind(self, x, t, state, node):
        """record that x is (re)bound with type t; checks what a loop / a branch may assign"""
        t = conc(t)
        if x in RESERVED or x in self.env.consts:
            fail(node, f'variable name {x}')
        if x in self.vars:
            if x in self.frozen:
                fail(node, f'a branch assigns {x}, which is neither loop state nor local to the branch')
            if self.vars[x] != t:
                fail(node, f'{x} changes type from {self.vars[x]} to {t}')
        else:
            self.vars[x] = t
            self.scope.append(x)

    def simple_lets(self, s, state):
        """assignment statements without control flow -> list of `let ... in` prefixes (None: not such a statement)"""
        if isinstance(s, ast.AugAssign):                                                                 # G4
            if not isinstance(s.target, ast.Name) or s.target.id not in self.vars:
                fail(s, 'augmented assignment target')
            v, t = self.binop(ast.Name(id=s.target.id, ctx=ast.Load()), s.op, s.value, s)
            self.bind(s.target.id, t, state, s)
            return [f'let {s.target.id} := {v} in']
        if not isinstance(s, ast.Assign) or len(s.targets) != 1:
            return None
        tg, val = s.targets[0], s.value
        if isinstance(tg, ast.Name):
            if isinstance(val, ast.Subscript) and not isinstance(val.slice, ast.Slice):
                try:
                    _, tv = self.expr(val.value)
                except Abstain:
                    tv = None
                if (isinstance(tv, tuple) and tv[0] == 'dict') or (isinstance(val.value, ast.Name) and val.value.id == '_NIEMEYER_CONFIG'):
                    return None                      # a lookup that can raise: handled with the control flow
            v, t = self.expr(val)
            if t == 'ival':
                fail(s, 'aliasing of an interval list')
            if t == 'ival!':
                t = 'ival'
            if t in ('numZ', 'numQ'):
                v = self.lit(v, t, conc(t))
            self.bind(tg.id, t, state, s)
            return [f'let {tg.id} := {v} in']
        if isinstance(tg, ast.Subscript):                                                                # G1
            if not isinstance(tg.value, ast.Name) or self.vars.get(tg.value.id) != 'ival' or const_int(tg.slice) not in (0, 1):
                fail(s, 'subscript assignment')
            x = tg.value.id
            v, t = self.expr(val)
            v = self.lit(v, t, 'Q')
            self.bind(x, 'ival', state, s)
            return [f'let {x} := ({v}, snd {x}) in' if const_int(tg.slice) == 0 else f'let {x} := (fst {x}, {v}) in']
        if isinstance(tg, ast.Tuple) and all(isinstance(x, ast.Name) for x in tg.elts):                  # G4
            names = [x.id for x in tg.elts]
            if len(set(names)) != len(names):
                fail(s, 'repeated target')
            if isinstance(val, ast.Tuple):
                if len(val.elts) != len(names) or any(nm in names_in(val.elts) for nm in names):
                    fail(s, 'tuple assignment whose right-hand side mentions a target')
                out = []
                for nm, e in zip(names, val.elts):
                    out += self.simple_lets(ast.Assign(targets=[ast.Name(id=nm, ctx=ast.Store())], value=e, lineno=s.lineno), state)
                return out
            v, t = self.expr(val)
            if isinstance(t, tuple) and t[0] == 'tuple' and len(t) - 1 == len(names):
                for nm, tt in zip(names, t[1:]):
                    self.bind(nm, tt, state, s)
                return [f"let '{self.tup(names)} := {v} in"]
            if isinstance(t, tuple) and t[0] == 'res':
                return None
            fail(s, f'tuple unpacking of {t}')
        fail(s, 'assignment target')

    def raising_bind(self, s, state):
        """v = D[k] / config = _NIEMEYER_CONFIG[base] / a, b, c, d = f(..) with f raising
           -> (scrutinee, none/err branch, pattern) or None"""
        if not (isinstance(s, ast.Assign) and len(s.targets) == 1):
            return None
        tg, val = s.targets[0], s.value
        if isinstance(tg, ast.Name) and isinstance(val, ast.Subscript):
            if isinstance(val.value, ast.Name) and val.value.id == '_NIEMEYER_CONFIG' and val.value.id not in self.vars:
                k, tk = self.expr(val.slice)
                self.bind(tg.id, 'cfg', state, s)
                return f'py_config_get {self.lit(k, tk, "Z")}', 'None => {0}(Err KeyError)', f'Some {tg.id}'
            d, td = self.expr(val.value)
            if isinstance(td, tuple) and td[0] == 'dict':
                k, tk = self.expr(val.slice)
                kk = self.lit(k, tk, td[1])
                self.bind(tg.id, td[2], state, s)
                return f'py_dict_get {d} {kk}', 'None => {0}(Err KeyError)', f'Some {tg.id}'
        if isinstance(tg, ast.Tuple) and all(isinstance(x, ast.Name) for x in tg.elts) and isinstance(val, ast.Call):
            names = [x.id for x in tg.elts]
            v, t = self.expr(val)
            if isinstance(t, tuple) and t[0] == 'res' and isinstance(t[1], tuple) and t[1][0] == 'tuple' \
                    and len(t[1]) - 1 == len(names) and len(set(names)) == len(names):
                for nm, tt in zip(names, t[1][1:]):
                    self.bind(nm, tt, state, s)
                return v, 'Err e_ => {0}(Err e_)', f'Ok {self.tup(names)}'
        return None

    def exc_of(self, s):
        exc = s.exc.func.id if isinstance(s.exc, ast.Call) and isinstance(s.exc.func, ast.Name) else getattr(s.exc, 'id', None)
        if exc not in EXCS or s.cause is not None:
            fail(s, 'exception kind')
        return exc

    # ------------------------------------------------------------------ function level
    def wrap(self, v):
        return f'(Some {v})' if self.fuelled else v

    def block(self, stmts):
        if not stmts:
            raise Abstain('control reaches the end of the function without return')
        s, rest = stmts[0], stmts[1:]
        if isinstance(s, ast.Pass) or (isinstance(s, ast.Expr) and isinstance(s.value, ast.Constant) and isinstance(s.value.value, str)):
            return self.block(rest)
        if isinstance(s, ast.Return):
            if s.value is None:
                fail(s, 'bare return')
            v, t = self.expr(s.value)
            if not self.raises or t != self.ret[1]:
                fail(s, f'return of {t} where {self.ret} is declared')
            return self.wrap(f'(Ok {v})')
        if isinstance(s, ast.Raise):
            return self.wrap(f'(Err {self.exc_of(s)})')
        if isinstance(s, ast.If):
            if s.orelse or not self.terminates(s.body):
                fail(s, 'an `if` at function level must end in raise/return and have no else')
            c = self.boolean(s.test)
            saved, sc = dict(self.vars), list(self.scope)
            a = self.block(s.body)
            self.vars, self.scope = saved, sc
            return f'(if {c} then {a} else {self.block(rest)})'
        if isinstance(s, ast.While):
            return self.while_loop(s, rest)
        if isinstance(s, ast.For):
            state, fold, mode = self.for_parts(s)
            if mode == 'res':
                return f'(match {fold} with Err e_ => {self.wrap("(Err e_)")} | Ok {self.tup(state)} => {self.block(rest)} end)'
            return self.letpat(state, fold, self.block(rest))
        lets = self.simple_lets(s, [])
        if lets is not None:
            return '(' + ' '.join(lets) + ' ' + self.block(rest) + ')'
        rb = self.raising_bind(s, [])
        if rb is not None:
            scrut, bad, pat = rb
            errk = bad.format('Some ' if self.fuelled else '')
            return f'(match {scrut} with {errk} | {pat} => {self.block(rest)} end)'
        fail(s, 'statement')

    # ------------------------------------------------------------------ loops
    def loop_state(self, body, loopvars):
        asg, tg = assigned_names(body)
        for x in tg + loopvars:
            if x in self.vars or x in RESERVED or (tg + loopvars).count(x) > 1:
                fail(body[0], f'loop variable {x} shadows something')
        state = [x for x in self.scope if x in asg]
        if not state:
            fail(body[0], 'a loop that assigns nothing')
        return state

    def params_for(self, nodes, exclude):
        used = names_in(nodes)
        return [p for p in self.scope if p in used and p not in exclude]

    def binders(self, ps):
        return ' '.join(f'({p} : {gt(self.vars[p])})' for p in ps)

    def loop_body(self, body, state):
        """the statements of one iteration -> (term, mode); variables bound inside die with the iteration"""
        mode = 'res' if any(isinstance(x, ast.Raise) for st in body for x in ast.walk(st)) else 'total'
        saved, sc, fz, nh = dict(self.vars), list(self.scope), set(self.frozen), len(self.hoisted)
        try:
            term = self.body(body, state, mode)
        except Abstain as ex:
            if mode == 'res' or 'inside a non-raising body' not in str(ex):
                raise
            # no `raise` statement, but a lookup (or an inner loop) that can raise: the body is a res after all
            self.vars, self.scope, self.frozen = dict(saved), list(sc), set(fz)
            del self.hoisted[nh:]
            mode = 'res'
            term = self.body(body, state, mode)
        for x in state:
            if self.vars[x] != saved[x]:
                fail(body[0], f'state variable {x} changes type')
        self.vars, self.scope, self.frozen = saved, sc, fz
        return term, mode

    def body(self, stmts, state, mode):
        if not stmts:
            return self.tup(state) if mode == 'total' else f'(Ok {self.tup(state)})'
        s, rest = stmts[0], stmts[1:]
        if isinstance(s, ast.Pass) or (isinstance(s, ast.Expr) and isinstance(s.value, ast.Constant) and isinstance(s.value.value, str)):
            return self.body(rest, state, mode)
        if isinstance(s, ast.If):
            if mode == 'res' and not s.orelse and len(s.body) == 1 and isinstance(s.body[0], ast.Raise):   # G6
                return f'(if {self.boolean(s.test)} then (Err {self.exc_of(s.body[0])}) else {self.body(rest, state, mode)})'
            c = self.boolean(s.test)
            outs = []
            for br in (s.body, s.orelse):
                saved, sc, fz = dict(self.vars), list(self.scope), set(self.frozen)
                self.frozen = self.frozen | {x for x in self.vars if x not in state}
                outs.append(self.body(br, state, 'total'))
                for x in state:
                    if self.vars[x] != saved[x]:
                        fail(s, f'state variable {x} changes type')
                self.vars, self.scope, self.frozen = saved, sc, fz
            return self.letpat(state, f'(if {c} then {outs[0]} else {outs[1]})', self.body(rest, state, mode))
        if isinstance(s, ast.For):
            st2, fold, mode2 = self.for_parts(s)
            for x in st2:
                if x in self.frozen:
                    fail(s, f'a loop inside a branch assigns {x}')
            if mode2 == 'res':
                if mode != 'res':
                    fail(s, 'a raising loop inside a non-raising body')
                return f'(match {fold} with Err e_ => Err e_ | Ok {self.tup(st2)} => {self.body(rest, state, mode)} end)'
            return self.letpat(st2, fold, self.body(rest, state, mode))
        if isinstance(s, (ast.While, ast.Return, ast.Raise, ast.Break, ast.Continue)):
            fail(s, 'statement inside a loop body')
        lets = self.simple_lets(s, state)
        if lets is not None:
            return '(' + ' '.join(lets) + ' ' + self.body(rest, state, mode) + ')'
        rb = self.raising_bind(s, state)
        if rb is not None:
            if mode != 'res':
                fail(s, 'a lookup that can raise inside a non-raising body')
            scrut, bad, pat = rb
            return f'(match {scrut} with {bad.format("")} | {pat} => {self.body(rest, state, mode)} end)'
        fail(s, 'statement in a loop body')

    def for_parts(self, s):                                                                              # G6
        if s.orelse or not isinstance(s.target, ast.Name):
            fail(s, 'for-loop shape')
        x = s.target.id
        it, t = self.expr(s.iter)
        if t == 'str':
            xt = 'char'
        elif isinstance(t, tuple) and t[0] == 'list':
            xt = t[1]
        else:
            fail(s, f'iteration over {t}')
        state = self.loop_state(s.body, [x])
        if any(v in names_in([s.iter]) for v in state):
            fail(s, 'the loop assigns a variable its iterable mentions')
        ps = self.params_for(s.body, state + [x])
        name = f'{self.spec.gname}_for_{x}'
        if any(h.startswith(f'Definition {name} ') for h in self.hoisted):
            fail(s, 'two loops over the same variable name')
        self.vars[x] = xt
        self.scope.append(x)
        term, mode = self.loop_body(s.body, state)
        self.scope.remove(x)
        del self.vars[x]
        ty = self.tuptype(state)
        rty = f'res {ty}' if mode == 'res' else ty
        self.hoisted.append(f'Definition {name} {self.binders(ps)} (st : {ty}) ({x} : {gt(xt)}) : {rty} :=\n'
                            f'  {self.letpat(state, "st", term)}.\n')
        fn = f'({name} {" ".join(ps)})' if ps else name
        return state, f'({"py_for_res" if mode == "res" else "fold_left"} {fn} {it} {self.tup(state)})', mode

    def while_loop(self, s, rest):                                                                       # G7
        if s.orelse:
            fail(s, 'while-else')
        if not self.fuelled:
            fail(s, 'while loop in a function translated without fuel')
        self.nwhile += 1
        if self.nwhile > 1:
            fail(s, 'more than one while loop')
        state = self.loop_state(s.body, [])
        pre = self.spec.gname
        ty = self.tuptype(state)
        cps = self.params_for([s.test], state)
        cond = self.boolean(s.test)
        self.hoisted.append(f'Definition {pre}_cond {self.binders(cps)} (st : {ty}) : bool :=\n'
                            f'  {self.letpat(state, "st", cond)}.\n')
        sps = self.params_for(s.body, state)
        term, mode = self.loop_body(s.body, state)
        if mode != 'total':
            fail(s, 'a while body that raises')
        self.hoisted.append(f'Definition {pre}_step {self.binders(sps)} (st : {ty}) : {ty} :=\n'
                            f'  {self.letpat(state, "st", term)}.\n')
        cf = f'({pre}_cond {" ".join(cps)})' if cps else f'{pre}_cond'
        sf = f'({pre}_step {" ".join(sps)})' if sps else f'{pre}_step'
        return (f'(match py_while {cf} {sf} fuel {self.tup(state)} with\n   | None => None\n'
                f'   | Some {self.tup(state)} => {self.block(rest)}\n   end)')


def translate_codec_fn(tree, env, spec, fuelled):
    fd = find_def(tree, spec)
    a = fd.args
    pynames = [x.arg for x in a.args]
    declared = [p for p, _ in spec.params]
    if pynames[:len(declared)] != declared or a.vararg or a.kwarg or a.kwonlyargs or a.posonlyargs \
            or len(a.defaults) != len(pynames) - len(declared) or fd.decorator_list:
        raise Abstain(f'{spec.pyname}: parameters {pynames} do not start with the declared {declared} (the others defaulted)')
    tr = TrG(env, spec, fuelled)
    body = tr.block(list(fd.body))
    params = ' '.join(f'({p} : {gt(t)})' for p, t in spec.params)
    if fuelled:
        params = '(fuel : nat) ' + params
    rt = gt(spec.ret)
    if fuelled:
        rt = f'option ({rt})'
    return '\n'.join(tr.hoisted) + f'Definition {spec.gname} {params} : {rt} :=\n  {body}.\n'


def translate_hasher_init(tree, env, spec, fuelled):                                                     # G10
    fd = find_def(tree, spec)
    a = fd.args
    if [x.arg for x in a.args] != ['self', 'length', 'base'] or a.vararg or a.kwarg or a.kwonlyargs or a.defaults or fd.decorator_list:
        raise Abstain('NiemeyerHasher.__init__: parameters')
    tr = TrG(env, FnSpec('__init__', spec.gname, [('length', 'Z'), ('base', 'Z')], 'hasher'), False)
    vals = {}
    for s in fd.body:
        if isinstance(s, ast.Expr) and isinstance(s.value, ast.Constant) and isinstance(s.value.value, str):
            continue
        if not (isinstance(s, ast.Assign) and len(s.targets) == 1 and isinstance(s.targets[0], ast.Attribute)
                and isinstance(s.targets[0].value, ast.Name) and s.targets[0].value.id == 'self'):
            fail(s, 'statement of __init__ that is not `self.<field> = <expr>`')
        f = s.targets[0].attr
        if f in vals:
            fail(s, f'field {f} assigned twice')
        v, t = tr.expr(s.value)
        vals[f] = tr.lit(v, t, 'Z')
    if set(vals) != {'length', 'base'}:
        raise Abstain(f'NiemeyerHasher.__init__: fields {sorted(vals)} are not exactly base, length')
    return f'Definition {spec.gname} (length : Z) (base : Z) : hasher :=\n  (mkhasher {vals["length"]} {vals["base"]}).\n'


def codec_env(section, rep):
    e = Env()
    if section:
        e.consts['mk_coordinate'] = ('mk_coordinate', 'fn')
        if rep.get('g_decode_niemeyer') == 'translated':      # otherwise the caller abstains too (unknown call)
            e.funcs[('_decode_niemeyer', 'str', 'Z')] = ('(g_decode_niemeyer {0} {1})', ('res', ('tuple', 'Q', 'Q', 'Q', 'Q')))
    return e


T4 = ('tuple', 'Q', 'Q', 'Q', 'Q')
CODEC_PLAN = [
    (None, None, [
        (translate_codec_fn, FnSpec('_decode_niemeyer', 'g_decode_niemeyer', [('geohash', 'str'), ('base', 'Z')], ('res', T4)), False),
        (translate_codec_fn, FnSpec('_coord_to_niemeyer', 'g_coord_to_niemeyer',
                                    [('coordinate', 'coord'), ('length', 'Z'), ('base', 'Z')], ('res', 'str')), True),
        (translate_codec_fn, FnSpec('_get_niemeyer_subhashes', 'g_get_niemeyer_subhashes', [('geohash', 'str'), ('base', 'Z')],
                                    ('res', ('set', 'str'))), False),
        (translate_hasher_init, FnSpec('__init__', 'g_hasher_init', [], 'hasher', 'NiemeyerHasher'), False),
    ]),
    (SEC_GEOBOX, 'End GeoboxGen.\n', [
        (translate_codec_fn, FnSpec('niemeyer_to_geobox', 'g_niemeyer_to_geobox', [('geohash', 'str'), ('base', 'Z')], ('res', 'gbox')), False),
    ]),
]


def main_codec(repo, out):
    rep = {}
    try:
        tree = ast.parse(open(os.path.join(repo, 'geostructures/geohash.py')).read())
    except Exception as ex:   # noqa  fail closed
        open(out, 'w').write(CODEC_HEADER + f'(* could not parse geohash.py: {type(ex).__name__} *)\n')
        return {'geohash.py': f'abstained: {type(ex).__name__}'}
    parts = [CODEC_HEADER]
    for sec, end, specs in CODEC_PLAN:
        if sec:
            parts.append(sec)
        e = codec_env(bool(sec), rep)
        for fn, sp, fuelled in specs:
            try:
                parts.append(fn(tree, e, sp, fuelled))
                rep[sp.gname] = 'translated'
            except Abstain as ex:
                parts.append(f'(* ABSTAINED {sp.gname}: {str(ex).replace("*)", "* )").replace("(*", "( *")} *)\n')
                rep[sp.gname] = f'abstained: {ex}'
            except Exception as ex:   # noqa  fail closed on anything unexpected
                parts.append(f'(* ABSTAINED {sp.gname}: internal {type(ex).__name__} *)\n')
                rep[sp.gname] = f'abstained: internal {type(ex).__name__}: {ex}'
        if end:
            parts.append(end)
    open(out, 'w').write('\n'.join(parts))
    return rep


if __name__ == '__main__':
    if len(sys.argv) > 3 and sys.argv[3] == 'codec':
        for k, v in main_codec(sys.argv[1], sys.argv[2]).items():
            print(k, '::', v)
    else:
        print(main(sys.argv[1], sys.argv[2]))
