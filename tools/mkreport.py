#!/usr/bin/env python3
"""Prints markdown tables for DESIGN.md section 9 from the evidence files, Props files and seeded/ metadata."""
import json, os, re, glob
HERE = os.path.dirname(os.path.dirname(os.path.abspath(__file__)))
print('| Property | theorems (Props) | _partial | _refuted | obligations (quick) | correspondence cases (quick) | non-trivial | translator tie | known findings replayed | wall s |')
print('|---|---|---|---|---|---|---|---|---|---|')
for f in sorted(glob.glob(os.path.join(HERE, 'coq/theories/Props/C*.v'))):
    pid = os.path.basename(f)[:-2]
    txt = open(f).read()
    th = re.findall(r'^\s*Theorem\s+(\w+)', txt, flags=re.M)
    ev = os.path.join(HERE, 'evidence', pid + '.json')
    if os.path.exists(ev):
        e = json.load(open(ev)); c = e['coverage']
        tr = c.get('translator') or {}
        ntr = sum(1 for v in tr.values() if v == 'translated')
        print(f"| {pid} | {len(th)} | {sum(1 for t in th if 'partial' in t)} | {sum(1 for t in th if 'refuted' in t)} | {c['discharged']}/{c['obligations']} | "
              f"{c['evaluations']} | {c['distinct_nontrivial']} | {str(ntr) + ' functions' if tr else '-'} | {len(c.get('known_findings_reproduced', []))} | {e['wall_s']} |")
    else:
        print(f'| {pid} | {len(th)} | | | (no evidence yet) | | | | | |')
print()
print('| Seeded change | property | what it does | needs | result |')
print('|---|---|---|---|---|')
for d in sorted(glob.glob(os.path.join(HERE, 'seeded', '*'))):
    m = json.load(open(os.path.join(d, 'meta.json')))
    print(f"| {os.path.basename(d)} | {m['property']} | {m.get('summary','')[:160].replace('|','/')} | {m.get('needs','')[:140].replace('|','/')} | {m.get('result','')} |")
