#!/usr/bin/env python3
"""Markdown tables for DESIGN.md section 9 from the evidence files, Props files and seeded/ metadata.
usage: tools/mkreport.py            print the tables
       tools/mkreport.py --update   rewrite the text between the TABLE_9_2 / TABLE_9_4 markers of DESIGN.md"""
import json, os, re, glob, sys
HERE = os.path.dirname(os.path.dirname(os.path.abspath(__file__)))


def table_92():
    out = ['| Property | theorems (Props) | _partial | _refuted | obligations (quick) | correspondence cases (quick) | non-trivial | translator tie | known findings replayed | wall s |',
           '|---|---|---|---|---|---|---|---|---|---|']
    for f in sorted(glob.glob(os.path.join(HERE, 'coq/theories/Props/C*.v'))):
        pid = os.path.basename(f)[:-2]
        if not re.fullmatch(r'C\d\d', pid):
            continue
        txt = open(f).read()
        for extra in sorted(glob.glob(os.path.join(HERE, 'coq/theories/Props', pid + '?.v'))):     # C01b, C08f, C09b..d, C12b/c ...
            txt += open(extra).read()
        th = re.findall(r'^\s*Theorem\s+(\w+)', txt, flags=re.M)
        ev = os.path.join(HERE, 'evidence', pid + '.json')
        if os.path.exists(ev):
            e = json.load(open(ev)); c = e['coverage']
            tr = c.get('translator') or {}
            ntr = sum(1 for v in tr.values() if v == 'translated')
            out.append(f"| {pid} | {len(th)} | {sum(1 for t in th if 'partial' in t)} | {sum(1 for t in th if 'refuted' in t)} | {c['discharged']}/{c['obligations']} | "
                       f"{c['evaluations']} | {c['distinct_nontrivial']} | {str(ntr) + ' definitions' if tr else '-'} | {len(c.get('known_findings_reproduced', []))} | {e['wall_s']} |")
        else:
            out.append(f'| {pid} | {len(th)} | | | (no evidence yet) | | | | | |')
    return '\n'.join(out)


def table_94():
    out = ['| Seeded change | property | what it does | needs | result |', '|---|---|---|---|---|']
    for d in sorted(glob.glob(os.path.join(HERE, 'seeded', '*'))):
        m = json.load(open(os.path.join(d, 'meta.json')))
        res = m.get('result', '')
        if len(m.get('results', {})) > 1:
            res = '; '.join(f"{k}: {'CAUGHT' if v.get('caught') else 'missed'}" for k, v in m['results'].items())
        out.append(f"| {os.path.basename(d)} | {m['property']} | {m.get('summary','')[:220].replace('|','/')} | {m.get('needs','')[:180].replace('|','/')} | {res} |")
    return '\n'.join(out)


def main():
    if '--update' in sys.argv:
        p = os.path.join(HERE, 'DESIGN.md')
        s = open(p).read()
        for tag, fn in (('TABLE_9_2', table_92), ('TABLE_9_4', table_94)):
            b, e = f'<!-- {tag}_BEGIN -->', f'<!-- {tag}_END -->'
            if b in s and e in s:
                s = s[:s.index(b) + len(b)] + '\n' + fn() + '\n' + s[s.index(e):]
        open(p, 'w').write(s)
    else:
        print(table_92()); print(); print(table_94())


if __name__ == '__main__':
    main()
