#!/usr/bin/env python3
"""Imports the two seeded changes an independent sub-agent left in <worktree>/_seed, after confirming
them here: each patch applies alone to a fresh scratch worktree of /repo's HEAD, the unedited suite
gives the baseline result (every baseline test passes: 297 passed since repair D41, the same 2 non-baseline failures), the demonstration fails with the change and
passes without it.  usage: tools/seedimport.py <PROPERTY_ID> <worktree> [target letters, default AB]"""
import json, os, shutil, subprocess, sys
HERE = os.path.dirname(os.path.dirname(os.path.abspath(__file__)))
pid, wt = sys.argv[1], sys.argv[2]
TARGET = sys.argv[3] if len(sys.argv) > 3 else 'AB'
# (test_multigeopoint_from_shapely failed on the pinned tree; it passes since repair D41, so the baseline is 297 / 2)
BASE_FAIL = {'tests/test_compile.py::test_compile', 'tests/test_structures.py::test_geoellipse_from_covariance_matrix'}


def run(cmd, cwd=None, env=None):
    r = subprocess.run(cmd, cwd=cwd, env=env, stdout=subprocess.PIPE, stderr=subprocess.STDOUT, text=True)
    return r.returncode, r.stdout


def suite(tree):
    rc, out = run(['/venv/bin/python', '-m', 'pytest', '-q', '-p', 'no:cacheprovider', '--timeout=900',
                   '--continue-on-collection-errors', '-rf'], cwd=tree, env=dict(os.environ, PYTHONPATH=tree))
    failed = {l.split(' ')[1] for l in out.split('\n') if l.startswith('FAILED ')}
    tail = [l for l in out.split('\n') if ' passed' in l]
    return failed, tail[-1] if tail else out[-300:]


def demo(tree, path):
    rc, out = run(['/venv/bin/python', path], cwd=os.path.dirname(path), env=dict(os.environ, PYTHONPATH=tree))
    return rc, out[-400:]


for letter, tletter in zip('AB', TARGET):
    src = os.path.join(wt, '_seed')
    patch = os.path.join(src, f'{letter}.diff')
    if not os.path.exists(patch):
        print(f'{pid}-{letter}: no patch'); continue
    scratch = f'/tmp/seedimp-{pid}-{tletter}'
    shutil.rmtree(scratch, ignore_errors=True)
    subprocess.run(['git', '-C', '/repo', 'worktree', 'add', '-q', '--detach', scratch, 'HEAD'], check=True)
    try:
        d_clean = demo(scratch, os.path.join(src, f'demo_{letter}.py'))
        rc, out = run(['git', '-C', scratch, 'apply', patch])
        if rc != 0:
            print(f'{pid}-{letter}: patch does not apply to HEAD: {out}'); continue
        failed, tail = suite(scratch)
        d_mut = demo(scratch, os.path.join(src, f'demo_{letter}.py'))
        ok = failed == BASE_FAIL and (' 297 passed' in (' ' + tail) or ' 296 passed' in (' ' + tail)) and d_clean[0] == 0 and d_mut[0] != 0
        print(f'{pid}-{letter}: suite [{tail.strip()}] same-3-fail={failed == BASE_FAIL} demo clean rc={d_clean[0]} mutated rc={d_mut[0]} -> {"KEEP" if ok else "REJECT"}')
        if ok:
            dst = os.path.join(HERE, 'seeded', f'{pid}-{tletter}')
            os.makedirs(dst, exist_ok=True)
            shutil.copy(patch, os.path.join(dst, 'patch.diff'))
            shutil.copy(os.path.join(src, f'demo_{letter}.py'), os.path.join(dst, 'demo.py'))
            meta = json.load(open(os.path.join(src, f'meta_{letter}.json')))
            meta.update({'property': pid, 'confirmed': {
                'applies_to': subprocess.run(['git', '-C', '/repo', 'rev-parse', '--short', 'HEAD'], stdout=subprocess.PIPE, text=True).stdout.strip(),
                'suite_with_change': tail.strip(), 'same_three_failures': True,
                'demo_on_unchanged_tree': 'exit 0', 'demo_with_change': f'exit {d_mut[0]}: ' + d_mut[1].strip()[-200:],
                'how': 'tools/seedimport.py: scratch worktree of /repo HEAD under /tmp, git apply, pytest (baseline command), demo before/after; worktree removed'}})
            json.dump(meta, open(os.path.join(dst, 'meta.json'), 'w'), indent=1)
    finally:
        subprocess.run(['git', '-C', '/repo', 'worktree', 'remove', '--force', scratch])
