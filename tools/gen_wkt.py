#!/usr/bin/env python3
"""Translator tie for C13: the WKT grammar of /repo as Gallina data.

Reads the compiled regular expressions of geostructures/_base.py (and the keyword regex and
parser table of parsers.py) from the CURRENT tree, parses the pattern text with the standard
library's regex parser, and writes them as terms of WktM.re.  Fail-closed: any construct
outside the whitelist raises, the generated file is then missing and GenEq fails.
coq/geneq/WktGenEq.v proves (by computation, after flattening nested sequences) that the
generated terms are the ones the model uses."""
import ast
import importlib
import os
import re
import sys

try:
    import re._parser as sre_parse
    import re._constants as C
except ImportError:                      # pragma: no cover  (python < 3.11)
    import sre_parse
    import sre_constants as C


class Abstain(Exception):
    pass


def ascii_lit(n):
    if not 0 <= n < 128:
        raise Abstain(f'non-ASCII literal {n}')
    return f'(ascii_of_nat {n})'


def cls(item):
    op, av = item
    if op is C.LITERAL:
        return f'CChar {ascii_lit(av)}'
    if op is C.RANGE:
        return f'CRange {ascii_lit(av[0])} {ascii_lit(av[1])}'
    if op is C.CATEGORY:
        if av is C.CATEGORY_DIGIT:
            return 'CDigit'
        if av is C.CATEGORY_SPACE:
            return 'CSpace'
    raise Abstain(f'class item {item!r}')


def seq(sub):
    return 'RSeq [' + '; '.join(node(x) for x in sub) + ']'


def node(item):
    op, av = item
    if op is C.LITERAL:
        return f'RSet false [CChar {ascii_lit(av)}]'
    if op is C.IN:
        neg = bool(av) and av[0][0] is C.NEGATE
        items = av[1:] if neg else av
        return f'RSet {"true" if neg else "false"} [' + '; '.join(cls(x) for x in items) + ']'
    if op is C.MAX_REPEAT:
        lo, hi, sub = av
        his = 'None' if hi is C.MAXREPEAT else f'(Some {hi}%nat)'
        return f'RRep {lo}%nat {his} ({seq(sub)})'
    if op is C.SUBPATTERN:
        group, add, dele, sub = av
        if add or dele:
            raise Abstain('inline flags')
        return f'RGroup ({seq(sub)})' if group is not None else f'({seq(sub)})'
    if op is C.BRANCH:
        return 'RAlt [' + '; '.join(seq(x) for x in av[1]) + ']'
    if op is C.AT:
        if av is C.AT_BEGINNING:
            return 'RBol'
        if av is C.AT_END:
            return 'REol'
    raise Abstain(f'regex construct {op!r} {av!r}')


def term(pattern):
    return seq(sre_parse.parse(pattern))


NAMES = [('g_coord', '_RE_COORD'), ('g_ring', '_RE_LINEAR_RING'), ('g_rings', '_RE_LINEAR_RINGS'), ('g_zm', '_RE_ZM'),
         ('g_point', '_RE_POINT_WKT'), ('g_polygon', '_RE_POLYGON_WKT'), ('g_linestring', '_RE_LINESTRING_WKT'),
         ('g_multipoint', '_RE_MULTIPOINT_WKT'), ('g_multipoint_nested', '_RE_MULTIPOINT_NESTED_WKT'),
         ('g_multipolygon', '_RE_MULTIPOLYGON_WKT'),
         ('g_multilinestring', '_RE_MULTILINESTRING_WKT')]


def main(repo, out_path):
    rep = {}
    base = importlib.import_module('geostructures._base')
    parsers = importlib.import_module('geostructures.parsers')
    assert os.path.realpath(base.__file__).startswith(os.path.realpath(repo)), (base.__file__, repo)
    lines = ['(* generated from %s by tools/gen_wkt.py; do not edit *)' % repo,
             'From Coq Require Import String Ascii.', 'From GV Require Import Prelude RingM WktM.', '']
    for gname, pyname in NAMES:
        rx = getattr(base, pyname, None)
        try:
            if rx is None:
                raise Abstain('missing')
            extra = rx.flags & ~(re.IGNORECASE | re.UNICODE)
            if extra:
                raise Abstain(f'flags {rx.flags}')
            lines.append(f'Definition {gname} : re := {term(rx.pattern)}.')
            lines.append(f'Definition {gname}_ic : bool := {"true" if rx.flags & re.IGNORECASE else "false"}.')
            rep[pyname] = 'translated'
        except Abstain as ex:
            rep[pyname] = f'abstained({ex})'
    # parse_wkt: the keyword regex (first argument of re.match) and the parser table
    src = open(os.path.join(repo, 'geostructures', 'parsers.py')).read()
    word = None
    for fn in ast.walk(ast.parse(src)):
        if isinstance(fn, ast.FunctionDef) and fn.name == 'parse_wkt':
            for call in ast.walk(fn):
                if (isinstance(call, ast.Call) and isinstance(call.func, ast.Attribute) and call.func.attr == 'match'
                        and call.args and isinstance(call.args[0], ast.Constant) and isinstance(call.args[0].value, str)
                        and len(call.args) == 2 and not call.keywords):
                    word = call.args[0].value
    try:
        if word is None:
            raise Abstain('keyword regex of parse_wkt not found')
        lines.append(f'Definition g_word : re := {term(word)}.')
        rep['parse_wkt keyword regex'] = 'translated'
    except Abstain as ex:
        rep['parse_wkt keyword regex'] = f'abstained({ex})'
    keys = [(k, v.__name__) for k, v in parsers._PARSER_MAP.items()]
    lines.append('Definition g_parser_map : list (string * string) := [' +
                 '; '.join(f'("{k}"%string, "{v}"%string)' for k, v in keys) + '].')
    rep['_PARSER_MAP'] = 'dumped'
    with open(out_path, 'w') as f:
        f.write('\n'.join(lines) + '\n')
    return rep


if __name__ == '__main__':
    print(main(sys.argv[1], sys.argv[2]))
