#!/usr/bin/env python3
"""Fail-closed Python-AST -> Gallina translator for the straight-line decision code and the
numeric formulas of geostructures.

Every run of a check regenerates its `*Gen.v` from /repo's working tree with this script; the
hand-written `coq/geneq/*GenEq.v` then proves, for all arguments, that the generated
definitions equal the hand model the theorems are about.  The translator abstains (raises
`Abstain`) on any construct outside its whitelist - it never guesses.  It is part of the
trusted base: what it claims is "this Gallina term computes what this Python function
computes, under the stated datatype abstraction" (datetime -> Z microseconds UTC, float -> R,
TimeInterval -> record iv, exceptions -> Err kind).

Types used during translation (a tiny checker, enough to pick the right Gallina operator):
  'Z' 'bool' 'R' 'iv' 'optiv' ('pair', t1, t2) ('res', t) ('opt', t) 'shape' 'none'
"""
import ast
import sys
import textwrap


class Abstain(Exception):
    pass


def fail(node, why):
    line = getattr(node, 'lineno', '?')
    raise Abstain(f'line {line}: {why}: {ast.dump(node)[:120] if isinstance(node, ast.AST) else node}')


class FnSpec:
    """What to translate: a function/method, the Gallina name, parameter names+types (self
    first for methods), the return type, and an optional class name."""

    def __init__(self, pyname, gname, params, ret, cls=None):
        self.pyname, self.gname, self.params, self.ret, self.cls = pyname, gname, params, ret, cls


class Env:
    """Translation environment: how attributes, calls and operators of typed values map."""

    def __init__(self):
        self.fields = {}     # (type, attr) -> (gallina accessor, type)
        self.props = {}      # (type, attr) -> (gallina fn, type)      zero-arg property
        self.methods = {}    # (type, method, argtypes...) -> (gallina fn, ret type)
        self.funcs = {}      # (name, argtypes...) -> (gallina fmt with {0}.., ret type)
        self.ctors = {}      # (name, argtypes...) -> (gallina fn, ret type)
        self.contains = {}   # (container type, item type) -> gallina fn (container item)
        self.consts = {}     # name -> (gallina, type)
        self.isinst = {}     # class name -> set of types for which isinstance is True
        self.identity = set()  # function/method names that are the identity on the abstraction
        self.truthy = {}     # type -> fmt turning a value into bool ("{0}" placeholder)
        self.always_truthy = set()   # object types without __bool__/__len__ (an Optional of them is truthy iff not None)


CMP_Z = {ast.Lt: '({0} <? {1})', ast.LtE: '({0} <=? {1})', ast.Gt: '({1} <? {0})',
         ast.GtE: '({1} <=? {0})', ast.Eq: '({0} =? {1})', ast.NotEq: 'negb ({0} =? {1})'}


class Tr:
    def __init__(self, env, spec, selfcls_types=None):
        self.env, self.spec = env, spec
        self.vars = dict(spec.params)      # name -> type
        self.ret = spec.ret
        self.raises = isinstance(spec.ret, tuple) and spec.ret[0] == 'res'
        self.narrow = {}                   # source text of an Optional expression -> (bound var, T)
        self.fresh = 0

    # ---------------- expressions ----------------
    def expr(self, n):
        """returns (gallina string, type)"""
        e = self.env
        key = ast.unparse(n) if isinstance(n, (ast.Attribute, ast.Name)) else None
        if key is not None and key in self.narrow:
            return self.narrow[key]
        if isinstance(n, ast.Name):
            if n.id in self.vars:
                return n.id if n.id not in ('end', 'at', 'in') else n.id + '_', self.vars[n.id]
            if n.id in e.consts:
                return e.consts[n.id]
            fail(n, 'unknown name')
        if isinstance(n, ast.Constant):
            if n.value is True:
                return 'true', 'bool'
            if n.value is False:
                return 'false', 'bool'
            if n.value is None:
                return 'None', 'none'
            if isinstance(n.value, int):
                return f'{n.value}', 'num'
            if isinstance(n.value, float):
                fr = n.value.as_integer_ratio()
                return (f'({fr[0]} / {fr[1]})' if fr[1] != 1 else f'{fr[0]}'), 'num'
            fail(n, 'constant')
        if isinstance(n, ast.Attribute):
            v, t = self.expr(n.value)
            if (t, n.attr) in e.fields:
                acc, ft = e.fields[(t, n.attr)]
                return f'({acc} {v})', ft
            if (t, n.attr) in e.props:
                fn, ft = e.props[(t, n.attr)]
                return f'({fn} {v})', ft
            fail(n, f'attribute {n.attr} of {t}')
        if isinstance(n, ast.Tuple):
            parts = [self.expr(x) for x in n.elts]
            if len(parts) != 2:
                fail(n, 'tuple arity')
            return f'({parts[0][0]}, {parts[1][0]})', ('pair', parts[0][1], parts[1][1])
        if isinstance(n, ast.UnaryOp):
            if isinstance(n.op, ast.Not):
                return f'negb {self.boolean(n.operand)}', 'bool'
            if isinstance(n.op, ast.USub):
                v, t = self.expr(n.operand)
                return f'(- {v})', t
            fail(n, 'unary op')
        if isinstance(n, ast.BoolOp) and isinstance(n.op, ast.And) and len(n.values) >= 2:
            nar = self.and_narrow(n)
            if nar is not None:
                return nar, 'bool'
        if isinstance(n, ast.ListComp):
            return self.listcomp(n)
        if isinstance(n, ast.Subscript):
            v, t = self.expr(n.value)
            k, tk = self.expr(n.slice)
            if (t, '__getitem__', tk) in e.methods:
                fn, rt = e.methods[(t, '__getitem__', tk)]
                return f'({fn} {v} {k})', rt
            fail(n, f'subscript of {t} by {tk}')
        if isinstance(n, ast.BoolOp):
            vals = [self.boolean(v) for v in n.values]
            op = ' && ' if isinstance(n.op, ast.And) else ' || '
            out = vals[-1]
            for v in reversed(vals[:-1]):
                out = f'({v}{op}{out})'
            return out, 'bool'
        if isinstance(n, ast.Compare):
            return self.compare(n), 'bool'
        if isinstance(n, ast.IfExp):
            c = self.static_test(n.test)
            if c is True:
                return self.expr(n.body)
            if c is False:
                return self.expr(n.orelse)
            a, ta = self.expr(n.body)
            b, tb = self.expr(n.orelse)
            return f'(if {self.boolean(n.test)} then {a} else {b})', self.join(ta, tb, n)
        if isinstance(n, ast.BinOp):
            a, ta = self.expr(n.left)
            b, tb = self.expr(n.right)
            t = self.join(ta, tb, n)
            if isinstance(n.op, ast.Pow):
                if isinstance(n.right, ast.Constant) and n.right.value == 2:
                    return f'({a} * {a})', ta
                fail(n, 'power')
            ops = {ast.Add: '+', ast.Sub: '-', ast.Mult: '*'}
            if type(n.op) in ops:
                return f'({a} {ops[type(n.op)]} {b})', t
            if isinstance(n.op, ast.Div) and t in ('R', 'num'):
                return f'({a} / {b})', 'R'
            fail(n, 'binary op')
        if isinstance(n, ast.Call):
            return self.call(n)
        fail(n, 'expression')

    def and_narrow(self, n):
        """`X is not None and REST` with X an Optional attribute/name: REST sees X narrowed
        (match X with Some v => REST | None => false end); None when the shape does not apply"""
        first = n.values[0]
        if not (isinstance(first, ast.Compare) and len(first.ops) == 1 and isinstance(first.ops[0], ast.IsNot)
                and isinstance(first.comparators[0], ast.Constant) and first.comparators[0].value is None
                and isinstance(first.left, (ast.Attribute, ast.Name))):
            return None
        src, t = self.expr(first.left)
        if not (isinstance(t, tuple) and t[0] == 'opt'):
            return None
        saved = dict(self.narrow)
        self.fresh += 1
        v = f'nv{self.fresh}'
        self.narrow[ast.unparse(first.left)] = (v, t[1])
        rest = n.values[1:]
        body = self.boolean(rest[0]) if len(rest) == 1 else self.expr(ast.BoolOp(op=ast.And(), values=rest))[0]
        self.narrow = saved
        return f'(match {src} with Some {v} => {body} | None => false end)'

    def listcomp(self, n):
        """[elt for x in xs if c ...]  ->  map (fun x => elt) (filter (fun x => c) xs)   (one generator)"""
        if len(n.generators) != 1 or n.generators[0].is_async:
            fail(n, 'comprehension shape')
        g = n.generators[0]
        if not isinstance(g.target, ast.Name):
            fail(n, 'comprehension target')
        it, t = self.expr(g.iter)
        if not (isinstance(t, tuple) and t[0] == 'list'):
            fail(n, f'comprehension over {t}')
        saved = dict(self.vars)
        self.vars[g.target.id] = t[1]
        x = g.target.id
        src = it
        for c in g.ifs:
            src = f'(filter (fun {x} => {self.boolean(c)}) {src})'
        if isinstance(n.elt, ast.Name) and n.elt.id == x:
            out, et = src, t[1]
        else:
            ev, et = self.expr(n.elt)
            out = f'(map (fun {x} => {ev}) {src})'
        self.vars = saved
        return out, ('list', et)

    def join(self, ta, tb, n):
        if ta == tb:
            return ta
        if {ta, tb} == {'Z', 'delta'}:
            return 'Z'
        if ta == 'num':
            return tb
        if tb == 'num':
            return ta
        if ta == 'none' and isinstance(tb, tuple) and tb[0] == 'opt':
            return tb
        if tb == 'none' and isinstance(ta, tuple) and ta[0] == 'opt':
            return ta
        fail(n, f'type join {ta} {tb}')

    def boolean(self, n):
        c = self.static_test(n)
        if c is not None:
            return 'true' if c else 'false'
        v, t = self.expr(n)
        if t == 'bool':
            return v
        if t in self.env.truthy:
            return self.env.truthy[t].format(v)
        fail(n, f'truthiness of {t}')

    def static_test(self, n):
        """isinstance tests are decided by the declared (specialised) parameter types."""
        if isinstance(n, ast.Call) and isinstance(n.func, ast.Name) and n.func.id == 'isinstance':
            v, t = self.expr(n.args[0])
            cls = n.args[1]
            if not isinstance(cls, ast.Name) or cls.id not in self.env.isinst:
                fail(n, 'isinstance class')
            return t in self.env.isinst[cls.id]
        if isinstance(n, ast.UnaryOp) and isinstance(n.op, ast.Not):
            c = self.static_test(n.operand)
            return None if c is None else (not c)
        return None

    def compare(self, n):
        if len(n.ops) == 1:
            return self.cmp1(n.left, n.ops[0], n.comparators[0], n)
        # chained: a op b op c  ==  (a op b) && (b op c)   (operands are pure here)
        parts, left = [], n.left
        for op, right in zip(n.ops, n.comparators):
            parts.append(self.cmp1(left, op, right, n))
            left = right
        out = parts[-1]
        for p in reversed(parts[:-1]):
            out = f'({p} && {out})'
        return out

    def cmp1(self, l, op, r, n):
        if isinstance(op, (ast.In, ast.NotIn)):
            item, ti = self.expr(l)
            cont, tc = self.expr(r)
            if (tc, ti) not in self.env.contains:
                fail(n, f'`in` for {ti} in {tc}')
            s = f'({self.env.contains[(tc, ti)]} {cont} {item})'
            return s if isinstance(op, ast.In) else f'negb {s}'
        if isinstance(op, (ast.Is, ast.IsNot)):
            a, ta = self.expr(l)
            if isinstance(r, ast.Constant) and r.value is None and isinstance(ta, tuple) and ta[0] == 'opt':
                s = f'(match {a} with None => true | Some _ => false end)'
                return s if isinstance(op, ast.Is) else f'negb {s}'
            fail(n, 'is')
        a, ta = self.expr(l)
        b, tb = self.expr(r)
        t = self.join(ta, tb, n)
        if t in ('Z', 'num'):
            return CMP_Z[type(op)].format(a, b)
        if t == 'R':
            fail(n, 'comparison of reals is not computable; abstain')
        if (t, '==') in self.env.props and isinstance(op, ast.Eq):
            return f'({self.env.props[(t, "==")][0]} {a} {b})'
        fail(n, f'comparison at type {t}')

    def call(self, n):
        e = self.env
        if isinstance(n.func, ast.Name) and n.func.id in ('all', 'any') and len(n.args) == 1 \
                and isinstance(n.args[0], ast.GeneratorExp):
            g = n.args[0]
            if len(g.generators) != 1 or g.generators[0].ifs or g.generators[0].is_async:
                fail(n, 'generator shape')
            fn, it = self.lam(g.generators[0].target, g.generators[0].iter, lambda: self.boolean(g.elt))
            return f'(loop_{"all" if n.func.id == "all" else "any"} {fn} {it})', 'bool'
        if isinstance(n.func, ast.Call) and ast.unparse(n.func) == 'type(self)' and len(n.args) == 1 and not n.keywords:
            a, ta = self.expr(n.args[0])
            sv, st = self.expr(ast.Name(id='self', ctx=ast.Load()))
            if ('type(self)', st, ta) in e.funcs:
                fmt, rt = e.funcs[('type(self)', st, ta)]
                return fmt.format(sv, a), rt
            fail(n, f'type(self)(...) for {st} with {ta}')
        args = [self.expr(a) for a in n.args]
        if any(k.arg is not None for k in n.keywords):
            fail(n, 'keyword arguments')      # a bare **kwargs pass-through is ignored
        ats = tuple(t for _, t in args)
        avs = [v for v, _ in args]
        if isinstance(n.func, ast.Name):
            name = n.func.id
            if name in e.identity and len(args) == 1:
                return args[0]
            if name == 'hash' and len(args) == 1:
                return args[0]                     # the hashed key itself is the observable
            if name in ('all', 'any') and len(n.args) == 1 and isinstance(n.args[0], ast.GeneratorExp):
                pass
            if name in ('min', 'max') and len(args) == 2:
                t = self.join(ats[0], ats[1], n)
                if t == 'Z':
                    return f'(Z.{name} {avs[0]} {avs[1]})', 'Z'
                if t == 'R':
                    return f'(R{name} {avs[0]} {avs[1]})', 'R'
                fail(n, 'min/max type')
            if (name,) + ats in e.ctors:
                fn, rt = e.ctors[(name,) + ats]
                return f'({fn} {" ".join(avs)})', rt
            key = (name,) + tuple('R' if t == 'num' else t for t in ats)
            if key in e.funcs:
                fmt, rt = e.funcs[key]
                return fmt.format(*avs), rt
            fail(n, f'call {name}{ats}')
        if isinstance(n.func, ast.Attribute):
            # math.f(x)
            if isinstance(n.func.value, ast.Name) and n.func.value.id == 'math':
                key = ('math.' + n.func.attr,) + tuple('R' for _ in ats)
                if key in e.funcs:
                    fmt, rt = e.funcs[key]
                    return fmt.format(*avs), rt
                fail(n, f'math.{n.func.attr}')
            m = n.func.attr
            if m in e.identity and len(args) == 1:
                return args[0]
            recv, tr_ = self.expr(n.func.value)
            if (tr_, m) + ats in e.methods:
                fn, rt = e.methods[(tr_, m) + ats]
                return f'({fn} {recv} {" ".join(avs)})'.replace(' )', ')'), rt
            fail(n, f'method {m} of {tr_} with {ats}')
        fail(n, 'call form')

    # ---------------- statements ----------------
    def ret_value(self, n):
        """translate `return <n>` to a term of the declared return type"""
        v, t = self.expr(n) if n is not None else ('None', 'none')
        rt = self.ret
        if t == 'num':
            t = rt if rt in ('Z', 'R') else t
        if t == rt:
            return v
        if self.raises:
            inner = rt[1]
            if t == inner:
                return f'(Ok {v})'
            if isinstance(inner, tuple) and inner[0] == 'opt':
                if t == 'none':
                    return '(Ok None)'
                if t == inner[1]:
                    return f'(Ok (Some {v}))'
                if t == ('res', inner[1]):
                    return f'(res_some {v})'
            if t == 'num' and inner in ('Z', 'R'):
                return f'(Ok {v})'
        if isinstance(rt, tuple) and rt[0] == 'opt':
            if t == 'none':
                return 'None'
            if t == rt[1]:
                return f'(Some {v})'
        fail(n, f'return of {t} where {rt} expected')

    def block(self, stmts):
        if not stmts:
            raise Abstain('control reaches the end of the function without return')
        s, rest = stmts[0], stmts[1:]
        if isinstance(s, ast.Expr):
            if isinstance(s.value, ast.Constant) and isinstance(s.value.value, str):
                return self.block(rest)          # docstring
            if isinstance(s.value, ast.Call) and ast.unparse(s.value) in ('super().__init__()',):
                return self.block(rest)
            fail(s, 'expression statement')
        if isinstance(s, ast.ImportFrom) and (s.module or '').startswith('geostructures'):
            return self.block(rest)              # local import of the library's own names
        if isinstance(s, ast.Return):
            return self.ret_value(s.value)
        if isinstance(s, ast.Raise):
            if not self.raises:
                fail(s, 'raise in a function declared not to raise')
            exc = s.exc.func.id if isinstance(s.exc, ast.Call) else getattr(s.exc, 'id', None)
            if exc not in ('ValueError', 'KeyError', 'TypeError', 'IndexError'):
                fail(s, 'exception kind')
            return f'(Err {exc})'
        if isinstance(s, ast.If):
            c = self.static_test(s.test)
            if c is True:
                return self.block(s.body + ([] if self.terminates(s.body) else rest))
            if c is False:
                return self.block(s.orelse + rest)
            nar = self.narrowing_if(s, rest)
            if nar is not None:
                return nar
            cond = self.boolean(s.test)
            saved = dict(self.vars)
            a = self.block(s.body + ([] if self.terminates(s.body) else rest))
            self.vars = dict(saved)
            b = self.block(s.orelse + ([] if (s.orelse and self.terminates(s.orelse)) else rest))
            self.vars = saved
            return f'(if {cond} then {a} else {b})'
        if isinstance(s, ast.For):
            return self.for_loop(s, rest)
        if isinstance(s, ast.Assign) and len(s.targets) == 1 and isinstance(s.targets[0], ast.Name) and \
                isinstance(s.value, ast.List) and not s.value.elts and rest and isinstance(rest[0], ast.For):
            return self.collect_loop(s.targets[0].id, rest[0], rest[1:])
        if isinstance(s, ast.Assign):
            if len(s.targets) != 1:
                fail(s, 'multiple targets')
            tg = s.targets[0]
            if isinstance(tg, ast.Name):
                v, t = self.expr(s.value)
                if t == 'num':
                    t = 'R' if self.spec.ret == 'R' or 'R' in self.vars.values() else 'Z'
                self.vars[tg.id] = t
                nm = tg.id if tg.id not in ('end', 'at', 'in') else tg.id + '_'
                return f'(let {nm} := {v} in {self.block(rest)})'
            if isinstance(tg, ast.Tuple) and isinstance(s.value, ast.Tuple) and \
                    all(isinstance(x, ast.Attribute) and isinstance(x.value, ast.Name)
                        and x.value.id == 'self' for x in tg.elts):
                # `self.a, self.b = e1, e2` at the end of __init__: build the record
                vals = [self.expr(x)[0] for x in s.value.elts]
                names = [x.attr for x in tg.elts]
                if rest:
                    fail(s, 'statements after the field assignment of __init__')
                key = ('record',) + tuple(names)
                if key not in self.env.ctors:
                    fail(s, 'record fields')
                return f'(Ok ({self.env.ctors[key][0]} {" ".join(vals)}))'
            fail(s, 'assignment target')
        fail(s, 'statement')

    def lam(self, target, iter_node, body_fn):
        """(fun x => body) and the iterated list, for `for x in xs` / generator expressions"""
        if not isinstance(target, ast.Name):
            fail(target, 'loop target')
        it, t = self.expr(iter_node)
        if not (isinstance(t, tuple) and t[0] == 'list'):
            fail(iter_node, f'iteration over {t}')
        saved = dict(self.vars)
        self.vars[target.id] = t[1]
        body = body_fn()
        self.vars = saved
        return f'(fun {target.id} => {body})', it

    def for_loop(self, s, rest):
        """`for x in xs: if c: return True` (then rest)   ->  if loop_any (fun x => c) xs then true else rest
           `for x in xs: if not c: return False` (then rest) -> if loop_all (fun x => c) xs then rest else false
        a trailing unconditional `return <bool>` inside the loop body (the D6 shape) is NOT accepted"""
        if s.orelse or len(s.body) != 1 or not isinstance(s.body[0], ast.If):
            fail(s, 'for-loop shape')
        iff = s.body[0]
        if iff.orelse or len(iff.body) != 1 or not isinstance(iff.body[0], ast.Return) or \
                not isinstance(iff.body[0].value, ast.Constant) or not isinstance(iff.body[0].value.value, bool):
            fail(s, 'for-loop body')
        if self.ret != 'bool':
            fail(s, 'for-loop in a non-boolean function')
        early = iff.body[0].value.value
        if early:
            fn, it = self.lam(s.target, s.iter, lambda: self.boolean(iff.test))
            return f'(if loop_any {fn} {it} then true else {self.block(rest)})'
        test = iff.test
        if isinstance(test, ast.UnaryOp) and isinstance(test.op, ast.Not):
            fn, it = self.lam(s.target, s.iter, lambda: self.boolean(test.operand))
        else:
            fn, it = self.lam(s.target, s.iter, lambda: 'negb ' + self.boolean(test))
        return f'(if loop_all {fn} {it} then {self.block(rest)} else false)'

    def collect_loop(self, acc, loop, rest):
        """acc = []
           for x in xs:
               if c1: raise E          (optional)
               if c2: acc.append(x)
           <rest, which may use acc>
        ->  match loop_collect (fun x => if c1 then None else Some c2) xs with
            | None => Err E | Some acc => <rest> end"""
        if loop.orelse or not isinstance(loop.target, ast.Name):
            fail(loop, 'collect-loop shape')
        body = list(loop.body)
        raise_part = None
        if len(body) == 2:
            r = body[0]
            if not (isinstance(r, ast.If) and not r.orelse and len(r.body) == 1 and isinstance(r.body[0], ast.Raise)):
                fail(loop, 'collect-loop guard')
            raise_part = r
            body = body[1:]
        if len(body) != 1:
            fail(loop, 'collect-loop body')
        a = body[0]
        if not (isinstance(a, ast.If) and not a.orelse and len(a.body) == 1 and isinstance(a.body[0], ast.Expr)
                and ast.unparse(a.body[0].value) == f'{acc}.append({loop.target.id})'):
            fail(loop, 'collect-loop append')
        it, t = self.expr(loop.iter)
        if not (isinstance(t, tuple) and t[0] == 'list'):
            fail(loop, f'iteration over {t}')
        saved = dict(self.vars)
        self.vars[loop.target.id] = t[1]
        keep = self.boolean(a.test)
        if raise_part is not None:
            if not self.raises:
                fail(loop, 'raise in a function declared not to raise')
            exc = raise_part.body[0].exc
            exc = exc.func.id if isinstance(exc, ast.Call) else getattr(exc, 'id', None)
            if exc not in ('ValueError', 'KeyError', 'TypeError', 'IndexError'):
                fail(loop, 'exception kind')
            guard = self.boolean(raise_part.test)
            fn = f'(fun {loop.target.id} => if {guard} then None else Some {keep})'
        else:
            exc = 'ValueError'
            fn = f'(fun {loop.target.id} => Some {keep})'
        self.vars = saved
        self.vars[acc] = t
        out = f'(match loop_collect {fn} {it} with None => Err {exc} | Some {acc} => {self.block(rest)} end)'
        self.vars = saved
        return out

    def opt_operands(self, test):
        """the test is a conjunction of Optional-typed expressions used for their truthiness
        (objects without __bool__/__len__: truthy iff not None) -> list of (node, T), else None"""
        parts = test.values if isinstance(test, ast.BoolOp) and isinstance(test.op, ast.And) else [test]
        out = []
        for p_ in parts:
            if not isinstance(p_, (ast.Attribute, ast.Name)):
                return None
            try:
                _, t = self.expr(p_)
            except Abstain:
                return None
            if not (isinstance(t, tuple) and t[0] == 'opt' and t[1] in self.env.always_truthy):
                return None
            out.append((p_, t[1]))
        return out

    def narrowing_if(self, s, rest):
        # form 1: `if A and B: body` with A, B Optional objects
        ops = self.opt_operands(s.test)
        if ops:
            else_blk = s.orelse + ([] if (s.orelse and self.terminates(s.orelse)) else rest)
            saved = dict(self.narrow)
            binds = []
            for node, t in ops:
                self.fresh += 1
                v = f'nv{self.fresh}'
                binds.append((self.expr(node)[0], v))
                self.narrow[ast.unparse(node)] = (v, t)
            body = self.block(s.body + ([] if self.terminates(s.body) else rest))
            self.narrow = saved
            els = self.block(else_blk)
            out = body
            for src, v in reversed(binds):
                out = f'(match {src} with Some {v} => {out} | None => {els} end)'
            return out
        # form 2: `if X is None: <terminating body>` -> rest sees X narrowed
        t_ = s.test
        if isinstance(t_, ast.Compare) and len(t_.ops) == 1 and isinstance(t_.ops[0], ast.Is) and \
                isinstance(t_.comparators[0], ast.Constant) and t_.comparators[0].value is None and \
                isinstance(t_.left, (ast.Attribute, ast.Name)) and not s.orelse and self.terminates(s.body):
            src, t = self.expr(t_.left)
            if isinstance(t, tuple) and t[0] == 'opt':
                none_blk = self.block(s.body)
                saved = dict(self.narrow)
                self.fresh += 1
                v = f'nv{self.fresh}'
                self.narrow[ast.unparse(t_.left)] = (v, t[1])
                some_blk = self.block(rest)
                self.narrow = saved
                return f'(match {src} with None => {none_blk} | Some {v} => {some_blk} end)'
        return None

    def terminates(self, stmts):
        if not stmts:
            return False
        last = stmts[-1]
        if isinstance(last, (ast.Return, ast.Raise)):
            return True
        if isinstance(last, ast.If):
            return self.terminates(last.body) and bool(last.orelse) and self.terminates(last.orelse)
        return False


GT = {'Z': 'Z', 'bool': 'bool', 'R': 'R', 'iv': 'iv'}


def gtype(t):
    if isinstance(t, str):
        return GT.get(t, t)
    if t[0] == 'res':
        return f'res ({gtype(t[1])})'
    if t[0] == 'opt':
        return f'option ({gtype(t[1])})'
    if t[0] == 'pair':
        return f'({gtype(t[1])} * {gtype(t[2])})'
    if t[0] == 'list':
        return f'list ({gtype(t[1])})'
    raise Abstain(f'type {t}')


def find_def(tree, spec):
    body = tree.body
    if spec.cls:
        for n in body:
            if isinstance(n, ast.ClassDef) and n.name == spec.cls:
                body = n.body
                break
        else:
            raise Abstain(f'class {spec.cls} not found')
    for n in body:
        if isinstance(n, (ast.FunctionDef,)) and n.name == spec.pyname:
            return n
    raise Abstain(f'function {spec.pyname} not found')


def translate_fn(tree, env, spec):
    fd = find_def(tree, spec)
    pynames = [a.arg for a in fd.args.args]
    if spec.pyname == '__init__':
        pynames = pynames[1:]          # constructors: `self` is the value being built
    declared = [p for p, _ in spec.params]
    if pynames[:len(declared)] != declared:
        raise Abstain(f'{spec.pyname}: parameters {pynames} do not start with the declared {declared}')
    for extra in fd.args.args[len(declared):]:
        pass  # trailing parameters must have defaults and must not be referenced; referencing fails as unknown name
    tr = Tr(env, spec)
    body = tr.block(list(fd.body))
    params = ' '.join(f'({p if p not in ("end", "at", "in") else p + "_"} : {gtype(t)})' for p, t in spec.params)
    return f'Definition {spec.gname} {params} : {gtype(spec.ret)} :=\n  {body}.\n'


def translate_module(path, env, specs, header):
    """returns (text, report) ; abstentions become Gallina comments and are listed"""
    tree = ast.parse(open(path).read())
    out, report = [header], {}
    for sp in specs:
        try:
            out.append(translate_fn(tree, env, sp))
            report[sp.gname] = 'translated'
        except Abstain as ex:
            out.append(f'(* ABSTAINED {sp.gname}: {str(ex).replace("*)", "* )")} *)\n')
            report[sp.gname] = f'abstained: {ex}'
    return '\n'.join(out), report
