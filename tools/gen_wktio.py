#!/usr/bin/env python3
"""Translator tie for C13, writer / reader ASSEMBLY: regenerates WktIoGen.v from the `to_wkt` methods,
`_linear_ring_to_wkt`, `Coordinate.to_str`, `Coordinate.from_wkt`, `_parse_wkt_linear_ring`, the six `from_wkt`
class methods (after the regex gate) and `parsers.parse_wkt` of the CURRENT tree.  coq/geneq/WktIoGenEq.v proves
the generated definitions equal WktM's token-level `write`, `coord_of`, `read` (= gate + parse_body + assemble) and
`parse_wkt` for ALL arguments.  (The regular expressions themselves and the keyword table are tied by
tools/gen_wkt.py / WktGenEq.v; GeoPolygon.__init__ by tools/gen_ring.py / RingGenEq.v.)

Uses tools/translate.py unchanged, through gen_bounds.TrB (hoisting of raising sub-expressions in evaluation
order).  What the subclass `TrW` adds - and what therefore belongs to the trusted base next to translate.py:

TEXT -> WktM's token tree.  A piece of WKT text is never a Gallina string; it has one of the types
    numstr          str(<float>)                       -> the number (Z)
    ctxt            one coordinate text "x y [z [m]]"  -> WktM.tuple (list Z)
    (seq n)         items separated by commas, not parenthesised      -> list^n tuple
    (grp n)         "(" seq n ")"                                      -> list^n tuple
    (cont n)        a tail of a seq n, every item preceded by its comma -> list^n tuple
    wkt             KEYWORD + group                     -> WktM.wkt  (mkwkt (Some tag) true [] (Wn ...))
and exactly these string idioms are mapped (anything else abstains):
    str(x) of a number; " ".join(<tuple of numstr>) -> ctxt;
    ",".join(X) and ", ".join(X), X a list / generator / comprehension of ctxt -> seq 1, of grp k -> seq (k+1)
        (white space after a comma is not part of the token tree; any other separator abstains);
    "".join(G), every element of G being  ", " + <grp k>  (or "," + ...) -> cont (k+1);
    f-strings and `+` chains whose literal parts consist only of ONE capital keyword (POINT, LINESTRING, POLYGON,
        MULTIPOINT, MULTILINESTRING, MULTIPOLYGON) at the very start, "(", ")", "," and one blank after a comma:
        the pieces are parsed by the grammar  text := [KEYWORD] group | [KEYWORD] <grp value>;
        group := "(" seq ")";  seq := <seq value> | item ("," item)* [<cont value>];  item := <ctxt> | <grp> | group;
        all items of a seq must have the same depth.  An empty group, a seq value with siblings, any other
        character abstain.
    On the READING side the text enters as the token tree: `wkt_str` is a WktM.wkt;
        _RE_<TYPE>_WKT.match(wkt_str)   -> WktM.gate <tag> wkt_str  (MULTIPOINT: gate restricted to the flat (W1) /
                                           nested (W2) body for _RE_MULTIPOINT_WKT / _RE_MULTIPOINT_NESTED_WKT),
        _RE_LINEAR_RING.findall(t)      -> the ring groups of the tree in text order (findall_ring; of a rings group: itself),
        _RE_LINEAR_RINGS.findall(t)     -> the groups of rings (findall_rings),
        _RE_COORD.findall(t)            -> the coordinate texts in order (of a ring group: itself; of a ctxt: [t]),
        _RE_ZM.findall(wkt_str)         -> [] when the tree has no Z/M marker, else [marker],
        ctxt.split(' ')                 -> the list of its number texts; map(float, l) -> l (float(text) is the number:
                                           the lexical side is the character-level correspondence),
        re.match(r'^[a-zA-Z]+', wkt)    -> Section variable has_word (a text without leading word has w_tag = None:
                                           hypothesis of the lemma), .group() -> (w_tag, w_upper).
Other abstractions: float -> Z (RingM units); Coordinate -> RingM.coord (m is not represented: `self.m` -> None,
the m= argument of Coordinate(...) is dropped); "Z"/"M" letters in either case -> WktM.zml, a string of them -> list zml;
dict(zip(ks, vs)) over those letters -> association list in insertion order, .get(k) -> the LAST value stored for k;
`X or None` for a list X handed to holes= -> X (PolygonBase.__init__ stores list(holes or [])); `X or L` -> L when X = [];
GeoPoint(c) -> c, GeoLineString(vs) -> vs, Multi*(l) -> l (their __init__ are checked to be `super().__init__(...)`
+ one store of the first argument, else abstain), GeoPolygon(r) (no holes=) -> WktM.ctor half r (its bounding_coords()
as a hole: the normalised outline; GeoPolygon.__init__ is RingGenEq.geq_polygon_init), GeoPolygon(r, holes=H) ->
mkpoly (ctor r) H; dt= / properties= pass-through keywords are dropped (time / properties are not part of RingM.geom);
`**kwargs` -> one value `kwargs : option Z` (only k matters), `**_` ignored; hole.bounding_coords(**kwargs) -> the hole's
ring (the k of a vertex-defined hole is invisible, as RingM.geom_rings states); self.linear_rings(**kwargs) -> a
function-valued field of the receiver (linear_rings itself is tied with C14); GeoCircle(c, r).bounding_coords(**kwargs)
-> Section variable circle_bc c r kwargs (WktM's oracle); `self.X(...)`/`cls.X(...)`/`super().X(...)` are resolved through
the real MRO of the imported class; GeoRing.angle_min / angle_max -> Z in degrees (only compared with the constants 0 and 360);
warn_once("...") has no effect; exceptions -> Err kind.
Loops: `acc = []` ... `for x in xs: <body>; acc.append(e)` -> loop_app (fun x => <body>; Ok e) xs acc (defined below,
proved equal to mapR in GenEq); a comprehension whose element can raise -> mapR; `[c for a in A for c in f(a)]` with a
raising f -> concat of mapR."""
import ast
import importlib
import os
import sys

sys.path.insert(0, os.path.dirname(__file__))
from translate import Env, FnSpec, Abstain, gtype, fail, GT   # noqa: E402
from gen_bounds import TrB, nm                                 # noqa: E402

HEADER = '''(* GENERATED by tools/gen_wktio.py from geostructures/{structures,multistructures,_base,coordinates,parsers}.py
   -- do not edit.  Abstraction (full statement: docstring of tools/gen_wktio.py):
   WKT text -> WktM's token tree: str(number) -> Z; " ".join(to_str()) -> tuple; ","/", ".join -> list of items;
   f-strings / + chains made of one capital KEYWORD, "(", ")", "," -> nested lists / mkwkt (Some tag) true [] (Wn ..);
   "".join(", " + item ...) -> a comma-led tail.  Reading: wkt_str : WktM.wkt; _RE_<T>_WKT.match -> gate <tag>;
   _RE_LINEAR_RING / _RE_LINEAR_RINGS / _RE_COORD / _RE_ZM .findall -> findall_ring / findall_rings / findall_coord /
   findall_zm of the tree; split(' ') and map(float, .) -> identity on the numbers.  float -> Z; Coordinate -> coord
   (m not represented); zm letters -> zml; dict(zip(..)) -> association list, .get -> last stored value;
   GeoPoint(c) -> c; GeoLineString(v) -> v; Multi*(l) -> l; GeoPolygon(r) -> ctor half r; GeoPolygon(r, holes=H) ->
   poly_ctor half r H; dt / properties dropped; **kwargs -> kwargs : option Z; exceptions -> Err kind. *)
From GV Require Import Prelude RingM WktM.
Open Scope Z_scope.
Definition index0 {A} (l : list A) : res A := match l with [] => Err IndexError | a :: _ => Ok a end.
(* acc = [..]; for x in xs: ...; acc.append(e) *)
Fixpoint loop_app {A B} (f : A -> res B) (xs : list A) (acc : list B) : res (list B) :=
  match xs with
  | [] => Ok acc
  | x :: t => match f x with Err e => Err e | Ok b => loop_app f t (acc ++ [b]) end
  end.
Definition loop_acc {A B} (f : A -> B) (xs : list A) (acc : list B) : list B :=
  fold_left (fun acc x => acc ++ [f x]) xs acc.
Definition zml_eqb (a b : zml) : bool := match a, b with LZ, LZ | LM, LM => true | _, _ => false end.
Definition zmdict := list (zml * Z).
Definition dict_of (l : list (zml * Z)) : zmdict := l.
Definition dict_get (k : zml) (d : zmdict) : option Z :=
  fold_left (fun acc kv => if zml_eqb (fst kv) k then Some (snd kv) else acc) d None.
(* Coordinate( *xy, z=.., m=..): exactly two positional values, else TypeError; m is not represented *)
Definition coordinate_star (xy : list Z) (z m : option Z) : res coord :=
  match xy with [a; b] => Ok (mkc a b z) | _ => Err TypeError end.
Definition cm (c : coord) : option Z := None.
Definition pt_coordinate (p : coord) : coord := p.
Definition ln_vertices (l : list coord) : list coord := l.
Definition hole_bc (h : ring) : ring := h.
Definition ml_geoshapes (m : list (list coord)) : list (list coord) := m.
Definition mp_geoshapes (m : list coord) : list coord := m.
Definition polybase := option Z -> list ring.
Definition pb_linear_rings (p : polybase) (k : option Z) : list ring := p k.
Definition mpolyrec := option Z -> list (list ring).
Definition mp_linear_rings (p : mpolyrec) (k : option Z) : list (list ring) := p k.
Record ringrec := mkringrec { rg_center : coord; rg_inner : Z; rg_outer : Z; rg_amin : Z; rg_amax : Z;
                              rg_holes : list ring; rg_linear_rings : option Z -> list ring }.
Definition rg_polybase (r : ringrec) : polybase := rg_linear_rings r.
Definition mk_circle (c : coord) (r : Z) : coord * Z := (c, r).
(* the matches of the sub-expressions in the token tree, in text order *)
Definition findall_ring (w : wkt) : list (list tuple) :=
  match w_body w with W1 l => [l] | W2 l => l | W3 l => concat l end.
Definition findall_rings (w : wkt) : list (list (list tuple)) :=
  match w_body w with W1 _ => [] | W2 l => [l] | W3 l => l end.
Definition findall_coord (w : wkt) : list tuple :=
  match w_body w with W1 l => l | W2 l => concat l | W3 l => concat (concat l) end.
Definition findall_zm (w : wkt) : list (list zml) := match w_zm w with [] => [] | m => [m] end.
Definition or_list {A} (a b : list A) : list A := match a with [] => b | _ :: _ => a end.
Definition word := (option wtag * bool)%type.
Definition wm_group (x : word) : word := x.
Definition parser := wkt -> res geom.
Definition pm_lookup (m : list (wtag * parser)) (wd : word) : option parser :=
  match wd with
  | (Some t, true) => match filter (fun kv => wtag_eqb (fst kv) t) m with kv :: _ => Some (snd kv) | [] => None end
  | _ => None
  end.
Definition pm_contains (m : list (wtag * parser)) (wd : word) : bool :=
  match pm_lookup m wd with Some _ => true | None => false end.
Definition pm_getitem (m : list (wtag * parser)) (wd : word) : res parser :=
  match pm_lookup m wd with Some p => Ok p | None => Err KeyError end.
Definition parser_from_wkt (p : parser) (w : wkt) : res geom := p w.
Section WktIoGen.
  Variable half : Z.
  Variable circle_bc : coord -> Z -> option Z -> ring.     (* GeoCircle(c, r).bounding_coords( **kwargs) *)
  Variable has_word : wkt -> bool.                          (* re.match('^[a-zA-Z]+', text) is not None *)
  Definition circle_bounding_coords (c : coord * Z) (k : option Z) : ring := circle_bc (fst c) (snd c) k.
  Definition leading_word (w : wkt) : option word := if has_word w then Some (w_tag w, w_upper w) else None.
  Definition gate_mpoint_flat (w : wkt) : bool :=
    gate TMPoint w && match w_body w with W1 _ => true | _ => false end.
  Definition gate_mpoint_nested (w : wkt) : bool :=
    gate TMPoint w && match w_body w with W2 _ => true | _ => false end.
  Definition poly_ctor (r : ring) (holes : list ring) : res polygon :=
    match ctor half r with Err e => Err e | Ok o => Ok (mkpoly o holes) end.
'''
FOOTER = '\nEnd WktIoGen.\n'

KEYWORDS = {'POINT': 'TPoint', 'LINESTRING': 'TLine', 'POLYGON': 'TPoly', 'MULTIPOINT': 'TMPoint',
            'MULTILINESTRING': 'TMLine', 'MULTIPOLYGON': 'TMPoly'}
GATES = {'_RE_POINT_WKT': 'gate TPoint', '_RE_POLYGON_WKT': 'gate TPoly', '_RE_LINESTRING_WKT': 'gate TLine',
         '_RE_MULTIPOINT_WKT': 'gate_mpoint_flat', '_RE_MULTIPOINT_NESTED_WKT': 'gate_mpoint_nested',
         '_RE_MULTIPOLYGON_WKT': 'gate TMPoly', '_RE_MULTILINESTRING_WKT': 'gate TMLine'}
WORD_RE = '^[a-zA-Z]+'

C, RG, TUP = 'coord', ('list', 'coord'), ('list', 'numstr')
CTXT = 'ctxt'
EMPTY = ('list', None)          # `[]` : element type not yet known


def is_list(t):
    return isinstance(t, tuple) and t[0] == 'list'


def is_txt(t):
    return isinstance(t, tuple) and t[0] in ('seq', 'grp', 'cont', 'contelt')


def const_int(n):
    if isinstance(n, ast.Constant) and type(n.value) is int:
        return n.value
    if isinstance(n, ast.UnaryOp) and isinstance(n.op, ast.USub) and isinstance(n.operand, ast.Constant) \
            and type(n.operand.value) is int:
        return -n.operand.value
    return None


def zm_letters(s):
    if s and all(ch in 'ZMzm' for ch in s):
        return '[' + '; '.join('LZ' if ch in 'Zz' else 'LM' for ch in s) + ']'
    return None


def gtype_w(t):
    if t == EMPTY:
        return 'list _'
    if isinstance(t, tuple) and t[0] in ('seq', 'grp', 'cont', 'contelt'):
        out = 'tuple'
        for _ in range(t[1]):
            out = f'list ({out})'
        return out
    if isinstance(t, tuple) and t[0] in ('opt', 'list', 'res'):
        return {'opt': 'option', 'list': 'list', 'res': 'res'}[t[0]] + f' ({gtype_w(t[1])})'
    if isinstance(t, tuple) and t[0] == 'pair':
        return f'({gtype_w(t[1])} * {gtype_w(t[2])})'
    return gtype(t)


class World:
    """the imported classes (for the real MRO) and the parsed sources"""

    def __init__(self, repo):
        self.repo = os.path.realpath(repo)
        self.trees = {}
        self.mods = {}
        for m in ('structures', 'multistructures', '_base', 'coordinates', 'parsers'):
            mod = importlib.import_module('geostructures.' + m)
            if not os.path.realpath(mod.__file__).startswith(self.repo):
                raise Abstain(f'geostructures.{m} was imported from {mod.__file__}, not from {repo}')
            self.mods[m] = mod
            self.trees[m] = ast.parse(open(mod.__file__).read())
        self.classes = {}
        for m, mod in self.mods.items():
            for k, v in vars(mod).items():
                if isinstance(v, type) and v.__module__ == mod.__name__:
                    self.classes[k] = (m, v)

    def owner(self, clsname, attr):
        """name of the class of the MRO of `clsname` that defines `attr`, and its module key"""
        if clsname not in self.classes:
            raise Abstain(f'class {clsname} not found')
        for k in self.classes[clsname][1].__mro__:
            if attr in vars(k):
                if k.__name__ not in self.classes or self.classes[k.__name__][1] is not k:
                    raise Abstain(f'{clsname}.{attr} is defined by {k!r}, outside the translated modules')
                return k.__name__, self.classes[k.__name__][0]
        raise Abstain(f'{clsname} has no attribute {attr}')

    def super_owner(self, clsname, defining, attr):
        """super().attr inside a method defined by `defining`, receiver of class `clsname`"""
        mro = list(self.classes[clsname][1].__mro__)
        names = [k.__name__ for k in mro]
        i = names.index(defining)
        for k in mro[i + 1:]:
            if attr in vars(k):
                return k.__name__, self.classes[k.__name__][0]
        raise Abstain(f'super().{attr} not found')

    def fndef(self, mod, cls, name):
        for n in self.trees[mod].body:
            if isinstance(n, ast.ClassDef) and n.name == cls:
                for s in n.body:
                    if isinstance(s, ast.FunctionDef) and s.name == name:
                        return s
        raise Abstain(f'{cls}.{name} not found in {mod}.py')

    def modfn(self, mod, name):
        for n in self.trees[mod].body:
            if isinstance(n, ast.FunctionDef) and n.name == name:
                return n
        raise Abstain(f'{name} not found in {mod}.py')

    def plain_store_ctor(self, cls):
        """__init__(self, first, dt=None, properties=None): super().__init__(..dt..properties..); self.<x> = first | list(first)"""
        own, mod = self.owner(cls, '__init__')
        if own != cls:
            raise Abstain(f'{cls}.__init__ is inherited from {own}')
        fd = self.fndef(mod, cls, '__init__')
        names = [a.arg for a in fd.args.args]
        body = [s for s in fd.body if not (isinstance(s, ast.Expr) and isinstance(s.value, ast.Constant))]
        if len(names) != 4 or names[0] != 'self' or names[2:] != ['dt', 'properties'] or fd.args.vararg or fd.args.kwarg \
                or fd.args.kwonlyargs or [ast.unparse(d) for d in fd.args.defaults] != ['None', 'None'] or len(body) != 2:
            raise Abstain(f'{cls}.__init__ is not (self, x, dt=None, properties=None) with two statements')
        first = names[1]
        if not (isinstance(body[0], ast.Expr) and ast.unparse(body[0].value) in
                ('super().__init__(dt=dt, properties=properties)', 'super().__init__(dt, properties)')):
            raise Abstain(f'{cls}.__init__ does not start with super().__init__(dt, properties)')
        st = body[1]
        tgt = st.target if isinstance(st, ast.AnnAssign) else (st.targets[0] if isinstance(st, ast.Assign) and len(st.targets) == 1 else None)
        if tgt is None or st.value is None or not (isinstance(tgt, ast.Attribute) and ast.unparse(tgt.value) == 'self') \
                or ast.unparse(st.value) not in (first, f'list({first})'):
            raise Abstain(f'{cls}.__init__ does not just store its first argument')
        return tgt.attr


class TrW(TrB):
    def __init__(self, env, spec, world, cls, defining):
        super().__init__(env, spec)
        self.world, self.cls, self.defining = world, cls, defining
        self.kwname = None            # name of the **kwargs parameter carrying k, if any
        self.passthrough = set()      # dt / properties parameters of a from_wkt

    # ------------------------------------------------------------------ hoisting
    def hoist_res(self, term, t, n, prefix='cr'):
        if self.nohoist:
            fail(n, 'raising sub-expression under a conditional or a lambda')
        if not self.raises:
            fail(n, 'raising sub-expression in a function declared not to raise')
        self.fresh += 1
        v = f'{prefix}{self.fresh}'
        self.pending.append((v, term))
        return v, t

    def sub_raising(self, thunk):
        """translate in a fresh hoisting context; returns (value, type, pending list)"""
        saved_p, saved_n, saved_r = self.pending, self.nohoist, self.raises
        self.pending, self.nohoist, self.raises = [], 0, True
        try:
            v, t = thunk()
            return v, t, self.pending
        finally:
            self.pending, self.nohoist, self.raises = saved_p, saved_n, saved_r

    # ------------------------------------------------------------------ text assembly
    def pieces(self, n):
        """flatten an f-string / + chain into [('lit', s) | ('val', term, type)]"""
        if isinstance(n, ast.JoinedStr):
            out = []
            for v in n.values:
                if isinstance(v, ast.Constant) and isinstance(v.value, str):
                    out.append(('lit', v.value))
                elif isinstance(v, ast.FormattedValue) and v.conversion == -1 and v.format_spec is None:
                    out += self.pieces(v.value)
                else:
                    fail(n, 'f-string part')
            return out
        if isinstance(n, ast.BinOp) and isinstance(n.op, ast.Add):
            return self.pieces(n.left) + self.pieces(n.right)
        if isinstance(n, ast.Constant) and isinstance(n.value, str):
            return [('lit', n.value)]
        v, t = self.expr(n)
        if t == CTXT or (is_txt(t) and t[0] != 'contelt'):
            return [('val', v, t)]
        fail(n, f'text piece of type {t}')

    @staticmethod
    def tokens(pieces, n):
        toks = []
        for p in pieces:
            if p[0] == 'val':
                toks.append(p)
                continue
            s, i = p[1], 0
            while i < len(s):
                ch = s[i]
                if ch.isalpha():
                    j = i
                    while j < len(s) and s[j].isalpha():
                        j += 1
                    toks.append(('kw', s[i:j]))
                    i = j
                elif ch in '()':
                    toks.append((ch,))
                    i += 1
                elif ch == ',':
                    toks.append((',',))
                    i += 2 if s[i + 1:i + 2] == ' ' else 1
                else:
                    fail(n, f'character {ch!r} in a text literal (only a capital keyword, parentheses, commas and one blank after a comma are mapped)')
        return toks

    def assemble(self, n):
        toks = self.tokens(self.pieces(n), n)
        kw, i = None, 0
        if toks and toks[0][0] == 'kw':
            if toks[0][1] not in KEYWORDS:
                fail(n, f'keyword {toks[0][1]!r}')
            kw, i = KEYWORDS[toks[0][1]], 1
        if any(t[0] == 'kw' for t in toks[i:]):
            fail(n, 'a keyword that is not at the start of the text')
        rest = toks[i:]
        if kw is None and len(rest) == 2 and rest[0] == (',',) and rest[1][0] == 'val' and rest[1][2][0] == 'grp':
            return rest[1][1], ('contelt', rest[1][2][1])          # ", " + <group>
        if len(rest) == 1 and rest[0][0] == 'val' and rest[0][2][0] == 'grp':
            term, lvl = rest[0][1], rest[0][2][1]
        else:
            term, lvl, j = self.p_group(rest, 0, n)
            if j != len(rest):
                fail(n, 'text after the closing parenthesis')
        if not 1 <= lvl <= 3:
            fail(n, f'nesting depth {lvl}')
        if kw is None:
            return term, ('grp', lvl)
        return f'(mkwkt (Some {kw}) true [] (W{lvl} {term}))', 'wkt'

    def p_group(self, toks, i, n):
        if i >= len(toks) or toks[i] != ('(',):
            fail(n, 'expected "("')
        term, lvl, j = self.p_seq(toks, i + 1, n)
        if j >= len(toks) or toks[j] != (')',):
            fail(n, 'expected ")"')
        return term, lvl, j + 1

    def p_seq(self, toks, i, n):
        if i < len(toks) and toks[i][0] == 'val' and toks[i][2][0] == 'seq':
            if i + 1 < len(toks) and toks[i + 1] == (')',):
                return toks[i][1], toks[i][2][1], i + 1
            fail(n, 'a joined sequence with siblings inside one group')
        items, cont = [], None
        while True:
            if i >= len(toks):
                fail(n, 'unterminated group')
            tk = toks[i]
            if tk[0] == 'val' and tk[2] == CTXT:
                items.append((tk[1], 0))
                i += 1
            elif tk[0] == 'val' and tk[2][0] == 'grp':
                items.append((tk[1], tk[2][1]))
                i += 1
            elif tk == ('(',):
                term, lvl, i = self.p_group(toks, i, n)
                items.append((term, lvl))
            else:
                fail(n, 'expected an item')
            if i < len(toks) and toks[i] == (',',):
                i += 1
                continue
            if i < len(toks) and toks[i][0] == 'val' and toks[i][2][0] == 'cont':
                cont = toks[i]
                i += 1
            break
        lv = {k for _, k in items}
        if len(lv) != 1:
            fail(n, 'items of different depth in one group')
        lvl = lv.pop() + 1
        term = '[' + '; '.join(v for v, _ in items) + ']'
        if cont is not None:
            if cont[2][1] != lvl:
                fail(n, 'depth of the comma-led tail')
            term = f'({term} ++ {cont[1]})'
        return term, lvl, i

    def join(self, ta, tb, n):
        if ta == EMPTY and is_list(tb):
            return tb
        if tb == EMPTY and is_list(ta):
            return ta
        return super().join(ta, tb, n)

    def elements(self, a, n):
        """a list-valued argument of join(): (term, element type); comprehensions / generators are maps"""
        if isinstance(a, (ast.GeneratorExp, ast.ListComp)):
            if len(a.generators) != 1 or a.generators[0].ifs or a.generators[0].is_async \
                    or not isinstance(a.generators[0].target, ast.Name):
                fail(n, 'generator shape')
            g = a.generators[0]
            src, ts = self.expr(g.iter)
            if not is_list(ts) or ts == EMPTY:
                fail(n, f'iteration over {ts}')
            saved = dict(self.vars)
            self.vars[g.target.id] = ts[1]
            self.nohoist += 1
            try:
                ev, et = self.expr(a.elt)
            finally:
                self.nohoist -= 1
                self.vars = saved
            return f'(map (fun {nm(g.target.id)} => {ev}) {src})', et
        v, t = self.expr(a)
        if not is_list(t) or t == EMPTY:
            fail(n, f'join of {t}')
        return v, t[1]

    def str_join(self, sep, a, n):
        v, et = self.elements(a, n)
        if sep == ' ':
            if et == 'numstr':
                return v, CTXT
        elif sep in (',', ', '):
            if et == CTXT:
                return v, ('seq', 1)
            if isinstance(et, tuple) and et[0] == 'grp':
                return v, ('seq', et[1] + 1)
        elif sep == '':
            if isinstance(et, tuple) and et[0] == 'contelt':
                return v, ('cont', et[1] + 1)
        fail(n, f'{sep!r}.join of elements of type {et}')

    # ------------------------------------------------------------------ expressions
    def expr(self, n):
        if isinstance(n, ast.Name) and n.id in self.passthrough:
            fail(n, f'use of the pass-through parameter {n.id}')
        if isinstance(n, ast.JoinedStr) or (isinstance(n, ast.BinOp) and isinstance(n.op, ast.Add) and self.is_text(n)):
            return self.assemble(n)
        if isinstance(n, ast.Constant) and isinstance(n.value, str):
            z = zm_letters(n.value)
            if z is not None:
                return z, ('list', 'zml')
            fail(n, 'string constant')
        if isinstance(n, ast.Dict) and not n.keys:
            return '(dict_of [])', 'zmdict'
        if isinstance(n, ast.ListComp):
            return self.listcomp_w(n)
        if isinstance(n, ast.List):
            if not n.elts:
                return '[]', EMPTY
            if any(isinstance(x, ast.Starred) for x in n.elts):
                fail(n, 'starred list display')
            parts = [self.expr(x) for x in n.elts]
            if any(t != parts[0][1] for _, t in parts):
                fail(n, 'list display of mixed types')
            return '[' + '; '.join(v for v, _ in parts) + ']', ('list', parts[0][1])
        if isinstance(n, ast.Subscript):
            v, t = self.expr(n.value)
            sl = n.slice
            if is_list(t) and isinstance(sl, ast.Slice):
                lo, up, st = sl.lower, sl.upper, sl.step
                if lo is None and up is None and st is not None and const_int(st) == -1:
                    return f'(rev {v})', t
                if up is None and st is None and lo is not None and (const_int(lo) or 0) > 0:
                    return f'(skipn {const_int(lo)} {v})', t
                if lo is None and st is None and up is not None and (const_int(up) or 0) > 0:
                    return f'(firstn {const_int(up)} {v})', t
                fail(n, 'slice form')
            if is_list(t) and t != EMPTY and const_int(sl) == 0:
                return self.hoist_res(f'(index0 {v})', t[1], n, 'ix')
            if t == 'parsermap':
                k, tk = self.expr(sl)
                if tk == 'word':
                    return self.hoist_res(f'(pm_getitem {v} {k})', 'parser', n, 'ix')
            fail(n, f'subscript of {t}')
        if isinstance(n, ast.BoolOp) and isinstance(n.op, ast.Or) and len(n.values) == 2:
            a, ta = self.expr(n.values[0])
            if is_list(ta):
                if isinstance(n.values[1], ast.Constant) and n.values[1].value is None:
                    return a, ('ornone', ta)
                self.nohoist += 1
                try:
                    b, tb = self.expr(n.values[1])
                finally:
                    self.nohoist -= 1
                return f'(or_list {a} {b})', self.join(ta, tb, n)
        return super().expr(n)

    def is_text(self, n):
        """a + chain is a text assembly when one of its leaves is a string constant / f-string"""
        if isinstance(n, ast.BinOp) and isinstance(n.op, ast.Add):
            return self.is_text(n.left) or self.is_text(n.right)
        return isinstance(n, ast.JoinedStr) or (isinstance(n, ast.Constant) and isinstance(n.value, str))

    def listcomp_w(self, n):
        gens = n.generators
        if any(g.ifs or g.is_async or not isinstance(g.target, ast.Name) for g in gens) or not 1 <= len(gens) <= 2:
            fail(n, 'comprehension shape')
        src, ts = self.expr(gens[0].iter)                  # evaluated once, first: may hoist
        if not is_list(ts) or ts == EMPTY:
            fail(n, f'comprehension over {ts}')
        x = gens[0].target.id
        saved = dict(self.vars)
        self.vars[x] = ts[1]
        try:
            if len(gens) == 1:
                ev, et, pend = self.sub_raising(lambda: self.expr(n.elt))
                if not pend:
                    return f'(map (fun {nm(x)} => {ev}) {src})', ('list', et)
                body = self.wrap(pend, f'(Ok {ev})')
                return self.hoist_res(f'(mapR (fun {nm(x)} => {body}) {src})', ('list', et), n, 'lc')
            y = gens[1].target.id
            if y == x:
                fail(n, 'comprehension targets')
            iv, it, pend = self.sub_raising(lambda: self.expr(gens[1].iter))
            if not is_list(it) or it == EMPTY:
                fail(n, f'comprehension over {it}')
            self.vars[y] = it[1]
            self.nohoist += 1
            try:
                ev, et = self.expr(n.elt)
            finally:
                self.nohoist -= 1
            inner = f'(map (fun {nm(y)} => {ev}) {iv})'
            if not pend:
                return f'(concat (map (fun {nm(x)} => {inner}) {src}))', ('list', et)
            body = self.wrap(pend, f'(Ok {inner})')
            v, _ = self.hoist_res(f'(mapR (fun {nm(x)} => {body}) {src})', None, n, 'lc')
            return f'(concat {v})', ('list', et)
        finally:
            self.vars = saved

    def boolean(self, n):
        v, t = None, None
        c = self.static_test(n)
        if c is None:
            v, t = self.expr(n)
            if is_list(t) and t != EMPTY:
                return f'(match {v} with [] => false | _ :: _ => true end)'
            if t == 'bool':
                return v
        return super().boolean(n)

    def kwargs_ok(self, n, allow_star2=True):
        """keywords of a call: returns (dict name -> node, passes **kwargs?)"""
        kws, star = {}, False
        for k in n.keywords:
            if k.arg is None:
                if not (allow_star2 and isinstance(k.value, ast.Name) and k.value.id == self.kwname) or star:
                    fail(n, '** argument')
                star = True
            elif k.arg in kws:
                fail(n, 'repeated keyword')
            else:
                kws[k.arg] = k.value
        return kws, star

    def drop_passthrough(self, kws, n):
        for k in ('dt', 'properties'):
            if k in kws:
                if not (isinstance(kws[k], ast.Name) and kws[k].id == k and k in self.passthrough):
                    fail(n, f'keyword {k}= that is not the pass-through parameter')
                del kws[k]
        return kws

    def kw_term(self, star, n):
        if star:
            return self.kwname
        return 'None'           # called without keyword arguments: k absent

    def call(self, n):
        e, f = self.env, n.func
        # ---- string methods
        if isinstance(f, ast.Attribute) and f.attr == 'join' and isinstance(f.value, ast.Constant) \
                and isinstance(f.value.value, str) and len(n.args) == 1 and not n.keywords:
            return self.str_join(f.value.value, n.args[0], n)
        if isinstance(f, ast.Name) and not n.keywords and len(n.args) == 1:
            a = n.args[0]
            if f.id == 'str':
                v, t = self.expr(a)
                if t == 'Z':
                    return v, 'numstr'
                fail(n, f'str of {t}')
            if f.id in ('tuple', 'list'):
                if f.id == 'list' and isinstance(a, ast.Call) and isinstance(a.func, ast.Name) and a.func.id == 'reversed' \
                        and len(a.args) == 1 and not a.keywords:
                    v, t = self.expr(a.args[0])
                    if is_list(t):
                        return f'(rev {v})', t
                    fail(n, f'reversed of {t}')
                v, t = self.expr(a)
                if is_list(t):
                    return v, t                       # the same sequence
                fail(n, f'{f.id} of {t}')
            if f.id == 'len':
                v, t = self.expr(a)
                if is_list(t):
                    return f'(Z.of_nat (length {v}))', 'Z'
                fail(n, f'len of {t}')
            if f.id == 'dict':
                v, t = self.expr(a)
                if t == ('list', ('pair', 'zml', 'Z')):
                    return f'(dict_of {v})', 'zmdict'
                fail(n, f'dict of {t}')
        if isinstance(f, ast.Name) and f.id == 'zip' and len(n.args) == 2 and not n.keywords:
            (a, ta), (b, tb) = self.expr(n.args[0]), self.expr(n.args[1])
            if is_list(ta) and is_list(tb) and EMPTY not in (ta, tb):
                return f'(combine {a} {b})', ('list', ('pair', ta[1], tb[1]))
            fail(n, f'zip of {ta} and {tb}')
        if isinstance(f, ast.Name) and f.id == 'map' and len(n.args) == 2 and not n.keywords \
                and isinstance(n.args[0], ast.Name) and n.args[0].id == 'float':
            v, t = self.expr(n.args[1])
            if t == TUP:
                return v, ('list', 'Z')               # float(<number text>) is the number
            fail(n, f'map(float, {t})')
        if isinstance(f, ast.Name) and f.id == 'warn_once':
            fail(n, 'warn_once as an expression')
        if isinstance(f, ast.Attribute) and not n.keywords:
            if f.attr == 'split' and len(n.args) == 1 and isinstance(n.args[0], ast.Constant) and n.args[0].value == ' ':
                v, t = self.expr(f.value)
                if t == CTXT:
                    return v, TUP
                fail(n, f'split of {t}')
            if f.attr == 'lower' and not n.args:
                v, t = self.expr(f.value)
                if t == ('list', 'zml'):
                    return v, t
                fail(n, f'lower of {t}')
            if f.attr == 'get' and len(n.args) == 1 and isinstance(n.args[0], ast.Constant) and n.args[0].value in ('z', 'm'):
                v, t = self.expr(f.value)
                if t == 'zmdict':
                    return f'(dict_get {"LZ" if n.args[0].value == "z" else "LM"} {v})', ('opt', 'Z')
                fail(n, f'get of {t}')
            if f.attr == 'group' and not n.args:
                v, t = self.expr(f.value)
                if t == 'wordmatch':
                    return f'(wm_group {v})', 'word'
                fail(n, f'group of {t}')
        # ---- regular expressions on the token tree
        if isinstance(f, ast.Attribute) and isinstance(f.value, ast.Name) and f.value.id.startswith('_RE_') \
                and len(n.args) == 1 and not n.keywords:
            v, t = self.expr(n.args[0])
            rx = f.value.id
            if f.attr == 'match' and rx in GATES and t == 'wkt':
                return f'({GATES[rx]} {v})', 'bool'
            if f.attr == 'findall':
                table = {('_RE_LINEAR_RING', 'wkt'): (f'(findall_ring {v})', ('list', ('grp', 1))),
                         ('_RE_LINEAR_RING', ('grp', 2)): (v, ('list', ('grp', 1))),
                         ('_RE_LINEAR_RINGS', 'wkt'): (f'(findall_rings {v})', ('list', ('grp', 2))),
                         ('_RE_COORD', 'wkt'): (f'(findall_coord {v})', ('list', CTXT)),
                         ('_RE_COORD', ('grp', 1)): (v, ('list', CTXT)),
                         ('_RE_COORD', CTXT): (f'[{v}]', ('list', CTXT)),
                         ('_RE_ZM', 'wkt'): (f'(findall_zm {v})', ('list', ('list', 'zml')))}
                if (rx, t) in table:
                    return table[(rx, t)]
            fail(n, f'{rx}.{f.attr} on {t}')
        if isinstance(f, ast.Attribute) and isinstance(f.value, ast.Name) and f.value.id == 're' and f.attr == 'match' \
                and len(n.args) == 2 and not n.keywords and isinstance(n.args[0], ast.Constant):
            v, t = self.expr(n.args[1])
            if n.args[0].value == WORD_RE and t == 'wkt':
                return f'(leading_word {v})', ('opt', 'wordmatch')
            fail(n, 're.match pattern')
        # ---- Coordinate( *xy, z=.., m=..)
        if isinstance(f, ast.Name) and f.id == 'Coordinate' and len(n.args) == 1 and isinstance(n.args[0], ast.Starred):
            kws, star = self.kwargs_ok(n, False)
            if set(kws) != {'z', 'm'}:
                fail(n, 'Coordinate keywords')
            xy, txy = self.expr(n.args[0].value)
            z, tz = self.expr(kws['z'])
            m, tm = self.expr(kws['m'])
            if txy in (TUP, ('list', 'Z')) and tz == ('opt', 'Z') and tm == ('opt', 'Z'):
                return self.hoist_res(f'(coordinate_star {xy} {z} {m})', C, n)
            fail(n, f'Coordinate(*{txy}, z={tz}, m={tm})')
        # ---- shape constructors
        if isinstance(f, ast.Name) and f.id in e.shape_ctors:
            return self.shape_ctor(n, f.id)
        # ---- methods resolved through the MRO: self.X(..) / cls.X(..) / super().X(..) / Coordinate.X(..)
        tgt = None
        if isinstance(f, ast.Attribute):
            if isinstance(f.value, ast.Name) and f.value.id in ('self', 'cls') and f.value.id not in self.vars_shadow():
                tgt = (self.cls, f.attr, 'self' if f.value.id == 'self' else None)
            elif ast.unparse(f.value) == 'super()':
                own, _ = self.world.super_owner(self.cls, self.defining, f.attr)
                tgt = (own, f.attr, 'super')
            elif isinstance(f.value, ast.Name) and f.value.id in self.world.classes and f.value.id not in self.vars:
                tgt = (f.value.id, f.attr, None)
        if tgt is not None:
            clsname, attr, recv = tgt
            own = clsname if recv == 'super' else self.world.owner(clsname, attr)[0]
            if e.known.get((own, attr)) == 'PARSE':
                # _parse_wkt_linear_ring(wkt_str, X) is specialised by the type of X
                if len(n.args) != 2 or n.keywords or any(isinstance(a, ast.Starred) for a in n.args):
                    fail(n, '_parse_wkt_linear_ring arguments')
                (w, tw), (v, tv) = self.expr(n.args[0]), self.expr(n.args[1])
                g = {('grp', 1): 'g_parse_ring_r', CTXT: 'g_parse_ring_c'}.get(tv)
                if tw != 'wkt' or g is None:
                    fail(n, f'_parse_wkt_linear_ring({tw}, {tv})')
                return self.hoist_res(f'({g} {w} {v})', RG, n)
            if (own, attr) in e.known:
                return self.known_call(n, e.known[(own, attr)], recv)
            if recv == 'self' and (self.vars.get('self'), attr) in e.recv_methods:
                return self.recv_method(n, self.vars['self'], 'self', attr)
            fail(n, f'call of {own}.{attr}, which is not translated')
        # ---- methods of typed values
        if isinstance(f, ast.Attribute):
            if f.attr == 'to_str' or f.attr in ('bounding_coords', 'linear_rings', 'from_wkt'):
                v, t = self.expr(f.value)
                if t == C and f.attr == 'to_str':
                    if ('Coordinate', 'to_str') not in e.known:
                        fail(n, 'Coordinate.to_str is not translated')
                    return self.known_call(n, e.known[('Coordinate', 'to_str')], None, recv_term=(v, t))
                if (t, f.attr) in e.recv_methods:
                    return self.recv_method(n, t, v, f.attr)
                fail(n, f'method {f.attr} of {t}')
        return super().call(n)

    def vars_shadow(self):
        return set()

    def recv_method(self, n, t, v, attr):
        fmt, rt, takes_kw = self.env.recv_methods[(t, attr)]
        kws, star = self.kwargs_ok(n)
        if kws:
            fail(n, 'keyword arguments')
        if takes_kw == 'arg':
            if len(n.args) != 1:
                fail(n, 'arguments')
            a, ta = self.expr(n.args[0])
            if ta != 'wkt':
                fail(n, f'argument of type {ta}')
            return self.hoist_res(fmt.format(v, a), rt[1], n)
        if n.args:
            fail(n, 'positional arguments')
        return fmt.format(v, self.kw_term(star, n)), rt

    def known_call(self, n, k, recv, recv_term=None):
        """call of a translated function: k = (gname, [(param, type, default term | None)], ret, takes **kwargs)"""
        gname, params, ret, takes_kw, fkind = k
        kws, star = self.kwargs_ok(n)
        if star and not takes_kw:
            fail(n, '** passed to a function without **kwargs')
        args, ps = [], list(params)
        if fkind == 'method':
            if recv_term is None and recv not in ('self', 'super'):
                fail(n, 'method called without a receiver')
            p, pt, _ = ps.pop(0)
            if recv_term is not None:
                v, t = recv_term
            else:
                v, t = self.expr(ast.Name(id='self', ctx=ast.Load()))
                conv = self.env.coerce.get((t, pt))
                if t != pt and conv:
                    v, t = conv.format(v), pt
            if t != pt:
                fail(n, f'receiver of type {t}, expected {pt}')
            args.append(v)
        if len(n.args) > len(ps) or any(isinstance(a, ast.Starred) for a in n.args):
            fail(n, 'positional arguments')
        given = {}
        for a, (p, pt, _) in zip(n.args, ps):
            given[p] = a
        for kname, kv in kws.items():
            if kname in given or kname not in [p for p, _, _ in ps]:
                fail(n, f'keyword {kname}')
            given[kname] = kv
        # evaluation order: positional, then keywords, in source order (dict order = source order)
        vals = {}
        for p, node in given.items():
            vals[p] = self.expr(node)
        for p, pt, dflt in ps:
            if p in vals:
                v, t = vals[p]
                if t != pt:
                    fail(n, f'argument {p} of type {t}, expected {pt}')
                args.append(v)
            elif dflt is not None:
                args.append(dflt)
            else:
                fail(n, f'missing argument {p}')
        if takes_kw:
            args.append(self.kw_term(star, n))
        term = f'({gname} {" ".join(args)})'
        if isinstance(ret, tuple) and ret[0] == 'res':
            return self.hoist_res(term, ret[1], n)
        return term, ret

    def shape_ctor(self, n, name):
        kind, argt, rt = self.env.shape_ctors[name]
        kws, star = self.kwargs_ok(n, False)
        kws = self.drop_passthrough(kws, n)
        if len(n.args) != (2 if kind == 'circle' else 1) or any(isinstance(a, ast.Starred) for a in n.args):
            fail(n, 'constructor arguments')
        if kind == 'circle':
            if kws:
                fail(n, 'GeoCircle keywords')
            (a, ta), (b, tb) = self.expr(n.args[0]), self.expr(n.args[1])
            if (ta, tb) != (C, 'Z'):
                fail(n, f'GeoCircle({ta}, {tb})')
            return f'(mk_circle {a} {b})', 'circle'
        v, t = self.expr(n.args[0])
        if t == EMPTY:
            t = argt
        if t != argt:
            fail(n, f'{name}({t}), expected {argt}')
        if kind == 'store':
            if kws:
                fail(n, f'{name} keywords {sorted(kws)}')
            return v, rt
        # GeoPolygon
        if set(kws) - {'holes'}:
            fail(n, f'GeoPolygon keywords {sorted(kws)}')
        if 'holes' not in kws:
            return self.hoist_res(f'(ctor half {v})', 'hole', n)
        h, th = self.expr(kws['holes'])
        if isinstance(th, tuple) and th[0] == 'ornone':
            th = th[1]                                 # holes=None and holes=[] store the same list
        if th not in (('list', 'hole'), EMPTY):
            fail(n, f'holes of type {th}')
        return self.hoist_res(f'(poly_ctor {v} {h})', 'polygon', n)

    # ------------------------------------------------------------------ statements
    RETCONV = {'gpoint': 'GPoint', 'gline': 'GLine', 'polygon': 'GPoly', 'gmpoint': 'GMPoint', 'gmline': 'GMLine',
               'gmpoly': 'GMPoly'}

    def ret_value(self, n):
        if self.ret == ('res', 'geom') and n is not None:
            v, t = self.expr(n)
            if t in self.RETCONV:
                return f'(Ok ({self.RETCONV[t]} {v}))'
            if t == 'geom':
                return f'(Ok {v})'
            fail(n, f'return of {t} where a shape is expected')
        if n is not None and self.ret == TUP:
            v, t = self.expr(n)
            if t == TUP:
                return v
            fail(n, f'return of {t}')
        return super().ret_value(n)

    @staticmethod
    def logging_only(s):
        return isinstance(s, ast.Expr) and isinstance(s.value, ast.Call) and not s.value.keywords \
            and isinstance(s.value.func, ast.Name) and s.value.func.id == 'warn_once' \
            and all(isinstance(a, ast.Constant) and isinstance(a.value, str) for a in s.value.args)

    @staticmethod
    def append_of(s):
        """`acc.append(e)` -> (acc, e)"""
        if isinstance(s, ast.Expr) and isinstance(s.value, ast.Call) and isinstance(s.value.func, ast.Attribute) \
                and s.value.func.attr == 'append' and isinstance(s.value.func.value, ast.Name) \
                and len(s.value.args) == 1 and not s.value.keywords and not isinstance(s.value.args[0], ast.Starred):
            return s.value.func.value.id, s.value.args[0]
        return None

    def block(self, stmts):
        if not stmts:
            raise Abstain('control reaches the end of the function without return')
        s, rest = stmts[0], stmts[1:]
        if self.logging_only(s) and rest:
            return self.block(rest)
        if isinstance(s, ast.Raise) and isinstance(s.exc, ast.Call) and isinstance(s.exc.func, ast.Name):
            # the message is not part of the abstraction
            return super().block([ast.copy_location(ast.Raise(exc=ast.Name(id=s.exc.func.id, ctx=ast.Load()), cause=None), s)])
        ap = self.append_of(s)
        if ap is not None:
            acc, e = ap
            if not is_list(self.vars.get(acc)):
                fail(s, f'append to {acc}')
            self.pending, saved = [], self.pending
            v, t = self.expr(e)
            pend, self.pending = self.pending, saved
            at = self.vars[acc]
            if at != EMPTY and at[1] != t:
                fail(s, f'append of {t} to {at}')
            self.vars[acc] = ('list', t)
            return self.wrap(pend, f'(let {nm(acc)} := {nm(acc)} ++ [{v}] in {self.block(rest)})')
        if isinstance(s, ast.Assign) and len(s.targets) == 1 and isinstance(s.targets[0], ast.Tuple) \
                and isinstance(s.value, ast.Tuple) and len(s.value.elts) == len(s.targets[0].elts) \
                and all(isinstance(x, ast.Name) for x in s.targets[0].elts):
            names = [x.id for x in s.targets[0].elts]
            if len(set(names)) != len(names):
                fail(s, 'repeated target')
            # a, b = e1, e2 : both evaluated first (neither may mention the targets' new values)
            self.pending, saved = [], self.pending
            vals = [self.expr(x) for x in s.value.elts]
            pend, self.pending = self.pending, saved
            for x, (_, t) in zip(names, vals):
                self.vars[x] = t
            body = self.block(rest)
            for x, (v, _) in reversed(list(zip(names, vals))):
                body = f'(let {nm(x)} := {v} in {body})'
            if any(any(isinstance(y, ast.Name) and y.id in names for y in ast.walk(x)) for x in s.value.elts):
                fail(s, 'tuple assignment whose right side mentions a target')
            return self.wrap(pend, body)
        if isinstance(s, ast.For):
            return self.acc_loop(s, rest)
        if isinstance(s, ast.If) and self.static_test(s.test) is None:
            nz = self.opt_truthy_if(s, rest)
            if nz is not None:
                return nz
            nar = self.narrowing_if(s, rest)
            if nar is not None:
                return nar
            self.pending, saved_p = [], self.pending
            cond = self.boolean(s.test)
            pend, self.pending = self.pending, saved_p
            saved = dict(self.vars)
            a = self.block(s.body + ([] if self.terminates(s.body) else rest))
            self.vars = dict(saved)
            b = self.block(s.orelse + ([] if (s.orelse and self.terminates(s.orelse)) else rest))
            self.vars = saved
            return self.wrap(pend, f'(if {cond} then {a} else {b})')
        return super().block(stmts)

    def opt_truthy_if(self, s, rest):
        """`if self.z:` with z : Optional[float] -> truthy iff present and non-zero; the body sees it narrowed"""
        t_ = s.test
        if not isinstance(t_, (ast.Attribute, ast.Name)):
            return None
        src, t = self.expr(t_)
        if t != ('opt', 'Z'):
            return None
        saved_v = dict(self.vars)
        els = self.block(s.orelse + ([] if (s.orelse and self.terminates(s.orelse)) else rest))
        self.vars = dict(saved_v)
        saved = dict(self.narrow)
        self.fresh += 1
        v = f'nv{self.fresh}'
        self.narrow[ast.unparse(t_)] = (v, 'Z')
        body = self.block(s.body + ([] if self.terminates(s.body) else rest))
        self.narrow = saved
        self.vars = saved_v
        return f'(match {src} with Some {v} => if negb ({v} =? 0) then {body} else {els} | None => {els} end)'

    def acc_loop(self, s, rest):
        """for x in xs: <stmts>; acc.append(e)   (acc an existing list variable)"""
        if s.orelse or not isinstance(s.target, ast.Name) or not s.body:
            fail(s, 'for-loop shape')
        ap = self.append_of(s.body[-1])
        if ap is None:
            fail(s, 'for-loop body does not end with acc.append(..)')
        acc, e = ap
        if not is_list(self.vars.get(acc)):
            fail(s, f'append to {acc}')
        x = s.target.id
        for st in s.body:
            for y in ast.walk(st):
                if isinstance(y, ast.Name) and y.id == acc and y is not s.body[-1].value.func.value:
                    fail(s, 'the loop body reads its accumulator')
        self.pending, saved = [], self.pending
        src, ts = self.expr(s.iter)
        pend, self.pending = self.pending, saved
        if not is_list(ts) or ts == EMPTY:
            fail(s, f'iteration over {ts}')
        saved_vars = dict(self.vars)
        self.vars[x] = ts[1]
        box = {}
        pure = not self.raises       # in a function that cannot raise the body must not raise either

        def body_fn():
            # the body as a block that ends by yielding the appended element
            inner = s.body[:-1] + [ast.copy_location(ast.Return(value=e), s.body[-1])]
            saved_ret, saved_raises = self.ret, self.raises
            self.ret = ('res', 'ELT') if pure is False else 'ELT'
            saved_rv = self.ret_value

            def rv(node):
                v, t = self.expr(node)
                box.setdefault('t', t)
                if box['t'] != t:
                    fail(node, 'element type')
                return f'(Ok {v})' if pure is False else v
            self.ret_value = rv
            try:
                return self.block(inner)
            finally:
                self.ret_value, self.ret, self.raises = saved_rv, saved_ret, saved_raises
        saved_pending, saved_nohoist = self.pending, self.nohoist
        self.pending, self.nohoist = [], 0
        try:
            body = body_fn()
        finally:
            self.pending, self.nohoist = saved_pending, saved_nohoist
        self.vars = saved_vars
        at = self.vars[acc]
        if at != EMPTY and at[1] != box['t']:
            fail(s, f'append of {box["t"]} to {at}')
        self.vars[acc] = ('list', box['t'])
        if pure:
            return self.wrap(pend, f'(let {nm(acc)} := loop_acc (fun {nm(x)} => {body}) {src} {nm(acc)} in {self.block(rest)})')
        out = f'(match loop_app (fun {nm(x)} => {body}) {src} {nm(acc)} with Err e => Err e | Ok {nm(acc)} => {self.block(rest)} end)'
        return self.wrap(pend, out)


# ---------------------------------------------------------------------------------------------------------
def env():
    e = Env()
    e.fields[(C, 'longitude')] = ('lon', 'Z')
    e.fields[(C, 'latitude')] = ('lat', 'Z')
    e.fields[(C, 'z')] = ('cz', ('opt', 'Z'))
    e.fields[(C, 'm')] = ('cm', ('opt', 'Z'))
    e.fields[('point', 'coordinate')] = ('pt_coordinate', C)
    e.fields[('line', 'vertices')] = ('ln_vertices', RG)
    e.fields[('mline', 'geoshapes')] = ('ml_geoshapes', ('list', 'line'))
    e.fields[('mpoint', 'geoshapes')] = ('mp_geoshapes', ('list', 'point'))
    for f_, g_, t_ in (('center', 'rg_center', C), ('inner_radius', 'rg_inner', 'Z'), ('outer_radius', 'rg_outer', 'Z'),
                       ('angle_min', 'rg_amin', 'Z'), ('angle_max', 'rg_amax', 'Z'), ('holes', 'rg_holes', ('list', 'hole'))):
        e.fields[('ringrec', f_)] = (g_, t_)
    e.truthy['Z'] = 'negb ({0} =? 0)'
    e.consts['_PARSER_MAP'] = ('g_parser_map', 'parsermap')
    e.contains[('parsermap', 'word')] = 'pm_contains'
    e.always_truthy |= {'wordmatch'}
    # methods of typed receivers: (type, name) -> (format(receiver, kwargs), result type, takes kwargs)
    e.recv_methods = {
        ('polybase', 'linear_rings'): ('(pb_linear_rings {0} {1})', ('list', RG), True),
        ('mpoly', 'linear_rings'): ('(mp_linear_rings {0} {1})', ('list', ('list', RG)), True),
        ('hole', 'bounding_coords'): ('(hole_bc {0})', RG, True),
        ('circle', 'bounding_coords'): ('(circle_bounding_coords {0} {1})', RG, True),
        ('parser', 'from_wkt'): ('(parser_from_wkt {0} {1})', ('res', 'geom'), 'arg'),
    }
    e.coerce = {('ringrec', 'polybase'): '(rg_polybase {0})'}
    e.known = {}
    e.shape_ctors = {'GeoCircle': ('circle', None, 'circle'), 'GeoPolygon': ('polygon', RG, None)}
    GT.update({'coord': 'coord', 'numstr': 'Z', 'ctxt': 'tuple', 'wkt': 'wkt', 'zml': 'zml', 'zmdict': 'zmdict', 'hole': 'ring',
               'point': 'coord', 'line': 'list coord', 'polybase': 'polybase', 'mpoly': 'mpolyrec', 'ringrec': 'ringrec',
               'mline': 'list (list coord)', 'mpoint': 'list coord', 'circle': '(coord * Z)', 'kw': 'option Z',
               'geom': 'geom', 'polygon': 'polygon', 'gpoint': 'coord', 'gline': 'list coord', 'word': 'word',
               'wordmatch': 'word', 'parser': 'parser', 'parsermap': 'list (wtag * parser)'})
    return e


def translate_def(world, e, fd, spec, cls, defining, kind):
    """kind: 'method' (self first), 'static', 'class' (cls first), 'function'"""
    a = fd.args
    if a.vararg or a.kwonlyargs or a.posonlyargs:
        raise Abstain(f'{spec.pyname}: parameter kinds')
    pynames = [x.arg for x in a.args]
    declared = [p for p, _ in spec.params]
    if kind == 'class':
        if pynames[:1] != ['cls']:
            raise Abstain(f'{spec.pyname}: not a class method')
        pynames = pynames[1:]
    decos = sorted(ast.unparse(d) for d in fd.decorator_list)
    want = {'method': [[], ['property'], ['cached_property']], 'static': [['staticmethod']], 'class': [['classmethod']],
            'function': [[]]}[kind]
    if decos not in want:
        raise Abstain(f'{spec.pyname}: decorators {decos}')
    tr = TrW(e, spec, world, cls, defining)
    if kind == 'class' and pynames[len(declared):] == ['dt', 'properties'] and spec.pyname == 'from_wkt':
        tr.passthrough = {'dt', 'properties'}
        pynames = pynames[:len(declared)]
    if pynames != declared:
        raise Abstain(f'{spec.pyname}: parameters {pynames} are not the declared {declared}')
    params = list(spec.params)
    if a.kwarg is not None:
        if a.kwarg.arg != '_':
            tr.kwname = nm(a.kwarg.arg)
            params.append((a.kwarg.arg, 'kw'))
    for st in ast.walk(fd):
        if isinstance(st, ast.Name) and isinstance(st.ctx, ast.Store) and st.id in declared + ['self', 'cls'] + sorted(tr.passthrough):
            raise Abstain(f'{spec.pyname}: rebinds the parameter {st.id}')
    out = tr.block(list(fd.body))
    if tr.pending:
        raise Abstain('internal: unhoisted term')
    ps = ' '.join(f'({nm(p)} : {gtype_w(t)})' for p, t in params)
    return f'Definition {spec.gname} {ps} : {gtype_w(spec.ret)} :=\n  {out}.\n', a


def main(repo, out):
    parts, rep = [HEADER], {}
    try:
        world = World(repo)
    except Exception as ex:   # noqa  fail closed
        open(out, 'w').write(HEADER + f'(* ABSTAINED everything: {type(ex).__name__} *)' + FOOTER)
        return {'gen_wktio': f'abstained: {type(ex).__name__}: {ex}'}
    e = env()

    def guarded(gname, thunk):
        try:
            parts.append(thunk())
            rep[gname] = 'translated'
            return True
        except Abstain as ex:
            parts.append(f'(* ABSTAINED {gname}: {str(ex).replace("*)", "* )").replace("(*", "( *")} *)\n')
            rep[gname] = f'abstained: {ex}'
        except Exception as ex:   # noqa  fail closed on anything unexpected
            parts.append(f'(* ABSTAINED {gname}: internal {type(ex).__name__} *)\n')
            rep[gname] = f'abstained: internal {type(ex).__name__}: {ex}'
        return False

    def method(gname, cls, name, params, ret, kind='method', register=None, defaults=None):
        """translate cls.<name> as resolved through the MRO; register it for calls under its OWNER class"""
        def thunk():
            own, mod = world.owner(cls, name)
            fd = world.fndef(mod, own, name)
            sp = FnSpec(name, gname, params, ret, own)
            text, a = translate_def(world, e, fd, sp, cls, own, kind)
            if register is not None:
                dfl = {}
                names = [x.arg for x in a.args]
                for pn, dv in zip(names[len(names) - len(a.defaults):], a.defaults):
                    dfl[pn] = dv
                plist = []
                for p, t in params:
                    d = None
                    if p in dfl:
                        if t == 'bool' and isinstance(dfl[p], ast.Constant) and isinstance(dfl[p].value, bool):
                            d = 'true' if dfl[p].value else 'false'
                        elif t == ('list', 'zml') and isinstance(dfl[p], ast.Constant) and isinstance(dfl[p].value, str) \
                                and zm_letters(dfl[p].value):
                            d = zm_letters(dfl[p].value)
                    plist.append((p, t, d))
                e.known[(own, name) if register is True else register] = (gname, plist, ret, a.kwarg is not None and a.kwarg.arg != '_', kind)
            return f'(* {own}.{name} (resolved for {cls}) *)\n' + text
        return guarded(gname, thunk)

    # ---------------- writers
    method('g_coord_to_str', 'Coordinate', 'to_str', [('self', C), ('reverse', 'bool')], TUP, register=True)
    method('g_point_centroid', 'GeoPoint', 'centroid', [('self', 'point')], C)
    if rep.get('g_point_centroid') == 'translated':
        e.props[('point', 'centroid')] = ('g_point_centroid', C)
    method('g_linear_ring_to_wkt', 'GeoPolygon', '_linear_ring_to_wkt', [('ring', RG)], ('grp', 1), kind='static', register=True)
    # every class must resolve the two static helpers to the same definition
    for cls in ('GeoPoint', 'GeoLineString', 'GeoPolygon', 'GeoBox', 'GeoCircle', 'GeoEllipse', 'GeoRing', 'MultiGeoPoint',
                'MultiGeoLineString', 'MultiGeoPolygon'):
        for nm_ in ('_linear_ring_to_wkt', '_parse_wkt_linear_ring'):
            try:
                if world.owner(cls, nm_)[0] != world.owner('GeoPolygon', nm_)[0]:
                    e.known.pop((world.owner('GeoPolygon', nm_)[0], nm_), None)
                    rep[f'{cls}.{nm_}'] = 'abstained: overridden in a subclass'
            except Abstain as ex:
                rep[f'{cls}.{nm_}'] = f'abstained: {ex}'
    method('g_point_to_wkt', 'GeoPoint', 'to_wkt', [('self', 'point')], 'wkt')
    method('g_linestring_to_wkt', 'GeoLineString', 'to_wkt', [('self', 'line')], 'wkt')
    for cls, g in (('GeoPolygon', 'g_polygon_to_wkt'), ('GeoBox', 'g_box_to_wkt'), ('GeoCircle', 'g_circle_to_wkt'),
                   ('GeoEllipse', 'g_ellipse_to_wkt')):
        method(g, cls, 'to_wkt', [('self', 'polybase')], 'wkt', register=('PolygonBase', 'to_wkt') if cls == 'GeoPolygon' else None)
    method('g_ring_to_wkt', 'GeoRing', 'to_wkt', [('self', 'ringrec')], 'wkt')
    method('g_multilinestring_to_wkt', 'MultiGeoLineString', 'to_wkt', [('self', 'mline')], 'wkt')
    method('g_multipoint_to_wkt', 'MultiGeoPoint', 'to_wkt', [('self', 'mpoint')], 'wkt')
    method('g_multipolygon_to_wkt', 'MultiGeoPolygon', 'to_wkt', [('self', 'mpoly')], 'wkt')

    # ---------------- readers
    method('g_coord_from_wkt', 'Coordinate', 'from_wkt', [('wkt_str', CTXT), ('zm_order', ('list', 'zml'))], ('res', C),
           kind='class', register=True)
    method('g_parse_ring_r', 'GeoPolygon', '_parse_wkt_linear_ring', [('wkt_str', 'wkt'), ('wkt_coords', ('grp', 1))],
           ('res', RG), kind='static')
    method('g_parse_ring_c', 'GeoPolygon', '_parse_wkt_linear_ring', [('wkt_str', 'wkt'), ('wkt_coords', CTXT)],
           ('res', RG), kind='static')
    own_parse = None
    try:
        own_parse = world.owner('GeoPolygon', '_parse_wkt_linear_ring')[0]
    except Abstain:
        pass
    for cls, store in (('GeoPoint', ('store', C, 'gpoint')), ('GeoLineString', ('store', RG, 'gline')),
                       ('MultiGeoPoint', ('store', ('list', 'gpoint'), 'gmpoint')),
                       ('MultiGeoLineString', ('store', ('list', 'gline'), 'gmline')),
                       ('MultiGeoPolygon', ('store', ('list', 'polygon'), 'gmpoly'))):
        try:
            world.plain_store_ctor(cls)
            e.shape_ctors[cls] = store
            rep[f'{cls}.__init__'] = 'checked: stores its first argument'
        except Abstain as ex:
            rep[f'{cls}.__init__'] = f'abstained: {ex}'
    GT.update({'gmpoint': 'list coord', 'gmline': 'list (list coord)', 'gmpoly': 'list polygon'})

    if own_parse and rep.get('g_parse_ring_r') == 'translated' and rep.get('g_parse_ring_c') == 'translated' \
            and not any(k.endswith('._parse_wkt_linear_ring') for k in rep):
        e.known[(own_parse, '_parse_wkt_linear_ring')] = 'PARSE'
    readers = [('TPoint', 'GeoPoint', 'g_point_from_wkt'), ('TLine', 'GeoLineString', 'g_linestring_from_wkt'),
               ('TPoly', 'GeoPolygon', 'g_polygon_from_wkt'), ('TMPoint', 'MultiGeoPoint', 'g_multipoint_from_wkt'),
               ('TMLine', 'MultiGeoLineString', 'g_multilinestring_from_wkt'),
               ('TMPoly', 'MultiGeoPolygon', 'g_multipolygon_from_wkt')]
    for _, cls, g in readers:
        method(g, cls, 'from_wkt', [('wkt_str', 'wkt')], ('res', 'geom'), kind='class')

    # ---------------- parse_wkt: the table as generated data, then the function
    def parser_map():
        pm = world.mods['parsers']._PARSER_MAP
        rows = []
        by_cls = {cls: g for _, cls, g in readers}
        for k, v in pm.items():
            if k not in KEYWORDS:
                raise Abstain(f'_PARSER_MAP key {k!r} is not one of the six capital keywords')
            if v.__name__ not in by_cls or rep.get(by_cls[v.__name__]) != 'translated':
                raise Abstain(f'_PARSER_MAP[{k!r}] = {v.__name__}, whose from_wkt is not translated')
            if world.owner(v.__name__, 'from_wkt')[0] != v.__name__:
                raise Abstain(f'{v.__name__}.from_wkt is inherited')
            rows.append(f'({KEYWORDS[k]}, {by_cls[v.__name__]})')
        return 'Definition g_parser_map : list (wtag * parser) := [' + '; '.join(rows) + '].\n'
    guarded('g_parser_map', parser_map)

    def parse_wkt():
        fd = world.modfn('parsers', 'parse_wkt')
        sp = FnSpec('parse_wkt', 'g_parse_wkt', [('wkt', 'wkt')], ('res', 'geom'))
        return translate_def(world, e, fd, sp, None, None, 'function')[0]
    if rep.get('g_parser_map') == 'translated':
        guarded('g_parse_wkt', parse_wkt)
    else:
        rep['g_parse_wkt'] = 'abstained: g_parser_map'
        parts.append('(* ABSTAINED g_parse_wkt: g_parser_map *)\n')
    open(out, 'w').write('\n'.join(parts) + FOOTER)
    return rep


if __name__ == '__main__':
    for k_, v_ in main(sys.argv[1], sys.argv[2]).items():
        print(k_, '::', v_)
