#!/usr/bin/env python3
"""Writes MANIFEST.json from the table below (kept in one place so it stays valid)."""
import json, os
HERE = os.path.dirname(os.path.dirname(os.path.abspath(__file__)))

CLAIMED = {
 'C06': dict(
   text='Machine-checked proof (Coq 8.16) that the model of TimeInterval is the set [start,end) / {start} over a dense '
        'timeline for every method, for all integers; the model is tied to time.py on every run by a translator '
        '(generated definitions proved equal to the model for all arguments) and by an exhaustive in-Coq correspondence '
        'over a 7-point timeline plus random microsecond datetimes. The union-covers clause is proved only partially '
        '(refuted in general: finding D8). Props/C06b.v (24 theorems, closed) adds the order and lattice laws for all '
        'well-formed intervals: the set semantics is injective, issubset is a partial order, intersection is commutative, '
        'idempotent, associative and the greatest lower bound of that order (None exactly when isdisjoint, Some exactly when '
        'intersects, issubset a b iff a&b = a), union is commutative, idempotent, associative, absorbs subsets and is an upper '
        'bound for proper intervals, the predicates are monotone; every one of these laws is also demanded of the '
        'implementation on chained library-returned objects (2500 triples of the exhaustive timeline in quick, all 21952 in thorough).',
   note='Trusted: Coq kernel + vm_compute; tools/translate.py and the abstraction datetime -> integer microseconds UTC; '
        'the harness. No axioms (closed under the global context).',
   technique='Coq proof over Q-dense set semantics + translator tie (GenEq by lia) + exhaustive in-Coq correspondence',
   ref='5/C06'),
}
CLAIMED['C05'] = dict(
   text='Machine-checked proof that the model of BaseShapeProtocol.contains/intersects is the conjunction of the spatial test '
        '(universally quantified) and the temporal test, the temporal factor being the set-theoretic one proved in C06 '
        '(shared instant / inclusion over a dense timeline), that either shape lacking dt gives the spatial test alone, and that a '
        'datetime is the zero-length interval. Model tied to _base.py and time.py on every run by the translator (GenEq lemmas for all '
        'arguments) and by an in-Coq correspondence over all ordered pairs of 15 shape fixtures x dt placements, constructor and set_dt. '
        'Props/C05b.v (9 theorems, closed) lifts laws of the spatial predicate through the time gate with the order laws of TimeInterval (C06b): '
        'symmetry of intersects, contains => intersects, transitivity of contains (with the side condition on an untimed middle shape, which is '
        'shown to be needed), monotonicity under widening the receiver time bounds, disjoint time sets => neither predicate holds, datetime forms = '
        'zero-length-interval forms; each law is also evaluated as an exact conditional instance on the implementation (400 / 6000 triples).',
   note='Trusted: Coq kernel + vm_compute; tools/translate.py; datetime -> integer microseconds UTC abstraction; harness. '
        'Spatial predicates are abstract in the theorems (C02 decides them). No axioms.',
   technique='Coq proof (composition law + C06 set semantics) + translator tie + in-Coq correspondence',
   ref='5/C05')
CLAIMED['C04'] = dict(
   text='Machine-checked proof, for every member-level predicate and every member list, that the model of the MultiShapeBase / '
        'single-shape member loops computes exists/forall over members and parts (receiver and argument side), is invariant under member '
        'permutation, that bounds are the bounding box of the member bounds (each side attained) and that split returns the members in order '
        'with the parent dt and properties. The model is tied to the code by an oracle-instantiated in-Coq correspondence: the '
        'implementation own member-level answers are combined by the model and compared with the implementation multi-level answer, '
        'with the deciding member at every position.',
   note='Trusted: Coq kernel + vm_compute; the hand statement that ShapeM mirrors the loops (checked by the translator tie and the correspondence); harness. Member-level truth is C01/C02. No axioms.',
   technique='Coq proof (loops = existsb/forallb, permutation invariance, min/max folds) + translator tie for the member loops (13 GenEq lemmas) + oracle-instantiated in-Coq correspondence',
   ref='5/C04')
CLAIMED['C09'] = dict(
   text='PARTIAL. Machine-checked proof (all vertex lists, all integers, every distance function) that vertex-shape bounds are exactly the '
        'min/max of the vertices (within + attained + dependent on the vertex set only), that multi-shape/collection bounds are the union of '
        'member bounds and equal the bounds of all vertices together, that the circumscribing rectangle has exactly the bounds, and that the '
        'centroid+farthest-vertex circles (linestring, multi-*, wedge) contain every vertex, touch one and are minimal for that centre; the '
        'GeoBox circle is proved to enclose exactly the corners not farther than the NW corner (finding D10). Tied to the code by an in-Coq '
        'correspondence with the implementation own distances as order-preserving integers. NOT decided by proof and exercised on fixed '
        'corpora only: the Welzl polygon circle (correctness, minimality, RNG-seed independence; findings D22, D50). '
        'The 1% clause IS proved (Props/C09c.v 17 theorems, Props/C09d.v 14 theorems, over the reals, |lat| <= 75, 0 <= r <= 10 km) for circles, full rings, '
        'ellipses at any rotation AND wedges (min/max over the <= 10 degree samples of both arcs never overshoot and fall short of the extents of the whole outline, arcs and radial arms, by at most r/100; '
        'finding D21 remains for wedges whose outline crosses +-180): the bounds the code computes (destinations at 315/135 deg and r*sqrt 2; ellipse axis extents), including the 7-decimal rounding, are within r/100 + 5.6 mm '
        'of the true extents of the curve, which are themselves proved to be the max/min (sup/inf for ellipses) of latitude and longitude along the curve; this real-number model is tied to '
        'structures.py by its own translator ties (gen_curvebounds: 4 GenEq lemmas; gen_wedgebounds: _draw_bounds, bounding_coords and both branches of GeoRing.bounds, the accumulating loop proved equal to the sample maps by induction) '
        'and per-shape interval lemmas |model - shape.bounds| <= 6e-8 deg (for wedges: every sample of bounding_coords() against the model, then min/max by comparison). The circumscribing circles of circles, ellipses and full rings are proved (over the reals, from the C03 '
        'on-curve theorems) to contain every generated boundary point for every k, with the ellipse radius attained; their float evaluation is exercised on a fixed corpus.',
   note='Trusted: Coq kernel + vm_compute; hand statement that BoundsM mirrors the min/max and max-distance expressions (checked by '
        'correspondence); harness; IEEE doubles compared through their order-preserving bit image. No axioms for the discrete theorems; the curved-bounds theorems (C09b, C09c) depend on the '
        'Reals axioms (ClassicalDedekindReals.sig_forall_dec, sig_not_dec, functional_extensionality_dep, Classical_Prop.classic), the interval lemmas on Interval primitive int/float operations; '
        'float/libm evaluation of the curved bounds is bounded per case, not proved.',
   technique='Coq proof (min/max folds, farthest-point circle for an abstract metric) + in-Coq correspondence; fixed corpora for unclaimed clauses + translator tie (bounds, circumscribing rectangles, centroid+farthest-vertex circles: 18 GenEq lemmas)',
   ref='5/C09')
CLAIMED['C01'] = dict(
   text='Machine-checked proof over arbitrary integer rings (hence rational coordinates, by scaling) that the model of _point_in_polygon / '
        'find_line_intersection / contains_coordinate decides exactly: strictly inside the outer ring (even-odd crossing number cast EAST, '
        'independent of the code westward ray and vertex rules; parity lemma for closed chains) and in no hole; outer boundary excluded, polygon-hole '
        'boundary included, boxes inclusive minus holes; answers invariant under rotation, reversal, re-closing and constructor normalisation; '
        'bounding-box prefilter never changes an answer. The box-hole boundary clause is REFUTED (finding D31); the 10-decimal snapping inside find_line_intersection can flip the answer for queries whose latitude needs 11+ decimals (finding D48, float effect outside the exact model). Tied to the code by an in-Coq '
        'correspondence on exhaustive grid / half-grid queries (all rotations and windings in thorough), random star polygons, direct '
        'find_line_intersection cases, plus an independent exact Fraction even-odd oracle on every query. For axis-aligned rectangles, triangles and EVERY strictly convex '
        'ring (any length, rotation, winding) the even-odd interior is proved to be the geometric interior (strictly left of every edge; Props/C01b.v, 22 theorems), and a GeoBox and '
        'its polygon form are proved to agree off the frame and differ exactly on it.',
   note='Trusted: Coq kernel + vm_compute; hand statement that GeomM mirrors the loops (checked by the translator tie, DESIGN 9.6, and by correspondence); harness. Not proved: polygonal Jordan '
        'for NON-convex simple rings (even-odd interior = topological interior; proved for rectangles, triangles, strictly convex rings); IEEE rounding / 1e-10 snapping off the exact grids; antimeridian-spanning shapes '
        '(excluded by the property). No axioms.',
   technique='Coq proof (exact-arithmetic ray cast = even-odd crossing number; parity lemma; rotation/reversal invariance) + in-Coq correspondence on exhaustive grids + translator tie (find_line_intersection with exact quotients proved equal to the cross-multiplied model, ray-cast loop, polygon/box membership: 21 GenEq lemmas)',
   ref='5/C01, 9')
CLAIMED['C02'] = dict(
   text='PARTIAL. Machine-checked proof that the sweep line (do_edges_intersect, modelled with its event ordering, active set and same-group shortcut) returns '
        'exactly the brute-force "some edge pair intersects" for ALL edge lists and never raises; that a hit means non-parallel segments sharing a rational '
        'point; that intersects_shape/contains_shape for polygon/box/linestring/point are the edge-pair disjunct plus first-vertex fallbacks, symmetric for '
        'all 16 kind pairs, contains => intersects, independent of time bounds, never raise for valid shapes; linestring containment = contiguous sub-list; '
        'a True intersection always has a witness point in both closed sets (soundness half of set truth); the edge-crossing disjunct is invariant under '
        'rotation/reversal. REFUTED and recorded as findings: boundary points / segment-interior points / polygon around a hole (D5a-c), vertex-order '
        'dependence of the first-vertex fallback for collinear paths (D29). FULL planar set truth is proved for the axis-aligned family (Props/C02b.v, 14 theorems): for GeoBox and '
        'rectangle GeoPolygon in every combination, start vertex, winding and argument order, over all integers, intersects_shape = the closed rectangles share a point and '
        'contains_shape = strict nesting (the collinear-overlap exception never changes the answer for rectangles); Box-contains-point is the closed box (frame counts: C01 convention, '
        'C02_box_contains_frame_point_refuted). For other shapes the converse of set truth is not claimed (polygonal Jordan).',
   note='Trusted: Coq kernel + vm_compute; SweepM/PairM mirror the code (checked by correspondence: direct do_edges_intersect stream, all ordered pairs of a 70-shape '
        'library x dt combinations x rotations, random valid pairs); GeomM tie from C01. IEEE rounding and antimeridian edges outside the model. No axioms.',
   technique='Coq proof (sweep invariant = brute force; symmetry; sub-list spec) + in-Coq correspondence + Python law oracle; closed-set reference on a fixed corpus only + translator tie (sweep: events, ordering, active set, loop body; 20 pair specialisations; is_sub_list, do_bounds_overlap)',
   ref='5/C02, 9')
CLAIMED['C18'] = dict(
   text='Machine-checked proof that each collection filter is List.filter of the per-shape predicate the code uses (argument order pinned: filter_contains uses '
        'x.contains(q), filter_contained_by uses q.contains(x); instants by equality, intervals by intersection; KeyError iff a member lacks the property key), '
        'returns the same collection type (Track stays chronological), preserves order (sublist), that collection bounds are the componentwise min/max of member '
        'bounds, and that len/iter/in/+/[] behave as the underlying list; per-shape predicates universally quantified. Tied to the code by an in-Coq '
        'correspondence instantiating the predicates with the implementation own per-member answers on FeatureCollections and Tracks of 0..12 mixed shapes, '
        'with asymmetric containment pairs and deep snapshots of the source before/after. Props/C18b.v (9 theorems, closed) adds the filter algebra for any per-shape '
        'predicates on well-formed collections: filtering twice = filtering by the conjunction, two filters commute, a filter is idempotent, true/false predicates give the '
        'collection / the empty collection of the same class, a stronger predicate selects an in-order sub-sequence of a weaker one, a filter and its complement partition the '
        'members, only the answers on the members matter; the commutation / composition / idempotence / order / monotonicity laws are also evaluated on the implementation over '
        'chained library-returned collections (250 / 5000 seeded cases).',
   note='Trusted: Coq kernel + vm_compute; FilterM mirrors the comprehensions (translator tie, DESIGN 9.6, + correspondence); harness. Hull containment is relative to C10 (explicit premise). '
        'Source non-mutation is observed by the correspondence, not a theorem (the model is pure). No axioms.',
   technique='Coq proof (filters = List.filter, sublist, min/max) + oracle-instantiated in-Coq correspondence + translator tie (the five filters: 9 GenEq lemmas)',
   ref='5/C18, 9')
CLAIMED['C17'] = dict(
   text='Machine-checked proof, for all item lists, that the Track model (stable insertion sort by start and every operation) keeps tracks chronological after '
        'construction, +, slicing, time filters, duplicate convolution and the speed filter (any finite chain), rejects shapes without dt, sorts as a stable '
        'permutation (uniquely determined), that slicing is exactly filter(a <= start /\\ end < b) with an omitted bound unbounded (defaults proved to exclude '
        'nothing; total, incl. the empty track), that filter_impossible_journeys keeps the first shape and thereafter exactly the shapes reachable from the '
        'previously KEPT one (inductive greedy characterisation, unique), and that convolution leaves one shape per distinct timestamp with the same timestamp set. '
        'Tied to the code by an in-Coq correspondence (all permutations of multisets up to 5 items, slice bounds at/1 us before/after every event, speed limits '
        'at and one ulp either side of every pairwise speed, chains of up to 6 operations), distances and merged positions instantiated from the implementation.',
   note='Trusted: Coq kernel + vm_compute; CollM mirrors collections.py (translator tie, DESIGN 9.6, + correspondence); harness. Outside the model: float rounding of dx/dt '
        '(near-ties excluded and counted), NaN speeds, datetime overflow of max(end)+1s. No axioms.',
   technique='Coq proof (stable sort, filter spec, inductive greedy characterisation) + in-Coq correspondence on operation histories + Python oracle + translator tie (Track.__init__, __add__, __getitem__, filters, convolve, speed filter: 32 GenEq lemmas)',
   ref='5/C17, 9')
CLAIMED['C10'] = dict(
   text='Machine-checked proof over all finite lists of integer points (hence rational, by scaling) that the model of Andrew monotone chain (dedup + lexicographic '
        'sort + <= 0 pops + lower[:-1]+upper) returns a closed ring of input points with no repeated vertex, every consecutive triple a STRICT left turn '
        '(counter-clockwise, no collinear vertex) when the inputs are not all collinear, that CONTAINS EVERY INPUT (cross a b p >= 0 for every hull edge; and, Props/C10b.v, in the sense '
        'of the library own point-in-polygon: the hull ring is proved strictly convex, so contains_coordinate of the hull polygon is true exactly on the geometric open convex hull for EVERY '
        'query point, every input is inside or on the outline, hull vertices are on it), that '
        'depends only on the SET of inputs (permutation and multiplicity invariance), with the one-point / two-point / all-collinear cases characterised exactly; '
        'entry points = hull of the concatenated member vertices. Tied to the code by an in-Coq correspondence through the public multi-shape / collection entry '
        'points on integer and dyadic multi-scale frames (2^0 .. 2^-100, several bases; exactness checked per case), all permutations of small sets, plus an '
        'exact Fraction oracle of every clause on the implementation output. DOMAIN: no hull edge spans more than 180 degrees of longitude (ensure_edge_bounds is then the identity: '
        'Props/C10c.v C10_narrow_edge_unadjusted); outside it the counter-clockwise clause FAILS on the real code - known finding D55 (GeoPolygon reads such an edge as crossing the antimeridian '
        'and reverses the hull; C10_wide_hull_reversed_refuted on the composed hull + constructor model; replayed on every run, and a wide-set family judges every other clause there).',
   note='Trusted: Coq kernel + vm_compute; HullM mirrors convex_hull (translator tie, DESIGN 9.6, + correspondence); harness exactness guard. IEEE rounding on non-dyadic inputs outside the model. No axioms.',
   technique='Coq proof (stack invariant of the pop loop, orientation lemmas by nia, sorted-dedup uniqueness) + in-Coq multi-scale correspondence + translator tie (convex_hull incl. both monotone-chain loops, callers: 32 GenEq lemmas)',
   ref='5/C10, 9')
CLAIMED['C15'] = dict(
   text='Machine-checked proof about an executable model of every __eq__, every __hash__ key, the GeoPolygon constructor, copy() and pickle: equality is reflexive, '
        'symmetric, transitive on well-formed shapes; equal shapes have equal hash keys (every kind, multi-shapes through member keys, Python set semantics modelled '
        'with dedup/size test and proved = mutual inclusion); a polygon equals itself rewritten from any start vertex / either winding, outline and hole outlines '
        '(non-zero ring area), hole order and member order free; equality is sound and complete against a structural specification; differing dt or vertex set => '
        'unequal; copy and pickle give equal, well-formed values whose object, properties (nested) and dt cells are fresh and isolated under writes (shared hole '
        'objects of copy() stated explicitly). Tied to the code by an in-Coq correspondence over all 11 kinds (all rotations x windings, all member permutations, '
        'one-field edits, is-identity and mutation-isolation observations, usability after pickle) plus a Python law oracle.',
   note='Trusted: Coq kernel + vm_compute; ValueM mirrors the code (translator tie, DESIGN 9.6, + correspondence); harness; Python hash is a function of the modelled key (no collision claim). '
        'Usable-after-pickle is observed, not proved. Curved bounding coordinates are a Section variable. No axioms.',
   technique='Coq proof (cyclic-list algebra, Python-set semantics with pigeonhole, abstract-location heap for copy/pickle) + in-Coq correspondence + Python law oracle + translator tie (every __eq__, __hash__ key, GeoPolygon.__init__, copy(): 80 GenEq lemmas)',
   ref='5/C15, 9')
CLAIMED['C16'] = dict(
   text='Machine-checked proof over ANY finite operation list that, in the state-machine model (geometry, holes, dt, properties, cache cells), reads and to_polygon '
        'change nothing observable and repeat their answer, raising operations change nothing, every filled cache stays coherent with the current state, EVERY '
        'observation after any history (volume included) equals that of a freshly constructed shape, inplace=False leaves the receiver untouched and returns the '
        'in-place result on a copy, and each update does exactly what is documented. Tied to the code by an in-Coq correspondence on operation histories (11 kinds, '
        '1..8 ops, state compared after every op), bit-identical comparison of 10 observations with freshly constructed implementation objects, mutation of returned '
        'objects not visible in the receiver; failing histories are shrunk.',
   note='Trusted: Coq kernel + vm_compute; StateM mirrors _base.py/structures.py (translator tie, DESIGN 9.6, + correspondence); geometry functions are Section variables; member/hole caches not '
        'modelled; arguments are values in the model (their integrity is observed by the harness). No axioms.',
   technique='Coq proof (coherence invariant by induction over operation lists) + in-Coq correspondence on histories + fresh-object differential + translator tie (mutators, getters, copy(): 17 GenEq lemmas)',
   ref='5/C16, 9')
CLAIMED['C07'] = dict(
   text='Machine-checked real-analysis proofs (Coq Reals) about the formulas the code contains: haversine distance is symmetric, zero on identical points, in '
        '[0, PI*R] (attained exactly at antipodes), equals R*acos(u.v) (the great-circle distance on the 6 371 000 m sphere) and the chord/unit-vector distance, is '
        'unchanged by the antimeridian un-wrapping and by any common longitude shift with re-normalisation; the bearing is in [0,360) before and after rounding and '
        'is the initial azimuth (following it for the computed distance arrives at the target); the direct problem returns the point at exactly the requested '
        'distance (dest_dist) and initial bearing (dest_bearing), identically for the degree and radian entry points, rounding bounded by 5e-8 deg per axis; planar '
        'rotation is an isometry about the origin, composes additively, is the identity at 0. Tied to calc.py/_geometry.py on every run by the translator (6 GenEq '
        'lemmas, by reflexivity) and by per-case `interval` lemmas |model - implementation| <= eps (quick ~250, thorough ~2500) plus a numeric law oracle.',
   note='Trusted: Coq kernel; Reals axioms (ClassicalDedekindReals.sig_forall_dec, sig_not_dec, functional_extensionality_dep, Classical_Prop.classic) and the '
        'primitive int/float operations Interval uses; tools/translate.py + gen_sphere.py rewrites; harness. The 2 cm clause is proved in METRES over the reals '
        '(C07_dest_within_2cm: the rounded destination is within 0.02 m of the exact one; C07_small_displacement: |dlon|,|dlat| <= e <= 1 deg gives '
        'distance <= 2*R*rad(e)). NOT proved: IEEE/libm error (bounded per case by the interval lemmas and the oracle); dist_xyz_meters and rotate_coordinates are tied by correspondence only; '
        'finding D34 (longitude exactly -180 cannot be un-wrapped).',
   technique='Coq real-analysis proofs (nsatz/ring/field identities, atan2 by cases) + translator tie + per-case interval-arithmetic correspondence',
   ref='5/C07, 9')
CLAIMED['C03'] = dict(
   text='PARTIAL. Machine-checked proofs that the analytic membership tests of circle / ellipse / ring / wedge are exactly their documented definitions (distance and '
        'bearing compared with the radius function, holes removed), that b <= radius_at <= a with the axis values, that EVERY generated boundary point lies exactly '
        'on the defined curve at the scheduled bearing for any k (from dest_dist / dest_bearing of C07), circle bearings strictly decrease along the list, ring/wedge bearings are strictly monotone in the index on both arcs, first = last, '
        'list shapes for every k; the returned coordinate is within 5e-8 deg per axis, and hence within 2 cm in METRES (haversine; proved: small-displacement bound 2*R*rad(e) via atan x <= x and |sin x| <= |x|), of a point exactly on the curve. Tied to the '
        'code by the translator (4 GenEq lemmas) and per-case `interval` lemmas for boundary coordinates and contains decisions plus a numeric oracle with an '
        'independent geodesic. The chord-error clause (polygon form vs analytic test) is NOT proved and is exercised on a fixed corpus only; findings D35 (polygon '
        'form across +-180) and D36 (wedge through north).',
   note='Trusted: as C07 (Reals axioms, Interval primitives, translator, harness). Not proved: IEEE/libm error, strict angular order for the ellipse (its bearings are known only modulo 360), chord error.',
   technique='Coq real-analysis proofs on top of C07 + translator tie + per-case interval correspondence; fixed corpus for the chord clause',
   ref='5/C03, 9')
CLAIMED['C11'] = dict(
   text='Machine-checked proof, for every table satisfying cfg_ok (proved by computation for the three tables REGENERATED from geohash.py on every run), every rational '
        'coordinate and every length/string (no bound): encode yields exactly n characters of the alphabet; the decoded closed cell contains the coordinate; shorter '
        'encodings are prefixes; re-encoding the centre (indeed any point of the half-open cell) returns the same geohash; the 2^bits sub-hashes are distinct, inside the '
        'parent, cover it, have disjoint interiors and their areas add up; out-of-alphabet characters give ValueError and in-alphabet strings always decode; the cell box '
        'has the cell corners and contains the closed cell when the east edge is below 180 (REFUTED at 180: finding D12a). Tied to the code by the regenerated-table '
        'GenEq lemmas and an in-Coq correspondence exhaustive over all 9 584 cells to depth 3/2/2 plus random coordinates at lengths 1..12 under all three bases interleaved.',
   note='Trusted: Coq kernel + vm_compute; gen_geohash.py table dump; harness. Float = rational agreement rests on exact dyadic bisection (length <= 12..22 depending on base; '
        'observed, not proved). No axioms.',
   technique='Coq proof (induction on the bit schedule, generic in the table) + regenerated-table tie + exhaustive in-Coq correspondence + translator tie for the codec functions',
   ref='5/C11, 9')
CLAIMED['C12'] = dict(
   text='PARTIAL. Machine-checked proof, for every cell type, neighbour function, per-cell test and queue order, that the flood fill returns exactly the cells reachable '
        'from the start cell through touching cells (sound, complete, terminating on the Niemeyer instance, no duplicates); that a multi-shape hashes to the union of '
        'its members; that hash_collection maps each cell to the aggregation of exactly the shapes whose own hash set contains it, in collection order (count by '
        'default), and hash_coordinates likewise; a point hashes to its cell (via C11). "Exactly the touched cells" holds under the hypothesis that the touched cells '
        'are connected to the start cell. That hypothesis is PROVED (Props/C12b.v, 21 theorems) when the touched cells form a rectangle or an L-convex set of grid cells (4-neighbour moves suffice), '
        'the concrete _get_surrounding on geohash strings is proved to be the 8-neighbourhood of the integer cell index away from the grid border (all bases, all lengths), and for the geometric '
        'closed-box overlap test the Niemeyer flood is proved to return exactly the cells sharing a point with an axis-aligned query box (with termination). For a hole-free GeoBox QUERY the chain is closed inside Coq (Props/C12c.v, 12 theorems): composing C02b (box x box intersects = closed rectangles meet) with the C11 cell-box model, the implementation-model per-cell '
        'test equals the geometric box test wherever the flood evaluates it (integer-scaled data, cells away from the lon-180 column: C12c_east_column_refuted shows equality fails there, finding D12), hence hashing such a box returns '
        'exactly the cells sharing a point with it. NOT proved: connectivity for general shapes, and geometric truth of the per-cell test for query shapes other than boxes. Tied to the code '
        'by an in-Coq correspondence that instantiates the per-cell test with the implementation own answers over an enlarged window and compares with the model flood '
        'and the full touched set. H3 clauses: no theorem, fixed corpus only. Finding D12b (east column at lon 180).',
   note='Trusted: Coq kernel + vm_compute; FloodM mirrors the loop (translator tie, DESIGN 9.6, + correspondence); C11 codec model for neighbours; harness. No axioms.',
   technique='Coq proof (BFS reachability invariants, group-by specification) + oracle-instantiated in-Coq correspondence; fixed corpus for H3 + translator tie (flood loops as a simulation, neighbours, group-by: 37 GenEq lemmas)',
   ref='5/C12, 9')
CLAIMED['C08'] = dict(
   text='Machine-checked proof over all rational longitude/latitude (no bound) that the model of Coordinate.__init__ (pole-reflection loop, antimeridian loop, 180 -> -180) '
        'always terminates, stores longitude in [-180,180) and latitude in [-90,90], relates the stored pair to the raw pair by full turns and pole reflections (same_pt, '
        'characterised exactly as an orbit), is idempotent, fixes canonical input, and is the unique canonical representative away from the poles; that == is equality of '
        '(lon, lat, z) whatever M is and implies equal hash keys (and conversely), Z and M are stored as given; over the reals, that related pairs have the same unit vector '
        '(so the stored coordinate denotes the same point of the sphere) and that _from_xyz inverts xyz for every stored pair away from the poles (at the poles the point does '
        'not depend on the longitude). Tied to the code by an in-Coq correspondence on ints, floats and numeric strings (multiples of 90/180/360, +-0.0, one-ulp neighbours '
        'of the range ends, dyadics to +-1e5): exact agreement wherever fractions.Fraction shows the float loops exact, 4 ulp otherwise, with the proved range and idempotence '
        'facts demanded of the implementation output inside Coq; xyz round trip observed numerically. A second, BIT-EXACT IEEE binary64 model of the constructor over Coq primitive '
        'floats (CoordF.v) is tied to the code by its own translator tie and a bit-for-bit correspondence on every kind of finite double (about 10% with genuinely rounding loop operations): '
        'for all doubles, range / idempotence / fuel-monotonicity follow from the loop exits with no axioms (C08f_range, C08f_idempotent), and termination within 559 iterations is '
        'proved for all doubles in +-1e5 via Flocq (C08f_terminates, C08f_total); C08f_diverges_2p61 shows the bound is needed (Coordinate(0.0, 2.0**61) never returns).',
   note='Trusted: Coq kernel + vm_compute; CoordM mirrors the loops (translator tie, DESIGN 9.6, + correspondence); harness exactness guard. Real-number part: Coq Reals axioms '
        '(ClassicalDedekindReals.sig_forall_dec, sig_not_dec, functional_extensionality_dep) as printed per theorem; the float termination theorems additionally the stdlib FloatAxioms '
        '(add_spec, sub_spec, leb_spec, ltb_spec, Prim2SF_valid, SF2Prim_Prim2SF, Prim2SF_SF2Prim), Classical_Prop.classic and the primitive float/int63 operations. Not proved: that the float '
        'result denotes the same point as the raw input when a loop operation rounds (bounded by the 4-ulp comparison; the float theorems give range, idempotence, termination); libm in xyz/_from_xyz.',
   technique='Coq proof (fuelled loops proved total, orbit characterisation, uniqueness; trigonometric periodicity over R; binary64 model over primitive floats with Flocq termination proof) + in-Coq correspondence (exact rationals with an exactness guard; bit-exact floats) + translator tie (Coordinate.__init__ while-loops as condition/step, __eq__, __hash__; rational and float back ends)',
   ref='5/C08, 9')
CLAIMED['C13'] = dict(
   text='PARTIAL. Machine-checked proof (token level: keyword, Z/M marker, nested coordinate tuples; any number of parts, holes, vertices) that reading what was written with the '
        'type own reader returns the very same shape for points, linestrings, polygons with holes and the three multi forms, that parse_wkt dispatches to that reader, that '
        'MULTIPOINT is also read in the OGC form with one parenthesised coordinate per point (what Shapely writes; repair D41), box/circle/ellipse/ring/wedge write and dispatch as POLYGON (box = exactly the WKT of its polygon form; curved shapes conditional on the sampled outline being closed and '
        'counter-clockwise, which the correspondence observes), that a wrong or unknown keyword, lowercase keyword, unaccepted nesting depth or a tuple of arity outside 2..4 gives '
        'ValueError, and that everything the gate accepts has the keyword, depth and arities of its type. REFUTED and recorded as findings: z = 0 is dropped (D14b); a digit run '
        'split by the number pattern gives TypeError (D26); a polygon with a 2-D shell and a 3-D hole writes text an independent reader rejects (D51). Tied to the code by the translator (the 11 regular expressions and the parser table of the CURRENT tree, re-parsed '
        'with the stdlib regex parser and proved equal to the model terms), an executable character-level model of the readers, and an in-Coq correspondence on round trips of '
        'every kind and on every single-character corruption of valid texts (outcome Ok/ValueError/TypeError compared). Agreement with Shapely as the independent reader is '
        'OBSERVED on every generated shape (no theorem).',
   note='Trusted: Coq kernel + vm_compute; gen_wkt.py; WktM mirrors the assembly loops (correspondence); str(float)/float() are inverse on the lexical class the grammar '
        'accepts (assumed at token level, observed per case); Shapely/GEOS for the independent-reader clause. No axioms.',
   technique='Coq proof (round trip by induction over parts/holes/vertices, gate soundness, rejection) + regex translator tie + in-Coq correspondence incl. all single-character corruptions + translator tie for the writers, readers and dispatch (46 GenEq lemmas)',
   ref='5/C13, 9')
CLAIMED['C14'] = dict(
   text='Machine-checked proof about an executable model of to_geojson / from_geojson / parse_geojson / the GeoPolygon constructor: the shoelace sum the code computes is '
        '-2 x signed area for closed rings (induction; general form for open ones), so is_counter_clockwise decides the orientation and after construction the exterior ring is '
        'counter-clockwise and every hole clockwise (non-zero area); exported rings are closed (curved shapes conditional on the sampled ring, observed); the export is a Feature '
        '(FeatureCollection with id = index) with the RFC geometry type, [lon, lat(, z)] positions, JSON-serialisable, dt fields and user properties under properties with '
        'caller-supplied ones overriding; import(export s) returns an equal shape with the same time bounds and properties for every kind incl. multi-polygons with holes and for '
        'collections, through Type.from_geojson and parse_geojson; import returns the caller document unchanged, so importing twice gives equal results (refuted for the '
        'pre-D15 code as a regression statement). REFUTED: z = 0 does not survive (finding D14a). Tied to the code by an in-Coq correspondence: 700+ rings through '
        'is_counter_clockwise and the constructor, every vertex-defined kind x dt x properties x Z x k x kwargs exported (also after in-place updates of a previously exported '
        'object), re-imported (dict, twice, text), collections and tracks, a fixed corpus of curved shapes and of 60 edge/malformed documents, the document deep-compared before/after.',
   note='Trusted: Coq kernel + vm_compute; GeoJsonM/RingM mirror the code (translator tie, DESIGN 9.6, + correspondence); json and datetime.isoformat/fromisoformat are inverse (stdlib, observed per case); '
        'quarter-degree grid makes the float shoelace exact. M values are outside the property. No axioms.',
   technique='Coq proof (shoelace induction, constructor normalisation, per-kind round trip, purity as state passing) + in-Coq correspondence incl. export-after-update histories + translator tie for is_counter_clockwise, GeoPolygon.__init__ and the export side (49 GenEq lemmas)',
   ref='5/C14, 9')
CLAIMED['C19'] = dict(
   text='PARTIAL. Machine-checked proof over all rational coordinates of an exact model of to_dms / from_dms / to_qdms / from_qdms / round_half_up: DMS fields are in range '
        '(0 <= min < 60, 0 <= sec <= 60 with 60 reachable), hemisphere letters match the sign, the DMS round trip is within (0.5e-5 + 1e-17) arc-second per axis, QDMS strings are '
        'always 10 and 9 characters (either order) and read back exactly the numbers written, the QDMS round trip is within qdms_eps = 0.005"+0.5e-5" + 0.5e-6 deg per axis and within '
        '1e-6 deg for inputs with at most 6 decimals. The literal 0.005" is REFUTED for the text (double rounding) and exceeded by the real reader rounding: finding D37. '
        '"Projected values are returned as-is" is proved only when they happen to lie in the degree ranges and REFUTED in general (finding D20), for every third-party transform. '
        'Tied to the code by an in-Coq correspondence (57 000+ evaluations: every sign combination, whole seconds, trailing-zero hundredths, seconds rounding to 60, 6-decimal '
        'inputs, hand-made tuples and digit strings; the float product abs(dd)*3600 enters as the rational it evaluates to with a half-ulp obligation checked in Coq; '
        "Python '.2f' formatting validated on its whole finite domain). NOT decided by proof: MGRS (1.5 m) and pyproj (1 m) round trips - compiled third-party numerics, "
        'exercised on fixed corpora (UTM and UPS latitudes, 5 CRSs) only.',
   note='Trusted: Coq kernel + vm_compute; FormatM mirrors the code (translator tie, DESIGN 9.6, + correspondence); harness. mgrs and pyproj are outside the model. No axioms.',
   technique='Coq proof (exact rational rounding arithmetic, digit-string read/write inverse) + in-Coq correspondence; fixed corpora for MGRS/pyproj + translator tie (round_half_up, DMS/QDMS converters, projection/MGRS glue: 34 GenEq lemmas)',
   ref='5/C19, 9')
CLAIMED['C20'] = dict(
   text='PARTIAL. The third-party codecs (pyshp binary I/O and its __geo_interface__, pandas/Shapely/GEOS, fastkml/pygeoif) cannot be modelled; what is modelled and '
        'proved (44 theorems, closed under the global context) is the in-library glue of the three paths, with each codec a universally quantified function carrying an '
        'explicit contract premise: the isinstance cascade of to_shapefile is a partition into the four layers that keeps collection order within each family, and the '
        'archive is read back family by family in that order (same for KML folders); to_pyshp emits every ring reversed, so a constructed polygon goes out with a clockwise '
        'shell and counter-clockwise holes (ESRI rule), multipolygons part by part; under the pyshp contract (clockwise ring opens a polygon, following rings are its holes, '
        'Z list in written order) from_pyshp(to_pyshp g) returns the very same polygon / multipolygon with holes and per-vertex Z (pop(0) threading), lines, multi-lines, '
        'points, multi-points, and box / curved shapes come back as the polygon with the same linear rings; the time columns / pandas cells / KML TimeStamp-TimeSpan are inverted '
        'by the readers for {no dt, instant, interval}; GeoPandas geometry relative to the C13 WKT theorem; KML geometry relative to the C14 theorem. Property dictionaries: '
        'string/int/bool (shapefile), pandas-kept values, non-empty strings (KML) survive (_partial); equality is REFUTED with witnesses: findings D38 (float truncated), D39 (ID '
        'added), D40/D42 (missing keys filled), D43 (sub_folder_0), D45/D46 (non-string / falsy KML values), D44 (one-member multi-shapes lose their type), D54 (shapefile text over 50 UTF-8 bytes is cut, a cut inside a character makes the layer unreadable); D41 (MULTIPOINT text of '
        'Shapely 2 rejected) was repaired in /repo and is now a proved round trip. Tied to the code by an in-Coq correspondence on 480-540 (quick) real archive / frame / folder round trips per run: Coq checks that the writer glue '
        'equals what the codec stored, that the contract instance holds on what the codec returned, and that the reader glue on the observed codec output equals the implementation '
        'shape; an independent Python oracle evaluates the property itself.',
   note='Trusted: Coq kernel + vm_compute; ArchiveM mirrors the glue (translator tie, DESIGN 9.6, + correspondence); the codec contracts are premises of the theorems and are CHECKED per case, not proved; '
        'C13/C14 models reused. Not covered: binary encoding, pyshp hole grouping on invalid polygons, DBF limits (names > 10 chars, text > 50 chars), pandas dtype inference, '
        'GEOS number formatting, KML text serialisation, M values, mixed Z / no-Z layers (pyshp refuses them). No axioms.',
   technique='Coq proof of the in-library glue with the codecs as contract-carrying parameters (list partition/order, ring orientation via the C14 shoelace lemmas, reader/writer inverses) + in-Coq correspondence on real round trips that also checks each contract instance + translator tie for the shapefile path and the KML time codec (32 GenEq lemmas)',
   ref='5/C20, 6, 9')
NOT_YET = {}
NA = {
 'C20_unused': 'The observable is the composition of three third-party codecs (pyshp binary I/O, GeoPandas/GEOS, fastkml XML); '
        'no executable Gallina model of them is possible here and identity oracles would assume the conclusion (DESIGN.md section 6).',
}

def main():
    props = [json.loads(l)['id'] for l in open(os.path.join(HERE, 'properties.jsonl'))]
    checks = []
    for pid in props:
        if pid in CLAIMED:
            c = CLAIMED[pid]
            checks.append({
              'property_id': pid,
              'quick_cmd': f'bin/check {pid} --tier quick',
              'thorough_cmd': f'bin/check {pid} --tier thorough',
              'evidence_file': f'/verif/evidence/{pid}.json',
              'replay_cmd_template': f'bin/check {pid} --replay {{path}}',
              'engine': 'coq-proof+correspondence',
              'level_claimed': {'category': 'proof', 'text': c['text'], 'design_ref': c['ref']},
              'level_note': c['note'],
              'technique': c['technique'],
            })
    na = []
    for pid in props:
        if pid in CLAIMED:
            continue
        na.append({'property_id': pid, 'reason': NA.get(pid) or NOT_YET.get(pid) or
                   'model and proofs not built yet in this development (planned in DESIGN.md section 5); not claimed'})
    m = {
      'version': 1,
      'setup_cmd': 'cd /verif && tools/mkproject.sh && cd coq && coq_makefile -f _CoqProject -o Makefile && (timeout 3000 make -k -j16; true)',
      'hooks': {'guard': 'GEOSTRUCTURES_VERIF', 'enable': 'no hooks are needed: every observable is reachable through the public API (the checks export GEOSTRUCTURES_VERIF=1 anyway)',
                'baseline_off_cmd': 'cd /repo && /venv/bin/python -m pytest -ra -q -p no:cacheprovider --timeout=900 --continue-on-collection-errors',
                'source_commits': [], 'add_only': True},
      'engines': [{'name': 'coq-proof+correspondence', 'path': '/verif/coq', 'serves_properties': sorted(CLAIMED),
                   'kind_free_text': 'Coq 8.16 development (models, proofs, property files), a fail-closed Python-ast->Gallina translator re-run on every check, and an in-Coq (vm_compute) correspondence between model and implementation'}],
      'checks': checks,
      'not_applicable': na,
      'notes': 'See DESIGN.md. Known findings: KNOWN_FINDINGS.json. Seeded breaking changes: seeded/.',
    }
    json.dump(m, open(os.path.join(HERE, 'MANIFEST.json'), 'w'), indent=1)

if __name__ == '__main__':
    main()
