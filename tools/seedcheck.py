#!/usr/bin/env python3
"""Runs the registered quick checks against every seeded breaking change under /verif/seeded/.
Each change is applied to a scratch copy of /repo (outside /repo and /verif, removed afterwards);
the check runs as a tagged side run so that evidence files and replays of the real runs are untouched.
usage: tools/seedcheck.py [name ...] [--tier quick|thorough]"""
import json, os, shutil, subprocess, sys
HERE = os.path.dirname(os.path.dirname(os.path.abspath(__file__)))
names = [a for a in sys.argv[1:] if not a.startswith('--')]
tier = sys.argv[sys.argv.index('--tier') + 1] if '--tier' in sys.argv else 'quick'
sd = os.path.join(HERE, 'seeded')
rows = []
for name in sorted(os.listdir(sd)):
    d = os.path.join(sd, name)
    if not os.path.isdir(d) or (names and name not in names):
        continue
    meta = json.load(open(os.path.join(d, 'meta.json')))
    scratch = f'/tmp/seedrun-{name}'
    shutil.rmtree(scratch, ignore_errors=True)
    subprocess.run(['git', '-C', '/repo', 'worktree', 'add', '-q', '--detach', scratch, 'HEAD'], check=True)
    try:
        subprocess.run(['git', '-C', scratch, 'apply', os.path.join(d, 'patch.diff')], check=True)
        env = dict(os.environ, VERIF_REPO=scratch, VERIF_RUNTAG='-seed-' + name)
        for pid in meta.get('checks', [meta['property']]):
            r = subprocess.run([os.path.join(HERE, 'bin', 'check'), pid, '--tier', tier], env=env, cwd=HERE,
                               stdout=subprocess.PIPE, stderr=subprocess.STDOUT, text=True)
            viol = [l for l in r.stdout.split('\n') if l.startswith('VIOLATION')]
            rows.append((name, pid, r.returncode, len(viol), viol[0] if viol else ''))
            kinds = []
            for v in viol:
                try:
                    kinds.append(json.load(open(v.split('replay=')[1].split()[0])).get('kind', '?'))
                except Exception:
                    kinds.append('?')
            caught = r.returncode == 1 and bool(viol)
            meta.setdefault('results', {})[pid] = {
                'tier': tier, 'caught': caught, 'violation_lines': len(viol), 'kinds': sorted(set(kinds)),
                'no_failing_input_found_only': bool(viol) and all('no-failing-input-found' in v for v in viol),
                'broken_obligations': [l.strip() for l in r.stdout.split('\n') if l.startswith('[') and 'obligations=' in l][-1:]}
            meta['result'] = ('CAUGHT by bin/check ' + pid + ' (' + ', '.join(sorted(set(kinds))) + ')') if caught else 'MISSED by bin/check ' + pid
            json.dump(meta, open(os.path.join(d, 'meta.json'), 'w'), indent=1)
            print(f'{name:28s} {pid} exit={r.returncode} violations={len(viol)} {"CAUGHT" if r.returncode == 1 and viol else "MISSED"}'
                  f'{" (no-failing-input-found)" if viol and all("no-failing-input-found" in v for v in viol) else ""}', flush=True)
            for rd in os.listdir(os.path.join(HERE, '.run')):
                if rd.startswith(pid + '-seed-' + name):
                    p_ = os.path.join(HERE, '.run', rd)
                    shutil.rmtree(p_, ignore_errors=True) if os.path.isdir(p_) else os.remove(p_)
    finally:
        subprocess.run(['git', '-C', '/repo', 'worktree', 'remove', '--force', scratch])
