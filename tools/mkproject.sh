#!/bin/bash
# Regenerates coq/_CoqProject from the files present (hand-written development only).
cd "$(dirname "$0")/../coq" || exit 1
{ echo "-Q theories GV"; find theories -name '*.v' | LC_ALL=C sort; } > _CoqProject.new
if ! cmp -s _CoqProject.new _CoqProject 2>/dev/null; then mv _CoqProject.new _CoqProject; else rm _CoqProject.new; fi
