#!/usr/bin/env python3
"""C08 - coordinates are stored in canonical form denoting the same point.  DESIGN.md 5/C08.

Tie (K): every generated input is given to the real constructor; the input and the stored
values are written as exact rationals (float.as_integer_ratio) and Coq's vm_compute compares
them with the model `CoordM.mk`.  Per DESIGN section 3 the harness decides with
fractions.Fraction whether every float operation of the two loops is exact on that input;
if so the model must agree exactly, otherwise within 4 ulp(180) (longitudes modulo 360) - and in
both cases the proved range / idempotence facts are demanded of the implementation's own
output inside Coq.  The property is also evaluated directly in Python (oracle) so that a
mismatch comes with a concrete failing input.
"""
import math
import os
import signal
import sys
from fractions import Fraction as F

sys.path.insert(0, os.path.dirname(os.path.abspath(__file__)))
from lib import Check, blit, qlit   # noqa: E402
from lib import REPO   # noqa: E402
import gen_coord   # noqa: E402  (tools/: translator tie, proved in coq/geneq/CoordGenEq.v)
import c08f   # noqa: E402  (bit-exact binary64 model CoordF.v: every finite float input)

from geostructures.coordinates import Coordinate     # noqa: E402  (the implementation)

TOL = F(1, 2 ** 43)          # 4 ulp of a double in [128, 256)
INF = float('inf')


class Hang(Exception):
    pass


def with_alarm(fn, secs=5.0):
    """the constructor contains `while` loops: a broken edit can make it spin forever"""
    def handler(*_):
        raise Hang()
    old = signal.signal(signal.SIGALRM, handler)
    signal.setitimer(signal.ITIMER_REAL, secs)
    try:
        return fn()
    finally:
        signal.setitimer(signal.ITIMER_REAL, 0)
        signal.signal(signal.SIGALRM, old)


HANGS = [0]


def build(lon, lat, z=None, m=None, bounded=True):
    try:
        # after a few time-outs the remaining calls get a short leash (a broken loop would
        # otherwise cost 5 s per input)
        return ('Ok', with_alarm(lambda: Coordinate(lon, lat, z, m, bounded), 5.0 if HANGS[0] < 3 else 0.25))
    except Hang:
        HANGS[0] += 1
        return ('Hang', None)
    except Exception as ex:   # noqa
        return ('Err', type(ex).__name__)


def float_loop_exact(lon, lat):
    """Replays the two loops of Coordinate.__init__ in doubles and checks each arithmetic result
    against exact rational arithmetic.  True = the float computation IS the rational one."""
    ok = True

    def chk(res, exact):
        nonlocal ok
        if F(res) != exact:
            ok = False
        return res
    n = 0
    while not -90 <= lat <= 90:
        if lat > 90:
            t = chk(lat - 90, F(lat) - 90)
            lat = chk(90 - t, 90 - F(t))
        else:
            t = chk(lat + 90, F(lat) + 90)
            lat = chk(-90 - t, -90 - F(t))
        lon = chk(lon + 180, F(lon) + 180) if lon < 0 else chk(lon - 180, F(lon) - 180)
        n += 1
        if n > 10 ** 6:
            return False, n
    while not -180 <= lon <= 180:
        lon = chk(lon - 360, F(lon) - 360) if lon > 180 else chk(lon + 360, F(lon) + 360)
        n += 1
        if n > 10 ** 6:
            return False, n
    return ok, n


def oq(v):
    return 'None' if v is None else f'(Some {qlit(F(v))})'


def unit(lon, lat):
    la, lo = math.radians(lat), math.radians(lon)
    return (math.cos(la) * math.cos(lo), math.cos(la) * math.sin(lo), math.sin(la))


def vdist(a, b):
    return max(abs(x - y) for x, y in zip(a, b))


def forms(v):
    """the ways the same number can be handed to the constructor"""
    out = [('float', v), ('str', repr(v))]
    if v == int(v) and abs(v) < 2 ** 53:
        out += [('int', int(v)), ('str', str(int(v)))]
    return out


def oracle(lonv, latv, c):
    """the property itself on the implementation's answer; list of (clause, detail)"""
    bad = []
    lo, la = c.longitude, c.latitude
    if not (-180 <= lo < 180):
        bad.append(('range', f'stored longitude {lo!r} is outside [-180,180)'))
    if not (-90 <= la <= 90):
        bad.append(('range', f'stored latitude {la!r} is outside [-90,90]'))
    r = build(lo, la)
    if r[0] != 'Ok' or (r[1].longitude, r[1].latitude) != (lo, la):
        bad.append(('idempotence', f'normalising the stored pair again gives '
                                   f'{(r[1].longitude, r[1].latitude) if r[0] == "Ok" else r}'))
    d = vdist(unit(lonv, latv), unit(lo, la))
    if not d <= 1e-9:
        bad.append(('same-point', f'unit vector of the raw input and of the stored pair differ by {d:.3g}'))
    if not bad:
        try:
            dx = vdist(tuple(c.xyz), unit(lo, la))
            if not dx <= 1e-12:
                bad.append(('xyz', f'Coordinate.xyz differs from (cos lat cos lon, cos lat sin lon, sin lat) by {dx:.3g}'))
            back = Coordinate._from_xyz(c.xyz)
            d2 = vdist(unit(back.longitude, back.latitude), unit(lo, la))
            if not d2 <= 1e-9:
                bad.append(('xyz-roundtrip', f'_from_xyz(xyz) is {d2:.3g} away (unit vector)'))
            elif abs(la) <= 89:
                dl = abs(back.longitude - lo)
                dl = min(dl, abs(dl - 360))
                if dl > 1e-9 or abs(back.latitude - la) > 1e-9:
                    bad.append(('xyz-roundtrip', f'_from_xyz(xyz) = {(back.longitude, back.latitude)} for {(lo, la)}'))
        except Exception as ex:   # noqa
            bad.append(('xyz-roundtrip', f'raised {type(ex).__name__}: {ex}'))
    return bad


def nxt(x, up):
    return math.nextafter(x, INF if up else -INF)


def gen_values(ck):
    """(lon, lat, class) triples"""
    rng = ck.rng
    out = []
    mult90 = [float(k * 90) for k in range(-14, 15)]
    # exact multiples of 90/180/360, all pairs on a window, + signed zeros
    for lo in mult90 + [0.0, -0.0]:
        for la in mult90[4:-4] + [0.0, -0.0]:
            out.append((lo, la, 'multiple-of-90'))
    # one ulp either side of the range ends and their repeats
    edges = [90.0, 180.0, 270.0, 360.0, 450.0, 540.0]
    near = []
    for e in edges:
        for s in (1, -1):
            near += [s * e, nxt(s * e, True), nxt(s * e, False)]
    near += [0.0, -0.0, 5e-324, -5e-324, 1e-20, -1e-20, 2.0 ** -52, -2.0 ** -52]
    for lo in near:
        for la in near:
            out.append((lo, la, 'ulp-neighbour'))
    n = 900 if ck.tier == 'quick' else 20000
    # random dyadics in +-1e5 (exact in the float loop)
    for _ in range(n):
        j = rng.choice([0, 0, 1, 2, 3, 8, 16, 20])
        big = rng.choice([200, 800, 5000, 100000])
        lo = rng.randrange(-big * 2 ** j, big * 2 ** j + 1) / 2 ** j
        la = rng.randrange(-big * 2 ** j, big * 2 ** j + 1) / 2 ** j
        out.append((lo, la, 'dyadic'))
    # random decimal (non-dyadic) doubles; small ones against out-of-range partners
    for _ in range(n // 3):
        big = rng.choice([200, 800, 5000, 100000])
        lo = rng.uniform(-big, big)
        la = rng.uniform(-big, big)
        out.append((round(lo, rng.choice([1, 3, 6, 15])), round(la, rng.choice([1, 3, 6, 15])), 'decimal'))
    for _ in range(n // 6):
        lo = rng.choice([1, -1]) * 10.0 ** rng.randrange(-30, 1) * rng.random()
        la = rng.choice(edges + [91.0, -91.0, 271.5]) * rng.choice([1, -1]) + rng.choice([0, 0.25, -0.5, 1e-9])
        out.append((lo, la, 'tiny-lon-over-pole'))
    # a random value next to a multiple of 90 in one axis
    for _ in range(n // 3):
        e = rng.choice(edges) * rng.choice([1, -1])
        x = rng.choice([e, nxt(e, True), nxt(e, False)])
        y = rng.randrange(-4000 * 16, 4000 * 16) / 16
        out.append((x, y, 'edge-x-dyadic') if rng.random() < .5 else (y, x, 'edge-x-dyadic'))
    return out


def main():
    ck = Check('C08')
    ck.build_theories(['theories/Props/C08.vo', 'theories/Corr/CoordK.vo', 'theories/Props/C08f.vo', 'theories/Corr/CoordFK.vo'])
    rep = gen_coord.main(REPO, os.path.join(ck.rundir, 'CoordGen.v')); ck.gen('CoordGen.v', rep, 'CoordGenEq.v')   # regenerated from the source, proved equal to the model
    ck.props('Props/C08.v')
    rng = ck.rng

    cases, meta = [], []
    nontrivial = set()
    hangs = 0

    def add_mk(lon_in, lat_in, z, m, bounded, cls, form):
        nonlocal hangs
        lonv, latv = float(lon_in), float(lat_in)
        r = build(lon_in, lat_in, z, m, bounded)
        mt = {'k': 'mk', 'lon': repr(lon_in), 'lat': repr(lat_in), 'form': form, 'z': z, 'm': m,
              'bounded': bounded, 'class': cls}
        if r[0] != 'Ok':
            hangs += 1
            mt['out'] = r[0] + ':' + str(r[1])
            if hangs <= 3:
                ck.violation({'kind': 'property-fails-on-implementation', 'case': mt,
                              'detail': 'the constructor did not return on a finite input (' + mt['out'] + ')',
                              'theorems': 'C08_norm_total / C08_mk_total'})
            return
        c = r[1]
        exact, iters = float_loop_exact(lonv, latv) if bounded else (True, 0)
        lit = (f'KMk {qlit(F(lonv))} {qlit(F(latv))} {oq(z)} {oq(m)} {blit(bounded)} {blit(exact)} {qlit(TOL)} '
               f'{qlit(F(c.longitude))} {qlit(F(c.latitude))} {oq(c.z)} {oq(c.m)}')
        mt.update({'out': [repr(c.longitude), repr(c.latitude)], 'exact': exact, 'iterations': iters})
        if bounded:
            bad = oracle(lonv, latv, c)
            if bad:
                mt['property_clauses_violated'] = bad
        cases.append(lit)
        meta.append(mt)
        ck.count(f'{cls}:{form}:{"exact" if exact else "rounded"}')
        if bounded and (iters > 0 or lonv == 180):
            nontrivial.add((lonv, latv))

    vals = gen_values(ck)
    for k, (lo, la, cls) in enumerate(vals):
        fl, fa = forms(lo), forms(la)
        both = list(zip(fl, fa)) if len(fl) == len(fa) else list(zip(fl[:2], fa[:2]))
        if k % 4 == 0:
            picks = both                                                  # every input form
        elif cls == 'multiple-of-90':
            picks = [both[k % len(both)]]
        else:
            picks = [both[0]]
            if k % 3 == 0:
                picks.append(both[1])
        seen = set()
        for (fa_n, a), (fb_n, b) in picks:
            if (repr(a), repr(b)) in seen:
                continue
            seen.add((repr(a), repr(b)))
            add_mk(a, b, None, None, True, cls, fa_n)
    # small signed integers, all pairs, one after the other in this process (CPython: hash(-1) == hash(-2), so
    # coordinates that differ only in a -1 / -2 ordinate have equal hashes although they are different points:
    # anything keyed by the hash alone - a cache of unit vectors, say - confuses them once both have been seen)
    smalls = [-2, -1, 0, 1, 2, -2.0, -1.0]
    for la in [-2, -1, 0, 50, -1.0, -2.0]:
        for lo in smalls:
            add_mk(lo, la, None, None, True, 'small-signed-integers', 'int' if isinstance(lo, int) and isinstance(la, int) else 'float')
    # a few textual forms float() accepts
    for s_lo, s_la in [('1e2', '9.1e1'), (' 190 ', '+45.0'), ('-0.0', '-90.000'), ('1_80', '9_0'), ('180.', '.5e3'),
                       ('-1E+3', '1E-3')]:
        add_mk(s_lo, s_la, None, None, True, 'text-form', 'str')
    # Z / M survive, bounded or not; _bounded=False keeps the raw pair but still maps 180 to -180
    zs = [None, 0, 0.0, 1.5, -3, 8848.86, 1e-9]
    for i in range(60):
        lo, la, _ = vals[rng.randrange(len(vals))]
        add_mk(lo, la, zs[i % len(zs)], zs[(i // 2 + 3) % len(zs)], True, 'zm', 'float')
    for lo, la in [(180.0, 0.0), (-180.0, 5.0), (540.0, 100.0), (179.5, -91.0), (500000.25, 4000000.5), (0.0, 0.0),
                   (180, 91), (nxt(180.0, False), 0.0), (nxt(180.0, True), 0.0)]:
        add_mk(lo, la, 7.5, None, False, 'unbounded', 'float')

    # == / hash on pairs: differing only in M, only in Z, only by a full turn / pole reflection,
    # signed zeros, 180 vs -180, and unrelated values
    def add_eq(a, b, cls):
        A, B = build(*a), build(*b)
        if A[0] != 'Ok' or B[0] != 'Ok':
            return
        A, B = A[1], B[1]
        o_eq, o_h = (A == B), (hash(A) == hash(B))
        ea = float_loop_exact(float(a[0]), float(a[1]))[0] and float_loop_exact(float(b[0]), float(b[1]))[0]
        mt = {'k': 'eq', 'a': [repr(x) for x in a], 'b': [repr(x) for x in b], 'eq': o_eq, 'hasheq': o_h, 'class': cls}
        if o_eq and not o_h:
            mt['property_clauses_violated'] = [('eq-hash', 'coordinates compare equal but hash differently')]
        if not ea:
            return
        cases.append(f'KEq {qlit(F(float(a[0])))} {qlit(F(float(a[1])))} {oq(a[2])} {oq(a[3])} '
                     f'{qlit(F(float(b[0])))} {qlit(F(float(b[1])))} {oq(b[2])} {oq(b[3])} {blit(o_eq)} {blit(o_h)}')
        meta.append(mt)
        ck.count('eq:' + cls)

    base = [(1.0, 2.0), (180.0, 0.0), (0.0, 90.0), (-0.0, 0.0), (12.5, -45.25), (190.0, 95.0), (-541.5, -271.0)]
    for _ in range(60 if ck.tier == 'quick' else 2000):
        base.append((rng.randrange(-8000, 8000) / 8, rng.randrange(-4000, 4000) / 8))
    for lo, la in base:
        z = rng.choice(zs)
        m = rng.choice(zs)
        add_eq((lo, la, z, m), (lo, la, z, rng.choice([5, 6.0, None, m])), 'only-m')
        add_eq((lo, la, z, 5), (lo, la, z, 6), 'only-m')
        add_eq((lo, la, z, m), (lo, la, rng.choice([x for x in zs if x != z or x is None]), m), 'only-z')
        add_eq((lo, la, None, None), (lo, la, 0.0, None), 'only-z')
        add_eq((lo, la, 0, None), (lo, la, 0.0, None), 'only-z')
        add_eq((lo, la, z, m), (lo + 360.0, la, z, m), 'full-turn')
        add_eq((lo, la, z, m), (lo + 180.0, 180.0 - la, z, m), 'pole-reflection')
        add_eq((lo, la, z, m), (-lo, la, z, m), 'mirror')
        add_eq((lo, la, z, m), (la, lo, z, m), 'swap')
        o = base[rng.randrange(len(base))]
        add_eq((lo, la, z, m), (o[0], o[1], z, m), 'unrelated')
    add_eq((180.0, 0.0, None, None), (-180.0, 0.0, None, None), 'antimeridian')
    add_eq((0.0, 0.0, None, None), (-0.0, -0.0, None, None), 'signed-zero')

    # ---- pair stream on STORED values: == must be exact equality of the stored (lon, lat, z);
    # close-but-different stored values (ulp neighbours, one nominal point reached through
    # different wraps / pole crossings) must compare unequal; equal ones must hash equally
    def add_pair(a, b, cls):
        A, B = build(*a), build(*b)
        if A[0] != 'Ok' or B[0] != 'Ok':
            return
        A, B = A[1], B[1]
        o_eq, o_sym, o_h, o_len = (A == B), (B == A), (hash(A) == hash(B)), len({A, B})
        mt = {'k': 'eq-stored', 'a': [repr(x) for x in a], 'b': [repr(x) for x in b], 'class': cls,
              'stored_a': [repr(A.longitude), repr(A.latitude), repr(A.z), repr(A.m)],
              'stored_b': [repr(B.longitude), repr(B.latitude), repr(B.z), repr(B.m)],
              'eq': o_eq, 'eq_sym': o_sym, 'hasheq': o_h, 'setlen': o_len}
        same = (A.longitude, A.latitude, A.z) == (B.longitude, B.latitude, B.z)
        bad = []
        if o_eq != same:
            bad.append(('eq', f'== is {o_eq} but the stored (lon, lat, z) are {"equal" if same else "different"}'))
        if o_eq != o_sym:
            bad.append(('eq-symmetry', f'a == b is {o_eq}, b == a is {o_sym}'))
        if o_eq and not o_h:
            bad.append(('eq-hash', 'coordinates compare equal but hash differently'))
        if o_len != (1 if same else 2):
            bad.append(('set', f'len({{a, b}}) = {o_len}'))
        if bad:
            mt['property_clauses_violated'] = bad

        def num(v):
            return oq(None if v is None else v)
        cases.append(f'KEqStored {qlit(F(A.longitude))} {qlit(F(A.latitude))} {num(A.z)} {num(A.m)} '
                     f'{qlit(F(B.longitude))} {qlit(F(B.latitude))} {num(B.z)} {num(B.m)} '
                     f'{blit(o_eq)} {blit(o_sym)} {blit(o_h)} {o_len}')
        meta.append(mt)
        ck.count('pair:' + cls)

    def ulps(x, k):
        for _ in range(abs(k)):
            x = nxt(x, k > 0)
        return x

    anchors = [0.0, -0.0, 90.0, -90.0, 180.0, -180.0, 45.0, -45.0, 1.0, 179.99999999999997, 1e-9, 33.3, -178.7, 0.1]
    pts = [(lo, la) for lo in anchors for la in (0.0, 33.3, 90.0, -90.0, 1e-9) if abs(la) <= 90]
    for _ in range(60 if ck.tier == 'quick' else 1200):
        pts.append((rng.uniform(-180, 180), rng.uniform(-90, 90)))
        pts.append((rng.randrange(-1800, 1800) / 10, rng.randrange(-900, 901) / 10))
    for lo, la in pts:
        z = rng.choice([None, None, 0.0, 12.5])
        add_pair((lo, la, z, None), (lo, la, z, None), 'identical')
        for k in (1, -1, 3, -7):
            add_pair((lo, la, z, None), (ulps(lo, k), la, z, None), 'ulp-neighbour-lon')
            add_pair((lo, la, z, None), (lo, ulps(la, k), z, None), 'ulp-neighbour-lat')
        d = rng.choice([1e-12, 1e-10, 9e-10, 1e-9, 1e-7])
        add_pair((lo, la, z, None), (lo + d, la, z, None), 'tiny-offset')
        add_pair((lo, la, z, None), (lo, la - d, z, None), 'tiny-offset')
        if z is not None:
            add_pair((lo, la, z, None), (lo, la, ulps(z, 1), None), 'ulp-neighbour-z')
        # the same nominal point through different wraps and pole crossings
        add_pair((lo, la, z, None), (lo + 360.0, la, z, None), 'wrap+360')
        add_pair((lo, la, z, None), (lo - 720.0, la, z, None), 'wrap-720')
        add_pair((lo + 360.0, la, z, None), (lo - 360.0, la, z, None), 'wrap+-360')
        add_pair((lo, la, z, None), (lo + 180.0, 180.0 - la, z, None), 'over-north-pole')
        add_pair((lo, la, z, None), (lo - 180.0, -180.0 - la, z, None), 'over-south-pole')
        add_pair((lo, la, z, None), (lo, la + 360.0, z, None), 'twice-over-poles')
        # spellings of one value
        add_pair((lo, la, z, None), (repr(lo), repr(la), z, None), 'spelling-str')
        if lo == int(lo) and la == int(la):
            add_pair((lo, la, z, None), (int(lo), int(la), z, None), 'spelling-int')
            add_pair((str(int(lo)), str(int(la)), z, None), (int(lo), int(la), z, None), 'spelling-int-str')
    for a, b in [((181.3, 0.0), (-178.7, 0.0)), ((0.0, 146.7), (180.0, 33.3)), ((0.0, 146.7), (-180.0, 33.3)),
                 ((180.0, 0.0), (-180.0, 0.0)), ((540.0, 0.0), (-180.0, 0.0)), ((0.0, 0.0), (-0.0, -0.0)),
                 ((0.0, 90.0), (180.0, 90.0)), ((10.0, 90.0), (190.0, 90.0)), ((5e-324, 0.0), (0.0, 0.0)),
                 ((179.99999999999997, 0.0), (-180.0, 0.0)), ((90.0, 90.0), (90.0, nxt(90.0, False)))]:
        add_pair(a + (None, None), b + (None, None), 'fixed-close-pairs')
        add_pair(b + (None, None), a + (None, None), 'fixed-close-pairs')

    ck.cov['evaluations'] = len(cases)
    ck.cov['distinct_nontrivial'] = len(nontrivial)
    ck.cov['max_loop_iterations'] = max([m.get('iterations', 0) for m in meta] or [0])
    ck.cov['rounded_cases'] = sum(1 for m in meta if m.get('exact') is False)
    for i in (0, 900, 2500, len(cases) - 1):
        ck.sample(cases[min(i, len(cases) - 1)][:300])

    bad, broken = ck.corr('coord', 'From Coq Require Import QArith.\nFrom GV Require Import Prelude CoordM CoordK.\nOpen Scope Q_scope.',
                          'check', cases)
    bad = list(bad)
    for i, m in enumerate(meta):
        if 'property_clauses_violated' in m and i not in bad:
            bad.append(i)
    # report property failures first (they carry the concrete clause), then plain mismatches
    order = sorted(set(bad), key=lambda i: (0 if 'property_clauses_violated' in meta[i] else 1, i))
    for i in order[:5]:
        m = meta[i]
        ck.violation({'kind': 'property-fails-on-implementation' if 'property_clauses_violated' in m else 'model-vs-implementation',
                      'case': m, 'gallina_case': cases[i],
                      'theorems': 'C08_norm_range / C08_norm_idem / C08_norm_same_pt / C08_eq_hkey (Props/C08.v): the model value '
                                  'at this input is the one the theorems pin to the canonical form',
                      'how_to_replay': 'bin/check C08 --replay <this file>'})

    c08f.run(ck)

    ck.finish(rule=c08f.RULE + '. ' + 'all pairs of multiples of 90 in a +-1260 x +-900 window and signed zeros in every input form (int, float, '
                   'str); all pairs of {+-90k (k<=6), one ulp either side, +-0.0, denormal, 1e-20, 2^-52}; seeded random '
                   'dyadics (0-20 fractional bits) and decimal doubles in +-1e5, tiny longitudes carried over a pole, '
                   'values one ulp from a multiple of 90 against random partners; float()-accepted text forms; Z/M values; '
                   '_bounded=False; ==/hash on pairs differing only in M, only in Z, by a full turn, by a pole reflection; a pair stream on '
                   'the STORED values (identical inputs, 1/3/7-ulp neighbours in lon, lat and z, offsets 1e-12..1e-7, the same nominal '
                   'point through +-360/720 wraps and pole crossings, int/float/str spellings) observing a==b, b==a, hash, len({a,b}). '
                   'non-trivial = distinct (lon,lat) on which at least one loop iterates or 180 is mapped to -180',
              assumptions=['a Python float is the rational it denotes; float(str)/float(int) are taken as given (the input '
                           'rational is read after conversion)',
                           'on inputs where some float operation of the loops rounds (decided per case with exact '
                           'rationals) only closeness within 4 ulp(180) modulo 360, range and idempotence are demanded',
                           'non-finite inputs (nan, inf) are outside the property: the loops do not terminate on them, nor on finite doubles from about 2^61 (C08f_diverges_2p61: Coordinate(0.0, 2.0**61) spins; observed on the real code); within the quantified +-1e5 termination is proved (C08f_terminates, at most 559 iterations)',
                           'unit-vector theorems are over the reals; libm sin/cos/asin/atan2 are observed numerically (1e-9)']
                          + c08f.ASSUMPTIONS)


def replay(path):
    import json
    r = json.load(open(path))
    m = r.get('case') or {}
    print(json.dumps(m, indent=1))
    if m.get('k') == 'mk':
        lon, lat = eval(m['lon']), eval(m['lat'])   # reprs of int/float/str written by this harness
        res = build(lon, lat, m.get('z'), m.get('m'), m.get('bounded', True))
        if res[0] == 'Ok':
            c = res[1]
            print('implementation now:', (c.longitude, c.latitude, c.z, c.m))
            print('float loop exact on this input:', float_loop_exact(float(lon), float(lat)))
            print('property clauses violated now:', oracle(float(lon), float(lat), c))
        else:
            print('implementation now:', res)
    elif m.get('k') == 'mkf':
        c08f.replay(m)
    elif m.get('k') in ('eq', 'eq-stored'):
        a = [eval(x) for x in m['a']]
        b = [eval(x) for x in m['b']]
        A, B = Coordinate(*a), Coordinate(*b)
        print('implementation now: a == b', A == B, ' b == a', B == A, ' hash equal', hash(A) == hash(B), ' len({a, b})', len({A, B}))
        print('  stored a:', (A.longitude, A.latitude, A.z, A.m), ' stored b:', (B.longitude, B.latitude, B.z, B.m))
    print('gallina case:', r.get('gallina_case'))


if __name__ == '__main__':
    if '--replay' in sys.argv:
        replay(sys.argv[sys.argv.index('--replay') + 1])
    else:
        main()
