#!/usr/bin/env python3
"""C07 - Geodesic calculator: distance, bearing and destination are mutually consistent.
See DESIGN.md section 5 / C07 and coq/theories/Props/C07.v.

Tie of the real-valued model (Model/SphereM.v) to /repo on every run:
  T  tools/gen_sphere.py regenerates SphereGen.v from calc.py/_geometry.py/_const.py and
     coq/geneq/SphereGenEq.v proves Gen.f = SphereM.f for all arguments (haversine with the
     un-wrapping, bearing incl. rounding, both destination entry points, the radius constant);
     dist_xyz_meters and rotate_coordinates abstain (zip/sum, numpy) and are tied by K only.
  K  per generated case Coq proves |model(inputs) - implementation's output| <= eps with
     `interval with (i_prec 80)` after the reduction lemmas of Corr/SphereK.v (inputs and
     outputs as exact rationals of the floats).
In addition the laws of the property are evaluated numerically on the implementation's own
answers (oracle), so that a broken tie becomes a concrete failing input.  Two oracle-only families: gen_meridian (pairs on
one meridian circle, incl. routes over either pole; unit-vector azimuth reference + round trip) and gen_form_cases (every
input form of the Coordinate constructor through every entry point; answers identical to the float-built twins).
"""
import json
import math
import os
import re
import sys
from concurrent.futures import ThreadPoolExecutor
from decimal import Decimal
from fractions import Fraction

sys.path.insert(0, os.path.dirname(os.path.abspath(__file__)))
from lib import Check, REPO, guarded   # noqa: E402
import gen_sphere                       # noqa: E402  (tools/)

from geostructures.calc import (bearing_degrees, haversine_distance_meters, inverse_haversine_degrees,   # noqa: E402
                                inverse_haversine_radians, rotate_coordinates)
from geostructures._geometry import dist_xyz_meters      # noqa: E402
from geostructures.coordinates import Coordinate          # noqa: E402
import numpy as np                                        # noqa: E402

R_EARTH = 6371000.0
HALF = math.pi * R_EARTH
K_HEADER = ('From GV Require Import Prelude SphereM SphereP1 SphereP2 SphereP3 SphereK.\n'
            'From Coq Require Import Reals Lra.\nFrom Interval Require Import Tactic.\nOpen Scope R_scope.\n')


# ------------------------------------------------------------------ literals
def rlit(x):
    """a float (or int/Fraction) as an exact Gallina real literal"""
    fr = Fraction(x)
    n, d = fr.numerator, fr.denominator
    s = f'{n}' if n >= 0 else f'(-{-n})'
    return s if d == 1 else f'({s} / {d})'


def plit(c):
    return f'({rlit(c[0])}, {rlit(c[1])})'


def epslit(e):
    """tolerance as a rational slightly above the float"""
    fr = Fraction(e).limit_denominator(10 ** 15)
    if fr < Fraction(e):
        fr += Fraction(1, 10 ** 15)
    return f'({fr.numerator} / {fr.denominator})'


# ------------------------------------------------------------------ implementation driver
def C(p):
    return Coordinate(p[0], p[1])


def canon(lon, lat):
    """the (lon, lat) the Coordinate constructor stores for this input"""
    c = Coordinate(lon, lat)
    return (c.longitude, c.latitude)


def impl_pair(p, q, mk=C):
    """mk builds the Coordinate object for a canonical position (default: from its two floats; the input-form
    family passes makers that build the same position from strings / WKT text / with Z and M)"""
    a, b = mk(p), mk(q)
    return {
        'h': guarded(lambda: haversine_distance_meters(a, b)),
        'h_rev': guarded(lambda: haversine_distance_meters(b, a)),
        'b5': guarded(lambda: bearing_degrees(a, b)),
        'b13': guarded(lambda: bearing_degrees(a, b, precision=13)),
        'xyz': guarded(lambda: dist_xyz_meters(mk(p), mk(q))),
        # the same two objects again after other queries have run on them (unit vectors evaluated, bearing taken):
        # the distance is a function of the two positions, not of what was asked before
        'h_after': guarded(lambda: (a.xyz, b.xyz, dist_xyz_meters(a, b), haversine_distance_meters(a, b))[-1]),
        'h_rev_after': guarded(lambda: haversine_distance_meters(b, a)),
    }


def impl_dest(p, b, d, mk=C):
    def run(f, ang):
        c = f(mk(p), ang, d)
        return (c.longitude, c.latitude)
    return {'deg': guarded(lambda: run(inverse_haversine_degrees, b)),
            'rad': guarded(lambda: run(inverse_haversine_radians, math.radians(b)))}


def impl_rot(o, p, a, mk=C):
    def run():
        c = rotate_coordinates([mk(p)], mk(o), a)[0]
        return (c.longitude, c.latitude)
    return guarded(run)


# ------------------------------------------------------------------ float mirrors used only to pick branches / tolerances
def wrap_choice(l1, l2):
    """(tag, wrapped lon2) as ensure_edge_bounds decides, the comparison being made exactly (as
    the Coq side does); the returned float longitude is only used for tolerances"""
    if abs(Fraction(l1) - Fraction(l2)) > 180:
        if l1 < 0:
            return 'Wminus', l2 - 360
        if l2 == -180:
            return 'Wplus180', -180.0
        return 'Wplus', l2 + 360
    return 'Wnone', l2


def hav_a_float(p, q2):
    l1, f1, l2, f2 = map(math.radians, (p[0], p[1], q2[0], q2[1]))
    return math.sin((f2 - f1) / 2) ** 2 + math.cos(f1) * math.cos(f2) * math.sin((l2 - l1) / 2) ** 2


def great_circle_ref(p, q):
    """independent reference: atan2(|u x v|, u.v) on the unit sphere (well conditioned everywhere)"""
    l1, f1, l2, f2 = map(math.radians, (p[0], p[1], q[0], q[1]))
    dl = l2 - l1
    x = math.cos(f2) * math.sin(dl)
    y = math.cos(f1) * math.sin(f2) - math.sin(f1) * math.cos(f2) * math.cos(dl)
    z = math.sin(f1) * math.sin(f2) + math.cos(f1) * math.cos(f2) * math.cos(dl)
    return R_EARTH * math.atan2(math.hypot(x, y), z), x, y


def ref_bearing(x, y):
    return math.degrees(math.atan2(x, y)) % 360


def unit(p):
    l, f = math.radians(p[0]), math.radians(p[1])
    return (math.cos(f) * math.cos(l), math.cos(f) * math.sin(l), math.sin(f))


def azimuth_vec(p, q):
    """independent azimuth reference on unit vectors: the destination's unit vector projected on the local north
    and east vectors of the start (no longitude difference is formed, no formula shared with bearing_degrees).
    Returns (azimuth in [0,360), |projection| = sin of the angular distance: the conditioning of the azimuth)"""
    l, f = math.radians(p[0]), math.radians(p[1])
    n = (-math.sin(f) * math.cos(l), -math.sin(f) * math.sin(l), math.cos(f))
    e = (-math.sin(l), math.cos(l), 0.0)
    v = unit(q)
    vn = math.fsum(v[i] * n[i] for i in range(3))
    ve = math.fsum(v[i] * e[i] for i in range(3))
    return math.degrees(math.atan2(ve, vn)) % 360, math.hypot(ve, vn)


def cdiff(a, b):
    """circular difference of two bearings/longitudes in degrees"""
    d = (a - b) % 360
    return min(d, 360 - d)


def dist_tol(p, q):
    """absolute tolerance (m) for comparing two float evaluations of the distance of p,q:
    float noise is amplified near the antipode (sqrt(1-a) cancels)"""
    a = hav_a_float(p, q)
    return 1e-6 + 3e-8 / math.sqrt(max(1 - a, 1e-18))


# ------------------------------------------------------------------ K lemma builders (None = not expressible, with reason)
def k_hdist(name, p, q, v):
    if p == q:
        return (f'Lemma {name} : Rabs (hdist {plit(p)} {plit(q)} - {rlit(v)}) <= {epslit(1e-9)}.\n'
                f'Proof. apply K_hdist_same; interval. Qed.\n'), None
    w, l2w = wrap_choice(p[0], q[0])
    a = hav_a_float(p, (l2w, q[1]))
    if 1 - a < 1e-22:
        return None, 'antipodal-exact'
    eps = dist_tol(p, q)
    return (f'Lemma {name} : Rabs (hdist {plit(p)} {plit(q)} - {rlit(v)}) <= {epslit(eps)}.\n'
            f'Proof. apply (K_hdist {w}); [k_side | k_ivl | k_ivl]. Qed.\n'), None


def k_xyz(name, p, q, v):
    if p == q:
        return (f'Lemma {name} : Rabs (dist_xyz {plit(p)} {plit(q)} - {rlit(v)}) <= {epslit(0.3)}.\n'
                f'Proof. apply K_dist_xyz_same; interval. Qed.\n'), None
    w, l2w = wrap_choice(p[0], q[0])
    a = hav_a_float(p, (l2w, q[1]))
    if 1 - a < 1e-22:
        return None, 'antipodal-exact'
    # acos loses the short (and the near-antipodal) distance digits: d(acos)/dx = 1/sqrt(1-x^2)
    dot = 1 - 2 * a
    eps = 1e-6 + R_EARTH * 1e-15 / max(math.sqrt(max(1 - dot * dot, 0.0)), 2.2e-8)
    return (f'Lemma {name} : Rabs (dist_xyz {plit(p)} {plit(q)} - {rlit(v)}) <= {epslit(eps)}.\n'
            f'Proof. apply (K_dist_xyz {w}); [k_side | k_ivl | k_ivl]. Qed.\n'), None


def k_xyz_direct(name, p, q, v):
    """the unit-vector formula evaluated as written (acos of the dot product), away from 0/PI"""
    a = hav_a_float(p, q)
    dot = 1 - 2 * a
    if abs(dot) > 0.999 or abs(dot) < 1e-3:
        return None, 'xyz-direct-illconditioned'
    eps = 1e-6 + R_EARTH * 4e-16 / math.sqrt(1 - dot * dot)
    lem = 'K_dist_xyz_direct_pos' if dot > 0 else 'K_dist_xyz_direct_neg'
    return (f'Lemma {name} : Rabs (dist_xyz {plit(p)} {plit(q)} - {rlit(v)}) <= {epslit(eps)}.\n'
            f'Proof. apply {lem}; [k_ivl | k_ivl]. Qed.\n'), None


def k_bearing(name, p, q, v, rounded):
    """v: implementation's bearing (precision 13, or the default 5 when rounded)"""
    _, x, y = great_circle_ref(p, q)
    h = math.hypot(x, y)
    if h < 1e-9:
        return None, 'bearing-undefined'
    eps = 1e-9 + 1e-13 / h + (5.001e-6 if rounded else 0.0)
    if p[0] == q[0] and p[1] != q[1] and abs(p[1]) < 90 and abs(q[1]) < 90:
        north = q[1] > p[1]
        tgt = 0.0 if north else 180.0
        vv = v - 360 if (north and v > 180) else v
        return (f'Lemma {name} : Rabs (bearing_raw {plit(p)} {plit(q)} - {rlit(vv)}) <= {epslit(eps)}.\n'
                f'Proof. apply {"K_bearing_north" if north else "K_bearing_south"}; [k_ivl | interval]. Qed.\n'), None
    t = math.degrees(math.atan2(x, y)) + 360
    w = 1 if t >= 360 else 0
    r = t - 360 * w
    if r < 1e-7 or r > 360 - 1e-7:
        return None, 'bearing-at-wrap'
    if y > 0:
        qd = 'Qpos'
    else:
        if abs(y) < 1e-12 * h or abs(x) < 1e-12 * h:
            return None, 'bearing-axis'
        qd = 'Qnegnn' if x >= 0 else 'Qnegneg'
    if y > 0 and abs(y) < 1e-12 * h:
        return None, 'bearing-axis'
    vv = v
    if rounded and cdiff(v, r) < 1e-4 and abs(v - r) > 180:      # rounded up to 360 -> 0.0
        vv = v + 360 if v < r else v - 360
    return (f'Lemma {name} : Rabs (bearing_raw {plit(p)} {plit(q)} - {rlit(vv)}) <= {epslit(eps)}.\n'
            f'Proof. apply (K_bearing_raw {qd} {w}%Z); [k_ivl | k_ivl | k_ivl]. Qed.\n'), None


def k_dest(name, p, b, d, out, entry):
    """out = implementation's (lon, lat); entry 'deg' (bearing b in degrees) or 'rad' (radians(b) as float)"""
    f1 = math.radians(p[1])
    t = math.radians(b)
    r = d / R_EARTH
    s2 = math.sin(f1) * math.cos(r) + math.cos(f1) * math.sin(r) * math.cos(t)
    if abs(p[1]) == 90:
        return None, 'dest-from-pole'
    if abs(s2) > 1 - 1e-13:
        return None, 'dest-at-pole'
    Y = math.sin(t) * math.sin(r) * math.cos(f1)
    X = math.cos(r) - math.sin(f1) * s2
    h = math.hypot(X, Y)
    if h < 1e-9:
        return None, 'dest-lon-undefined'
    if X > 1e-12 * h:
        qd = 'Qpos'
    elif X < -1e-12 * h and abs(Y) > 1e-12 * h:
        qd = 'Qnegnn' if Y >= 0 else 'Qnegneg'
    else:
        return None, 'dest-axis'
    mlon = p[0] + math.degrees(math.atan2(Y, X))
    k = round((mlon - out[0]) / 360)
    eps = 5.0e-8 + 1e-9 + 1e-13 / h + 3e-14 / math.sqrt(2 * (1 - abs(s2)))      # asin conditioning next to a pole
    if entry == 'deg':
        fn, ang, unf = 'dest_deg', rlit(b), 'unfold dest_deg. '
    else:
        fn, ang, unf = 'dest_rad', rlit(math.radians(b)), ''
    stmt = (f'Rabs (lon ({fn} {plit(p)} {ang} {rlit(d)}) - 360 * IZR ({k})%Z - {rlit(out[0])}) <= {epslit(eps)} /\\\n'
            f'  Rabs (lat ({fn} {plit(p)} {ang} {rlit(d)}) - {rlit(out[1])}) <= {epslit(eps)}')
    return (f'Lemma {name} : {stmt}.\n'
            f'Proof. {unf}apply (K_dest {qd} ({k})%Z); [k_ivl | k_ivl | k_ivl | k_ivl]. Qed.\n'), None


def k_rot(name, o, p, a, out):
    w, lw = wrap_choice(o[0], p[0])
    ar = math.radians(a)
    dx, dy = lw - o[0], p[1] - o[1]
    mlon = math.cos(ar) * dx - math.sin(ar) * dy + o[0]
    mlat = math.sin(ar) * dx + math.cos(ar) * dy + o[1]
    if not -90 + 1e-6 < mlat < 90 - 1e-6:
        return None, 'rot-over-pole'
    k = round((mlon - out[0]) / 360)
    eps = 1e-9
    stmt = (f'Rabs (lon (rot {plit(o)} {plit(p)} {rlit(a)}) - 360 * IZR ({k})%Z - {rlit(out[0])}) <= {epslit(eps)} /\\\n'
            f'  Rabs (lat (rot {plit(o)} {plit(p)} {rlit(a)}) - {rlit(out[1])}) <= {epslit(eps)}')
    return (f'Lemma {name} : {stmt}.\nProof. apply (K_rot {w} ({k})%Z); [k_side | k_ivl | k_ivl]. Qed.\n'), None


# ------------------------------------------------------------------ running the K lemmas (own runner; lib.corr is for vm_compute lists)
def run_lemmas(ck, name, lemmas, per_file, timeout=900, header=None):
    """lemmas: list of (lemma_name, text). Returns (set of failing lemma names, list of broken files)"""
    hdr = header or K_HEADER
    files = []
    for k in range(0, len(lemmas), per_file):
        part = lemmas[k:k + per_file]
        fn = f'k_{name}_{k // per_file}.v'
        files.append((fn, part))

    def run(item):
        fn, part = item
        failing, unchecked = [], []
        todo = list(part)
        out = ''
        for attempt in range(6):
            with open(os.path.join(ck.rundir, fn), 'w') as f:
                f.write(hdr)
                starts = {}
                line = hdr.count('\n') + 1
                for nm, txt in todo:
                    starts[nm] = line
                    f.write(txt)
                    line += txt.count('\n')
            rc, out = ck.coqc(fn, timeout=timeout)
            if rc == 0:
                break
            m = re.search(r'line (\d+), characters', out)
            if not m:
                unchecked = [nm for nm, _ in todo]
                break
            fl = int(m.group(1))
            cand = [nm for nm, _ in todo if starts[nm] <= fl]
            if not cand:
                unchecked = [nm for nm, _ in todo]
                break
            bad = cand[-1]
            failing.append((bad, out[-500:]))
            todo = [(nm, t) for nm, t in todo if nm != bad]
        else:
            unchecked = [nm for nm, _ in todo]
        return fn, len(part), failing, unchecked, out

    bad, broken = {}, []
    with ThreadPoolExecutor(max_workers=14) as ex:
        for fn, n, failing, unchecked, out in ex.map(run, files):
            ok = not failing and not unchecked
            for nm, detail in failing:
                bad[nm] = detail
            if unchecked:
                broken.append((fn, out[-600:]))
            ck.obligations.append({'name': f'corr_ok[{fn}] ({n} interval lemmas)', 'kind': 'corr', 'ok': ok,
                                   'detail': '' if ok else (out[-400:] if unchecked else '; '.join(nm for nm, _ in failing))})
    return bad, broken


EXPECTED_AXIOMS = {'Coq.Logic.FunctionalExtensionality.functional_extensionality_dep',
                   'Coq.Reals.ClassicalDedekindReals.sig_not_dec', 'Coq.Reals.ClassicalDedekindReals.sig_forall_dec',
                   'Coq.Logic.Classical_Prop.classic'}


def run_coqchk(ck, logical):
    """thorough tier: the compiled property file re-checked by the independent checker"""
    from lib import sh, COQ
    rc, out = sh(['coqchk', '-silent', '-o', '-Q', 'theories', 'GV', logical], cwd=COQ, timeout=1500)
    m = re.search(r'\* Axioms:(.*?)\n\s*\n', out, flags=re.S)
    axioms = set(re.findall(r'(Coq\.\S+)', m.group(1))) if m else set()
    clean = all(f'{w}: <none>' in out for w in ('relying on type-in-type', 'relying on unsafe (co)fixpoints',
                                                'whose positivity is assumed'))
    ok = rc == 0 and clean and axioms <= EXPECTED_AXIOMS
    ck.obligations.append({'name': f'coqchk {logical}', 'kind': 'coqchk', 'ok': ok, 'detail': '' if ok else out[-800:]})
    ck.cov['coqchk'] = {'ok': ok, 'axioms': sorted(axioms)}
    return ok


# ------------------------------------------------------------------ generators
def gen_pairs(rng, n):
    """(class, p, q) with canonical coordinates"""
    out = []

    def rnd_pt():
        return (rng.uniform(-180, 180), math.degrees(math.asin(rng.uniform(-1, 1))))

    def add(cls, p, q):
        out.append((cls, canon(*p), canon(*q)))

    fixed = [
        ('identical', (12.5, -33.25), (12.5, -33.25)),
        ('antipodal-exact', (0.0, 0.0), (-180.0, 0.0)),
        ('antipodal-exact', (45.0, 30.0), (-135.0, -30.0)),
        ('antipodal-exact', (-180.0, -12.0), (0.0, 12.0)),        # D28 regression (ValueError before the repair)
        ('antipodal-exact', (-180.0, -82.0), (0.0, 82.0)),        # D28 regression
        ('near-antipodal', (95.510992422296, -39.29178039849763), (-84.48900746021036, 39.291780388493244)),   # D28
        ('polar', (10.0, 90.0), (-70.0, 45.0)),
        ('polar', (10.0, -90.0), (100.0, 90.0)),
        ('polar', (33.0, 12.0), (-20.0, 90.0)),
        ('antimeridian', (179.5, 10.0), (-179.5, 11.0)),
        ('antimeridian', (-179.5, -10.0), (179.5, 11.0)),
        ('antimeridian', (170.0, 0.0), (-180.0, 0.0)),           # the 180 -> -180 rule of the unbounded constructor
        ('meridian', (20.0, 10.0), (20.0, 50.0)),
        ('meridian', (20.0, 10.0), (20.0, -50.0)),
        ('parallel', (20.0, 60.0), (110.0, 60.0)),
        ('equator', (0.0, 0.0), (1.0, 0.0)),
        ('bearing-rounds-to-360', (0.0, 0.0), (-1e-8, 1.0)),     # D11 regression
        ('generic', (-0.1278, 51.5074), (-74.006, 40.7128)),
        ('generic', (151.2093, -33.8688), (-70.6693, -33.4489)),
    ]
    for cls, p, q in fixed:
        add(cls, p, q)
    while len(out) < n:
        c = rng.random()
        p = rnd_pt()
        if c < 0.25:
            add('generic', p, rnd_pt())
        elif c < 0.45:
            s = 10 ** rng.uniform(-9, -2)
            add('near-coincident', p, (p[0] + rng.uniform(-s, s), max(-90, min(90, p[1] + rng.uniform(-s, s)))))
        elif c < 0.6:
            s = 10 ** rng.uniform(-7, -1)
            add('near-antipodal', p, (p[0] + 180 + rng.uniform(-s, s), max(-90, min(90, -p[1] + rng.uniform(-s, s)))))
        elif c < 0.7:
            s = 10 ** rng.uniform(-6, 0)
            lat = rng.choice([90.0, -90.0, 90 - s, -90 + s])
            if rng.random() < 0.5:
                add('polar', (rng.uniform(-180, 180), lat), rnd_pt())
            else:
                add('polar', rnd_pt(), (rng.uniform(-180, 180), lat))
        elif c < 0.85:
            a, b = rng.uniform(0, 10), rng.uniform(0, 10)
            l1, l2 = (180 - a, -180 + b) if rng.random() < 0.5 else (-180 + a, 180 - b)
            add('antimeridian', (l1, rng.uniform(-80, 80)), (l2, rng.uniform(-80, 80)))
        elif c < 0.92:
            g = lambda lo, hi: float(rng.randrange(lo * 4, hi * 4)) / 4      # noqa: E731  quarter-degree grid
            add('grid', (g(-180, 180), g(-90, 90)), (g(-180, 180), g(-90, 90)))
        elif c < 0.96:
            add('meridian', p, (p[0], rng.uniform(-89, 89)))
        else:
            add('parallel', p, (rng.uniform(-180, 180), p[1]))
    return out


def gen_dests(rng, n):
    out = []
    fixed = [((10.0, 45.0), 30.0, 1e6), ((0.0, 0.0), 0.0, 1.0), ((0.0, 0.0), 90.0, 1000.0), ((0.0, 0.0), 180.0, 1e5),
             ((0.0, 0.0), 270.0, 5e6), ((179.99, 10.0), 90.0, 5e4), ((-179.99, -10.0), 270.0, 5e4),
             ((25.0, 89.0), 10.0, 3e5), ((25.0, -60.0), 360.0, 2e6), ((100.0, 20.0), 45.0, 10.0),
             ((-122.4, 37.8), 123.456, 12345.678), ((10.0, 90.0), 45.0, 1e5), ((10.0, 0.0), 0.0, 1.0007e7 - 1.0)]
    for p, b, d in fixed:
        out.append(('fixed', canon(*p), b, d))
    while len(out) < n:
        c = rng.random()
        d = 10 ** rng.uniform(0, math.log10(5e6))
        b = rng.choice([rng.uniform(0, 360)] * 6 + [0.0, 90.0, 180.0, 270.0, 360.0, float(rng.randrange(0, 360))])
        if c < 0.6:
            p = (rng.uniform(-180, 180), rng.uniform(-85, 85))
            cls = 'generic'
        elif c < 0.8:
            p = (rng.choice([1, -1]) * (180 - 10 ** rng.uniform(-6, 0)), rng.uniform(-80, 80))
            cls = 'antimeridian'
        else:
            p = (rng.uniform(-180, 180), rng.choice([1, -1]) * (90 - 10 ** rng.uniform(-5, 0.5)))
            cls = 'polar'
        out.append((cls, canon(*p), b, d))
    return out


def gen_rots(rng, n):
    out = [('fixed', (0.0, 0.0), (1.0, 0.0), 90.0), ('fixed', (10.0, 20.0), (11.0, 22.0), 0.0),
           ('fixed', (179.5, 0.0), (-179.5, 1.0), 45.0), ('fixed', (-179.5, 0.0), (179.0, -1.0), -30.0),
           ('fixed', (170.0, 5.0), (-180.0, 5.0), 10.0), ('fixed', (5.0, 5.0), (6.0, 7.0), 360.0)]
    while len(out) < n:
        o = (rng.uniform(-180, 180), rng.uniform(-60, 60))
        if rng.random() < 0.3:
            o = (rng.choice([1, -1]) * (180 - rng.uniform(0, 2)), o[1])
        p = (o[0] + rng.uniform(-5, 5), o[1] + rng.uniform(-5, 5))
        a = rng.choice([rng.uniform(-360, 360)] * 4 + [0.0, 90.0, -90.0, 180.0, 270.0])
        out.append(('antimeridian' if abs(o[0]) > 175 else 'generic', canon(*o), canon(*p), a))
    return out



# ------------------------------------------------------------------ family M: pairs on one meridian circle
MER_DLON = (0.0, 180.0, -180.0, 360.0, -360.0, 540.0, -540.0, 720.0)


def gen_meridian(rng, n):
    """Mechanism class: code paths that treat 'both points on one meridian circle' (longitude difference 0, +-180,
    360k - exactly, or up to the rounding of lon+180) specially: short cuts that decide north/south from the
    latitude ordering, sin(pi) residues, the antimeridian un-wrapping at |d_lon| = 180, pole handling.
    Pairs (class, p, q): longitude of q = longitude of p + one of MER_DLON (written un-normalised, the constructor
    folds it), latitudes in every ordering: q north / south of p, equal, both high on the same side (the short way
    leads over that pole), mirrored (antipodal when the meridians are opposite) and mirrored +- 1e-6..10 deg,
    either point at either pole, both poles, the equator."""
    out = []

    def lon1():
        c = rng.random()
        if c < 0.3:
            return float(rng.randrange(-180, 180))
        if c < 0.5:
            return rng.randrange(-720, 720) / 4
        if c < 0.7:
            return float(dec_str(rng.randrange(-1800, 1800), 1))
        if c < 0.8:
            return rng.choice([0.0, -180.0, 90.0, -90.0, 180.0, 10.0, -170.0])
        return rng.uniform(-180, 180)

    def lat():
        c = rng.random()
        if c < 0.4:
            return float(rng.randrange(-89, 90))
        if c < 0.6:
            return rng.randrange(-356, 357) / 4
        return rng.uniform(-89.5, 89.5)

    def lats(kind):
        a, b = lat(), lat()
        sgn = rng.choice([1, -1])
        if kind == 'any':
            return a, b
        if kind == 'equal':
            return a, a
        if kind == 'high-same-side':
            hi, lo = 90 - rng.uniform(0.5, 30), 90 - rng.uniform(0.5, 30)
            return sgn * hi, sgn * lo
        if kind == 'mirrored':
            return a, -a
        if kind == 'near-mirrored':
            return a, max(-90.0, min(90.0, -a + rng.choice([1, -1]) * 10 ** rng.uniform(-6, 1)))
        if kind == 'pole-start':
            return sgn * 90.0, b
        if kind == 'pole-end':
            return a, sgn * 90.0
        if kind == 'pole-pole':
            return sgn * 90.0, rng.choice([1, -1]) * 90.0
        if kind == 'equator':
            return rng.choice([(0.0, b), (a, 0.0), (0.0, 0.0)])
        raise AssertionError(kind)

    kinds = ['any', 'any', 'equal', 'high-same-side', 'high-same-side', 'mirrored', 'near-mirrored', 'pole-start',
             'pole-end', 'pole-pole', 'equator']
    fixed = [((0.0, 80.0), (180.0, 75.0)), ((0.0, 75.0), (180.0, 80.0)), ((-90.0, -80.0), (90.0, -75.0)),
             ((-170.0, -75.0), (10.0, -40.0)), ((0.0, 10.0), (180.0, 20.0)), ((0.0, 10.0), (-180.0, -20.0)),
             ((25.0, 90.0), (-155.0, 10.0)), ((25.0, -90.0), (25.0, 10.0)), ((25.0, 10.0), (-155.0, 90.0)),
             # D53 regression: the round trip onto a pole (asin argument rounds to 1 + 2^-52)
             ((101.75, 84.78966189864929), (101.75, 90.0)), ((-20.5, -80.25), (159.5, -90.0)), ((-63.0, -12.0), (117.0, 90.0))]
    for p, q in fixed:
        out.append(('fixed', p, q))
    i = 0
    while len(out) < n:
        kind = kinds[i % len(kinds)]
        dl = MER_DLON[(i // len(kinds)) % len(MER_DLON)]
        i += 1
        l1 = lon1()
        f1, f2 = lats(kind)
        out.append((kind, (l1, f1), (l1 + dl, f2)))
    res = []
    for kind, p, q in out:
        p, q = canon(*p), canon(*q)
        d = q[0] - p[0]
        res.append((('same' if d == 0 else 'opposite' if abs(d) == 180 else 'rounded') + ':' + kind, p, q))
    return res


# ------------------------------------------------------------------ family F: every input form the constructor accepts
def dec_str(n, k):
    """the integer n * 10^-k written as a plain decimal with exactly k places"""
    sg, n = ('-' if n < 0 else ''), abs(n)
    return f'{sg}{n}' if k == 0 else f'{sg}{n // 10 ** k}.{n % 10 ** k:0{k}d}'


def _zeros(s):
    return s + '000' if '.' in s else s + '.000'


def _expo(s):
    return f'{Decimal(s):e}'


def _plus(s):
    return s if s.startswith('-') else '+' + s


def _plain(s):
    return 'e' not in s.lower()


def _integral(s):
    return _plain(s) and '.' not in s


# (name, applicable(slon, slat), build(slon, slat, z, m) -> Coordinate, carries Z/M)
FORMS = [
    ('int', lambda a, b: _integral(a) and _integral(b), lambda a, b, z, m: Coordinate(int(a), int(b)), False),
    ('int-float', lambda a, b: _integral(a), lambda a, b, z, m: Coordinate(int(a), float(b)), False),
    ('numpy-float64', lambda a, b: True, lambda a, b, z, m: Coordinate(np.float64(a), np.float64(b)), False),
    ('str', lambda a, b: True, lambda a, b, z, m: Coordinate(a, b), False),
    ('str-float', lambda a, b: True, lambda a, b, z, m: Coordinate(a, float(b)), False),
    ('float-str', lambda a, b: True, lambda a, b, z, m: Coordinate(float(a), b), False),
    ('str-trailing-zeros', lambda a, b: _plain(a) and _plain(b), lambda a, b, z, m: Coordinate(_zeros(a), _zeros(b)), False),
    ('str-exponent', lambda a, b: _plain(a) and _plain(b), lambda a, b, z, m: Coordinate(_expo(a), _expo(b)), False),
    ('str-plus-sign', lambda a, b: True, lambda a, b, z, m: Coordinate(_plus(a), _plus(b)), False),
    ('wkt', lambda a, b: True, lambda a, b, z, m: Coordinate.from_wkt(f'{a} {b}'), False),
    ('wkt-trailing-zeros', lambda a, b: _plain(a) and _plain(b),
     lambda a, b, z, m: Coordinate.from_wkt(f'{_zeros(a)} {_zeros(b)}'), False),
    ('float-z', lambda a, b: True, lambda a, b, z, m: Coordinate(float(a), float(b), z=z), True),
    ('float-zm', lambda a, b: True, lambda a, b, z, m: Coordinate(float(a), float(b), z=z, m=m), True),
    ('float-m', lambda a, b: True, lambda a, b, z, m: Coordinate(float(a), float(b), m=m), True),
    ('str-zm', lambda a, b: True, lambda a, b, z, m: Coordinate(a, b, z=z, m=m), True),
    ('wkt-z', lambda a, b: True, lambda a, b, z, m: Coordinate.from_wkt(f'{a} {b} {z!r}'), True),
    ('wkt-zm', lambda a, b: True, lambda a, b, z, m: Coordinate.from_wkt(f'{a} {b} {z!r} {m!r}'), True),
    ('wkt-mz', lambda a, b: True, lambda a, b, z, m: Coordinate.from_wkt(f'{a} {b} {m!r} {z!r}', zm_order='MZ'), True),
    ('wkt-m', lambda a, b: True, lambda a, b, z, m: Coordinate.from_wkt(f'{a} {b} {m!r}', zm_order='M'), True),
]


def gen_form_cases(rng, n):
    """Mechanism class: anything the library remembers about HOW a coordinate was written (string vs number, the
    number of decimals, WKT text, attached Z/M) leaking into the calculator's answers.
    A case is a set of positions written as decimal TEXT (k = 0..8 places, or the 17-digit repr of a float;
    sometimes a longitude outside [-180,180) that the constructor folds): a pair p,q anywhere, an origin o within
    5 degrees of p (30% next to the antimeridian), a bearing/distance, a rotation angle, Z/M values."""
    out = []
    while len(out) < n:
        k = rng.choice([0, 0, 1, 1, 2, 2, 3, 3, 4, 5, 6, 8, 'repr'])

        def text(lo, hi, k=k):
            if k == 'repr':
                return repr(rng.uniform(lo, hi))
            return dec_str(rng.randrange(int(lo * 10 ** k), int(hi * 10 ** k) + 1), k)

        if rng.random() < 0.3:
            olon = rng.choice([1, -1]) * (180 - rng.uniform(0, 2))
            so = (repr(olon) if k == 'repr' else dec_str(round(olon * 10 ** k), k), text(-60, 60))
        else:
            so = (text(-175, 175), text(-60, 60))
        fo = (float(so[0]), float(so[1]))
        sp = (text(fo[0] - 5, fo[0] + 5), text(fo[1] - 5, fo[1] + 5))
        sq = (text(-180, 180) if rng.random() < 0.85 else text(-400, 400), text(-90, 90))
        b = rng.choice([rng.uniform(0, 360)] * 4 + [0.0, 90.0, 180.0, 270.0, float(rng.randrange(0, 360))])
        d = 10 ** rng.uniform(0, math.log10(5e6))
        a = rng.choice([rng.uniform(-360, 360)] * 4 + [90.0, -90.0, 180.0, 1.0, float(rng.randrange(-360, 361))])
        z, m = rng.choice([0.0, 12.5, -3.0, rng.uniform(-100, 9000)]), rng.choice([0.0, 1.0, rng.uniform(0, 1e6)])
        out.append({'text': {'o': so, 'p': sp, 'q': sq}, 'bearing': b, 'distance': d, 'angle': a, 'z': z, 'm': m})
    return out


def full(c):
    return (c.longitude, c.latitude, c.z, c.m)


def form_obs(mk, o, p, q, b, d, a, a2):
    """every calculator entry point on objects built by mk, results as plain tuples (lon, lat, z, m) / floats"""
    def chain():
        first = rotate_coordinates([mk(p)], mk(o), a)
        return full(rotate_coordinates(first, mk(o), a2)[0])          # the library's own object is passed on
    return {
        'haversine': guarded(lambda: haversine_distance_meters(mk(p), mk(q))),
        'haversine_rev': guarded(lambda: haversine_distance_meters(mk(q), mk(p))),
        'bearing5': guarded(lambda: bearing_degrees(mk(p), mk(q))),
        'bearing13': guarded(lambda: bearing_degrees(mk(p), mk(q), precision=13)),
        'bearing13_rev': guarded(lambda: bearing_degrees(mk(q), mk(p), precision=13)),
        'dist_xyz': guarded(lambda: dist_xyz_meters(mk(p), mk(q))),
        'dest_deg': guarded(lambda: full(inverse_haversine_degrees(mk(p), b, d))),
        'dest_rad': guarded(lambda: full(inverse_haversine_radians(mk(p), math.radians(b), d))),
        'rot': guarded(lambda: full(rotate_coordinates([mk(p)], mk(o), a)[0])),
        'rot_list': guarded(lambda: [full(c) for c in rotate_coordinates([mk(q), mk(p), mk(o), mk(p)], mk(o), a)]),
        'rot_0': guarded(lambda: full(rotate_coordinates([mk(p)], mk(o), 0)[0])),
        'rot_sum': guarded(lambda: full(rotate_coordinates([mk(p)], mk(o), a + a2)[0])),
        'rot_chain': guarded(chain),
    }


def lonlat(v):
    """drop Z/M from a form_obs value"""
    if v[0] != 'Ok':
        return v
    x = v[1]
    if isinstance(x, list):
        return ('Ok', [t[:2] for t in x])
    return ('Ok', x[:2]) if isinstance(x, tuple) else v


def run_form_case(case, rng, stats, count):
    """list of violations (dicts) of one input-form case"""
    txt = case['text']
    fl = {k: (float(v[0]), float(v[1])) for k, v in txt.items()}
    pos = {k: canon(*v) for k, v in fl.items()}
    o, p, q = pos['o'], pos['p'], pos['q']
    b, d, a, z, m = case['bearing'], case['distance'], case['angle'], case['z'], case['m']
    a2 = case['angle2'] if 'angle2' in case else rng.uniform(-180, 180)
    back = {}                                         # canonical position -> its text (last wins when two coincide)
    for k in ('q', 'o', 'p'):
        back[pos[k]] = txt[k]
    if len(back) < 3:
        stats['form-case-coinciding-positions'] = stats.get('form-case-coinciding-positions', 0) + 1

    def maker(build, zz, mm):
        def mk(pt):
            t = back.get(pt)
            return build(t[0], t[1], zz, mm) if t is not None else Coordinate(pt[0], pt[1])
        return mk

    def twin(zz, mm):
        def mk(pt):
            t = back.get(pt)
            return Coordinate(float(t[0]), float(t[1]), z=zz, m=mm) if t is not None else Coordinate(pt[0], pt[1])
        return mk

    out = []
    base = form_obs(twin(None, None), o, p, q, b, d, a, a2)
    base_z = {}
    forms = [f for f in FORMS if all(f[1](*txt[k]) for k in txt)]
    mixed = rng.choice(forms)                          # one mixed case: only p in that form, q and o float-built
    todo = [(f, None) for f in forms] + [(mixed, 'p-only')]
    for (name, _, build, has_zm), only in todo:
        mk = maker(build, z, m)
        if only:
            inner, name = mk, name + '(p only)'
            mk = lambda pt, inner=inner: inner(pt) if pt == p else Coordinate(pt[0], pt[1])      # noqa: E731
        count('form:' + name)
        mcase = dict(case, k='form', form=name, o=o, p=p, q=q, angle2=a2)
        try:
            got = form_obs(mk, o, p, q, b, d, a, a2)
        except Exception as e:        # noqa  (a form the constructor is declared to accept must build)
            out.append(dict(mcase, clause='no_exception:form', detail=f'building/using the {name} form raised {type(e).__name__}: {e}'))
            continue
        for key in got:
            if lonlat(got[key]) != lonlat(base[key]):
                out.append(dict(mcase, clause='answer_depends_on_input_form:' + key, entry=key,
                                detail=f'{key} on coordinates written as {name} {txt!r}: {got[key][1]!r}; on the float-built '
                                       f'twins {fl!r}: {base[key][1]!r}'))
        if has_zm and not only:
            # against the float-built twin carrying the same Z/M as the form actually stored
            c = build(txt['p'][0], txt['p'][1], z, m)
            sig = (c.z, c.m)
            if sig not in base_z:
                base_z[sig] = form_obs(twin(*sig), o, p, q, b, d, a, a2)
            for key in got:
                if got[key] != base_z[sig][key]:
                    out.append(dict(mcase, clause='answer_depends_on_input_form:' + key, entry=key,
                                    detail=f'{key} on {name} {txt!r} z={c.z!r} m={c.m!r}: {got[key][1]!r}; float-built twins with '
                                           f'the same z/m: {base_z[sig][key][1]!r}'))
        # the laws on the answers obtained from these objects
        obs = impl_pair(p, q, mk)
        mp = dict(mcase, obs={k_: v[1] for k_, v in obs.items()})
        for clause, detail in oracle_pair(p, q, obs, rng, stats) + oracle_roundtrip(p, q, obs, stats, mk):
            out.append(dict(mp, clause=clause, detail=detail))
        dobs = impl_dest(p, b, d, mk)
        for clause, detail in oracle_dest(p, b, d, dobs, stats, mk):
            out.append(dict(mcase, obs={k_: v[1] for k_, v in dobs.items()}, clause=clause, detail=detail))
        robs = impl_rot(o, p, a, mk)
        for clause, detail in oracle_rot(o, p, a, robs, rng, stats, mk):
            out.append(dict(mcase, obs=robs[1], clause=clause, detail=detail))
    return out


# ------------------------------------------------------------------ the property evaluated on the implementation (oracle)
def oracle_pair(p, q, obs, rng, stats):
    """list of (clause, detail) violated by the implementation's own answers on this pair"""
    bad = []
    for key in ('h', 'h_rev', 'b5', 'b13', 'xyz'):
        if obs[key][0] != 'Ok':
            bad.append(('no_exception:' + key, f'raised {obs[key][1]}'))
    if bad:
        return bad
    h, hr, b5, b13, xyz = (obs[k][1] for k in ('h', 'h_rev', 'b5', 'b13', 'xyz'))
    tol = dist_tol(p, q)
    ref, x, y = great_circle_ref(p, q)
    if abs(h - hr) > 2 * tol:
        bad.append(('dist_sym', f'd(p,q)={h!r} d(q,p)={hr!r}'))
    if not (0 <= h <= HALF + 1e-6):
        bad.append(('dist_range', f'd={h!r} outside [0, pi*R]'))
    if p == q and h != 0:
        bad.append(('dist_refl', f'd(p,p)={h!r}'))
    if abs(h - ref) > 2 * tol + 1e-5:
        bad.append(('hav_is_great_circle', f'd={h!r} but the great-circle distance is {ref!r}'))
    dot = math.cos(ref / R_EARTH)
    tol_xyz = 1e-5 + R_EARTH * 1e-15 / max(math.sqrt(max(1 - dot * dot, 0.0)), 2.2e-8)
    if abs(xyz - ref) > tol_xyz:
        bad.append(('dist_xyz', f'dist_xyz={xyz!r} but the great-circle distance is {ref!r}'))
    # common longitude shift, re-normalised by the constructor (possibly across the antimeridian)
    s = rng.choice([rng.uniform(-360, 360), 180.0, -180.0, 360.0, 179.5 - p[0], -179.5 - q[0]])
    ps, qs = canon(p[0] + s, p[1]), canon(q[0] + s, q[1])
    hs = guarded(lambda: haversine_distance_meters(C(ps), C(qs)))
    if hs[0] != 'Ok':
        bad.append(('dist_lon_shift', f'shift {s!r} raised {hs[1]}'))
    else:
        # the shifted longitudes are rounded: 360 * 2^-52 degrees each, amplified like the rest
        tol_s = 4 * tol + 2e-13 * R_EARTH * (math.pi / 180) * (1 + 1 / math.sqrt(max(1 - hav_a_float(p, q), 1e-18)))
        if abs(hs[1] - h) > tol_s:
            bad.append(('dist_lon_shift', f'shift {s!r}: d={hs[1]!r} instead of {h!r}'))
    for nm, b in (('b5', b5), ('b13', b13)):
        if not (0 <= b < 360):
            bad.append(('bearing_range', f'{nm}={b!r} not in [0,360)'))
    hh = math.hypot(x, y)
    if hh < 1e-9:
        stats['bearing-undefined'] = stats.get('bearing-undefined', 0) + 1
    else:
        rb = ref_bearing(x, y)
        tb = 1e-8 + 1e-12 / hh
        if cdiff(b13, rb) > tb:
            bad.append(('bearing_is_azimuth', f'bearing={b13!r} but the initial azimuth is {rb!r}'))
        if cdiff(b5, rb) > tb + 5.01e-6:
            bad.append(('bearing_is_azimuth', f'rounded bearing={b5!r} but the initial azimuth is {rb!r}'))
        # second, formula-independent reference (unit vectors; the products cancel to ~1e-16 absolute)
        rv, hv = azimuth_vec(p, q)
        if hv >= 1e-9 and cdiff(b13, rv) > 1e-8 + 1e-12 / hv:
            bad.append(('bearing_is_azimuth', f'bearing={b13!r} but the azimuth of the destination\'s unit vector in the '
                                              f'north/east frame of the start is {rv!r}'))
    return bad


def oracle_roundtrip(p, q, obs, stats, mk=C):
    """bearing - distance - destination round trip: travelling haversine(p,q) from p on bearing(p,q) ends at q
    (2 cm + the 1e-7 deg rounding of the destination + float conditioning next to the antipode / a pole)"""
    if obs['h'][0] != 'Ok' or obs['b13'][0] != 'Ok':
        return []
    h, b13 = obs['h'][1], obs['b13'][1]
    _, hv = azimuth_vec(p, q)
    if hv < 1e-9:                                  # identical or antipodal: no azimuth
        stats['roundtrip-azimuth-undefined'] = stats.get('roundtrip-azimuth-undefined', 0) + 1
        return []
    if abs(p[1]) == 90:                            # inverse_haversine from a pole: longitude is atan2(noise, noise)
        stats['roundtrip-from-pole(no bearing)'] = stats.get('roundtrip-from-pole(no bearing)', 0) + 1
        return []
    got = guarded(lambda: inverse_haversine_degrees(mk(p), b13, h))
    if got[0] != 'Ok':
        # D53 regression (repaired in /repo 6babd5c): travelling exactly onto a pole used to raise (asin of 1 + 2^-52)
        return [('roundtrip', f'inverse_haversine_degrees raised {got[1]}')]
    dd = (got[1].longitude, got[1].latitude)
    off = great_circle_ref(dd, q)[0]
    colat = math.radians(90 - abs(dd[1]))
    colat_p = math.radians(90 - abs(p[1]))       # a start within metres of a pole: its cos(lat) carries ~1e-16 absolute noise
    # asin next to a pole: an argument error e moves the colatitude by min(sqrt(2e), e/colat) (<= 0.19 m; measured 0.133 m
    # for destinations that are the pole itself - D53 regression: they must be reached, not raise)
    tol = (0.02 + 2 * dist_tol(p, q) + R_EARTH * min(3e-8, 4.5e-16 / max(colat, 1e-300)) + R_EARTH * 4.5e-16 / max(colat_p, 1e-9)
           + R_EARTH * math.radians(1e-8 * hv + 1e-12))
    if off > tol:
        return [('roundtrip', f'travelling d(p,q)={h!r} m from p on bearing(p,q)={b13!r} ends at {dd!r}, {off!r} m from q')]
    return []


def oracle_dest(p, b, d, obs, stats, mk=C):
    bad = []
    if obs['deg'][0] != 'Ok' or obs['rad'][0] != 'Ok':
        return [('dest', f'raised {obs["deg"]} {obs["rad"]}')]
    dd, dr = obs['deg'][1], obs['rad'][1]
    if dd != dr:
        bad.append(('deg_rad_same', f'degrees entry {dd!r} radians entry {dr!r}'))
    back = haversine_distance_meters(mk(p), C(dd))
    # asin loses the colatitude digits next to a pole (d(asin)/dx = 1/cos(lat)): a destination within a few
    # metres of a pole is off by up to ~10 cm in floats; the 2 cm figure is checked with that allowance
    colat = math.radians(90 - abs(dd[1]))
    tol_pos = 0.02 + R_EARTH * 4.5e-16 / max(colat, 1e-9)
    if colat < math.radians(1e-4):
        stats['dest-within-11m-of-pole(allowance)'] = stats.get('dest-within-11m-of-pole(allowance)', 0) + 1
    if abs(back - d) > tol_pos:
        bad.append(('dest_dist', f'requested {d!r} m, destination {dd!r} is at {back!r} m'))
    # independent direct solution on unit vectors (no shared formula with the implementation)
    f1, l1, t, r = math.radians(p[1]), math.radians(p[0]), math.radians(b), d / R_EARTH
    n = (-math.sin(f1) * math.cos(l1), -math.sin(f1) * math.sin(l1), math.cos(f1))     # north
    e = (-math.sin(l1), math.cos(l1), 0.0)                                           # east
    u = (math.cos(f1) * math.cos(l1), math.cos(f1) * math.sin(l1), math.sin(f1))
    v = [math.cos(r) * u[i] + math.sin(r) * (math.cos(t) * n[i] + math.sin(t) * e[i]) for i in range(3)]
    rl, rf = math.degrees(math.atan2(v[1], v[0])), math.degrees(math.atan2(v[2], math.hypot(v[0], v[1])))
    off, _, _ = great_circle_ref((rl, rf), dd)
    if abs(p[1]) == 90:
        stats['dest-from-pole(no bearing)'] = stats.get('dest-from-pole(no bearing)', 0) + 1
    elif off > tol_pos:
        bad.append(('dest_position', f'destination {dd!r} is {off!r} m from the point at distance/bearing ({rl!r},{rf!r})'))
    if abs(p[1]) > 89.9 or abs(dd[1]) > 89.9999 or math.sin(r) * R_EARTH < 0.5:
        stats['dest-bearing-illconditioned'] = stats.get('dest-bearing-illconditioned', 0) + 1
    else:
        bb = bearing_degrees(mk(p), C(dd), precision=13)
        tolb = math.degrees(0.02 / (R_EARTH * math.sin(r))) + 1e-8
        if cdiff(bb, b) > tolb:
            bad.append(('dest_bearing', f'requested bearing {b!r}, initial bearing to the destination is {bb!r}'))
    return bad


def unwrapped(o, p):
    lw = p[0]
    while lw - o[0] > 180:
        lw -= 360
    while lw - o[0] < -180:
        lw += 360
    return lw


def oracle_rot(o, p, a, out, rng, stats, mk=C):
    bad = []
    if out[0] != 'Ok':
        return [('rot', f'raised {out[1]}')]
    if p[0] == -180 and o[0] > 0:
        # ensure_edge_bounds cannot un-wrap longitude -180 towards a positive origin (Coordinate(180,
        # _bounded=False) is folded back to -180): the model is faithful (wrap case Wplus180, checked by the
        # interval tie) and C07_rot_unwrap states what holds; the nearest-representation laws below do not apply
        stats['rot-unwrap-180-quirk'] = stats.get('rot-unwrap-180-quirk', 0) + 1
        return bad
    r = out[1]
    ar = math.radians(a)
    dx, dy = unwrapped(o, p) - o[0], p[1] - o[1]
    ex, ey = math.cos(ar) * dx - math.sin(ar) * dy, math.sin(ar) * dx + math.cos(ar) * dy
    if not -89.9 < o[1] + ey < 89.9:
        return bad
    rx, ry = r[0] - o[0], r[1] - o[1]
    rx = (rx + 180) % 360 - 180 if abs(ex) < 170 else rx + 360 * round((ex - rx) / 360)
    scale = 1 + math.hypot(dx, dy)
    if abs(math.hypot(rx, ry) - math.hypot(dx, dy)) > 1e-9 * scale:
        bad.append(('rot_isometry', f'planar distance to the origin {math.hypot(dx, dy)!r} -> {math.hypot(rx, ry)!r}'))
    if a == 0 and (abs(rx - dx) > 1e-12 * scale or abs(ry - dy) > 1e-12 * scale):
        bad.append(('rot_zero', f'rotation by 0 moved {p!r} to {r!r}'))
    for turn in (0.0, 360.0):
        r0 = impl_rot(o, p, turn, mk)
        if r0[0] != 'Ok':
            bad.append(('rot_zero', f'rotation by {turn!r} raised {r0[1]}'))
        elif (abs((r0[1][0] - o[0] - dx + 180) % 360 - 180) > (1e-12 if turn == 0 else 1e-9) * scale
              or abs(r0[1][1] - o[1] - dy) > (1e-12 if turn == 0 else 1e-9) * scale):
            bad.append(('rot_zero', f'rotation by {turn!r} moved {p!r} to {r0[1]!r}'))
    b = rng.uniform(-180, 180)
    r2 = impl_rot(o, r, b, mk)        # r is the implementation's own (float-built) answer, the origin is as given
    r12 = impl_rot(o, p, a + b, mk)
    if r[0] == -180 and o[0] > 0:
        # the first rotation landed exactly on longitude 180 (integer offsets, quarter turns), stored as -180: the
        # second step is the D34 input (known finding, see above)
        stats['rot-unwrap-180-quirk(chained)'] = stats.get('rot-unwrap-180-quirk(chained)', 0) + 1
    elif r2[0] == 'Ok' and r12[0] == 'Ok':
        if cdiff(r2[1][0], r12[1][0]) > 1e-9 * scale or abs(r2[1][1] - r12[1][1]) > 1e-9 * scale:
            # only meaningful when neither result was folded over a pole
            br = math.radians(a + b)
            if -89.9 < o[1] + math.sin(br) * dx + math.cos(br) * dy < 89.9:
                bad.append(('rot_compose', f'rot {b!r} after rot {a!r} gives {r2[1]!r}, rot {a + b!r} gives {r12[1]!r}'))
    return bad


# ------------------------------------------------------------------ main
def main():
    ck = Check('C07')
    ck.build_theories(['theories/Props/C07.vo', 'theories/Corr/SphereK.vo'])
    rep = gen_sphere.main(REPO, os.path.join(ck.rundir, 'SphereGen.v'))
    rep = {k: v for k, v in rep.items() if not k.startswith('g_curve_')}
    geneq_ok = ck.gen('SphereGen.v', rep, 'SphereGenEq.v')
    ck.props('Props/C07.v')
    if ck.tier == 'thorough':
        run_coqchk(ck, 'GV.Props.C07')

    rng = ck.rng
    quick = ck.tier == 'quick'
    n_pairs_k, n_dest_k, n_rot_k = (44, 36, 14) if quick else (400, 300, 100)
    n_pairs_o, n_dest_o, n_rot_o = (3000, 2000, 500) if quick else (60000, 40000, 6000)
    n_mer_k, n_mer_o, n_form_o = (8, 1500, 120) if quick else (60, 30000, 2500)
    if not geneq_ok:                       # a translator lemma broke: search harder for a concrete failing input
        n_pairs_o, n_dest_o, n_rot_o = n_pairs_o * 10, n_dest_o * 10, n_rot_o * 4
        n_mer_o, n_form_o = n_mer_o * 10, n_form_o * 4

    lemmas, meta, skipped, stats = [], {}, {}, {}
    violations = []

    def skip(why):
        skipped[why] = skipped.get(why, 0) + 1

    def addk(kind, built, m):
        txt, why = built
        if txt is None:
            skip(why)
            return
        nm = re.match(r'Lemma (\w+)', txt).group(1)
        lemmas.append((nm, txt))
        meta[nm] = dict(m, kind=kind, lemma=txt)

    # ---- pairs
    pairs = gen_pairs(rng, n_pairs_o)
    nontrivial = set()
    for i, (cls, p, q) in enumerate(pairs):
        obs = impl_pair(p, q)
        ck.count('pair:' + cls)
        if p != q:
            nontrivial.add((p, q))
        m = {'k': 'pair', 'class': cls, 'p': p, 'q': q, 'obs': {k: v[1] for k, v in obs.items()}}
        for clause, detail in oracle_pair(p, q, obs, rng, stats) + oracle_roundtrip(p, q, obs, stats):
            violations.append(dict(m, clause=clause, detail=detail))
        if obs['h_after'] != obs['h'] or obs['h_rev_after'] != obs['h_rev']:
            violations.append(dict(m, clause='dist_is_a_function_of_the_positions',
                                   detail=f'haversine_distance_meters on the same two objects gives {obs["h"][1]!r} before and '
                                          f'{obs["h_after"][1]!r} after their unit vectors were evaluated (reversed: {obs["h_rev"][1]!r} / {obs["h_rev_after"][1]!r})'))
        if i < n_pairs_k and all(v[0] == 'Ok' for v in obs.values()):
            addk('hdist', k_hdist(f'k_h_{i}', p, q, obs['h'][1]), m)
            addk('hdist', k_hdist(f'k_hr_{i}', q, p, obs['h_rev'][1]), m)
            addk('bearing13', k_bearing(f'k_b_{i}', p, q, obs['b13'][1], False), m)
            addk('bearing5', k_bearing(f'k_b5_{i}', p, q, obs['b5'][1], True), m)
            addk('dist_xyz', k_xyz(f'k_x_{i}', p, q, obs['xyz'][1]), m)
            if i % 3 == 0:
                addk('dist_xyz_direct', k_xyz_direct(f'k_xd_{i}', p, q, obs['xyz'][1]), m)
    # ---- pairs on one meridian circle (d_lon = 0, +-180, 360k), every latitude ordering, poles
    mers = gen_meridian(rng, n_mer_o)
    for i, (cls, p, q) in enumerate(mers):
        obs = impl_pair(p, q)
        ck.count('meridian:' + cls)
        if p != q:
            nontrivial.add((p, q))
        m = {'k': 'pair', 'class': 'meridian:' + cls, 'p': p, 'q': q, 'obs': {k: v[1] for k, v in obs.items()}}
        for clause, detail in oracle_pair(p, q, obs, rng, stats) + oracle_roundtrip(p, q, obs, stats):
            violations.append(dict(m, clause=clause, detail=detail))
        # (pairs within about 1 % of half the circumference of being antipodal are ill-conditioned - the distance formula's
        #  derivative blows up and the azimuth is undefined at the antipode: `interval` cannot decide them at the stated
        #  tolerances, which is not a disagreement; they stay in the numeric oracle above, whose tolerances are conditioned)
        if i < n_mer_k and all(v[0] == 'Ok' for v in obs.values()) and obs['h'][1] < 0.99 * math.pi * 6371000.0:
            addk('hdist', k_hdist(f'k_mh_{i}', p, q, obs['h'][1]), m)
            addk('bearing13', k_bearing(f'k_mb_{i}', p, q, obs['b13'][1], False), m)
            addk('dist_xyz', k_xyz(f'k_mx_{i}', p, q, obs['xyz'][1]), m)
    # ---- every input form of the constructor through every entry point
    forms = gen_form_cases(rng, n_form_o)
    for case in forms:
        got = run_form_case(case, rng, stats, ck.count)
        violations.extend(got)
        nontrivial.add(json.dumps(case['text'], sort_keys=True))
    # ---- destinations
    dests = gen_dests(rng, n_dest_o)
    for i, (cls, p, b, d) in enumerate(dests):
        obs = impl_dest(p, b, d)
        ck.count('dest:' + cls)
        nontrivial.add((p, b, d))
        m = {'k': 'dest', 'class': cls, 'p': p, 'bearing': b, 'distance': d, 'obs': {k: v[1] for k, v in obs.items()}}
        for clause, detail in oracle_dest(p, b, d, obs, stats):
            violations.append(dict(m, clause=clause, detail=detail))
        if i < n_dest_k and obs['deg'][0] == 'Ok' and obs['rad'][0] == 'Ok':
            addk('dest_deg', k_dest(f'k_dd_{i}', p, b, d, obs['deg'][1], 'deg'), m)
            if i % 3 == 0:
                addk('dest_rad', k_dest(f'k_dr_{i}', p, b, d, obs['rad'][1], 'rad'), m)
    # ---- rotations
    rots = gen_rots(rng, n_rot_o)
    for i, (cls, o, p, a) in enumerate(rots):
        out = impl_rot(o, p, a)
        ck.count('rot:' + cls)
        nontrivial.add((o, p, a))
        m = {'k': 'rot', 'class': cls, 'o': o, 'p': p, 'angle': a, 'obs': out[1]}
        for clause, detail in oracle_rot(o, p, a, out, rng, stats):
            violations.append(dict(m, clause=clause, detail=detail))
        if i < n_rot_k and out[0] == 'Ok':
            addk('rot', k_rot(f'k_r_{i}', o, p, a, out[1]), m)

    # D34 (known finding): deterministic replay; KNOWN-FINDING only while it still reproduces.  Other inputs with the
    # same signature (vertex at longitude -180, origin east of Greenwich) are counted in oracle_exclusions above.
    for f in ck.findings:
        if f.get('status') == 'open' and f.get('signature') == 'rot_unwrap_lon_minus180':
            fo, fp, fa = canon(*f['replay']['o']), canon(*f['replay']['p']), float(f['replay']['angle'])
            got = impl_rot(fo, fp, fa)
            ar = math.radians(fa)
            dx, dy = unwrapped(fo, fp) - fo[0], fp[1] - fo[1]
            want = (fo[0] + math.cos(ar) * dx - math.sin(ar) * dy, fo[1] + math.sin(ar) * dx + math.cos(ar) * dy)
            reproduces = got[0] == 'Ok' and (cdiff(got[1][0], want[0]) > 1e-6 or abs(got[1][1] - want[1]) > 1e-6)
            ck.cov['D34_replay'] = {'o': fo, 'p': fp, 'angle': fa, 'implementation': got[1], 'rotation_of_the_unwrapped_point': want,
                                    'reproduces': reproduces}
            if reproduces:
                ck.known(f)

    per_file = max(8, -(-len(lemmas) // 14))
    badk, broken = run_lemmas(ck, 'sphere', lemmas, per_file)

    ck.cov['evaluations'] = len(pairs) + len(dests) + len(rots) + len(mers) + len(forms)
    ck.cov['input_forms'] = [f[0] for f in FORMS]
    ck.cov['interval_lemmas'] = len(lemmas)
    ck.cov['interval_lemmas_by_kind'] = {}
    for nm, _ in lemmas:
        kd = meta[nm]['kind']
        ck.cov['interval_lemmas_by_kind'][kd] = ck.cov['interval_lemmas_by_kind'].get(kd, 0) + 1
    ck.cov['distinct_nontrivial'] = len(nontrivial)
    ck.cov['skipped_in_interval_tie'] = skipped
    ck.cov['oracle_exclusions'] = stats
    for nm, txt in lemmas[:3] + lemmas[-2:]:
        ck.sample(txt)

    reported = 0
    for nm in sorted(badk):
        if reported >= 3:
            break
        m = meta[nm]
        ck.violation({'kind': 'model-vs-implementation', 'case': {k: v for k, v in m.items() if k != 'lemma'},
                      'gallina_case': m['lemma'], 'coq_output': badk[nm],
                      'theorems': 'C07_* (Props/C07.v): the model value at this input is the one the theorems constrain; '
                                  'the implementation returned a value farther from it than the stated tolerance',
                      'how_to_replay': 'bin/check C07 --replay <this file>'})
        reported += 1
    seen = set()
    for v in violations:
        if reported >= 6:
            break
        if v['clause'] in seen:
            continue
        seen.add(v['clause'])
        ck.violation({'kind': 'property-fails-on-implementation', 'case': v,
                      'theorems': 'C07_' + v['clause'], 'how_to_replay': 'bin/check C07 --replay <this file>'})
        reported += 1

    ck.finish(
        rule='seeded pairs (generic / near-coincident 1e-9..1e-2 deg / near-antipodal / polar / straddling +-180 / quarter-degree grid / '
             'same meridian / same parallel + fixed corpus incl. exact antipodes, poles, the 180->-180 rule and the D11 input), '
             'destinations (bearings 0..360 incl. the axes, distances 1 m..5000 km log-uniform, starts near the antimeridian and the '
             'poles), rotations (origins incl. +-180, angles incl. 0/90/180/270/360). Every case goes through the numeric oracle; the '
             'first n of each stream are also proved against the model by `interval`. Meridian family: pairs whose longitudes '
             'differ by 0, +-180, 360k (exact grids and float sums) x every latitude ordering (north/south of, equal, both high on '
             'one side = over that pole, mirrored = antipodal, near-mirrored, either/both poles, equator), judged by a unit-vector '
             'azimuth reference and the bearing-distance-destination round trip (which every pair of the pair stream also gets). '
             'Input-form family: positions written as decimal text (0..8 places / 17-digit repr / out-of-range longitudes) built '
             'in every form the constructor accepts (int, numpy float, str, mixed, trailing zeros, exponent, sign, from_wkt, Z/M by '
             'keyword and by WKT order) through every entry point (incl. list rotation, chained rotation, rotation by 0): answers '
             'equal to the float-built twins float for float, and the laws on them. non-trivial = distinct inputs with p <> q '
             '(pairs) / all (dest, rot, form cases)',
        assumptions=['float -> real abstraction: IEEE rounding and libm are not modelled; tolerances: interval tie 1e-6 m (+ conditioning '
                     'near antipodes), 1e-9 deg bearings (+5e-6 for the rounded value), 5.1e-8 deg destinations, 1e-9 deg rotations',
                     'round() is modelled as floor(x*10^p+1/2)/10^p (ties of the nudged value excluded)',
                     'signed zeros are not modelled (atan2(+-0, x<0))',
                     'Coordinate normalisation (C08) is applied by the harness when comparing longitudes (mod 360)'],
        extra={'tie': {'translator': rep, 'interval_broken_files': [b[0] for b in broken]}})


def replay(path):
    r = json.load(open(path))
    m = r.get('case') or {}
    print(json.dumps({k: v for k, v in m.items() if k not in ('lemma',)}, indent=1, default=str))
    k = m.get('k')
    if k == 'pair':
        p, q = tuple(m['p']), tuple(m['q'])
        obs = impl_pair(p, q)
        print('implementation now:', obs)
        import random
        print('property clauses violated now:', oracle_pair(p, q, obs, random.Random(0), {}))
        print('great-circle reference:', great_circle_ref(p, q)[0])
    elif k == 'dest':
        p = tuple(m['p'])
        obs = impl_dest(p, m['bearing'], m['distance'])
        print('implementation now:', obs)
        print('property clauses violated now:', oracle_dest(p, m['bearing'], m['distance'], obs, {}))
    elif k == 'form':
        import random
        case = {k_: m[k_] for k_ in ('text', 'bearing', 'distance', 'angle', 'angle2', 'z', 'm')}
        case['text'] = {k_: tuple(v) for k_, v in case['text'].items()}
        got = run_form_case(case, random.Random(0), {}, lambda c: None)
        print(f'violations of this input-form case now: {len(got)}')
        for v in got[:12]:
            print(' ', v['form'], v['clause'], '-', v['detail'])
    elif k == 'rot':
        import random
        o, p = tuple(m['o']), tuple(m['p'])
        out = impl_rot(o, p, m['angle'])
        print('implementation now:', out)
        print('property clauses violated now:', oracle_rot(o, p, m['angle'], out, random.Random(0), {}))
    if 'gallina_case' in r:
        print('model side (Coq lemma the run could not prove):\n' + r['gallina_case'])


if __name__ == '__main__':
    if '--replay' in sys.argv:
        replay(sys.argv[sys.argv.index('--replay') + 1])
    else:
        main()
