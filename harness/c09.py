#!/usr/bin/env python3
"""C09 - bounds and circumscribing shapes really enclose the shape."""
import math
import os
import random as pyrandom
import struct
import sys
import time

sys.path.insert(0, os.path.dirname(os.path.abspath(__file__)))
from lib import Check, guarded, reslit, zlit, blit, listlit   # noqa: E402
from geostructures import (Coordinate, GeoBox, GeoCircle, GeoEllipse, GeoLineString, GeoPoint, GeoPolygon,  # noqa: E402
                           GeoRing, MultiGeoLineString, MultiGeoPoint, MultiGeoPolygon, FeatureCollection, Track)
from geostructures.calc import haversine_distance_meters as hav, inverse_haversine_degrees as dest  # noqa: E402
from shapes import mk_dt  # noqa: E402
import c09d  # noqa: E402  (1% clause for wedges: translator tie, interval correspondence, dense-outline oracle)
import c09c  # noqa: E402  (1% clause: real-number model of curved bounds, its translator tie and interval correspondence)
import gen_bounds  # noqa: E402  (tools/: translator tie for bounds / rectangles / farthest-vertex circles)
from lib import REPO  # noqa: E402

R_EARTH = 6_371_000.0


def bits(x):
    """order-preserving integer image of a non-negative double"""
    assert x >= 0.0
    return struct.unpack('<q', struct.pack('<d', float(x)))[0]


def sbits(x):
    """order-preserving integer image of any finite double"""
    x = float(x)
    return bits(x) if x >= 0.0 else -bits(-x)


def C2(p):
    return Coordinate(p[0] / 2, p[1] / 2)      # harness points are doubled integers: half-grid


def ptl(p):
    return f'({zlit(p[0])}, {zlit(p[1])})'


def bndlit(b):
    return '(' + ', '.join(zlit(x) for x in b) + ')'


def ib(b):
    """implementation bounds (floats on the half grid) -> doubled integers; None if not on the grid"""
    out = []
    for x in b:
        y = float(x) * 2
        if not y.is_integer():
            return None
        out.append(int(y))
    return tuple(out)


def rand_pts(rng, n, span=40):
    cx, cy = rng.randrange(-300, 300), rng.randrange(-140, 140)
    return [(cx + rng.randrange(-span, span + 1), cy + rng.randrange(-span // 2, span // 2 + 1)) for _ in range(n)]


def star_polygon(rng, n):
    """a simple polygon on the doubled grid (vertices sorted by angle about an interior point)"""
    while True:
        pts = list({p for p in rand_pts(rng, n)})
        if len(pts) < 3:
            continue
        mx, my = sum(p[0] for p in pts) / len(pts), sum(p[1] for p in pts) / len(pts)
        pts.sort(key=lambda p: math.atan2(p[1] - my, p[0] - mx))
        area2 = sum(a[0] * b[1] - b[0] * a[1] for a, b in zip(pts, pts[1:] + pts[:1]))
        if area2 != 0:
            return pts


def enclosure_excess(shape_vertices, cc):
    """max over vertices of (distance to the circle centre - radius) / radius"""
    if cc.radius == 0:
        return max(hav(v, cc.center) for v in shape_vertices)
    return max(hav(v, cc.center) - cc.radius for v in shape_vertices) / cc.radius


def asym_box(case):
    """signature of D10: GeoBox.circumscribing_circle of a box whose north and south edges are not symmetric about the equator"""
    return case.get('kind') == 'box' and abs(case['nw'][1] + case['se'][1]) > 0


def wedge_straddles(case):
    return case.get('kind') == 'wedge' and case.get('straddles_180')


def welzl(case):
    return case.get('kind') == 'polygon-welzl'


PREDICATES = {'box_not_symmetric_about_equator': asym_box, 'wedge_straddles_antimeridian': wedge_straddles,
              'welzl_fixed_replay': welzl, 'welzl_vertex_at_180': lambda case: False}   # (D50 is replayed, never met by the corpora: they keep 0.001 deg away from +-180)


def true_extent_curve(center, radius_fn, a0, a1, n=3600):
    """independent dense sampling of a curve r(theta) about center (own spherical direct formula)"""
    lat0, lon0 = math.radians(center[1]), math.radians(center[0])
    lons, lats = [], []
    for i in range(n + 1):
        th = math.radians(a0 + (a1 - a0) * i / n)
        d = radius_fn(math.degrees(th)) / R_EARTH
        lat = math.asin(math.sin(lat0) * math.cos(d) + math.cos(lat0) * math.sin(d) * math.cos(th))
        lon = lon0 + math.atan2(math.sin(th) * math.sin(d) * math.cos(lat0), math.cos(d) - math.sin(lat0) * math.sin(lat))
        lons.append(math.degrees(lon)); lats.append(math.degrees(lat))
    return min(lons), min(lats), max(lons), max(lats)


def sb(x):
    """sbits with -0.0 read as 0.0 (min/max of the implementation treat them as equal)"""
    return sbits(float(x) + 0.0)


def rand_curved(rng):
    """a random curved shape (dict understood by c09c.build): circle / ellipse / full ring / wedge, any longitude
    (one in four next to +-180), |lat| <= 80, radius 20 m .. 200 km log-uniform; wedges incl. angle_min 0 (falsy),
    negative angles and ranges through north"""
    lat = round(rng.uniform(-80, 80), 4)
    lon = round(rng.choice([rng.uniform(-165, 165)] * 3 + [rng.choice([-1, 1]) * rng.uniform(179.5, 179.999)]), 4)
    r = round(math.exp(rng.uniform(math.log(20.0), math.log(200000.0))), 2)
    kind = rng.choice(['circle', 'ellipse', 'ring', 'wedge', 'wedge', 'wedge'])
    if kind == 'circle':
        return {'t': 'circle', 'c': (lon, lat), 'r': r}
    if kind == 'ellipse':
        return {'t': 'ellipse', 'c': (lon, lat), 'a': r, 'b': round(r * rng.uniform(0.1, 1.0), 2), 'rot': round(rng.uniform(0, 360), 2)}
    rin = round(r * rng.uniform(0.05, 0.9), 2)
    if kind == 'ring':
        a0 = float(rng.choice([0, 0, -30, 45]))
        return {'t': 'ring', 'c': (lon, lat), 'rin': rin, 'rout': r, 'amin': a0, 'amax': a0 + 360.0}
    a0 = float(rng.choice([0, 0, 5, 45, 90, 200, 350, -60, -200, round(rng.uniform(-360, 360), 1)]))
    span = float(rng.choice([20, 45, 90, 140, 180, 270, 340, round(rng.uniform(10, 350), 1)]))
    return {'t': 'wedge', 'c': (lon, lat), 'rin': rin, 'rout': r, 'amin': a0, 'amax': a0 + span}


def wedge_true_extents(sh):
    """extents of the two arcs of a ring / wedge (own geodesy, samples every <= 0.25 degrees of bearing)"""
    n = max(200, int(4 * (sh['amax'] - sh['amin'])))
    o = true_extent_curve(sh['c'], lambda th: sh['rout'], sh['amin'], sh['amax'], n)
    i = true_extent_curve(sh['c'], lambda th: sh['rin'], sh['amin'], sh['amax'], n)
    return min(o[0], i[0]), min(o[1], i[1]), max(o[2], i[2]), max(o[3], i[3])


def extent_error_m(ob, tb, lat):
    """largest disagreement of two (min lon, min lat, max lon, max lat) in metres on the ground at latitude lat"""
    m_lat = math.pi * R_EARTH / 180
    m_lon = m_lat * math.cos(math.radians(lat))
    return max(abs(ob[0] - tb[0]) * m_lon, abs(ob[1] - tb[1]) * m_lat, abs(ob[2] - tb[2]) * m_lon, abs(ob[3] - tb[3]) * m_lat)


# ---- brute-force smallest enclosing cap on unit vectors (reference for the Welzl clause)
def _uv(p):
    lo, la = math.radians(p[0]), math.radians(p[1])
    return (math.cos(la) * math.cos(lo), math.cos(la) * math.sin(lo), math.sin(la))


def _dot(a, b):
    return a[0] * b[0] + a[1] * b[1] + a[2] * b[2]


def _cross(a, b):
    return (a[1] * b[2] - a[2] * b[1], a[2] * b[0] - a[0] * b[2], a[0] * b[1] - a[1] * b[0])


def _ang(a, b):
    c = _cross(a, b)
    return math.atan2(math.sqrt(_dot(c, c)), _dot(a, b))      # well conditioned at every separation


def _unit(a):
    n = math.sqrt(_dot(a, a))
    return (a[0] / n, a[1] / n, a[2] / n)


def smallest_cap(pts):
    """(centre unit vector, angular radius): the smallest of the caps that have two of the points as a diameter or
    three of them on the rim and contain all points (point sets well inside a hemisphere)"""
    vs = [_uv(p) for p in pts]
    cands = []
    for i, a in enumerate(vs):
        for j in range(i + 1, len(vs)):
            b = vs[j]
            cands.append(_unit((a[0] + b[0], a[1] + b[1], a[2] + b[2])))
            for c in vs[j + 1:]:
                n = _cross((b[0] - a[0], b[1] - a[1], b[2] - a[2]), (c[0] - a[0], c[1] - a[1], c[2] - a[2]))
                if _dot(n, n) < 1e-30:
                    continue
                n = _unit(n)
                cands.append(n if _dot(n, a) >= 0 else (-n[0], -n[1], -n[2]))
    best = None
    for ctr in cands:
        rad = max(_ang(ctr, v) for v in vs)
        if best is None or rad < best[1]:
            best = (ctr, rad)
    return best


def main():
    ck = Check('C09')
    ck.build_theories(['theories/Props/C09.vo', 'theories/Props/C09b.vo', 'theories/Props/C09c.vo', 'theories/Props/C09d.vo', 'theories/Corr/BoundsK.vo', 'theories/Corr/BoundsCurveK.vo', 'theories/Corr/BoundsWedgeK.vo'])
    rep = gen_bounds.main(REPO, os.path.join(ck.rundir, 'BoundsGen.v'))   # bounds / rectangles / circles regenerated from the source ...
    ck.gen('BoundsGen.v', rep, 'BoundsGenEq.v')                           # ... proved equal to BoundsM / ShapeM.multi_bounds for all arguments
    ck.props('Props/C09.v')
    ck.props('Props/C09b.v')      # D10 refuted with the real haversine of C07 (Reals + Interval)
    ck.props('Props/C09c.v')      # the 1% clause for circles, full rings and ellipses (over the reals)
    rng = ck.rng
    cases, meta, nontriv = [], [], set()
    prop_viol = []

    def add(lit, m):
        cases.append(lit); meta.append(m)

    N = 120 if ck.tier == 'quick' else 1500

    def warm(S, it):
        """bounds is a pure observation: on every other iteration other read-only queries are evaluated on the
        very same object first (centroid before bounds, ...); the answer must be that of a fresh object"""
        if it % 2 == 0:
            return S
        qs = [lambda: S.centroid, lambda: S.to_wkt(), lambda: hash(S), lambda: S.bounding_coords(),
              lambda: S.contains_coordinate(S.centroid), lambda: S.circumscribing_circle(), lambda: S.convex_hull]
        rng.shuffle(qs)
        for q in qs[: 2 + it % 4]:
            guarded(q)
        guarded(lambda: S.centroid)
        ck.count('bounds-read-after-other-queries')
        return S
    # ---------------- A. bounds of vertex shapes, rectangles, unions (proved; seeded random)
    for it in range(N):
        n = rng.choice([1, 2, 3, 3, 4, 5, 8, 13])
        # polygon
        pv = star_polygon(rng, max(3, n))
        P = warm(GeoPolygon([C2(p) for p in pv]), it)
        add(f'KBnd {listlit([ptl(p) for p in pv])} {reslit(guarded(lambda: ib(P.bounds)), bndlit)}', {'k': 'bounds', 'kind': 'polygon', 'vs': pv})
        # linestring (>= 2 vertices), with repeated vertices and retracing
        lv = rand_pts(rng, max(2, n))
        if rng.random() < 0.3:
            lv = lv + lv[::-1]
        L = warm(GeoLineString([C2(p) for p in lv]), it)
        add(f'KBnd {listlit([ptl(p) for p in lv])} {reslit(guarded(lambda: ib(L.bounds)), bndlit)}', {'k': 'bounds', 'kind': 'linestring', 'vs': lv})
        pt = rand_pts(rng, 1)[0]
        G = GeoPoint(C2(pt))
        add(f'KBnd {listlit([ptl(pt)])} {reslit(guarded(lambda: ib(G.bounds)), bndlit)}', {'k': 'bounds', 'kind': 'point', 'vs': [pt]})
        # box
        a, b = rand_pts(rng, 2)
        nw, se = (min(a[0], b[0]), max(a[1], b[1])), (max(a[0], b[0]), min(a[1], b[1]))
        B = warm(GeoBox(C2(nw), C2(se)), it)
        add(f'KBox {ptl(nw)} {ptl(se)} {bndlit(ib(B.bounds))}', {'k': 'boxbounds', 'nw': nw, 'se': se})
        add(f'KBnd {listlit([ptl(p) for p in [nw, (nw[0], se[1]), se, (se[0], nw[1]), nw]])} {reslit(("Ok", ib(B.bounds)), bndlit)}',
            {'k': 'boxcorners', 'nw': nw, 'se': se})
        # circumscribing rectangles
        for kind, S in (('polygon', P), ('linestring', L), ('box', B)):
            bb = ib(S.bounds)
            Rr = S.circumscribing_rectangle()
            onw, ose = ib(Rr.nw_bound.to_float()[:2]), ib(Rr.se_bound.to_float()[:2])
            add(f'KRectB {bndlit(bb)} {ptl(onw)} {ptl(ose)} {bndlit(ib(Rr.bounds))}', {'k': 'rect', 'kind': kind, 'bounds': bb})
            if ib(Rr.bounds) != bb:
                prop_viol.append({'clause': 'circumscribing rectangle has exactly the bounds', 'kind': kind, 'bounds': bb, 'rect': ib(Rr.bounds)})
        # unions: multi-shapes and collections
        k = rng.choice([1, 2, 3, 4])
        polys = [GeoPolygon([C2(p) for p in star_polygon(rng, 4)]) for _ in range(k)]
        lines = [GeoLineString([C2(p) for p in rand_pts(rng, 3)]) for _ in range(k)]
        points = [GeoPoint(C2(rand_pts(rng, 1)[0])) for _ in range(k)]
        groups = [('multipolygon', MultiGeoPolygon(polys), polys), ('multilinestring', MultiGeoLineString(lines), lines),
                  ('multipoint', MultiGeoPoint(points), points)]
        mixed = [polys[0], lines[0], points[0], B][: k + 1]
        groups.append(('featurecollection', FeatureCollection(mixed), mixed))
        tm = [s.copy() for s in mixed]
        for i_, s in enumerate(tm):
            s.set_dt(mk_dt(('i', i_)))
        groups.append(('track', Track(tm), tm))
        for kind, M, members in groups:
            if it % 4 == 3:
                guarded(lambda: M.centroid)      # collection-level centroid before collection-level bounds
                guarded(lambda: M.convex_hull() if callable(M.convex_hull) else M.convex_hull)
            bs = [ib(m.bounds) for m in members]
            add(f'KUnion {listlit([bndlit(x) for x in bs])} {reslit(guarded(lambda: ib(M.bounds)), bndlit)}', {'k': 'union', 'kind': kind, 'bs': bs})
            nontriv.add((kind, tuple(bs)))
        nontriv.add(('p', tuple(pv))); nontriv.add(('l', tuple(lv)))

        # ---------------- B. centroid + farthest vertex circles (proved for every distance function)
        far = [('linestring', L, L.vertices), ('multipoint', groups[2][1], [p.centroid for p in points]),
               ('multilinestring', groups[1][1], [c for l_ in lines for c in l_.vertices]),
               ('multipolygon', groups[0][1], [c for p_ in polys for c in p_.bounding_coords()])]
        if it % 4 == 0:
            ctr = rand_pts(rng, 1)[0]
            W = GeoRing(C2(ctr), rng.choice([0, 500, 3000]) + 100, rng.choice([4000, 9000, 60000]), angle_min=rng.choice([5, 40, 200]), angle_max=rng.choice([250, 300, 355]))
            far.append(('wedge', W, W.bounding_coords()))
            # the bounds of a wedge are the min/max of its sampled boundary (order-preserving integer images of the
            # doubles: min/max only look at the order).  Wedges across +-180 are finding D21 (fixed replay below).
            wv = [(c.longitude, c.latitude) for c in W.bounding_coords()]
            if max(x for x, _ in wv) - min(x for x, _ in wv) <= 180:
                wb = guarded(lambda: W.bounds)
                add(f'KBnd {listlit([f"({zlit(sbits(x))}, {zlit(sbits(y))})" for x, y in wv])} '
                    f'{reslit((wb[0], tuple(sbits(v) for v in wb[1])) if wb[0] == "Ok" else wb, bndlit)}',
                    {'k': 'bounds', 'kind': 'wedge', 'center': ctr, 'angles': [W.angle_min, W.angle_max], 'radii': [W.inner_radius, W.outer_radius]})
                ck.count('bounds:wedge')
        for kind, S, vs in far:
            cc = S.circumscribing_circle()
            cen = S.centroid
            ds = [bits(hav(v, cen)) for v in vs]
            oc = [cc.contains_coordinate(v) for v in vs]
            add(f'KFarC {listlit([zlit(d) for d in ds])} {zlit(bits(cc.radius))} {listlit([blit(x) for x in oc])}',
                {'k': 'farcircle', 'kind': kind, 'n': len(vs), 'center': cen.to_float(), 'radius': cc.radius})
            if cc.center != cen:
                prop_viol.append({'clause': 'circle centre is the centroid', 'kind': kind})
            ex = enclosure_excess(vs, cc)
            if ex > 1e-6:
                prop_viol.append({'clause': 'circumscribing circle contains every boundary vertex (1e-6 r)', 'kind': kind,
                                  'vertices': [v.to_float() for v in vs], 'excess_over_radius': ex})
            nontriv.add((kind, tuple(ds)))
        # ---------------- C. box circle (D10)
        cc = B.circumscribing_circle()
        cen = B.centroid
        corners = B.bounding_coords()[:4]
        ds = [bits(hav(v, cen)) for v in corners]
        oc = [cc.contains_coordinate(v) for v in corners]
        add(f'KBoxC {zlit(bits(hav(B.nw_bound, cen)))} {listlit([zlit(d) for d in ds])} {zlit(bits(cc.radius))} {listlit([blit(x) for x in oc])}',
            {'k': 'boxcircle', 'nw': nw, 'se': se})
        ex = enclosure_excess(corners, cc)
        if ex > 1e-6:
            case = {'kind': 'box', 'nw': nw, 'se': se, 'excess_over_radius': ex}
            f = ck.finding_for(case, PREDICATES)
            if f:
                ck.known(f)
            else:
                prop_viol.append(dict(case, clause='box circumscribing circle contains its corners'))

    # ---------------- A2. curved shapes after a HISTORY of read-only calls that carry an outline resolution k
    # Mechanism class: state left behind on the object by read-only calls (memoised outlines, cached properties
    # filled from a caller-chosen resolution, mutated arguments).  For every curved kind (circle, ellipse, full ring,
    # wedge) a random selection of the public calls that take `k` (c09c.K_CALLS: exports, outline accessors, binary
    # predicates; k coarser than / equal to / finer than the default) is evaluated BEFORE bounds is first read; then
    # bounds, circumscribing_rectangle, circumscribing_circle and the bounds of a MultiGeoPolygon and a
    # FeatureCollection holding the shape are read in a random order and compared
    #   * with a FRESH twin built from the same arguments (no history; exact equality - the code is deterministic),
    #   * with the model: KBnd (bounds of a wedge = min/max of the default outline, taken from the twin), KRectB,
    #     KUnion (order-preserving integer images of the doubles); circles / ellipses / full rings after a history
    #     also go through c09c's interval lemmas (every other shape there).
    NH = 150 if ck.tier == 'quick' else 1500
    t_fam = {'A2': -time.time()}
    READS = {
        'bounds': lambda X, comp: tuple(float(v) for v in X.bounds),
        'rectangle': lambda X, comp: (lambda R_: (R_.nw_bound.to_float()[:2], R_.se_bound.to_float()[:2], tuple(R_.bounds)))(X.circumscribing_rectangle()),
        'circle': lambda X, comp: (lambda c_: (c_.center.to_float()[:2], float(c_.radius)))(X.circumscribing_circle()),
        'multipolygon': lambda X, comp: tuple(MultiGeoPolygon([X, comp]).bounds),
        'featurecollection': lambda X, comp: tuple(FeatureCollection([X, comp]).bounds),
    }
    for it in range(NH):
        sh = rand_curved(rng)
        S, T = c09c.build(sh), c09c.build(sh)
        hist = c09c.k_history(rng)
        lon, lat = sh['c']
        comp = GeoBox(Coordinate(lon + 0.25, lat + 1.5), Coordinate(lon + 0.75, lat + 1.0))     # holds max lon / max lat of the unions
        fresh = {nm: guarded(lambda: READS[nm](T, comp)) for nm in ('bounds', 'rectangle', 'circle', 'multipolygon', 'featurecollection')}
        boxes = c09c.apply_history(S, hist)
        order = sorted(READS)
        rng.shuffle(order)
        after = {nm: guarded(lambda: READS[nm](S, comp)) for nm in order}
        ck.count('history:' + sh['t'])
        nontriv.add(('hist', sh['t'], tuple(sh['c']), tuple(map(tuple, hist))))
        diffs = [{'read': nm, 'after_history': after[nm], 'fresh_twin': fresh[nm]} for nm in order if after[nm] != fresh[nm]]
        diffs += [{'read': 'bbox exported by to_geojson(k=.., include_bbox=True)', 'after_history': ('Ok', b_), 'fresh_twin': fresh['bounds']}
                  for b_ in boxes if ('Ok', b_) != fresh['bounds']]
        if diffs:
            pv = {'clause': 'bounds, circumscribing rectangle and circumscribing circle are those of the shape, whatever read-only calls '
                            '(with an explicit outline resolution k) were made on the object before', 'shape': sh, 'history': hist,
                  'order_of_reads': order, 'differences': diffs[:3]}
            if sh['t'] in ('wedge', 'ring') and after['bounds'][0] == 'Ok' and fresh['bounds'][0] == 'Ok':
                te = wedge_true_extents(sh)
                pv['bounds_error_over_radius_vs_true_extents'] = {'after_history': extent_error_m(after['bounds'][1], te, lat) / sh['rout'],
                                                                  'fresh_twin': extent_error_m(fresh['bounds'][1], te, lat) / sh['rout']}
            prop_viol.append(pv)
        # the model on what the object with a history answered
        hm = {'shape': sh, 'history': hist, 'order_of_reads': order}
        if fresh['bounds'][0] != 'Ok' or after['bounds'][0] != 'Ok':
            continue
        fb, ab = fresh['bounds'][1], after['bounds'][1]
        if after['rectangle'][0] == 'Ok':
            onw, ose, rb = after['rectangle'][1]
            add(f'KRectB {bndlit([sb(v) for v in fb])} ({zlit(sb(onw[0]))}, {zlit(sb(onw[1]))}) ({zlit(sb(ose[0]))}, {zlit(sb(ose[1]))}) '
                f'{bndlit([sb(v) for v in rb])}', dict(hm, k='rect', kind=sh['t'] + '-after-k-history'))
        if sh['t'] == 'wedge':
            wv = [(c.longitude, c.latitude) for c in T.bounding_coords()]
            if max(x for x, _ in wv) - min(x for x, _ in wv) <= 180:          # (across +-180: finding D21)
                add(f'KBnd {listlit([f"({zlit(sb(x))}, {zlit(sb(y))})" for x, y in wv])} {reslit(("Ok", tuple(sb(v) for v in ab)), bndlit)}',
                    dict(hm, k='bounds', kind='wedge-after-k-history'))
        if abs(lon) <= 165:
            cb = tuple(comp.bounds)
            for nm in ('multipolygon', 'featurecollection'):
                if after[nm][0] == 'Ok':
                    add(f'KUnion {listlit([bndlit([sb(v) for v in fb]), bndlit([sb(v) for v in cb])])} '
                        f'{reslit(("Ok", tuple(sb(v) for v in after[nm][1])), bndlit)}', dict(hm, k='union', kind=nm + '-after-k-history'))

    t_fam['A2'] += time.time()

    # ---------------- A3. collections DERIVED from a collection that was observed before
    # Mechanism class: a derived FeatureCollection / Track (result of filter_by_property / filter_by_dt / filter_by_intersection /
    # filter_contained_by / filter_contains, of +, copy(), a Track time slice - and results of results) that inherits
    # state of the collection it was derived from (a copy of the parent object with its cached bounds / geospan / hull, a
    # shared cache, a shortcut constructor) instead of being a collection of its own members.  Members are scattered
    # vertex shapes (most of them hold an extreme of the union); a seeded subset of bounds / geospan / convex_hull / centroid
    # is read on the parent BEFORE each derivation (or nothing: control); C09 does not judge WHICH members a filter selects
    # (C18 does): whatever members the result holds, its bounds must be the union of THEIR bounds (KUnion + direct oracle),
    # the parent's bounds must still be the union of the parent's.
    t_fam['A3'] = -time.time()
    ND = 40 if ck.tier == 'quick' else 600
    union_of = lambda bs_: (min(b_[0] for b_ in bs_), min(b_[1] for b_ in bs_), max(b_[2] for b_ in bs_), max(b_[3] for b_ in bs_))   # noqa: E731

    def a3_member(spec, i_):
        kw = {'dt': mk_dt(('i', i_)), 'properties': {'i': i_}}
        vs = [C2(p_) for p_ in spec['vs']]
        if spec['kind'] == 'point':
            return GeoPoint(vs[0], **kw)
        if spec['kind'] == 'linestring':
            return GeoLineString(vs, **kw)
        if spec['kind'] == 'box':
            return GeoBox(vs[0], vs[1], **kw)
        return GeoPolygon(vs + [vs[0]], **kw)

    def a3_spec():
        kind = rng.choice(['point', 'linestring', 'box', 'polygon'])
        if kind == 'point':
            return {'kind': kind, 'vs': rand_pts(rng, 1)}
        if kind == 'linestring':
            return {'kind': kind, 'vs': rand_pts(rng, rng.randint(2, 4), span=12)}
        if kind == 'box':
            a_, b_ = rand_pts(rng, 2, span=12)
            if a_[0] == b_[0] or a_[1] == b_[1]:
                b_ = (a_[0] + 3, a_[1] - 2)
            return {'kind': kind, 'vs': [(min(a_[0], b_[0]), max(a_[1], b_[1])), (max(a_[0], b_[0]), min(a_[1], b_[1]))]}
        return {'kind': kind, 'vs': star_polygon(rng, rng.randint(3, 6))}

    def a3_derive(M, cls, members, op):
        if op[0] == 'prop':
            return M.filter_by_property('i', lambda v_: v_ in op[1])
        if op[0] == 'dt':
            return M.filter_by_dt(mk_dt(('v', op[1], op[2])))
        if op[0] in ('int', 'within'):
            ub = union_of([tuple(m_.bounds) for m_ in members if m_.properties['i'] in op[1]] or [tuple(members[0].bounds)])
            q_ = GeoBox(Coordinate(ub[0] - 0.25, ub[3] + 0.25), Coordinate(ub[2] + 0.25, ub[1] - 0.25))
            return M.filter_by_intersection(q_) if op[0] == 'int' else M.filter_contained_by(q_)
        if op[0] == 'contains':
            tgt = [m_ for m_ in members if m_.properties['i'] == op[1]] or members
            return M.filter_contains(GeoPoint(tgt[0].centroid))
        if op[0] == 'add':
            other = cls([a3_member(sp_, 100 + j_) for j_, sp_ in enumerate(op[1])])
            guarded(lambda: [getattr(other, a_) for a_ in op[2]])
            return M + other if op[3] else other + M
        if op[0] == 'copy':
            return M.copy()
        return M[mk_dt(('i', op[1])):mk_dt(('i', op[2]))]         # Track time slice

    def a3_op(ids, is_track):
        u = rng.random()
        sub = sorted(rng.sample(ids, rng.randint(1, max(1, len(ids) - 1)))) if ids else []
        if u < 0.25:
            return ['prop', sub]
        if u < 0.40:
            a_ = rng.choice(ids or [0])
            return ['dt', a_, max(a_, rng.choice(ids or [0]))]
        if u < 0.65:
            return [rng.choice(['int', 'within']), sub]
        if u < 0.72:
            return ['contains', rng.choice(ids or [0])]
        if u < 0.84:
            return ['add', [a3_spec() for _ in range(rng.randint(0, 2))], rng.sample(['bounds', 'geospan', 'convex_hull'], rng.randint(0, 2)), rng.random() < 0.6]
        if u < 0.90 or not is_track:
            return ['copy']
        a_ = rng.choice(ids or [0])
        return ['slice', a_, max(a_, rng.choice(ids or [0])) + 1]

    a3_n = {'results': 0, 'smaller_after_read': 0, 'deeper': 0, 'empty': 0}
    for it in range(ND):
        cls = Track if it % 2 else FeatureCollection
        specs = [a3_spec() for _ in range(rng.randint(3, 7))]
        members = [a3_member(sp_, i_) for i_, sp_ in enumerate(specs)]
        M = cls(list(members))
        for _ in range(3):
            chain, cur, cur_members, log = [], M, members, []
            for depth in range(rng.choice([1, 1, 2, 3])):
                reads = rng.sample(['bounds', 'geospan', 'convex_hull', 'centroid'], rng.randint(0, 3))
                if rng.random() < 0.7 and 'bounds' not in reads:
                    reads.append('bounds')
                for a_ in reads:
                    guarded(lambda: getattr(cur, a_))
                op = a3_op([m_.properties['i'] for m_ in cur_members], cls is Track)
                r = guarded(lambda: a3_derive(cur, cls, cur_members, op))
                chain.append({'reads_on_the_parent_before': reads, 'derivation': op})
                if r[0] != 'Ok' or not isinstance(r[1], (FeatureCollection, Track)):
                    break                                  # what a derivation raises / returns is C18's clause
                R_ = r[1]
                rm = list(R_.geoshapes)
                if not rm:
                    a3_n['empty'] += 1
                    break
                bs = [ib(m_.bounds) for m_ in rm]
                got = guarded(lambda: tuple(R_.bounds))
                want = union_of([tuple(m_.bounds) for m_ in rm])
                kindname = f'{cls.__name__.lower()}-derived:' + '>'.join(c_['derivation'][0] for c_ in chain)
                hm = {'k': 'union-derived', 'kind': kindname, 'members': specs, 'chain': chain, 'result_member_ids': [m_.properties['i'] for m_ in rm], 'bs': bs}
                if got[0] != 'Ok' or ib(got[1]) is not None:
                    add(f'KUnion {listlit([bndlit(x) for x in bs])} {reslit((got[0], ib(got[1])) if got[0] == "Ok" else got, bndlit)}', hm)
                nontriv.add((kindname, tuple(bs), depth))
                a3_n['results'] += 1
                a3_n['deeper'] += depth > 0
                if 'bounds' in reads or 'geospan' in reads:
                    a3_n['smaller_after_read'] += want != union_of([tuple(m_.bounds) for m_ in cur_members])
                ck.count('derived-collection-bounds:' + op[0])
                if got != ('Ok', want):
                    prop_viol.append({'clause': 'the bounds of a collection are the union of its members\' bounds (collection derived from one that was observed before)',
                                      'collection': cls.__name__, 'members': specs, 'chain': chain, 'result_member_ids': hm['result_member_ids'],
                                      'result_bounds': got, 'union_of_the_result_members_bounds': want})
                cur, cur_members = R_, rm
            pb = guarded(lambda: tuple(M.bounds))
            if pb != ('Ok', union_of([tuple(m_.bounds) for m_ in members])):
                prop_viol.append({'clause': 'the bounds of a collection are still the union of its members\' bounds after collections were derived from it',
                                  'collection': cls.__name__, 'members': specs, 'chain': chain, 'bounds': pb})
    ck.cov['derived_collection_bounds'] = a3_n
    t_fam['A3'] += time.time()

    # unions whose extreme on one side is EXACTLY 0 (a falsy value), held by the member at every position,
    # the other members not reaching 0 on that side
    for side in range(4):                       # 0 min lon, 1 min lat, 2 max lon, 3 max lat
        for n_members in (2, 3, 4):
            for pos in range(n_members):
                boxes = []
                for i_ in range(n_members):
                    off = 0 if i_ == pos else 6 * (i_ + 1)      # doubled-grid units
                    sgn = 1 if side < 2 else -1                 # min sides: others lie at positive offsets; max sides: negative
                    lo_x, lo_y = (sgn * off if side in (0, 2) else 10 + i_), (sgn * off if side in (1, 3) else 10 + i_)
                    if side in (0, 1):
                        nw_, se_ = (lo_x, lo_y + 4), (lo_x + 4, lo_y)
                    elif side == 2:
                        nw_, se_ = (lo_x - 4, lo_y + 4), (lo_x, lo_y)
                    else:
                        nw_, se_ = (lo_x, lo_y), (lo_x + 4, lo_y - 4)
                    boxes.append((nw_, se_))
                polys_ = [GeoPolygon([C2(p) for p in [nw_, (nw_[0], se_[1]), se_, (se_[0], nw_[1]), nw_]]) for nw_, se_ in boxes]
                gb = [GeoBox(C2(nw_), C2(se_)) for nw_, se_ in boxes]
                tb = [b_.copy() for b_ in gb]
                for i_, s_ in enumerate(tb):
                    s_.set_dt(mk_dt(('i', i_)))
                for kind, M, members in (('multipolygon', MultiGeoPolygon(polys_), polys_), ('featurecollection', FeatureCollection(gb), gb),
                                         ('track', Track(tb), tb), ('fc+fc', FeatureCollection(gb[:1]) + FeatureCollection(gb[1:]), gb)):
                    bs = [ib(m.bounds) for m in members]
                    add(f'KUnion {listlit([bndlit(x) for x in bs])} {reslit(guarded(lambda: ib(M.bounds)), bndlit)}',
                        {'k': 'union-zero-extreme', 'kind': kind, 'side': side, 'pos': pos, 'bs': bs})
                    nontriv.add((kind, side, pos, n_members))

    # symmetric boxes must be fully enclosed (the part of the box clause that is true)
    for w, h in ((2, 2), (40, 10), (7, 120), (300, 60)):
        B = GeoBox(C2((-w, h)), C2((w, -h)))
        cc = B.circumscribing_circle()
        ex = enclosure_excess(B.bounding_coords()[:4], cc)
        if ex > 1e-6:
            prop_viol.append({'clause': 'symmetric box circle', 'w': w, 'h': h, 'excess': ex})

    # ---------------- D. clauses no theorem decides: FIXED corpora only (same for every seed)
    corpus_n = 0
    fixed = pyrandom.Random(20260926)
    # D.1 circles / ellipses / rings: circumscribing circle contains every boundary vertex
    for lat in (-75, -40, 0, 33, 75):
        for lon in (-179.95, -60, 0, 120, 179.9):
            for r in (10, 750, 10_000, 100_000):
                for S in (GeoCircle(Coordinate(lon, lat), r), GeoEllipse(Coordinate(lon, lat), r, r * 0.4, 35),
                          GeoRing(Coordinate(lon, lat), r * 0.3, r)):
                    cc = S.circumscribing_circle()
                    vs = S.bounding_coords()
                    corpus_n += 1
                    ex = enclosure_excess(vs, cc)
                    # boundary coordinates are rounded to 1e-7 deg (about 1.1 cm): allow that absolute slack
                    if ex > 1e-6 and ex * cc.radius > 0.02:
                        prop_viol.append({'clause': 'curved shape circumscribing circle contains its boundary vertices', 'shape': repr(S), 'excess_over_radius': ex})
    # D.1b wedges incl. those starting or ending exactly at north (angle 0 is falsy in the code's wedge test)
    for lat, lon in ((0, 0), (40, -100), (-60, 150)):
        for r in (800, 9000, 60_000):
            for a0, a1 in ((0, 45), (0, 180), (0, 270), (-200, 0), (-90, 0), (30, 300), (10, 120), (200, 340)):
                W = GeoRing(Coordinate(lon, lat), r * 0.25, r, angle_min=a0, angle_max=a1)
                cc = W.circumscribing_circle()
                vs = W.bounding_coords()
                corpus_n += 1
                ex = enclosure_excess(vs, cc)
                if ex > 1e-6 and ex * cc.radius > 0.02:
                    prop_viol.append({'clause': 'wedge circumscribing circle contains its boundary vertices', 'center': [lon, lat], 'r': r,
                                      'angles': [a0, a1], 'excess_over_radius': ex})
    # D.2 curved bounds within 1% of the radius of the true extents (radius <= 10 km, |lat| <= 75)
    for lat in (-75, -50, 0, 20, 60, 75):
        for lon in (-150, 0, 90):
            for r in (50, 900, 10_000):
                shapes_ = [('circle', GeoCircle(Coordinate(lon, lat), r), lambda th, r=r: r, 0, 360),
                           ('ring', GeoRing(Coordinate(lon, lat), r / 3, r), lambda th, r=r: r, 0, 360)]
                a, b, rot = r, r * 0.5, 25
                def rad(th, a=a, b=b, rot=rot):
                    t = math.radians(th - rot)
                    return a * b / math.sqrt((b * math.cos(t)) ** 2 + (a * math.sin(t)) ** 2)
                shapes_.append(('ellipse', GeoEllipse(Coordinate(lon, lat), a, b, rot), rad, 0, 360))
                for kind, S, fn, a0, a1 in shapes_:
                    corpus_n += 1
                    tb = true_extent_curve((lon, lat), fn, a0, a1)
                    ob = S.bounds
                    m_per_deg_lat = math.pi * R_EARTH / 180
                    m_per_deg_lon = m_per_deg_lat * math.cos(math.radians(lat))
                    errs = [abs(ob[0] - tb[0]) * m_per_deg_lon, abs(ob[1] - tb[1]) * m_per_deg_lat,
                            abs(ob[2] - tb[2]) * m_per_deg_lon, abs(ob[3] - tb[3]) * m_per_deg_lat]
                    if max(errs) > 0.01 * r:
                        prop_viol.append({'clause': 'curved bounds within 1% of the radius', 'kind': kind, 'center': [lon, lat], 'r': r,
                                          'bounds': ob, 'true_extent': tb, 'err_m': max(errs)})
    # D.2b WEDGE bounds within 1% of the radius of the true extents of the two arcs - judged on a fresh object AND after
    #      every kind of read-only call that carries an outline resolution k (mechanism class: see A2; here with the
    #      property's own oracle, on a fixed corpus because no theorem decides the 1% figure for wedges).  Measured on
    #      the pinned tree: worst 0.22% of the radius, fresh and after every history alike (the default resolution of
    #      one sample per <= 10 degrees of bearing allows at most r (1 - cos 5 deg) = 0.38%).
    WEDGE_HISTORIES = [[], [['to_wkt', 3]], [['to_polygon', 5]], [['to_geojson', 4]], [['to_geojson+bbox', 4]], [['intersects_shape', 3]],
                       [['bounding_coords', 2], ['contains_shape', 100]], [['linear_rings', 100]], [['edges', 3], ['to_wkt', None]],
                       [['bounding_edges', 1]]]
    wedge_worst = 0.0
    t_fam['D.2b'] = -time.time()
    for lon, lat in ((0.0, 0.0), (21.4, 44.0), (-64.2, -29.5), (133.7, 75.0), (-8.0, -75.0)):
        for rin, rout in ((60.0, 350.0), (3000.0, 10_000.0)):
            for a0, a1 in ((45.0, 135.0), (200.0, 340.0), (-60.0, 60.0), (100.0, 260.0), (10.0, 95.0), (350.0, 370.0), (0.0, 180.0), (-135.0, -45.0)):
                sh = {'t': 'wedge', 'c': (lon, lat), 'rin': rin, 'rout': rout, 'amin': a0, 'amax': a1}
                te = wedge_true_extents(sh)
                for hist in WEDGE_HISTORIES:
                    W = c09c.build(sh)
                    judged = [('bbox exported during the history', b_) for b_ in c09c.apply_history(W, hist)]
                    judged.append(('bounds', tuple(W.bounds)))
                    judged.append(('bounds of the circumscribing rectangle', tuple(W.circumscribing_rectangle().bounds)))
                    corpus_n += 1
                    for what, ob in judged:
                        err = extent_error_m(ob, te, lat)
                        wedge_worst = max(wedge_worst, err / rout)
                        if not err <= 0.01 * rout + 0.0056:
                            prop_viol.append({'clause': 'wedge bounds within 1% of the radius of the true extents (radius <= 10 km, |lat| <= 75)',
                                              'shape': sh, 'history_before_first_read_of_bounds': hist, 'what': what, 'bounds': ob,
                                              'true_extent': te, 'err_m': err, 'err_over_radius': err / rout})
    t_fam['D.2b'] += time.time()
    ck.cov['wedge_bounds_worst_error_over_radius'] = wedge_worst
    # D.3 polygon circumscribing circle (Welzl): fixed polygons x fixed seeds; triaged on the pinned tree
    welzl_corpus = []
    for i in range(12):
        cx, cy = fixed.uniform(-150, 150), fixed.uniform(-60, 60)
        ext = [2.0, 5.0, 9.0, 20.0][i % 4]
        k = 3 + i % 6
        pts = [(round(cx + ext * fixed.random(), 4), round(cy + ext * 0.6 * fixed.random(), 4)) for _ in range(k)]
        mx, my = sum(p[0] for p in pts) / k, sum(p[1] for p in pts) / k
        pts.sort(key=lambda p: math.atan2(p[1] - my, p[0] - mx))
        welzl_corpus.append(pts)
    welzl_bad = []
    for pi_, pts in enumerate(welzl_corpus):
        P = GeoPolygon([Coordinate(*p) for p in pts])
        rads = []
        ref_m = smallest_cap(pts)[1] * R_EARTH      # minimality against the brute-force cap (pinned tree: 1.3e-12 relative)
        for seed in range(8):
            pyrandom.seed(seed)
            r_ = guarded(lambda: P.circumscribing_circle())
            corpus_n += 1
            if r_[0] != 'Ok':
                welzl_bad.append({'polygon': pts, 'seed': seed, 'raised': r_[1]}); continue
            cc = r_[1]
            ex = enclosure_excess(P.outline, cc)
            rads.append(cc.radius)
            if ex > 1e-6:
                welzl_bad.append({'polygon': pts, 'seed': seed, 'excess_over_radius': ex})
            elif abs(cc.radius - ref_m) > 1e-6 * ref_m:
                welzl_bad.append({'polygon': pts, 'seed': seed, 'radius': cc.radius, 'smallest_enclosing_radius': ref_m,
                                  'relative_difference': abs(cc.radius - ref_m) / ref_m})
        if rads and (max(rads) - min(rads)) / max(rads) > 1e-6:
            welzl_bad.append({'polygon': pts, 'seed_spread': (max(rads) - min(rads)) / max(rads)})
    # D.3r outlines that list a position MORE THAN ONCE (regression D52: a repeated vertex handed the three-point case a
    #      degenerate triangle -> NaN centre -> the Coordinate constructor never returned; pie-slice wedges repeat their centre
    #      k+1 times): the call must return for every seed, enclose every vertex and be the smallest cap of the distinct points
    from lib import guarded_alarm
    rep_corpus = []
    for pts in welzl_corpus[:6]:
        rep_corpus.append(pts[:1] + pts)                                    # doubled first vertex
        rep_corpus.append(pts[:2] + pts[1:2] + pts[1:2] + pts[2:])          # tripled interior vertex
        rep_corpus.append([q for p_ in pts for q in (p_, p_)])              # every vertex twice
    for c_, r0, r1, a0, a1, kk in (((10.5, 0.0), 0, 900, 0, 90, 8), ((30.5, -31.0), 0, 5000, 200, 320, None), ((-120.5, 61.5), 0, 25000, 350, 370, 4)):
        W_ = GeoRing(Coordinate(*c_), r0, r1, angle_min=a0, angle_max=a1)
        rep_corpus.append([tuple(v.to_float()[:2]) for v in W_.to_polygon(**({'k': kk} if kk else {})).outline[:-1]])
    for pts in rep_corpus:
        P = GeoPolygon([Coordinate(*p) for p in pts])
        distinct = list(dict.fromkeys(tuple(p) for p in pts))
        ref_m = smallest_cap(distinct)[1] * R_EARTH
        for seed in range(8):
            pyrandom.seed(seed)
            r_ = guarded_alarm(lambda: P.circumscribing_circle(), 5)
            corpus_n += 1
            if r_[0] != 'Ok':
                welzl_bad.append({'polygon': pts, 'seed': seed, 'raised': r_[1], 'corpus': 'repeated positions'}); continue
            cc = r_[1]
            ex = enclosure_excess(P.outline, cc)
            if not (cc.radius == cc.radius) or ex > 1e-6:
                welzl_bad.append({'polygon': pts, 'seed': seed, 'excess_over_radius': ex, 'corpus': 'repeated positions'})
            elif abs(cc.radius - ref_m) > 1e-6 * ref_m + 1e-3:
                welzl_bad.append({'polygon': pts, 'seed': seed, 'radius': cc.radius, 'smallest_enclosing_radius': ref_m,
                                  'relative_difference': abs(cc.radius - ref_m) / ref_m, 'corpus': 'repeated positions'})
    # D.3b small polygons (about 0.05-0.08 degrees across, mid and high latitudes) whose smallest enclosing circle is
    #      fixed by THREE vertices placed, with the harness's own geodesy, on a circle of known radius d around a known
    #      centre (an acute triple: that circle IS the smallest enclosing one).  Enclosure, minimality (radius = d) and
    #      RNG-seed independence to 1e-6; measured on the pinned tree: 1.1e-7 / 1.5e-7.
    def own_direct(lon, lat, brg, d):
        p1, l1, t, a = math.radians(lat), math.radians(lon), math.radians(brg), d / R_EARTH
        p2 = math.asin(math.sin(p1) * math.cos(a) + math.cos(p1) * math.sin(a) * math.cos(t))
        l2 = l1 + math.atan2(math.sin(t) * math.sin(a) * math.cos(p1), math.cos(a) - math.sin(p1) * math.sin(p2))
        return (math.degrees(l2), math.degrees(p2))

    def own_hav(a, b):
        p1, p2 = math.radians(a[1]), math.radians(b[1])
        h = math.sin((p2 - p1) / 2) ** 2 + math.cos(p1) * math.cos(p2) * math.sin(math.radians(b[0] - a[0]) / 2) ** 2
        return 2 * R_EARTH * math.asin(math.sqrt(h))
    fx2 = pyrandom.Random(20261001)
    small_worst = [0.0, 0.0]
    for i in range(16):
        lat, lon = [35, 50, 62, -45, -58, 20, 70, -10][i % 8], fx2.uniform(-170, 170)
        d = fx2.uniform(2500, 4500)
        base = fx2.uniform(0, 360)
        brs = [base + fx2.uniform(-15, 15), base + 120 + fx2.uniform(-15, 15), base + 240 + fx2.uniform(-15, 15)]
        pts = [own_direct(lon, lat, b, d) for b in brs]
        if i % 2:
            pts.insert(2, own_direct(lon, lat, (brs[1] + brs[2]) / 2, d * 0.6))      # a further vertex strictly inside
        P = GeoPolygon([Coordinate(*p) for p in pts])
        rads = []
        for seed in range(8):
            pyrandom.seed(seed)
            r_ = guarded(lambda: P.circumscribing_circle())
            corpus_n += 1
            if r_[0] != 'Ok':
                welzl_bad.append({'polygon': pts, 'seed': seed, 'raised': r_[1]}); continue
            cc = r_[1]
            c_ = (cc.center.longitude, cc.center.latitude)
            ex = max(own_hav(v, c_) - cc.radius for v in pts) / cc.radius
            mn = abs(cc.radius - d) / d
            small_worst = [max(small_worst[0], ex), max(small_worst[1], mn)]
            rads.append(cc.radius)
            if ex > 1e-6:
                welzl_bad.append({'polygon': pts, 'seed': seed, 'excess_over_radius': ex, 'corpus': 'small acute triples'})
            if mn > 1e-6:
                welzl_bad.append({'polygon': pts, 'seed': seed, 'radius': cc.radius, 'smallest_enclosing_radius': d,
                                  'relative_difference': mn, 'corpus': 'small acute triples'})
        if rads and (max(rads) - min(rads)) / max(rads) > 1e-6:
            welzl_bad.append({'polygon': pts, 'seed_spread': (max(rads) - min(rads)) / max(rads), 'corpus': 'small acute triples'})
    # D.3b' the same small polygons with a NEAR-TWIN of a supporting vertex: the vertex sits on the 1e-5 degree grid, its twin
    #      3e-6 degrees nearer the centre in both ordinates (about half a metre) and is listed right after it.  Mechanism
    #      class: de-duplication / snapping / rounding of the vertices before the enclosing-circle search - of two
    #      near-coincident positions the one that matters is the one dropped.  Enclosure of EVERY listed vertex to 1e-6 r.
    twin_n = 0
    for i in range(12):
        lat, lon = [35, 50, 62, -45, -58, 20][i % 6], fx2.uniform(-170, 170)
        d = fx2.uniform(2500, 4500)          # (as D.3b: below about 2 km the library's acos-based radius loses 1e-6 r by itself, D22)
        base = fx2.uniform(0, 360)
        brs = [base + fx2.uniform(-15, 15), base + 120 + fx2.uniform(-15, 15), base + 240 + fx2.uniform(-15, 15)]
        pts = [own_direct(lon, lat, b, d) for b in brs]
        j = i % 3
        v = (round(pts[j][0], 5), round(pts[j][1], 5))
        tw = (v[0] + (3e-6 if lon > v[0] else -3e-6), v[1] + (3e-6 if lat > v[1] else -3e-6))
        pts = pts[:j] + [v, tw] + pts[j + 1:]
        P = GeoPolygon([Coordinate(*p) for p in pts])
        for seed in range(6):
            pyrandom.seed(seed)
            r_ = guarded(lambda: P.circumscribing_circle())
            corpus_n += 1
            twin_n += 1
            if r_[0] != 'Ok':
                welzl_bad.append({'polygon': pts, 'seed': seed, 'raised': r_[1], 'corpus': 'near-twin vertices'}); continue
            cc = r_[1]
            c_ = (cc.center.longitude, cc.center.latitude)
            ex = max(own_hav(v_, c_) - cc.radius for v_ in pts) / cc.radius
            if ex > 1e-6:
                welzl_bad.append({'polygon': pts, 'seed': seed, 'radius': cc.radius, 'center': list(c_), 'excess_over_radius': ex,
                                  'corpus': 'near-twin vertices (two positions half a metre apart, the outer one listed first)'})
                break
    ck.cov['welzl_near_twin_checks'] = twin_n
    # D.3c polygons STRADDLING THE ANTIMERIDIAN (vertices on both sides of +-180, none within 0.001 degrees of it: a
    #      vertex exactly at +-180 is a separate matter, see the note below).  Mechanism class: planar lon/lat
    #      arithmetic (orientation, cross products, midpoints) inside the unit-vector algorithm that is only right
    #      after unwrapping edges across +-180.  7 outlines (acute / obtuse triangle, kite, obtuse sliver, quad,
    #      pentagon, notched hexagon: support sets of two points, of three points from one side and of three points
    #      from both sides) x 8 places (|lat| 0..66, 0.2 .. 24 degrees across), every other combination; per polygon
    #      8 RNG seeds: enclosure (1e-6 r), radius = brute-force smallest enclosing cap over all pairs / triples of
    #      unit vectors (1e-6 relative; measured on the pinned tree 3.6e-11, and 5.1e-10 over the seed author's own
    #      corpus and 60 seeds, so the 1e-5 used there is not needed), centre, seed independence.
    #      NOTE (pinned tree, reported): with a vertex EXACTLY at longitude +-180 the pinned code already returns the
    #      antipodal cap for some seeds (Coordinate(180, .., _bounded=False) is folded back to -180, so
    #      ensure_edge_bounds / is_counter_clockwise mis-orient the triple) - such vertices are kept out of this corpus.
    AM_OUTLINES = [('acute triangle', [(-0.6, -0.3), (0.7, -0.2), (0.1, 0.8)]),
                   ('obtuse triangle', [(-1.0, 0.0), (1.1, 0.1), (0.25, 0.3)]),
                   ('kite', [(-0.9, 0.0), (0.0, -0.5), (1.0, 0.1), (0.1, 0.9)]),
                   ('obtuse sliver', [(-1.5, 0.0), (0.0, -0.1), (1.5, 0.05), (0.0, 0.15)]),
                   ('quad', [(-0.6, -0.2), (0.45, -0.55), (0.65, 0.3), (-0.15, 0.6)]),
                   ('pentagon', [(-1.0, -0.6), (0.4, -1.1), (1.2, 0.1), (0.3, 1.0), (-0.9, 0.7)]),
                   ('notched hexagon', [(-2.0, -1.0), (0.0, -0.2), (2.2, -1.3), (1.8, 1.4), (0.1, 0.6), (-1.7, 1.9)])]
    AM_PLACES = [(179.95, 0.0, 0.15), (179.8, 52.0, 1.0), (-179.85, -18.0, 0.5), (179.99, 66.0, 0.2), (-179.6, 31.0, 3.0), (179.1, -41.0, 8.0),
                 (-179.93, 7.0, 4.5), (179.55, -63.0, 2.0)]
    am_worst = [0.0, 0.0, 0.0]
    am_n = 0
    t_fam['D.3c'] = -time.time()
    for si, (name, offs) in enumerate(AM_OUTLINES):
        for pi_, (lon0, lat0, sc) in enumerate(AM_PLACES):
            if (si + pi_) % 2:
                continue
            pts = [(round((lon0 + dx * sc + 180.0) % 360.0 - 180.0, 5), round(lat0 + dy * sc, 5)) for dx, dy in offs]
            lons = [p[0] for p in pts]
            assert max(lons) - min(lons) > 180 and all(abs(abs(l_) - 180) > 1e-3 for l_ in lons), (name, lon0, lat0, sc)
            am_n += 1
            ref_c, ref_a = smallest_cap(pts)
            ref_m = ref_a * R_EARTH
            P = GeoPolygon([Coordinate(*p) for p in [*pts, pts[0]]])
            rads = []
            tag = {'polygon': pts, 'corpus': 'antimeridian: ' + name, 'smallest_enclosing_radius': ref_m}
            for seed in range(8):
                pyrandom.seed(seed)
                r_ = guarded(lambda: P.circumscribing_circle())
                corpus_n += 1
                if r_[0] != 'Ok':
                    welzl_bad.append(dict(tag, seed=seed, raised=r_[1])); continue
                cc = r_[1]
                cv = _uv((cc.center.longitude, cc.center.latitude))
                ex = (max(_ang(cv, _uv(p)) for p in pts) * R_EARTH - cc.radius) / cc.radius
                mn = abs(cc.radius - ref_m) / ref_m
                off = _ang(cv, ref_c) * R_EARTH / ref_m
                rads.append(cc.radius)
                if ex > 1e-6:
                    welzl_bad.append(dict(tag, seed=seed, radius=cc.radius, center=cc.center.to_float()[:2], excess_over_radius=ex))
                elif mn > 1e-6 or off > 1e-3:
                    welzl_bad.append(dict(tag, seed=seed, radius=cc.radius, center=cc.center.to_float()[:2], relative_difference=mn,
                                          centre_offset_over_radius=off))
                else:
                    am_worst = [max(am_worst[0], ex), max(am_worst[1], mn), max(am_worst[2], off)]
            if rads and (max(rads) - min(rads)) / max(rads) > 1e-6:
                welzl_bad.append(dict(tag, seed_spread=(max(rads) - min(rads)) / max(rads), radii=[min(rads), max(rads)]))
    t_fam['D.3c'] += time.time()
    ck.cov['seconds_history_and_antimeridian_families'] = {k_: round(v_, 2) for k_, v_ in t_fam.items()}
    ck.cov['welzl_antimeridian_polygons'] = am_n
    ck.cov['welzl_antimeridian_worst'] = {'excess_over_radius': am_worst[0], 'radius_vs_smallest': am_worst[1], 'centre_offset_over_radius': am_worst[2]}
    ck.cov['welzl_small_polygons_worst'] = {'excess_over_radius': small_worst[0], 'radius_vs_smallest': small_worst[1]}
    ck.cov['fixed_corpus_cases'] = corpus_n
    ck.cov['welzl_corpus_disagreements'] = welzl_bad[:10]

    # ---------------- D49 regression family (mechanism class: anything in bounds / rectangle / circle that depends on how many
    # ordinates a vertex reports): vertex shapes whose vertices ALL carry a non-zero Z, an M, or both, against their 2-D twins
    zm_n = 0
    for j in range(24 if ck.tier == 'quick' else 240):
        zm = [dict(z=1.5), dict(m=2.0), dict(z=-3.0, m=7.0), dict(z=1e-9)][j % 4]
        pv, lv = star_polygon(rng, rng.randint(3, 7)), rand_pts(rng, rng.randint(2, 6))
        def CZ(p_):
            return Coordinate(p_[0] / 2, p_[1] / 2, **zm)
        pairs = [('polygon', lambda: GeoPolygon([CZ(p_) for p_ in pv + pv[:1]]), lambda: GeoPolygon([C2(p_) for p_ in pv + pv[:1]])),
                 ('linestring', lambda: GeoLineString([CZ(p_) for p_ in lv]), lambda: GeoLineString([C2(p_) for p_ in lv])),
                 ('multi-linestring', lambda: MultiGeoLineString([GeoLineString([CZ(p_) for p_ in lv]), GeoLineString([CZ(p_) for p_ in pv])]),
                  lambda: MultiGeoLineString([GeoLineString([C2(p_) for p_ in lv]), GeoLineString([C2(p_) for p_ in pv])])),
                 ('wedge', lambda: GeoRing(CZ(pv[0]), 500.0, 4000.0, angle_min=20.0, angle_max=20.0 + 10 * (j % 30 + 1)),
                  lambda: GeoRing(C2(pv[0]), 500.0, 4000.0, angle_min=20.0, angle_max=20.0 + 10 * (j % 30 + 1)))]
        for kind_, mk3, mk2 in pairs:
            zm_n += 1
            try:
                A, B2 = mk3(), mk2()
                got = (A.bounds, A.circumscribing_rectangle().bounds, round(A.circumscribing_circle().radius, 6))
                want = (B2.bounds, B2.circumscribing_rectangle().bounds, round(B2.circumscribing_circle().radius, 6))
            except Exception as ex:   # noqa
                got, want = repr(ex), 'no exception'
            if got != want:
                prop_viol.append({'clause': 'bounds / circumscribing rectangle / circle of a shape whose vertices all carry Z or M equal those of its 2-D twin',
                                  'kind': kind_, 'ordinates': zm, 'polygon': pv, 'line': lv, 'observed': str(got)[:300], 'expected': str(want)[:300]})
    corpus_n += zm_n
    ck.cov['zm_vertex_twins'] = zm_n

    # ---------------- known findings: deterministic replays
    for f in ck.findings:
        if f['status'] != 'open':
            continue
        rp = f.get('replay', {})
        if f['signature'] == 'box_not_symmetric_about_equator':
            B = GeoBox(Coordinate(*rp['nw']), Coordinate(*rp['se']))
            if enclosure_excess(B.bounding_coords()[:4], B.circumscribing_circle()) > 1e-6:
                ck.known(f)
        elif f['signature'] == 'wedge_straddles_antimeridian':
            W = GeoRing(Coordinate(*rp['center']), rp['inner'], rp['outer'], angle_min=rp['angle_min'], angle_max=rp['angle_max'])
            b = W.bounds
            if b[2] - b[0] > 180:
                ck.known(f)
        elif f['signature'] == 'welzl_vertex_at_180':
            # smallest-circle / seed-independence clause: the same polygon gets the antipodal cap under one seed and the
            # smallest circle under another
            radii = {}
            for key in ('seed_bad', 'seed_good'):
                pyrandom.seed(rp[key])
                radii[key] = GeoPolygon([Coordinate(*p) for p in rp['polygon']]).circumscribing_circle().radius
            if radii['seed_bad'] > 10 * rp['smallest_radius_m'] and abs(radii['seed_good'] - rp['smallest_radius_m']) < 0.01 * rp['smallest_radius_m']:
                ck.known(f)
        elif f['signature'] == 'welzl_fixed_replay':
            P = GeoPolygon([Coordinate(*p) for p in rp['polygon']])
            pyrandom.seed(rp['seed'])
            cc = P.circumscribing_circle()
            if enclosure_excess(P.outline, cc) > 1e-6:
                ck.known(f)
    # corpus disagreements for the Welzl clause are findings of the same class (D22) only for the listed replays;
    # anything else on the fixed corpus is a violation
    listed = [f['replay'] for f in ck.findings if f['signature'] == 'welzl_fixed_replay' and f['status'] == 'open']
    for wb in welzl_bad:
        if not any(wb.get('polygon') == [list(p) for p in l_['polygon']] or wb.get('polygon') == [tuple(p) for p in l_['polygon']] for l_ in listed):
            which = ('does not depend on the RNG seed' if 'seed_spread' in wb else 'contains every vertex (1e-6 r)' if 'excess_over_radius' in wb
                     else 'is the smallest enclosing circle' if 'relative_difference' in wb else 'is returned (no exception)')
            prop_viol.append(dict(wb, clause='polygon circumscribing circle (Welzl) on the fixed corpus: ' + which))

    ck.cov['evaluations'] = len(cases) + corpus_n
    ck.cov['distinct_nontrivial'] = len(nontriv)
    for i in (0, 7, 19, len(cases) - 1):
        ck.sample(cases[min(i, len(cases) - 1)])
    bad, broken = ck.corr('bounds', 'From GV Require Import Prelude ShapeM BoundsM ShapeK BoundsK.', 'bcheck', cases)
    for i in bad[:4]:
        ck.violation({'kind': 'model-vs-implementation', 'case': meta[i], 'gallina_case': cases[i], 'theorems': 'C09_* (Props/C09.v)'})
    # at most 6 replays: one per clause first (so that a flood from one family cannot hide another), then in order
    first = {}
    for pv in prop_viol:
        first.setdefault(pv.get('clause'), pv)
    shown = list(first.values())[:6]
    shown += [pv for pv in prop_viol if not any(pv is x for x in shown)][: max(0, 4 - len(shown))]
    for pv in shown:
        ck.violation({'kind': 'property-fails-on-implementation', 'case': pv})
    c09c.run(ck)
    c09d.run(ck)
    ck.finish(rule=c09c.RULE + '. ' + c09d.RULE + '. ' + 'seeded random vertex shapes on a half-degree grid (polygons, linestrings incl. retraced, points, boxes), their circumscribing '
                   'rectangles, unions over multi-shapes / FeatureCollection / Track, centroid+farthest-vertex circles (linestring, multi-*, wedge) with the '
                   'implementation own distances as order-preserving integers, box circles; seeded random curved shapes (circle / ellipse / full ring / '
                   'wedge, any longitude, |lat| <= 80, 20 m .. 200 km) on which 1-3 random read-only calls carrying an outline resolution k (coarser, '
                   'equal, finer than the default) run BEFORE bounds / circumscribing rectangle / circle / multi-shape and collection bounds are read in '
                   'random order, compared exactly with a fresh twin and with the model (KBnd on the twin default outline, KRectB, KUnion); FIXED corpora '
                   '(same for every seed) for the clauses no theorem decides: curved-shape circles, curved bounds vs densely sampled true extents (1%), '
                   'wedge bounds vs true extents (1%) fresh and after 9 fixed k-histories (80 wedges), Welzl polygon circle (12 polygons x 8 RNG seeds; '
                   '16 small acute triples; 28 polygons straddling the antimeridian vs the brute-force smallest enclosing cap). '
                   'non-trivial = distinct vertex sets / bounds lists / distance lists / (shape, history) pairs',
              assumptions=['distance function abstract in the theorems (any function); C07 relates it to the great circle',
                           'NOT decided by proof: polygon Welzl circle (correctness, minimality, seed independence), '
                           '1e-6 enclosure for circle/ellipse/ring circles in floats - exercised on fixed corpora only'] + c09c.ASSUMPTIONS + c09d.ASSUMPTIONS)


if __name__ == '__main__':
    if '--replay' in sys.argv:
        import json
        r = json.load(open(sys.argv[sys.argv.index('--replay') + 1]))
        print(json.dumps(r, indent=1))
        cs = r.get('case') if isinstance(r.get('case'), dict) else {}
        if cs.get('k') == 'curved-bounds':
            c09c.replay(cs)
        elif cs.get('k') == 'wedge-bounds':
            c09d.replay(cs)
        elif 'shape' in cs and ('history' in cs or 'history_before_first_read_of_bounds' in cs):
            hist = cs.get('history', cs.get('history_before_first_read_of_bounds'))
            S, T = c09c.build(cs['shape']), c09c.build(cs['shape'])
            print('history replayed first:', hist, '-> bboxes exported:', c09c.apply_history(S, hist))
            for nm, X in (('after the history', S), ('fresh twin      ', T)):
                cc = X.circumscribing_circle()
                print(nm, 'bounds', tuple(X.bounds), 'rectangle', tuple(X.circumscribing_rectangle().bounds),
                      'circle', cc.center.to_float()[:2], cc.radius)
            if cs['shape']['t'] in ('wedge', 'ring'):
                te = wedge_true_extents(cs['shape'])
                print('true extents of the arcs:', te, '; error / radius: after the history',
                      extent_error_m(S.bounds, te, cs['shape']['c'][1]) / cs['shape']['rout'], ', fresh twin',
                      extent_error_m(T.bounds, te, cs['shape']['c'][1]) / cs['shape']['rout'])
        elif 'polygon' in cs and 'seed' in cs:
            pts = [tuple(p) for p in cs['polygon']]
            pyrandom.seed(cs['seed'])
            cc = GeoPolygon([Coordinate(*p) for p in [*pts, pts[0]]]).circumscribing_circle()
            print('implementation now: centre', cc.center.to_float()[:2], 'radius', cc.radius,
                  '; brute-force smallest enclosing cap radius', smallest_cap(pts)[1] * R_EARTH)
    else:
        main()
