#!/usr/bin/env python3
"""C09 - bounds and circumscribing shapes really enclose the shape."""
import math
import os
import random as pyrandom
import struct
import sys

sys.path.insert(0, os.path.dirname(os.path.abspath(__file__)))
from lib import Check, guarded, reslit, zlit, blit, listlit   # noqa: E402
from geostructures import (Coordinate, GeoBox, GeoCircle, GeoEllipse, GeoLineString, GeoPoint, GeoPolygon,  # noqa: E402
                           GeoRing, MultiGeoLineString, MultiGeoPoint, MultiGeoPolygon, FeatureCollection, Track)
from geostructures.calc import haversine_distance_meters as hav, inverse_haversine_degrees as dest  # noqa: E402
from shapes import mk_dt  # noqa: E402
import c09c  # noqa: E402  (1% clause: real-number model of curved bounds, its translator tie and interval correspondence)
import gen_bounds  # noqa: E402  (tools/: translator tie for bounds / rectangles / farthest-vertex circles)
from lib import REPO  # noqa: E402

R_EARTH = 6_371_000.0


def bits(x):
    """order-preserving integer image of a non-negative double"""
    assert x >= 0.0
    return struct.unpack('<q', struct.pack('<d', float(x)))[0]


def sbits(x):
    """order-preserving integer image of any finite double"""
    x = float(x)
    return bits(x) if x >= 0.0 else -bits(-x)


def C2(p):
    return Coordinate(p[0] / 2, p[1] / 2)      # harness points are doubled integers: half-grid


def ptl(p):
    return f'({zlit(p[0])}, {zlit(p[1])})'


def bndlit(b):
    return '(' + ', '.join(zlit(x) for x in b) + ')'


def ib(b):
    """implementation bounds (floats on the half grid) -> doubled integers; None if not on the grid"""
    out = []
    for x in b:
        y = float(x) * 2
        if not y.is_integer():
            return None
        out.append(int(y))
    return tuple(out)


def rand_pts(rng, n, span=40):
    cx, cy = rng.randrange(-300, 300), rng.randrange(-140, 140)
    return [(cx + rng.randrange(-span, span + 1), cy + rng.randrange(-span // 2, span // 2 + 1)) for _ in range(n)]


def star_polygon(rng, n):
    """a simple polygon on the doubled grid (vertices sorted by angle about an interior point)"""
    while True:
        pts = list({p for p in rand_pts(rng, n)})
        if len(pts) < 3:
            continue
        mx, my = sum(p[0] for p in pts) / len(pts), sum(p[1] for p in pts) / len(pts)
        pts.sort(key=lambda p: math.atan2(p[1] - my, p[0] - mx))
        area2 = sum(a[0] * b[1] - b[0] * a[1] for a, b in zip(pts, pts[1:] + pts[:1]))
        if area2 != 0:
            return pts


def enclosure_excess(shape_vertices, cc):
    """max over vertices of (distance to the circle centre - radius) / radius"""
    if cc.radius == 0:
        return max(hav(v, cc.center) for v in shape_vertices)
    return max(hav(v, cc.center) - cc.radius for v in shape_vertices) / cc.radius


def asym_box(case):
    """signature of D10: GeoBox.circumscribing_circle of a box whose north and south edges are not symmetric about the equator"""
    return case.get('kind') == 'box' and abs(case['nw'][1] + case['se'][1]) > 0


def wedge_straddles(case):
    return case.get('kind') == 'wedge' and case.get('straddles_180')


def welzl(case):
    return case.get('kind') == 'polygon-welzl'


PREDICATES = {'box_not_symmetric_about_equator': asym_box, 'wedge_straddles_antimeridian': wedge_straddles,
              'welzl_fixed_replay': welzl}


def true_extent_curve(center, radius_fn, a0, a1, n=3600):
    """independent dense sampling of a curve r(theta) about center (own spherical direct formula)"""
    lat0, lon0 = math.radians(center[1]), math.radians(center[0])
    lons, lats = [], []
    for i in range(n + 1):
        th = math.radians(a0 + (a1 - a0) * i / n)
        d = radius_fn(math.degrees(th)) / R_EARTH
        lat = math.asin(math.sin(lat0) * math.cos(d) + math.cos(lat0) * math.sin(d) * math.cos(th))
        lon = lon0 + math.atan2(math.sin(th) * math.sin(d) * math.cos(lat0), math.cos(d) - math.sin(lat0) * math.sin(lat))
        lons.append(math.degrees(lon)); lats.append(math.degrees(lat))
    return min(lons), min(lats), max(lons), max(lats)


def main():
    ck = Check('C09')
    ck.build_theories(['theories/Props/C09.vo', 'theories/Props/C09b.vo', 'theories/Props/C09c.vo', 'theories/Corr/BoundsK.vo', 'theories/Corr/BoundsCurveK.vo'])
    rep = gen_bounds.main(REPO, os.path.join(ck.rundir, 'BoundsGen.v'))   # bounds / rectangles / circles regenerated from the source ...
    ck.gen('BoundsGen.v', rep, 'BoundsGenEq.v')                           # ... proved equal to BoundsM / ShapeM.multi_bounds for all arguments
    ck.props('Props/C09.v')
    ck.props('Props/C09b.v')      # D10 refuted with the real haversine of C07 (Reals + Interval)
    ck.props('Props/C09c.v')      # the 1% clause for circles, full rings and ellipses (over the reals)
    rng = ck.rng
    cases, meta, nontriv = [], [], set()
    prop_viol = []

    def add(lit, m):
        cases.append(lit); meta.append(m)

    N = 120 if ck.tier == 'quick' else 1500

    def warm(S, it):
        """bounds is a pure observation: on every other iteration other read-only queries are evaluated on the
        very same object first (centroid before bounds, ...); the answer must be that of a fresh object"""
        if it % 2 == 0:
            return S
        qs = [lambda: S.centroid, lambda: S.to_wkt(), lambda: hash(S), lambda: S.bounding_coords(),
              lambda: S.contains_coordinate(S.centroid), lambda: S.circumscribing_circle(), lambda: S.convex_hull]
        rng.shuffle(qs)
        for q in qs[: 2 + it % 4]:
            guarded(q)
        guarded(lambda: S.centroid)
        ck.count('bounds-read-after-other-queries')
        return S
    # ---------------- A. bounds of vertex shapes, rectangles, unions (proved; seeded random)
    for it in range(N):
        n = rng.choice([1, 2, 3, 3, 4, 5, 8, 13])
        # polygon
        pv = star_polygon(rng, max(3, n))
        P = warm(GeoPolygon([C2(p) for p in pv]), it)
        add(f'KBnd {listlit([ptl(p) for p in pv])} {reslit(guarded(lambda: ib(P.bounds)), bndlit)}', {'k': 'bounds', 'kind': 'polygon', 'vs': pv})
        # linestring (>= 2 vertices), with repeated vertices and retracing
        lv = rand_pts(rng, max(2, n))
        if rng.random() < 0.3:
            lv = lv + lv[::-1]
        L = warm(GeoLineString([C2(p) for p in lv]), it)
        add(f'KBnd {listlit([ptl(p) for p in lv])} {reslit(guarded(lambda: ib(L.bounds)), bndlit)}', {'k': 'bounds', 'kind': 'linestring', 'vs': lv})
        pt = rand_pts(rng, 1)[0]
        G = GeoPoint(C2(pt))
        add(f'KBnd {listlit([ptl(pt)])} {reslit(guarded(lambda: ib(G.bounds)), bndlit)}', {'k': 'bounds', 'kind': 'point', 'vs': [pt]})
        # box
        a, b = rand_pts(rng, 2)
        nw, se = (min(a[0], b[0]), max(a[1], b[1])), (max(a[0], b[0]), min(a[1], b[1]))
        B = warm(GeoBox(C2(nw), C2(se)), it)
        add(f'KBox {ptl(nw)} {ptl(se)} {bndlit(ib(B.bounds))}', {'k': 'boxbounds', 'nw': nw, 'se': se})
        add(f'KBnd {listlit([ptl(p) for p in [nw, (nw[0], se[1]), se, (se[0], nw[1]), nw]])} {reslit(("Ok", ib(B.bounds)), bndlit)}',
            {'k': 'boxcorners', 'nw': nw, 'se': se})
        # circumscribing rectangles
        for kind, S in (('polygon', P), ('linestring', L), ('box', B)):
            bb = ib(S.bounds)
            Rr = S.circumscribing_rectangle()
            onw, ose = ib(Rr.nw_bound.to_float()[:2]), ib(Rr.se_bound.to_float()[:2])
            add(f'KRectB {bndlit(bb)} {ptl(onw)} {ptl(ose)} {bndlit(ib(Rr.bounds))}', {'k': 'rect', 'kind': kind, 'bounds': bb})
            if ib(Rr.bounds) != bb:
                prop_viol.append({'clause': 'circumscribing rectangle has exactly the bounds', 'kind': kind, 'bounds': bb, 'rect': ib(Rr.bounds)})
        # unions: multi-shapes and collections
        k = rng.choice([1, 2, 3, 4])
        polys = [GeoPolygon([C2(p) for p in star_polygon(rng, 4)]) for _ in range(k)]
        lines = [GeoLineString([C2(p) for p in rand_pts(rng, 3)]) for _ in range(k)]
        points = [GeoPoint(C2(rand_pts(rng, 1)[0])) for _ in range(k)]
        groups = [('multipolygon', MultiGeoPolygon(polys), polys), ('multilinestring', MultiGeoLineString(lines), lines),
                  ('multipoint', MultiGeoPoint(points), points)]
        mixed = [polys[0], lines[0], points[0], B][: k + 1]
        groups.append(('featurecollection', FeatureCollection(mixed), mixed))
        tm = [s.copy() for s in mixed]
        for i_, s in enumerate(tm):
            s.set_dt(mk_dt(('i', i_)))
        groups.append(('track', Track(tm), tm))
        for kind, M, members in groups:
            if it % 4 == 3:
                guarded(lambda: M.centroid)      # collection-level centroid before collection-level bounds
                guarded(lambda: M.convex_hull() if callable(M.convex_hull) else M.convex_hull)
            bs = [ib(m.bounds) for m in members]
            add(f'KUnion {listlit([bndlit(x) for x in bs])} {reslit(guarded(lambda: ib(M.bounds)), bndlit)}', {'k': 'union', 'kind': kind, 'bs': bs})
            nontriv.add((kind, tuple(bs)))
        nontriv.add(('p', tuple(pv))); nontriv.add(('l', tuple(lv)))

        # ---------------- B. centroid + farthest vertex circles (proved for every distance function)
        far = [('linestring', L, L.vertices), ('multipoint', groups[2][1], [p.centroid for p in points]),
               ('multilinestring', groups[1][1], [c for l_ in lines for c in l_.vertices]),
               ('multipolygon', groups[0][1], [c for p_ in polys for c in p_.bounding_coords()])]
        if it % 4 == 0:
            ctr = rand_pts(rng, 1)[0]
            W = GeoRing(C2(ctr), rng.choice([0, 500, 3000]) + 100, rng.choice([4000, 9000, 60000]), angle_min=rng.choice([5, 40, 200]), angle_max=rng.choice([250, 300, 355]))
            far.append(('wedge', W, W.bounding_coords()))
            # the bounds of a wedge are the min/max of its sampled boundary (order-preserving integer images of the
            # doubles: min/max only look at the order).  Wedges across +-180 are finding D21 (fixed replay below).
            wv = [(c.longitude, c.latitude) for c in W.bounding_coords()]
            if max(x for x, _ in wv) - min(x for x, _ in wv) <= 180:
                wb = guarded(lambda: W.bounds)
                add(f'KBnd {listlit([f"({zlit(sbits(x))}, {zlit(sbits(y))})" for x, y in wv])} '
                    f'{reslit((wb[0], tuple(sbits(v) for v in wb[1])) if wb[0] == "Ok" else wb, bndlit)}',
                    {'k': 'bounds', 'kind': 'wedge', 'center': ctr, 'angles': [W.angle_min, W.angle_max], 'radii': [W.inner_radius, W.outer_radius]})
                ck.count('bounds:wedge')
        for kind, S, vs in far:
            cc = S.circumscribing_circle()
            cen = S.centroid
            ds = [bits(hav(v, cen)) for v in vs]
            oc = [cc.contains_coordinate(v) for v in vs]
            add(f'KFarC {listlit([zlit(d) for d in ds])} {zlit(bits(cc.radius))} {listlit([blit(x) for x in oc])}',
                {'k': 'farcircle', 'kind': kind, 'n': len(vs), 'center': cen.to_float(), 'radius': cc.radius})
            if cc.center != cen:
                prop_viol.append({'clause': 'circle centre is the centroid', 'kind': kind})
            ex = enclosure_excess(vs, cc)
            if ex > 1e-6:
                prop_viol.append({'clause': 'circumscribing circle contains every boundary vertex (1e-6 r)', 'kind': kind,
                                  'vertices': [v.to_float() for v in vs], 'excess_over_radius': ex})
            nontriv.add((kind, tuple(ds)))
        # ---------------- C. box circle (D10)
        cc = B.circumscribing_circle()
        cen = B.centroid
        corners = B.bounding_coords()[:4]
        ds = [bits(hav(v, cen)) for v in corners]
        oc = [cc.contains_coordinate(v) for v in corners]
        add(f'KBoxC {zlit(bits(hav(B.nw_bound, cen)))} {listlit([zlit(d) for d in ds])} {zlit(bits(cc.radius))} {listlit([blit(x) for x in oc])}',
            {'k': 'boxcircle', 'nw': nw, 'se': se})
        ex = enclosure_excess(corners, cc)
        if ex > 1e-6:
            case = {'kind': 'box', 'nw': nw, 'se': se, 'excess_over_radius': ex}
            f = ck.finding_for(case, PREDICATES)
            if f:
                ck.known(f)
            else:
                prop_viol.append(dict(case, clause='box circumscribing circle contains its corners'))

    # unions whose extreme on one side is EXACTLY 0 (a falsy value), held by the member at every position,
    # the other members not reaching 0 on that side
    for side in range(4):                       # 0 min lon, 1 min lat, 2 max lon, 3 max lat
        for n_members in (2, 3, 4):
            for pos in range(n_members):
                boxes = []
                for i_ in range(n_members):
                    off = 0 if i_ == pos else 6 * (i_ + 1)      # doubled-grid units
                    sgn = 1 if side < 2 else -1                 # min sides: others lie at positive offsets; max sides: negative
                    lo_x, lo_y = (sgn * off if side in (0, 2) else 10 + i_), (sgn * off if side in (1, 3) else 10 + i_)
                    if side in (0, 1):
                        nw_, se_ = (lo_x, lo_y + 4), (lo_x + 4, lo_y)
                    elif side == 2:
                        nw_, se_ = (lo_x - 4, lo_y + 4), (lo_x, lo_y)
                    else:
                        nw_, se_ = (lo_x, lo_y), (lo_x + 4, lo_y - 4)
                    boxes.append((nw_, se_))
                polys_ = [GeoPolygon([C2(p) for p in [nw_, (nw_[0], se_[1]), se_, (se_[0], nw_[1]), nw_]]) for nw_, se_ in boxes]
                gb = [GeoBox(C2(nw_), C2(se_)) for nw_, se_ in boxes]
                tb = [b_.copy() for b_ in gb]
                for i_, s_ in enumerate(tb):
                    s_.set_dt(mk_dt(('i', i_)))
                for kind, M, members in (('multipolygon', MultiGeoPolygon(polys_), polys_), ('featurecollection', FeatureCollection(gb), gb),
                                         ('track', Track(tb), tb), ('fc+fc', FeatureCollection(gb[:1]) + FeatureCollection(gb[1:]), gb)):
                    bs = [ib(m.bounds) for m in members]
                    add(f'KUnion {listlit([bndlit(x) for x in bs])} {reslit(guarded(lambda: ib(M.bounds)), bndlit)}',
                        {'k': 'union-zero-extreme', 'kind': kind, 'side': side, 'pos': pos, 'bs': bs})
                    nontriv.add((kind, side, pos, n_members))

    # symmetric boxes must be fully enclosed (the part of the box clause that is true)
    for w, h in ((2, 2), (40, 10), (7, 120), (300, 60)):
        B = GeoBox(C2((-w, h)), C2((w, -h)))
        cc = B.circumscribing_circle()
        ex = enclosure_excess(B.bounding_coords()[:4], cc)
        if ex > 1e-6:
            prop_viol.append({'clause': 'symmetric box circle', 'w': w, 'h': h, 'excess': ex})

    # ---------------- D. clauses no theorem decides: FIXED corpora only (same for every seed)
    corpus_n = 0
    fixed = pyrandom.Random(20260926)
    # D.1 circles / ellipses / rings: circumscribing circle contains every boundary vertex
    for lat in (-75, -40, 0, 33, 75):
        for lon in (-179.95, -60, 0, 120, 179.9):
            for r in (10, 750, 10_000, 100_000):
                for S in (GeoCircle(Coordinate(lon, lat), r), GeoEllipse(Coordinate(lon, lat), r, r * 0.4, 35),
                          GeoRing(Coordinate(lon, lat), r * 0.3, r)):
                    cc = S.circumscribing_circle()
                    vs = S.bounding_coords()
                    corpus_n += 1
                    ex = enclosure_excess(vs, cc)
                    # boundary coordinates are rounded to 1e-7 deg (about 1.1 cm): allow that absolute slack
                    if ex > 1e-6 and ex * cc.radius > 0.02:
                        prop_viol.append({'clause': 'curved shape circumscribing circle contains its boundary vertices', 'shape': repr(S), 'excess_over_radius': ex})
    # D.1b wedges incl. those starting or ending exactly at north (angle 0 is falsy in the code's wedge test)
    for lat, lon in ((0, 0), (40, -100), (-60, 150)):
        for r in (800, 9000, 60_000):
            for a0, a1 in ((0, 45), (0, 180), (0, 270), (-200, 0), (-90, 0), (30, 300), (10, 120), (200, 340)):
                W = GeoRing(Coordinate(lon, lat), r * 0.25, r, angle_min=a0, angle_max=a1)
                cc = W.circumscribing_circle()
                vs = W.bounding_coords()
                corpus_n += 1
                ex = enclosure_excess(vs, cc)
                if ex > 1e-6 and ex * cc.radius > 0.02:
                    prop_viol.append({'clause': 'wedge circumscribing circle contains its boundary vertices', 'center': [lon, lat], 'r': r,
                                      'angles': [a0, a1], 'excess_over_radius': ex})
    # D.2 curved bounds within 1% of the radius of the true extents (radius <= 10 km, |lat| <= 75)
    for lat in (-75, -50, 0, 20, 60, 75):
        for lon in (-150, 0, 90):
            for r in (50, 900, 10_000):
                shapes_ = [('circle', GeoCircle(Coordinate(lon, lat), r), lambda th, r=r: r, 0, 360),
                           ('ring', GeoRing(Coordinate(lon, lat), r / 3, r), lambda th, r=r: r, 0, 360)]
                a, b, rot = r, r * 0.5, 25
                def rad(th, a=a, b=b, rot=rot):
                    t = math.radians(th - rot)
                    return a * b / math.sqrt((b * math.cos(t)) ** 2 + (a * math.sin(t)) ** 2)
                shapes_.append(('ellipse', GeoEllipse(Coordinate(lon, lat), a, b, rot), rad, 0, 360))
                for kind, S, fn, a0, a1 in shapes_:
                    corpus_n += 1
                    tb = true_extent_curve((lon, lat), fn, a0, a1)
                    ob = S.bounds
                    m_per_deg_lat = math.pi * R_EARTH / 180
                    m_per_deg_lon = m_per_deg_lat * math.cos(math.radians(lat))
                    errs = [abs(ob[0] - tb[0]) * m_per_deg_lon, abs(ob[1] - tb[1]) * m_per_deg_lat,
                            abs(ob[2] - tb[2]) * m_per_deg_lon, abs(ob[3] - tb[3]) * m_per_deg_lat]
                    if max(errs) > 0.01 * r:
                        prop_viol.append({'clause': 'curved bounds within 1% of the radius', 'kind': kind, 'center': [lon, lat], 'r': r,
                                          'bounds': ob, 'true_extent': tb, 'err_m': max(errs)})
    # D.3 polygon circumscribing circle (Welzl): fixed polygons x fixed seeds; triaged on the pinned tree
    welzl_corpus = []
    for i in range(12):
        cx, cy = fixed.uniform(-150, 150), fixed.uniform(-60, 60)
        ext = [2.0, 5.0, 9.0, 20.0][i % 4]
        k = 3 + i % 6
        pts = [(round(cx + ext * fixed.random(), 4), round(cy + ext * 0.6 * fixed.random(), 4)) for _ in range(k)]
        mx, my = sum(p[0] for p in pts) / k, sum(p[1] for p in pts) / k
        pts.sort(key=lambda p: math.atan2(p[1] - my, p[0] - mx))
        welzl_corpus.append(pts)
    welzl_bad = []
    for pi_, pts in enumerate(welzl_corpus):
        P = GeoPolygon([Coordinate(*p) for p in pts])
        rads = []
        for seed in range(8):
            pyrandom.seed(seed)
            r_ = guarded(lambda: P.circumscribing_circle())
            corpus_n += 1
            if r_[0] != 'Ok':
                welzl_bad.append({'polygon': pts, 'seed': seed, 'raised': r_[1]}); continue
            cc = r_[1]
            ex = enclosure_excess(P.outline, cc)
            rads.append(cc.radius)
            if ex > 1e-6:
                welzl_bad.append({'polygon': pts, 'seed': seed, 'excess_over_radius': ex})
        if rads and (max(rads) - min(rads)) / max(rads) > 1e-6:
            welzl_bad.append({'polygon': pts, 'seed_spread': (max(rads) - min(rads)) / max(rads)})
    # D.3b small polygons (about 0.05-0.08 degrees across, mid and high latitudes) whose smallest enclosing circle is
    #      fixed by THREE vertices placed, with the harness's own geodesy, on a circle of known radius d around a known
    #      centre (an acute triple: that circle IS the smallest enclosing one).  Enclosure, minimality (radius = d) and
    #      RNG-seed independence to 1e-6; measured on the pinned tree: 1.1e-7 / 1.5e-7.
    def own_direct(lon, lat, brg, d):
        p1, l1, t, a = math.radians(lat), math.radians(lon), math.radians(brg), d / R_EARTH
        p2 = math.asin(math.sin(p1) * math.cos(a) + math.cos(p1) * math.sin(a) * math.cos(t))
        l2 = l1 + math.atan2(math.sin(t) * math.sin(a) * math.cos(p1), math.cos(a) - math.sin(p1) * math.sin(p2))
        return (math.degrees(l2), math.degrees(p2))

    def own_hav(a, b):
        p1, p2 = math.radians(a[1]), math.radians(b[1])
        h = math.sin((p2 - p1) / 2) ** 2 + math.cos(p1) * math.cos(p2) * math.sin(math.radians(b[0] - a[0]) / 2) ** 2
        return 2 * R_EARTH * math.asin(math.sqrt(h))
    fx2 = pyrandom.Random(20261001)
    small_worst = [0.0, 0.0]
    for i in range(16):
        lat, lon = [35, 50, 62, -45, -58, 20, 70, -10][i % 8], fx2.uniform(-170, 170)
        d = fx2.uniform(2500, 4500)
        base = fx2.uniform(0, 360)
        brs = [base + fx2.uniform(-15, 15), base + 120 + fx2.uniform(-15, 15), base + 240 + fx2.uniform(-15, 15)]
        pts = [own_direct(lon, lat, b, d) for b in brs]
        if i % 2:
            pts.insert(2, own_direct(lon, lat, (brs[1] + brs[2]) / 2, d * 0.6))      # a further vertex strictly inside
        P = GeoPolygon([Coordinate(*p) for p in pts])
        rads = []
        for seed in range(8):
            pyrandom.seed(seed)
            r_ = guarded(lambda: P.circumscribing_circle())
            corpus_n += 1
            if r_[0] != 'Ok':
                welzl_bad.append({'polygon': pts, 'seed': seed, 'raised': r_[1]}); continue
            cc = r_[1]
            c_ = (cc.center.longitude, cc.center.latitude)
            ex = max(own_hav(v, c_) - cc.radius for v in pts) / cc.radius
            mn = abs(cc.radius - d) / d
            small_worst = [max(small_worst[0], ex), max(small_worst[1], mn)]
            rads.append(cc.radius)
            if ex > 1e-6:
                welzl_bad.append({'polygon': pts, 'seed': seed, 'excess_over_radius': ex, 'corpus': 'small acute triples'})
            if mn > 1e-6:
                welzl_bad.append({'polygon': pts, 'seed': seed, 'radius': cc.radius, 'smallest_enclosing_radius': d,
                                  'relative_difference': mn, 'corpus': 'small acute triples'})
        if rads and (max(rads) - min(rads)) / max(rads) > 1e-6:
            welzl_bad.append({'polygon': pts, 'seed_spread': (max(rads) - min(rads)) / max(rads), 'corpus': 'small acute triples'})
    ck.cov['welzl_small_polygons_worst'] = {'excess_over_radius': small_worst[0], 'radius_vs_smallest': small_worst[1]}
    ck.cov['fixed_corpus_cases'] = corpus_n
    ck.cov['welzl_corpus_disagreements'] = welzl_bad[:10]

    # ---------------- known findings: deterministic replays
    for f in ck.findings:
        if f['status'] != 'open':
            continue
        rp = f.get('replay', {})
        if f['signature'] == 'box_not_symmetric_about_equator':
            B = GeoBox(Coordinate(*rp['nw']), Coordinate(*rp['se']))
            if enclosure_excess(B.bounding_coords()[:4], B.circumscribing_circle()) > 1e-6:
                ck.known(f)
        elif f['signature'] == 'wedge_straddles_antimeridian':
            W = GeoRing(Coordinate(*rp['center']), rp['inner'], rp['outer'], angle_min=rp['angle_min'], angle_max=rp['angle_max'])
            b = W.bounds
            if b[2] - b[0] > 180:
                ck.known(f)
        elif f['signature'] == 'welzl_fixed_replay':
            P = GeoPolygon([Coordinate(*p) for p in rp['polygon']])
            pyrandom.seed(rp['seed'])
            cc = P.circumscribing_circle()
            if enclosure_excess(P.outline, cc) > 1e-6:
                ck.known(f)
    # corpus disagreements for the Welzl clause are findings of the same class (D22) only for the listed replays;
    # anything else on the fixed corpus is a violation
    listed = [f['replay'] for f in ck.findings if f['signature'] == 'welzl_fixed_replay' and f['status'] == 'open']
    for wb in welzl_bad:
        if not any(wb.get('polygon') == [list(p) for p in l_['polygon']] or wb.get('polygon') == [tuple(p) for p in l_['polygon']] for l_ in listed):
            prop_viol.append(dict(wb, clause='polygon circumscribing circle (Welzl) on the fixed corpus'))

    ck.cov['evaluations'] = len(cases) + corpus_n
    ck.cov['distinct_nontrivial'] = len(nontriv)
    for i in (0, 7, 19, len(cases) - 1):
        ck.sample(cases[min(i, len(cases) - 1)])
    bad, broken = ck.corr('bounds', 'From GV Require Import Prelude ShapeM BoundsM ShapeK BoundsK.', 'bcheck', cases)
    for i in bad[:4]:
        ck.violation({'kind': 'model-vs-implementation', 'case': meta[i], 'gallina_case': cases[i], 'theorems': 'C09_* (Props/C09.v)'})
    for pv in prop_viol[:4]:
        ck.violation({'kind': 'property-fails-on-implementation', 'case': pv})
    c09c.run(ck)
    ck.finish(rule=c09c.RULE + '. ' + 'seeded random vertex shapes on a half-degree grid (polygons, linestrings incl. retraced, points, boxes), their circumscribing '
                   'rectangles, unions over multi-shapes / FeatureCollection / Track, centroid+farthest-vertex circles (linestring, multi-*, wedge) with the '
                   'implementation own distances as order-preserving integers, box circles; FIXED corpora (same for every seed) for the clauses no theorem '
                   'decides: curved-shape circles, curved bounds vs densely sampled true extents (1%), Welzl polygon circle (12 polygons x 8 RNG seeds). '
                   'non-trivial = distinct vertex sets / bounds lists / distance lists',
              assumptions=['distance function abstract in the theorems (any function); C07 relates it to the great circle',
                           'NOT decided by proof: polygon Welzl circle (correctness, minimality, seed independence), the 1% figure for WEDGE bounds, '
                           '1e-6 enclosure for circle/ellipse/ring circles in floats - exercised on fixed corpora only'] + c09c.ASSUMPTIONS)


if __name__ == '__main__':
    if '--replay' in sys.argv:
        import json
        r = json.load(open(sys.argv[sys.argv.index('--replay') + 1]))
        print(json.dumps(r, indent=1))
        if isinstance(r.get('case'), dict) and r['case'].get('k') == 'curved-bounds':
            c09c.replay(r['case'])
    else:
        main()
