"""C09, last sentence, WEDGES ("... rings and wedges of up to 10 km radius ... the bounds match the true extents of
the curve to within 1% of the radius"): the tie of Model/BoundsWedgeM.v to /repo and the property evaluated on the
implementation.  Called from harness/c09.py:

    import c09d
    ...
    c09d.run(ck)            # before ck.finish(...)

T  tools/gen_wedgebounds.py regenerates WedgeBoundsGen.v (GeoRing._draw_bounds, GeoRing.bounding_coords and both
   branches of GeoRing.bounds, no keyword arguments) from the working tree; coq/geneq/WedgeBoundsGenEq.v proves the
   generated definitions equal to BoundsWedgeM.ring_outer/inner_pts_rounded, ring_pts_rounded and ring_bounds_rounded
   for all rings (the accumulating loop by induction on the schedule).
K  per sampled wedge (GeoRing with angle_max - angle_min < 360) Coq proves (Corr/BoundsWedgeK.v, K_wedge_bounds) that
   the four numbers of the UNROUNDED real-number model `wedge_bounds_default s` (degrees; longitudes modulo the
   constructor's wrap) are within 6e-8 degrees of `shape.bounds`.  The min / max folds are not evaluated symbolically:
   the harness hands Coq the implementation's own samples (shape.bounding_coords(), by sample index) and the index
   at which each extreme is attained; Coq proves ring_default_k = k (lra), every model sample within 6e-8 deg of the
   implementation's sample (`interval`; 2(k+1) samples, latitude and longitude), every implementation sample inside
   the reported bounds and the indicated one equal to it (lra).  5e-8 of the tolerance is the code's own rounding.
Oracle: the clause itself on the implementation's floats against a dense, independent (unit-vector) sampling of the
   whole outline - both arcs and both radial arms: no bound lies outside the true extent (beyond 5.6 mm) and none falls
   short of it by more than outer_radius/100 + 5.6 mm (+ the sampling slack).
Wedges whose sampled outline straddles +-180 are not generated (finding D21 covers them); they are counted.
"""
import json
import math
import os
import sys

sys.path.insert(0, os.path.dirname(os.path.abspath(__file__)))
from lib import REPO, COQ, guarded   # noqa: E402
import c07                            # noqa: E402  (exact literals, the interval-lemma runner)
from c07 import rlit, epslit, R_EARTH  # noqa: E402

from geostructures.structures import GeoRing        # noqa: E402
from geostructures.coordinates import Coordinate    # noqa: E402

K_HEADER = ('From GV Require Import Prelude SphereM CurveM BoundsCurveM BoundsCurveK BoundsWedgeM BoundsWedgeK.\n'
            'From Coq Require Import Reals Lra Lia.\nFrom Interval Require Import Tactic.\nOpen Scope R_scope.\n')
EPS_DEG = 6e-8
TARGETS = ['theories/Props/C09d.vo', 'theories/Corr/BoundsWedgeK.vo']
THEOREMS = ('C09_wedge_bounds_default_match_outline_extents / C09_ring_bounds_rounded_wedge_match_outline_extents / '
            'C09_wedge_bounds_attained (Props/C09d.v)')
RULE = ('wedge bounds: fixed wedges at latitudes 0, +-75 and longitudes near +-179.9 (outline not straddling +-180) with outer '
        'radii 1 m and 10 km, inner radius 0 / small / close to the outer one, angle ranges through north (350..370, -10..10), '
        'of 5 and 359 degrees, plus seeded random ones (|lat| <= 75, radius 1 m .. 10 km log-uniform, angle_min and the span on '
        'a 1/8-degree grid so that the default k is the same in floats and over the reals, span 5 .. 359); each compared with '
        'the real-number model sample by sample and bound by bound (interval lemmas) and with an independent dense sampling '
        'of arcs and arms. non-trivial = distinct wedges whose four bounds were checked')
ASSUMPTIONS = ['wedge bounds: a Python float is a real number up to the tolerance of the interval lemmas (6e-8 deg, of which '
               '5e-8 is the code\'s own rounding); math.sin/cos/asin/atan2 are accurate to a few ulp; the longitude wrap of '
               'the Coordinate constructor is one integer multiple of 360 per wedge (outlines straddling +-180: finding D21)']


# ------------------------------------------------------------------ shapes
def build(sh):
    return GeoRing(Coordinate(sh['c'][0], sh['c'][1]), sh['rin'], sh['rout'], sh['amin'], sh['amax'])


def default_k(sh):
    """max(ceil(span / 10), 10) in exact arithmetic (amin, span are multiples of 1/8: the float value is the same)"""
    from fractions import Fraction
    w = Fraction(sh['amax']) - Fraction(sh['amin'])
    return max(math.ceil(w / 10), 10), math.ceil(w / 10)


def dest_float(p, ang_deg, dist):
    """the model in floats: (lon un-wrapped, lat), degrees, unrounded"""
    r = dist / R_EARTH
    x0, y0, t = math.radians(p[0]), math.radians(p[1]), math.radians(ang_deg)
    s2 = math.sin(y0) * math.cos(r) + math.cos(y0) * math.sin(r) * math.cos(t)
    fl = math.asin(s2)
    fo = x0 + math.atan2(math.sin(t) * math.sin(r) * math.cos(y0), math.cos(r) - math.sin(y0) * s2)
    return math.degrees(fo), math.degrees(fl)


def model_samples(sh):
    """(outer samples, inner samples) by index 0..k, un-wrapped, floats"""
    k, _ = default_k(sh)
    w = sh['amax'] - sh['amin']
    angs = [sh['amin'] + w / k * i for i in range(k + 1)]
    return [dest_float(sh['c'], a, sh['rout']) for a in angs], [dest_float(sh['c'], a, sh['rin']) for a in angs]


def model_bounds(sh):
    mo, mi = model_samples(sh)
    lons, lats = [p[0] for p in mo + mi], [p[1] for p in mo + mi]
    return min(lons), min(lats), max(lons), max(lats)


def straddles(sh):
    """the sampled outline (model, un-wrapped) does not stay inside one period [-180 + 360 j, 180 + 360 j)"""
    mo, mi = model_samples(sh)
    js = {math.floor((p[0] + 180.0) / 360.0) for p in mo + mi}
    # also keep a margin of the rounding step, so that no sample sits within 1e-6 deg of the seam
    near = any(abs(((p[0] + 180.0) % 360.0)) < 1e-6 or abs(((p[0] + 180.0) % 360.0) - 360.0) < 1e-6 for p in mo + mi)
    return len(js) != 1 or near


def mk(lon, lat, rin, rout, amin, span):
    return {'t': 'wedge', 'c': (lon, lat), 'rin': rin, 'rout': rout, 'amin': float(amin), 'amax': float(amin) + float(span)}


def gen_shapes(rng, n, skipped, max_big=None):
    """max_big: at most that many wedges with more than 20 segments (they cost k+1 interval goals per arc and coordinate)"""
    out = []

    def add(sh):
        if straddles(sh):
            skipped.append(sh)
        else:
            out.append(sh)
    # fixed: corners of the clause's range, both hemispheres, next to the antimeridian, ranges through north
    add(mk(10.0, 75.0, 0.0, 10000.0, 350, 20))            # 350..370
    add(mk(179.6, -75.0, 9990.0, 10000.0, 185, 170))      # west of the seam, inner close to outer
    add(mk(-179.6, 0.0, 0.5, 1.0, -10, 20))               # -10..10, 1 m
    add(mk(-20.0, 75.0, 100.0, 10000.0, 0.125, 359))      # 359 degrees (k = 36)
    add(mk(33.0, -40.0, 0.0, 1.0, 80, 5))                 # 5 degrees around east
    add(mk(0.0, 0.0, 2500.0, 5000.0, 200, 150.125))       # k = 16
    while len(out) < n:
        lat = round(rng.choice([rng.uniform(-75, 75), rng.uniform(60, 75), rng.uniform(-75, -60), 75.0, -75.0]), 6)
        lon = round(rng.choice([rng.uniform(-180, 180), rng.choice([-1, 1]) * rng.uniform(179.0, 179.9)]), 6)
        rout = round(math.exp(rng.uniform(0.0, math.log(10000.0))), 3)
        rin = rng.choice([0.0, round(rout * rng.uniform(0.001, 0.05), 3), round(rout * rng.uniform(0.05, 0.9), 3),
                          round(rout * rng.uniform(0.99, 0.9999), 3)])
        span = rng.choice([rng.randint(40, 359 * 8) / 8, rng.randint(40, 100 * 8) / 8, rng.randint(101 * 8, 359 * 8) / 8,
                           5.0, 359.0, 100.0, 100.125, 180.0])
        amin = rng.choice([rng.randint(-360 * 8, 360 * 8) / 8, rng.randint(0, 359 * 8) / 8, 350.0, -10.0, 0.0, 90.0 - span / 2])
        amin = round(amin * 8) / 8
        if max_big is not None and span > 200 and sum(1 for q in out if q['amax'] - q['amin'] > 200) >= max_big:
            continue
        add(mk(lon, lat, rin, rout, amin, span))
    return out[:n]


# ------------------------------------------------------------------ the implementation's samples
def impl_samples(S):
    """bounding_coords() of the wedge split into (outer by index, inner by index): the list is
    outer[k], ..., outer[0], inner[0], ..., inner[k], outer[k]"""
    pts = [c.to_float() for c in S.bounding_coords()]
    n = (len(pts) - 1) // 2
    vo = [tuple(float(x) for x in pts[n - 1 - i][:2]) for i in range(n)]
    vi = [tuple(float(x) for x in pts[n + i][:2]) for i in range(len(pts) - 1 - n)]
    return vo, vi


def find_idx(vo, vi, j, v, want_max):
    """(is_outer, index) of a sample whose coordinate j equals the reported bound v (else of the extreme sample)"""
    for o, lst in ((True, vo), (False, vi)):
        for i, p in enumerate(lst):
            if p[j] == v:
                return o, i
    allp = [(p[j], o, i) for o, lst in ((True, vo), (False, vi)) for i, p in enumerate(lst)]
    x = (max if want_max else min)(allp)
    return x[1], x[2]


def qlit(x):
    """a float as the exact fraction (numerator, denominator) of Corr/BoundsWedgeK.qp"""
    from fractions import Fraction
    fr = Fraction(x)
    n = f'{fr.numerator}' if fr.numerator >= 0 else f'({fr.numerator})'
    return f'({n}%Z, {fr.denominator}%positive)'


def plist(vs):
    return '[' + '; '.join(f'({qlit(a)}, {qlit(b)})' for a, b in vs) + ']'


def k_lemma(name, sh, ob, vo, vi):
    """the interval lemma for one wedge; ob = implementation's bounds, vo / vi its samples"""
    k, c = default_k(sh)
    mb = model_bounds(sh)
    kz = round((mb[0] - ob[0]) / 360)
    l, f = rlit(sh['c'][0]), rlit(sh['c'][1])
    eps = epslit(EPS_DEG)
    s = f'(mkring ({l}, {f}) {rlit(sh["rin"])} {rlit(sh["rout"])} {rlit(sh["amin"])} {rlit(sh["amax"])} [])'
    idx = [find_idx(vo, vi, 0, ob[0], False), find_idx(vo, vi, 1, ob[1], False),
           find_idx(vo, vi, 0, ob[2], True), find_idx(vo, vi, 1, ob[3], True)]
    idxs = ' '.join(f'({"true" if o else "false"}, {i}%nat)' for o, i in idx)
    four = (f'Rabs (rb_minlon b - 360 * IZR ({kz})%Z - rq {qlit(ob[0])}) <= {eps} /\\\n'
            f'  Rabs (rb_minlat b - rq {qlit(ob[1])}) <= {eps} /\\\n'
            f'  Rabs (rb_maxlon b - 360 * IZR ({kz})%Z - rq {qlit(ob[2])}) <= {eps} /\\\n'
            f'  Rabs (rb_maxlat b - rq {qlit(ob[3])}) <= {eps}')
    return (f'Lemma {name} : let b := wedge_bounds_default {s} in\n  {four}.\n'
            f'Proof. apply (K_wedge_bounds_q ({kz})%Z ({c})%Z {k}%nat {l} {f} {rlit(sh["rin"])} {rlit(sh["rout"])} '
            f'{rlit(sh["amin"])} {rlit(sh["amax"])}\n  {plist(vo)}\n  {plist(vi)}\n  {idxs});\n'
            f'  [lra | lra | lra | reflexivity | reflexivity | reflexivity | kw_ivl | kw_ord | kw_idx | kw_idx | kw_idx | kw_idx]. Qed.\n')


# ------------------------------------------------------------------ oracle: the clause on the implementation (independent geodesy)
def direct_uv(p, b_deg, d):
    """destination by unit vectors -> (lon, lat) degrees, longitude un-wrapped relative to p"""
    f1, t, r = math.radians(p[1]), math.radians(b_deg), d / R_EARTH
    u = (math.cos(f1), 0.0, math.sin(f1))
    n = (-math.sin(f1), 0.0, math.cos(f1))
    e = (0.0, 1.0, 0.0)
    v = [math.cos(r) * u[i] + math.sin(r) * (math.cos(t) * n[i] + math.sin(t) * e[i]) for i in range(3)]
    return p[0] + math.degrees(math.atan2(v[1], v[0])), math.degrees(math.atan2(v[2], math.hypot(v[0], v[1])))


def true_extents(sh, n_arc=1440, n_arm=400):
    """((min lon, min lat, max lon, max lat) un-wrapped over arcs and arms, sampling slack in metres)"""
    c, w = sh['c'], sh['amax'] - sh['amin']
    pts = []
    for i in range(n_arc + 1):
        a = sh['amin'] + w * i / n_arc
        pts.append(direct_uv(c, a, sh['rout']))
        pts.append(direct_uv(c, a, sh['rin']))
    for a in (sh['amin'], sh['amax']):
        for i in range(n_arm + 1):
            pts.append(direct_uv(c, a, sh['rin'] + (sh['rout'] - sh['rin']) * i / n_arm))
    lons, lats = [q[0] for q in pts], [q[1] for q in pts]
    step = math.radians(w / n_arc)
    slack = sh['rout'] * (1 - math.cos(step / 2)) * 1.5 + 1e-6
    return (min(lons), min(lats), max(lons), max(lats)), slack


def lon_diff(a, b):
    return (a - b + 180.0) % 360.0 - 180.0


def oracle(sh, ob):
    """(list of (which bound, shortfall in metres, allowed range) where the clause fails on the implementation,
    worst shortfall / radius)"""
    te, slack = true_extents(sh)
    r = sh['rout']
    m_lat = math.pi * R_EARTH / 180
    m_lon = m_lat * math.cos(math.radians(sh['c'][1]))
    # shortfall >= 0: the bound lies inside the true extent by that much; < 0: outside
    short = [lon_diff(ob[0], te[0]) * m_lon, (ob[1] - te[1]) * m_lat, lon_diff(te[2], ob[2]) * m_lon, (te[3] - ob[3]) * m_lat]
    lo, hi = -(0.0056 + slack), 0.01 * r + 0.0056 + slack
    bad = [(nm, e, (lo, hi)) for nm, e in zip(('min_lon', 'min_lat', 'max_lon', 'max_lat'), short) if not lo <= e <= hi]
    return bad, max(short) / r


# ------------------------------------------------------------------ entry point
def run(ck, tier=None):
    tier = tier or ck.tier
    if not all(os.path.exists(os.path.join(COQ, t)) for t in TARGETS):
        # c09.py is expected to list TARGETS in its own ck.build_theories(); this is the fallback
        ck.build_theories(TARGETS)
    if not any(o['kind'] == 'theorem' and o['name'] == 'C09_wedge_bounds_match_outline_extents' for o in ck.obligations):
        prev_chk = ck.cov.get('coqchk_axioms')
        ck.props('Props/C09d.v')
        if prev_chk is not None and 'coqchk_axioms' in ck.cov:      # thorough tier: keep the other property files' result too
            ck.cov['coqchk_axioms'] = sorted(set(prev_chk) | set(ck.cov['coqchk_axioms']))

    import gen_wedgebounds   # noqa  (tools/: translator tie)
    rep = gen_wedgebounds.main(REPO, os.path.join(ck.rundir, 'WedgeBoundsGen.v'))
    ok_gen = ck.gen('WedgeBoundsGen.v', rep, 'WedgeBoundsGenEq.v')

    n = 12 if tier == 'quick' else 120
    if not ok_gen:
        n *= 2                   # the translator tie broke: look harder for a concrete failing input
    skipped = []
    shapes = gen_shapes(ck.rng, n, skipped, max_big=2 if tier == 'quick' else None)
    lemmas, meta, prop_bad = [], {}, []
    worst = 0.0
    for i, sh in enumerate(shapes):
        ck.count('wedge-bounds:k=%d' % default_k(sh)[0])
        S = build(sh)
        m = {'k': 'wedge-bounds', 'shape': sh}
        got = guarded(lambda: (tuple(float(x) for x in S.bounds), impl_samples(S)))
        if got[0] != 'Ok' or len(got[1][0]) != 4 or not all(math.isfinite(x) for x in got[1][0]):
            prop_bad.append(dict(m, clause='bounds is a 4-tuple of finite floats', detail=repr(got)[:400]))
            continue
        ob, (vo, vi) = got[1]
        m['bounds'] = list(ob)
        m['model_bounds_float'] = list(model_bounds(sh))
        m['default_k_model'] = default_k(sh)[0]
        m['samples_per_arc_implementation'] = [len(vo), len(vi)]
        fails, rel = oracle(sh, ob)
        worst = max(worst, rel)
        if fails:
            prop_bad.append(dict(m, clause='wedge bounds within 1% of the outer radius inside the true extents of arcs and arms, never outside',
                                 detail=[{'bound': nm, 'shortfall_m': e, 'allowed_m': list(al)} for nm, e, al in fails]))
        nm = f'kw_{i}'
        txt = k_lemma(nm, sh, ob, vo, vi)
        lemmas.append((nm, txt))
        meta[nm] = dict(m, lemma=txt if len(txt) < 6000 else txt[:6000] + ' ...')
    bad, broken = c07.run_lemmas(ck, 'wedgebounds', lemmas, per_file=1 if tier == 'quick' else 2, header=K_HEADER)

    ck.cov['evaluations'] = ck.cov.get('evaluations', 0) + sum(4 + 4 * (default_k(s)[0] + 1) for s in shapes)
    ck.cov['distinct_nontrivial'] = ck.cov.get('distinct_nontrivial', 0) + len({json.dumps(s, sort_keys=True) for s in shapes})
    ck.cov['wedge_bounds_shapes'] = len(shapes)
    ck.cov['wedge_bounds_interval_lemmas'] = len(lemmas)
    ck.cov['wedge_bounds_skipped_straddling_180 (finding D21)'] = len(skipped)
    ck.cov['wedge_bounds_worst_shortfall_over_radius'] = worst
    if lemmas:
        ck.sample(lemmas[len(lemmas) // 2][1][:400], limit=8)

    for pb in prop_bad[:3]:
        ck.violation({'kind': 'property-fails-on-implementation', 'case': pb, 'theorems': THEOREMS,
                      'how_to_replay': 'bin/check C09 --replay <this file>'})
    shown = 0
    for nm in sorted(bad, key=lambda x: int(x.split('_')[1])):
        if shown >= 4:
            break
        m = meta[nm]
        d = [abs(lon_diff(m['bounds'][j], m['model_bounds_float'][j])) if j in (0, 2) else abs(m['bounds'][j] - m['model_bounds_float'][j])
             for j in range(4)]
        ck.violation({'kind': 'model-vs-implementation', 'case': m,
                      'model': 'BoundsWedgeM.wedge_bounds_default (unrounded, real numbers) over CurveM.ring_pts, sample by sample',
                      'difference_deg_float_estimate': d, 'tolerance_deg': EPS_DEG, 'coq_says': bad[nm][-300:],
                      'theorems': THEOREMS, 'how_to_replay': 'bin/check C09 --replay <this file>'})
        shown += 1
    return {'shapes': len(shapes), 'lemmas': len(lemmas), 'bad': len(bad), 'broken': len(broken), 'property_bad': len(prop_bad),
            'skipped_straddling': len(skipped), 'worst_shortfall_over_radius': worst, 'translator_ok': ok_gen}


def replay(m):
    """called by c09.py's replay for cases with k == 'wedge-bounds'"""
    sh = m['shape']
    S = build(sh)
    ob = tuple(float(x) for x in S.bounds)
    vo, vi = impl_samples(S)
    print('implementation now:', ob, ' samples per arc:', len(vo), len(vi), ' model default k:', default_k(sh)[0])
    print('model (floats, unrounded, un-wrapped):', model_bounds(sh))
    print('clause on the implementation now (arcs + arms, dense sampling):', oracle(sh, ob))
