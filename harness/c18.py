#!/usr/bin/env python3
"""C18 - collection filters select exactly the members satisfying the per-shape predicate.
See DESIGN.md section 5 / C18.  Model: coq/theories/Model/FilterM.v, checker: Corr/FilterK.v."""
import itertools
import json
import os
import sys
from datetime import date, datetime, timedelta, timezone
from fractions import Fraction

sys.path.insert(0, os.path.dirname(os.path.abspath(__file__)))
from lib import Check, REPO, guarded, zlit, blit, listlit   # noqa: E402
import gen_coll                                                  # noqa: E402  (tools/: translator tie for the filters)

import logging                                                  # noqa: E402
logging.disable(logging.CRITICAL)
from geostructures import Coordinate, GeoPoint, GeoBox, GeoPolygon, GeoLineString   # noqa: E402
from geostructures import GeoCircle, GeoEllipse, GeoRing                              # noqa: E402
from geostructures.collections import Track, FeatureCollection  # noqa: E402
from geostructures.time import TimeInterval                    # noqa: E402

EPOCH = datetime(2020, 1, 1, tzinfo=timezone.utc)
US = timedelta(microseconds=1)
H = 3_600_000_000


def to_dt(z, style='utc'):
    d = EPOCH + timedelta(microseconds=z)
    if style == 'utc':
        return d
    if style == 'naive':
        return d.replace(tzinfo=None)
    return d.astimezone(timezone(timedelta(minutes=style)))


def of_dt(d):
    if d.tzinfo is None:
        d = d.replace(tzinfo=timezone.utc)
    return (d - EPOCH) // US


def qlit(fr):
    fr = Fraction(fr)
    return f'(Qmake {zlit(fr.numerator)} {fr.denominator})'


# --------------------------------------------------------------------------- shapes from specs
def build(spec):
    k, g = spec['k'], spec['g']
    dt = spec.get('dt')
    if dt is not None:
        sty = spec.get('sty', 'utc')
        dt = to_dt(dt[0], sty) if (dt[0] == dt[1] and spec.get('bare')) else TimeInterval(to_dt(dt[0], sty), to_dt(dt[1], sty))
    props = dict(spec.get('props') or {})
    holes = [build(h) for h in spec['holes']] if spec.get('holes') else None      # hole specs: dt-less boxes / polygons
    if k == 'pt':             # g = x, y [, z]
        return GeoPoint(Coordinate(*g), dt=dt, properties=props)
    if k == 'box':            # g = x0, y0, x1, y1 with x0 < x1, y0 < y1
        return GeoBox(Coordinate(g[0], g[3]), Coordinate(g[2], g[1]), holes=holes, dt=dt, properties=props)
    if k == 'poly':
        ring = [Coordinate(x, y) for x, y in g]
        return GeoPolygon(ring + [ring[0]], holes=holes, dt=dt, properties=props)
    if k == 'line':
        return GeoLineString([Coordinate(x, y) for x, y in g], dt=dt, properties=props)
    if k == 'circle':         # g = x, y, radius (m)
        return GeoCircle(Coordinate(g[0], g[1]), g[2], holes=holes, dt=dt, properties=props)
    if k == 'ellipse':        # g = x, y, semi-major, semi-minor (m), rotation
        return GeoEllipse(Coordinate(g[0], g[1]), g[2], g[3], g[4], holes=holes, dt=dt, properties=props)
    if k == 'ring':           # g = x, y, inner, outer radius (m)
        return GeoRing(Coordinate(g[0], g[1]), g[2], g[3], holes=holes, dt=dt, properties=props)
    raise AssertionError(k)


def gen_geom(rng):
    cx, cy = rng.randint(-3, 3), rng.randint(-3, 3)
    r = rng.choice([1, 1, 2, 4, 8])
    k = rng.choice(['pt', 'pt', 'box', 'box', 'poly', 'poly', 'line'])
    if k == 'pt':
        return k, [cx, cy]
    if k == 'box':
        return k, [cx - r, cy - r, cx + r, cy + r]
    if k == 'poly':
        form = rng.choice(['rect', 'tri', 'ell'])
        if form == 'rect':
            return k, [[cx - r, cy - r], [cx + r, cy - r], [cx + r, cy + r], [cx - r, cy + r]]
        if form == 'tri':
            return k, [[cx - r, cy - r], [cx + r, cy - r], [cx - r, cy + r]]
        return k, [[cx - r, cy - r], [cx + r, cy - r], [cx + r, cy], [cx, cy], [cx, cy + r], [cx - r, cy + r]]
    pts = [[cx - r, cy - r], [cx, cy + r], [cx + r, cy - r]]
    return k, pts[:rng.choice([2, 3])]


def gen_dt(rng, none_p):
    u = rng.random()
    if u < none_p:
        return None
    s = rng.randint(0, 6) * H + rng.choice([0, 0, 0, 1])
    if u < none_p + (1 - none_p) * 0.5:
        return [s, s]
    return [s, s + rng.choice([1, 2, 5]) * H]


def gen_shape(rng, none_p):
    k, g = gen_geom(rng)
    props = {'color': rng.choice(['red', 'blue']), 'n': rng.randint(0, 5)}
    if rng.random() < 0.6:
        props['opt'] = rng.choice([0, 1, None, 'x'])
    return {'k': k, 'g': g, 'dt': gen_dt(rng, none_p), 'props': props,
            'sty': rng.choice(['utc', 'utc', 'naive', 120, -330]), 'bare': rng.random() < 0.3}


HIST_PROPS = {                       # history family R only (every member there carries 'zone' and 'tag')
    'zone_core': ('zone', lambda v: v == 'core'),
    'zone_not_far': ('zone', lambda v: v != 'far'),
    'tag_low': ('tag', lambda v: v < 2),
    'tag_odd': ('tag', lambda v: v % 2),
}
PROP_TESTS = {
    'color_red': ('color', lambda v: v == 'red'),
    'n_gt2': ('n', lambda v: v > 2),
    'n_even_int': ('n', lambda v: v % 2),                 # truthy/falsy, not a bool
    'opt_truthy': ('opt', lambda v: v),
    'start_ge_2h': ('datetime_start', lambda v: v >= to_dt(2 * H)),
    'missing': ('nope', lambda v: True),
}


# --------------------------------------------------------------------------- observation
def snapshot(coll):
    return [(id(x), repr(x.dt), None if x.dt is None else (of_dt(x.dt.start), of_dt(x.dt.end)),
             json.dumps(x._properties, sort_keys=True, default=str), tuple(x.bounds), x.to_wkt())
            for x in coll.geoshapes]


def box_lit(b):
    fr = [Fraction(v) for v in b]
    if all(f.denominator == 1 for f in fr):
        return '(ib ' + ' '.join(zlit(f.numerator) for f in fr) + ')'
    return '(' + ', '.join(qlit(f) for f in fr) + ')'


def shape_lit(ident, x):
    dt = 'None' if x.dt is None else f'(Some ({zlit(of_dt(x.dt.start))}, {zlit(of_dt(x.dt.end))}))'
    return f'S {zlit(ident)} {dt} {box_lit(x.bounds)}'


def kind_of(c):
    return 'TR' if type(c) is Track else 'FC' if type(c) is FeatureCollection else 'OTHER'


def out_lit(r):
    if r[0] != 'Ok':
        return f'(Err {r[1]})'
    return f'(Ok ({r[1][0]}, {listlit([zlit(i) for i in r[1][1]])}))'


def tab_lit(tab):
    return listlit([f'({zlit(i)}, {blit(v)})' for i, v in tab])


def ipt(c):
    """a Coordinate on the integer grid as an exact (int, int)"""
    lon, lat = c.longitude, c.latitude
    assert float(lon).is_integer() and float(lat).is_integer(), (lon, lat)
    return (int(lon), int(lat))


def member_vertices(ms):
    """the vertices CollectionBase._get_vertices collects (points: centroid, lines: vertices,
    polygon-likes: bounding_coords), as exact integer pairs"""
    out = []
    for x in ms:
        if isinstance(x, GeoPoint):
            out.append(ipt(x.centroid))
        elif isinstance(x, GeoLineString):
            out += [ipt(c) for c in x.vertices]
        else:
            out += [ipt(c) for c in x.bounding_coords()]
    return out


def on_grid(ms):
    """every member is a point / line / box / polygon with integer vertices (the exact hull oracle applies)"""
    try:
        member_vertices(ms)
        return not any(isinstance(x, (GeoCircle, GeoEllipse, GeoRing)) for x in ms)
    except AssertionError:
        return False


def in_closed_hull(v, ring):
    """exact: v lies in the closed convex polygon `ring` (closed list of integer vertices, either
    winding; degenerate rings = a point or a segment are handled by the extent test)"""
    xs, ys = [p[0] for p in ring], [p[1] for p in ring]
    if not (min(xs) <= v[0] <= max(xs) and min(ys) <= v[1] <= max(ys)):
        return False
    sg = set()
    for a, b in zip(ring, ring[1:]):
        cr = (b[0] - a[0]) * (v[1] - a[1]) - (b[1] - a[1]) * (v[0] - a[0])
        if cr:
            sg.add(cr > 0)
    return len(sg) <= 1


def _plain_boxes_meet(a, b):
    """two (min_lon, min_lat, max_lon, max_lat) tuples read as ordinary closed ranges overlap on both axes"""
    return max(a[0], b[0]) <= min(a[2], b[2]) and max(a[1], b[1]) <= min(a[3], b[3])


READABLE = ('bounds', 'convex_hull', 'len', 'centroid', 'geospan')
# observations of a collection that are functions of its members alone (history family R, see gen_history_case)
HREAD_FC = ('bounds', 'geospan', 'convex_hull', 'len', 'centroid')
HREAD_TR = HREAD_FC + ('centroid_distances', 'time_start_diffs', 'has_duplicate_timestamps', 'speed_diffs', 'first', 'last', 'start', 'end')
EXTENT_READS = ('bounds', 'geospan', 'convex_hull')


def canon(v):
    """an observation as a comparable, printable value (floats by repr so that nan == nan; shapes by identity)"""
    if isinstance(v, (tuple, list)):
        return [canon(x) for x in v]
    if hasattr(v, 'tolist'):                       # numpy arrays and scalars
        return canon(v.tolist())
    if isinstance(v, Coordinate):
        return ['coord'] + [repr(float(x)) for x in v.to_float()]
    if isinstance(v, bool) or v is None or isinstance(v, (int, str)):
        return v
    if isinstance(v, float):
        return repr(v)
    if isinstance(v, timedelta):
        return ['timedelta_us', v // US]
    if isinstance(v, datetime):
        return ['datetime_us', of_dt(v)]
    return ['object', type(v).__name__, id(v)]


def full_obs(c):
    """every observation of HREAD_* on collection c: name -> comparable value (hull by its outline, members by identity)"""
    out = {}
    for a in (HREAD_TR if type(c) is Track else HREAD_FC):
        r = guarded(lambda: len(c) if a == 'len' else getattr(c, a))
        if r[0] == 'Ok' and a == 'convex_hull':
            r = ('Ok', [x.to_float() for x in r[1].outline])
        out[a] = canon(r)
    return out


def read_attrs(c, attrs):
    for a in attrs:
        guarded(lambda: len(c) if a == 'len' else getattr(c, a))


def run_case(spec):
    """spec = {'kind': 'FC'|'TR', 'shapes': [...], 'steps': [...]} -> (literal, meta, property failures, stats)"""
    cls = Track if spec['kind'] == 'TR' else FeatureCollection
    objs = [build(s) for s in spec['shapes']]
    keep = list(objs)
    idmap = {id(x): i for i, x in enumerate(objs)}
    fails, stats = [], {'steps': 0, 'skipped': 0, 'asym': 0, 'proper': 0, 'results': 0, 'shrunk': 0, 'hulls': 0, 'classes': [],
                    'coll_pairs': 0, 'coll_eq_pairs': 0, 'coll_split': 0, 'coll_split_first_true': 0,
                    'hist_results': 0, 'hist_deep': 0, 'hist_cut_after_read': 0, 'hist_grown_after_read': 0, 'hist_cut_unread': 0,
                    'hist_full': 0, 'true_apart': 0, 'true_apart_wrap': 0}
    readlog = {}            # id(collection) -> names of the observations read on it so far (by this harness)
    extras = []             # literals of the shapes brought in by `+` inside history chains (ids 200..)

    def rd(c, attrs):
        read_attrs(c, attrs)
        readlog.setdefault(id(c), set()).update(attrs)

    def outcome(r):
        if r[0] != 'Ok':
            return r
        return ('Ok', (kind_of(r[1]), [idmap[id(x)] for x in r[1].geoshapes]))

    r0 = guarded(lambda: cls(list(objs)))
    first = outcome(r0)
    meta = {'spec': spec, 'first': first, 'steps': []}
    untimed = any(s['dt'] is None for s in spec['shapes'])
    if spec['kind'] == 'TR' and untimed:
        if first != ('Err', 'ValueError'):
            fails.append(('constructor', f'Track with a dt-less shape gave {first}'))
    elif first[0] != 'Ok':
        fails.append(('constructor', f'raised {first[1]}'))
    steps_lit = []

    def union_bounds(ms):
        bs = [x.bounds for x in ms]
        return (min(b[0] for b in bs), min(b[1] for b in bs), max(b[2] for b in bs), max(b[3] for b in bs))

    def observe(res, extra_lits, label, src_members, full=False):
        """derived attributes of a RESULT collection must be those of ITS members;
        full: every observation of HREAD_* equals that of a freshly constructed collection of the same members"""
        ms = list(res.geoshapes)
        keep.append(res)
        readlog.setdefault(id(res), set()).update(HREAD_TR if full else ('bounds', 'convex_hull', 'len'))
        if full:
            fresh = guarded(lambda: type(res)(list(ms)))
            if fresh[0] != 'Ok' or [id(x) for x in fresh[1].geoshapes] != [id(x) for x in ms]:
                fails.append(('result rebuilt from its members', f'{label}: {type(res).__name__}(members of the result) gives '
                                                                 f'{fresh[0]} {[idmap[id(x)] for x in fresh[1].geoshapes] if fresh[0] == "Ok" else fresh[1]}'))
            else:
                got, want = full_obs(res), full_obs(fresh[1])
                stats['hist_full'] += 1
                for a in got:
                    if got[a] != want[a]:
                        fails.append((f'derived observation `{a}` of a result = that of its members',
                                      f'{label}: result.{a} = {str(got[a])[:300]}, a fresh {type(res).__name__} of the same members '
                                      f'{[idmap[id(x)] for x in ms]} gives {str(want[a])[:300]}'))
        ids = [idmap[id(x)] for x in ms]
        n = len(res)
        it = [idmap[id(x)] for x in res]
        if n != len(ms) or it != ids or bool(res) != (len(ms) > 0):
            fails.append(('list protocol (result)', f'{label}: len={n} bool={bool(res)} iter={it} for members {ids}'))
        rb = guarded(lambda: tuple(res.bounds))
        want = ('Ok', union_bounds(ms)) if ms else ('Err', 'ValueError')
        if rb != want:
            fails.append(('coll_bounds (of a result)', f'{label}: result.bounds = {rb}, union of the result members\' bounds = {want}'))
        if ms and on_grid(ms):
            h = guarded(lambda: [ipt(c) for c in res.convex_hull.outline])
            verts = member_vertices(ms)
            if h[0] != 'Ok':
                fails.append(('hull_contains_members (of a result)', f'{label}: convex_hull raised {h[1]}'))
            else:
                stats['hulls'] += 1
                if not set(h[1]) <= set(verts):
                    fails.append(('hull_contains_members (of a result)',
                                  f'{label}: hull vertices {sorted(set(h[1]) - set(verts))} are not vertices of the result members'))
                out = [v for v in verts if not in_closed_hull(v, h[1])]
                if out:
                    fails.append(('hull_contains_members (of a result)', f'{label}: member vertices {out[:4]} outside the hull {h[1]}'))
        if ms:
            if src_members and want[1] != union_bounds(src_members):
                stats['shrunk'] += 1
        stats['results'] += 1
        rbl = f'(Ok {box_lit(rb[1])})' if rb[0] == 'Ok' else f'(Err {rb[1]})'
        steps_lit.append(f'FRes {listlit([zlit(i) for i in ids])} {extra_lits} {rbl} {zlit(n)}')

    def apply_sel(c, st):
        """a selecting operation on collection c, with the members the per-shape calls select:
        (guarded result, expected member objects | 'KeyError' | None when a per-shape call raised)"""
        ms = list(c.geoshapes)
        k = st[0]
        if k in ('int', 'contains', 'contained_by'):
            q = build(st[1])
            keep.append(q)
            call = {'int': lambda x: x.intersects(q), 'contains': lambda x: x.contains(q),
                    'contained_by': lambda x: q.contains(x)}[k]
            per = [guarded(lambda x=x: bool(call(x))) for x in ms]
            if any(p[0] != 'Ok' for p in per):
                return None, None
            fn = {'int': c.filter_by_intersection, 'contains': c.filter_contains, 'contained_by': c.filter_contained_by}[k]
            return guarded(lambda: fn(q)), [x for x, p in zip(ms, per) if p[1]]
        if k == 'dt':
            d = st[1]
            return (guarded(lambda: c.filter_by_dt(to_dt(d, st[2]))),
                    [x for x in ms if x.dt is not None and of_dt(x.dt.start) == d == of_dt(x.dt.end)])
        if k == 'iv':
            q = TimeInterval(to_dt(st[1], st[3]), to_dt(st[2], st[3]))
            return guarded(lambda: c.filter_by_dt(q)), [x for x in ms if x.dt is not None and q.intersects(x.dt)]
        if k == 'add':          # same class only; the other operand may have been read before as well
            ocls = Track if st[1] == 'TR' else FeatureCollection
            others = [build(s_) for s_ in st[2]]
            for x in others:
                idmap[id(x)] = 200 + len(extras)
                extras.append(shape_lit(idmap[id(x)], x))
            keep.extend(others)
            oc = ocls(list(others))
            keep.append(oc)
            rd(oc, st[3] if len(st) > 3 else [])
            allx = ms + list(oc.geoshapes)
            return guarded(lambda: c + oc), (sorted(allx, key=lambda x: of_dt(x.start)) if st[1] == 'TR' else allx)
        if k == 'copy':
            return guarded(lambda: c.copy()), ms
        if k == 'prop':
            key, fn = PROP_TESTS.get(st[1]) or HIST_PROPS[st[1]]
            if any(key not in x.properties for x in ms):
                return guarded(lambda: c.filter_by_property(key, fn)), 'KeyError'
            per = [guarded(lambda x=x: bool(fn(x.properties[key]))) for x in ms]
            if any(p[0] != 'Ok' for p in per):
                return None, None
            return guarded(lambda: c.filter_by_property(key, fn)), [x for x, p in zip(ms, per) if p[1]]
        if k == 'tslice':
            a, b = st[1], st[2]
            sl = slice(None if a is None else to_dt(a), None if b is None else to_dt(b))
            return (guarded(lambda: c[sl]),
                    [x for x in ms if (a is None or a <= of_dt(x.start)) and (b is None or of_dt(x.end) < b)])
        raise AssertionError(k)

    if r0[0] == 'Ok':
        coll = r0[1]
        members = list(coll.geoshapes)
        mids = [idmap[id(x)] for x in members]
        snap = snapshot(coll)
        # pairs of members (by position, earlier first) with the same hash: unequal ones are where a table keyed
        # on the hash / a set / a dict of members would confuse two members; equal ones are the control
        hs = [guarded(lambda x=x: hash(x)) for x in members]
        same_hash = [(a, b) for a in range(len(members)) for b in range(a + 1, len(members))
                     if hs[a][0] == 'Ok' and hs[a] == hs[b]]
        coll_ne = [(a, b) for a, b in same_hash if guarded(lambda: bool(members[a] != members[b])) == ('Ok', True)]
        stats['coll_pairs'] += len(coll_ne)
        stats['coll_eq_pairs'] += len(same_hash) - len(coll_ne)
        rd(coll, spec.get('pre', []))                  # derived attributes read (cached) BEFORE filtering
        for st in spec['steps']:
            kind = st[0]
            exp = None
            lit = None
            extra_lits = '[]'
            if kind == 'read':
                rd(coll, st[1])
                continue
            if kind == 'hist':
                # R. read-then-derive history: st[1] = [[reads, op, observe_now], ...] applied as a CHAIN starting from the
                # source (each op on the result of the one before, after `reads` were evaluated on the collection it is
                # applied to); st[2]: observations read on the last result.  Every level is judged member by member
                # against the per-shape calls (identity), observed in full (now, or only at the end), and observed AGAIN
                # after the levels below it were derived from it; the source is compared with a fresh twin at the end.
                cur, cur_ms, levels = coll, members, []
                for depth, (reads, op, now) in enumerate(st[1]):
                    rd(cur, reads)
                    r, e = apply_sel(cur, op)
                    if r is None:
                        stats['skipped'] += 1
                        break
                    stats['steps'] += 1
                    if e == 'KeyError':
                        if r != ('Err', 'KeyError'):
                            fails.append(('filter_by_property_spec', f'history {op[:2]}: {r[0]} instead of KeyError'))
                        break
                    if r[0] != 'Ok' or [id(x) for x in r[1].geoshapes] != [id(x) for x in e] or type(r[1]) is not cls:
                        fails.append((f'filter_exact (history, level {depth + 1})',
                                      f'{[o[1][0] for o in st[1][:depth + 1]]}: result '
                                      f'{(kind_of(r[1]), [idmap.get(id(x)) for x in r[1].geoshapes]) if r[0] == "Ok" else r} differs from the '
                                      f'per-shape selection {[idmap[id(x)] for x in e]}'))
                        break
                    res = r[1]
                    label = 'history ' + ' > '.join(o[1][0] for o in st[1][:depth + 1]) + f' (read before on the parent: {sorted(readlog.get(id(cur), ()))})'
                    stats['hist_results'] += 1
                    stats['hist_deep'] += depth > 0
                    stats['classes'].append('history:' + op[0])
                    if e and cur_ms:
                        was_read = bool(readlog.get(id(cur), set()) & set(EXTENT_READS))
                        ub, pb = union_bounds(e), union_bounds(cur_ms)
                        if ub != pb:
                            inside = pb[0] <= ub[0] and pb[1] <= ub[1] and ub[2] <= pb[2] and ub[3] <= pb[3]
                            stats['hist_cut_after_read' if was_read and inside else 'hist_grown_after_read' if was_read else 'hist_cut_unread'] += 1
                    levels.append((res, e, label, cur_ms))
                    if now:
                        observe(res, listlit(extras), label, cur_ms, full=True)
                    cur, cur_ms = res, e
                if levels:
                    rd(cur, st[2])
                for res, e, label, src in levels:
                    if [id(x) for x in res.geoshapes] != [id(x) for x in e]:
                        fails.append(('source_unchanged', f'{label}: this result changed when it was filtered / read in turn'))
                    observe(res, listlit(extras), label + ' [at the end of the chain]', src, full=True)
                if snapshot(coll) != snap or [id(x) for x in coll.geoshapes] != [id(x) for x in members]:
                    fails.append(('source_unchanged', 'history: the source collection changed'))
                    snap = snapshot(coll)
                meta['steps'].append({'step': ['hist', [o[1][:2] for o in st[1]]], 'result': [[idmap[id(x)] for x in lv[1]] for lv in levels]})
                continue
            if kind == 'chain':
                # st[1] then st[2] on its result; st[3]: attributes read on the intermediate result first
                r1, e1 = apply_sel(coll, st[1])
                if r1 is None:
                    stats['skipped'] += 1
                    continue
                stats['steps'] += 1
                if e1 == 'KeyError':
                    if r1 != ('Err', 'KeyError'):
                        fails.append(('filter_by_property_spec', f'chain {st[1][:2]}: {r1[0]} instead of KeyError'))
                    continue
                if r1[0] != 'Ok' or [id(x) for x in r1[1].geoshapes] != [id(x) for x in e1] or type(r1[1]) is not cls:
                    fails.append(('filter_exact (chain, first)', f'{st[1][:2]}: result differs from the per-shape selection'))
                    continue
                mid = r1[1]
                rd(mid, st[3])
                r2, e2 = apply_sel(mid, st[2])
                if r2 is None:
                    stats['skipped'] += 1
                    observe(mid, '[]', f'chain/first {st[1][0]}', members)
                    continue
                if e2 == 'KeyError':
                    if r2 != ('Err', 'KeyError'):
                        fails.append(('filter_by_property_spec', f'chain {st[2][:2]}: {r2[0]} instead of KeyError'))
                elif r2[0] != 'Ok' or [id(x) for x in r2[1].geoshapes] != [id(x) for x in e2] or type(r2[1]) is not cls:
                    fails.append(('filter_exact (chain, second)', f'{st[1][:2]} then {st[2][:2]}: result differs from the per-shape selection '
                                                                  f'{[idmap[id(x)] for x in e2]}'))
                else:
                    observe(r2[1], '[]', f'chain {st[1][0]} then {st[2][0]}', e1)
                    stats['classes'].append('chain:' + st[1][0] + '>' + st[2][0])
                observe(mid, '[]', f'chain/first {st[1][0]} (after filtering it again)', members)
                if [id(x) for x in mid.geoshapes] != [id(x) for x in e1]:
                    fails.append(('source_unchanged', 'chain: the intermediate collection changed'))
                if snapshot(coll) != snap:
                    fails.append(('source_unchanged', 'chain: the source collection changed'))
                    snap = snapshot(coll)
                continue
            if kind == 'tslice':
                r, e = apply_sel(coll, st)
                stats['steps'] += 1
                if r[0] != 'Ok' or [id(x) for x in r[1].geoshapes] != [id(x) for x in e]:
                    fails.append(('slice (C17)', f'{st}: result differs from the selection'))
                else:
                    observe(r[1], '[]', 'time slice', members)
                continue
            if kind in ('int', 'contains', 'contained_by'):
                q = build(st[1])
                keep.append(q)
                call = {'int': lambda x: x.intersects(q), 'contains': lambda x: x.contains(q),
                        'contained_by': lambda x: q.contains(x)}[kind]
                per = [guarded(lambda x=x: bool(call(x))) for x in members]
                if any(p[0] != 'Ok' for p in per):
                    stats['skipped'] += 1
                    continue
                tab = [(i, p[1]) for i, p in zip(mids, per)]
                qb = guarded(lambda: tuple(q.bounds))
                if qb[0] == 'Ok':      # coverage only: predicate true although the two .bounds boxes, read as plain ranges, are apart
                    for x, p_ in zip(members, per):
                        if p_[1] and not _plain_boxes_meet(x.bounds, qb[1]):
                            stats['true_apart'] += 1
                            stats['true_apart_wrap'] += x.bounds[0] > x.bounds[2] or qb[1][0] > qb[1][2]
                for a, b in coll_ne:
                    if per[a][1] != per[b][1]:
                        stats['coll_split'] += 1
                        stats['coll_split_first_true'] += per[a][1]
                if kind != 'int':
                    other = {'contains': lambda x: q.contains(x), 'contained_by': lambda x: x.contains(q)}[kind]
                    rev = [guarded(lambda x=x: bool(other(x))) for x in members]
                    stats['asym'] += sum(1 for a, b in zip(per, rev) if b[0] == 'Ok' and a[1] != b[1])
                fn = {'int': coll.filter_by_intersection, 'contains': coll.filter_contains,
                      'contained_by': coll.filter_contained_by}[kind]
                r = guarded(lambda: fn(q))
                exp = ('Ok', (spec['kind'], [i for i, v in tab if v]))
                lit = {'int': 'FInt', 'contains': 'FContains', 'contained_by': 'FContainedBy'}[kind] + ' ' + tab_lit(tab)
            elif kind == 'dt':
                d = st[1]
                r = guarded(lambda: coll.filter_by_dt(to_dt(d, st[2])))
                exp = ('Ok', (spec['kind'], [i for i, x in zip(mids, members)
                                             if x.dt is not None and of_dt(x.dt.start) == d == of_dt(x.dt.end)]))
                lit = f'FDt {zlit(d)}'
            elif kind == 'iv':
                a, b = st[1], st[2]
                q = TimeInterval(to_dt(a, st[3]), to_dt(b, st[3]))
                per = [x.dt is not None and bool(q.intersects(x.dt)) for x in members]   # the per-shape call
                r = guarded(lambda: coll.filter_by_dt(q))
                exp = ('Ok', (spec['kind'], [i for i, v in zip(mids, per) if v]))
                lit = f'FIv {zlit(a)} {zlit(b)}'
            elif kind == 'dtother':
                arg = {'date': date(2020, 1, 1), 'str': '2020-01-01', 'none': None}[st[1]]
                r = guarded(lambda: coll.filter_by_dt(arg))
                exp = ('Err', 'ValueError')
                lit = 'FDtOther'
            elif kind == 'prop':
                key, fn = PROP_TESTS[st[1]]
                per = []
                for x in members:
                    if key not in x.properties:
                        per.append(None)
                    else:
                        per.append(guarded(lambda x=x: bool(fn(x.properties[key]))))
                if any(p is not None and p[0] != 'Ok' for p in per):
                    stats['skipped'] += 1
                    continue
                r = guarded(lambda: coll.filter_by_property(key, fn))
                if any(p is None for p in per):
                    exp = ('Err', 'KeyError')
                else:
                    exp = ('Ok', (spec['kind'], [i for i, p in zip(mids, per) if p[1]]))
                lit = 'FProp ' + listlit([f'({zlit(i)}, {"None" if p is None else "(Some " + blit(p[1]) + ")"})'
                                          for i, p in zip(mids, per)])
            elif kind == 'len':
                ids = [idmap[id(x)] for x in coll]
                n, b = len(coll), bool(coll)
                if n != len(members) or b != (len(members) > 0) or ids != mids:
                    fails.append(('list protocol', f'len={n} bool={b} iter={ids} for members {mids}'))
                steps_lit.append(f'FLen {zlit(n)} {blit(b)} {listlit([zlit(i) for i in ids])}')
                stats['steps'] += 1
                continue
            elif kind == 'get':
                i = st[1]
                r = guarded(lambda: coll[i])
                rr = ('Ok', idmap[id(r[1])]) if r[0] == 'Ok' else r
                want = ('Ok', mids[i]) if -len(mids) <= i < len(mids) else ('Err', 'IndexError')
                if rr != want:
                    fails.append(('list protocol', f'[{i}] gives {rr}, list indexing gives {want}'))
                steps_lit.append(f'FGet {zlit(i)} ' + (f'(Ok {zlit(rr[1])})' if rr[0] == 'Ok' else f'(Err {rr[1]})'))
                stats['steps'] += 1
                continue
            elif kind == 'in':
                if st[1] == 'member':
                    if not members:
                        continue
                    x = members[st[2] % len(members)]
                    xid = idmap[id(x)]
                else:
                    x = build(st[3])
                    keep.append(x)
                    xid = 1000
                tab = [(i, bool(y == x)) for i, y in zip(mids, members)]
                o = x in coll
                want = any(y is x or v for y, (_, v) in zip(members, tab))
                if o != want:
                    fails.append(('list protocol', f'`in` gives {o}, list membership gives {want}'))
                steps_lit.append(f'FIn {zlit(xid)} {tab_lit(tab)} {blit(o)}')
                stats['steps'] += 1
                continue
            elif kind == 'add':
                ocls = Track if st[1] == 'TR' else FeatureCollection
                others = [build(s) for s in st[2]]
                for j, x in enumerate(others):
                    idmap[id(x)] = 100 + j
                keep.extend(others)
                oc = ocls(list(others))
                r = guarded(lambda: coll + oc)
                if st[1] != spec['kind']:
                    exp = ('Err', 'ValueError')
                elif spec['kind'] == 'FC':
                    exp = ('Ok', ('FC', mids + [100 + j for j in range(len(others))]))
                else:
                    allx = members + list(oc.geoshapes)
                    exp = ('Ok', ('TR', [idmap[id(x)] for x in sorted(allx, key=lambda x: of_dt(x.start))]))
                extra_lits = listlit([shape_lit(100 + j, x) for j, x in enumerate(others)])
                lit = f'FAdd {st[1]} {extra_lits}'
            elif kind == 'bounds':
                r = guarded(lambda: cls(list(members)).bounds)
                sp = guarded(lambda: cls(list(members)).geospan)
                if members:
                    bs = [x.bounds for x in members]
                    want = (min(b[0] for b in bs), min(b[1] for b in bs), max(b[2] for b in bs), max(b[3] for b in bs))
                    if r != ('Ok', want):
                        fails.append(('coll_bounds', f'bounds {r}, union of member bounds {want}'))
                    # bounds of a concatenation = union of the bounds of the parts
                    for cut in range(1, len(members)):
                        a, b = cls(members[:cut]).bounds, cls(members[cut:]).bounds
                        if r[0] == 'Ok' and tuple(r[1]) != (min(a[0], b[0]), min(a[1], b[1]), max(a[2], b[2]), max(a[3], b[3])):
                            fails.append(('coll_bounds_union', f'split at {cut}'))
                            break
                elif r != ('Err', 'ValueError'):
                    fails.append(('coll_bounds', f'empty collection: {r}'))
                bl = f'(Ok {box_lit(r[1])})' if r[0] == 'Ok' else f'(Err {r[1]})'
                sl = f'(Ok {qlit(sp[1])})' if sp[0] == 'Ok' else f'(Err {sp[1]})'
                steps_lit.append(f'FBounds {bl} {sl}')
                stats['steps'] += 1
                continue
            elif kind == 'hull':
                # containment of member vertices in the hull is C10's theorem; here only that the
                # hull is built from the members' vertices (fixed corpus semantics: subset check)
                continue
            else:
                raise AssertionError(kind)
            o = outcome(r)
            stats['steps'] += 1
            stats['classes'].append(kind + ('' if o[0] == 'Ok' else ':' + str(o[1])))
            if o[0] == 'Ok' and 0 < len(o[1][1]) < len(members):
                stats['proper'] += 1
            if exp is not None and o != exp:
                fails.append(({'int': 'filter_exact(filter_by_intersection)', 'contains': 'filter_exact(filter_contains)',
                               'contained_by': 'filter_exact(filter_contained_by)', 'dt': 'filter_exact(filter_by_dt instant)',
                               'iv': 'filter_exact(filter_by_dt interval)', 'prop': 'filter_by_property_spec',
                               'add': 'list protocol (+)', 'dtother': 'filter_by_dt(other)'}[kind],
                              f'{st[:2]}: implementation gives {o}, per-shape predicate gives {exp}'))
            if snapshot(coll) != snap or [id(x) for x in coll.geoshapes] != [id(x) for x in members]:
                fails.append(('source_unchanged', f'{kind}: the source collection changed'))
                snap = snapshot(coll)
            steps_lit.append(f'{lit} {out_lit(o)}')
            if r[0] == 'Ok' and (exp is None or o == exp):
                observe(r[1], extra_lits, kind, members)
            meta['steps'].append({'step': st[:3] if kind not in ('int', 'contains', 'contained_by', 'add') else st, 'result': o})
        # the source, read again after everything: still its own members' values
        fresh = cls(list(members))
        for a in ('bounds', 'geospan', 'len'):
            get = (lambda c: len(c)) if a == 'len' else (lambda c, a=a: getattr(c, a))
            now, want = guarded(lambda: get(coll)), guarded(lambda: get(fresh))
            if now != want:
                fails.append(('source_unchanged', f'source.{a} read after the filters = {now}, of its members = {want}'))
        if members:
            hs, hf = guarded(lambda: [ipt(c) for c in coll.convex_hull.outline]), guarded(lambda: [ipt(c) for c in fresh.convex_hull.outline])
            if hs != hf:
                fails.append(('source_unchanged', f'source.convex_hull read after the filters = {hs}, of its members = {hf}'))
        if spec.get('family') == 'history':
            got, want = full_obs(coll), full_obs(fresh)
            for a in got:
                if got[a] != want[a]:
                    fails.append(('source_unchanged', f'source.{a} = {str(got[a])[:300]} after the histories, a fresh twin gives {str(want[a])[:300]}'))
        if snapshot(coll) != snap:
            fails.append(('source_unchanged', 'the source collection changed'))
    lit = (f'FK {spec["kind"]} {listlit([shape_lit(i, x) for i, x in enumerate(objs)])} '
           f'{out_lit(first)} {listlit(steps_lit)}')
    return lit, meta, fails, stats


# --------------------------------------------------------------------------- generators
def gen_case(rng):
    kind = rng.choice(['FC', 'FC', 'TR'])
    n = rng.choice([0, 1, 2, 3, 4, 5, 6, 8, 10, 12])
    none_p = 0.35 if kind == 'FC' else (0.0 if rng.random() < 0.93 else 0.2)
    shapes = [gen_shape(rng, none_p) for _ in range(n)]
    steps = []
    for _ in range(rng.randint(3, 6)):
        q = gen_shape(rng, 0.5)
        if shapes and rng.random() < 0.3:       # a query near / equal to a member
            src = rng.choice(shapes)
            q = dict(src, props={}) if rng.random() < 0.5 else dict(q, dt=src['dt'])
        for f in ('int', 'contains', 'contained_by'):
            steps.append([f, q])
    ev = sorted({t for s in shapes if s['dt'] for t in s['dt']}) or [0]
    for _ in range(3):
        steps.append(['dt', rng.choice(ev) + rng.choice([0, 0, 1, -1]), rng.choice(['utc', 'naive', 120])])
        a, b = sorted((rng.choice(ev) + rng.choice([0, 0, 1]), rng.choice(ev) + rng.choice([0, 0, -1, H])))
        steps.append(['iv', a, b, rng.choice(['utc', 'naive', -330])])
    steps.append(['dtother', rng.choice(['date', 'str', 'none'])])
    for k in rng.sample(sorted(PROP_TESTS), 4):
        steps.append(['prop', k])
    steps.append(['len'])
    steps.append(['bounds'])
    if kind == 'FC':
        for i in sorted({-n - 1, -n, -1, 0, n - 1, n, rng.randint(-n - 2, n + 2)}):
            steps.append(['get', i])
    steps.append(['in', 'member', rng.randint(0, 20), None])
    steps.append(['in', 'copy', 0, dict(rng.choice(shapes), props={}) if shapes else gen_shape(rng, 0.5)])
    steps.append(['in', 'fresh', 0, gen_shape(rng, 0.5)])
    steps.append(['add', kind, [gen_shape(rng, none_p if kind == 'FC' else 0.0) for _ in range(rng.randint(0, 3))]])
    steps.append(['add', 'TR' if kind == 'FC' else 'FC', [gen_shape(rng, 0.0) for _ in range(rng.randint(0, 2))]])
    # chained filters (and time slices of Tracks): the second operation runs on the RESULT of the first
    sel = [st for st in steps if st[0] in ('int', 'contains', 'contained_by', 'dt', 'iv', 'prop')]
    chains = []
    for _ in range(4):
        a, b = rng.choice(sel), rng.choice(sel)
        if kind == 'TR' and rng.random() < 0.4:
            lo = rng.choice([None, rng.choice(ev) + rng.choice([0, 1])])
            hi = rng.choice([None, rng.choice(ev) + rng.choice([0, 1, H])])
            if rng.random() < 0.5:
                a = ['tslice', lo, hi]
            else:
                b = ['tslice', lo, hi]
        chains.append(['chain', a, b, rng.sample(READABLE, rng.randint(0, 3))])
    if kind == 'TR':
        for _ in range(2):
            chains.append(['tslice', rng.choice([None, rng.choice(ev)]), rng.choice([None, rng.choice(ev) + rng.choice([1, H])])])
    steps += chains
    # derived (cached) attributes read on the SOURCE before / between the operations, in a seeded mix
    pre = rng.sample(READABLE, rng.randint(1, 5)) if rng.random() < 0.7 else []
    for _ in range(rng.randint(0, 2)):
        steps.insert(rng.randint(0, len(steps)), ['read', rng.sample(READABLE, rng.randint(1, 3))])
    if rng.random() < 0.5:       # interleave: move the chains / slices to seeded positions among the other steps
        for c in chains:
            steps.remove(c)
            steps.insert(rng.randint(0, len(steps)), c)
    return {'kind': kind, 'shapes': shapes, 'steps': steps, 'pre': pre}


# ---- H. members that hash alike without being equal --------------------------------------
# Mechanism class: a filter (or anything it is built on) that identifies members by hash(x), by a
# set/dict of members, or by == instead of visiting each member: memoised predicates, de-duplication,
# "seen" sets, result lookups by key.  The library's hashes ignore holes and vertex ORDER, and
# CPython's numeric hash identifies -1 with -2 and x with x * 2**-61, so unequal members with one
# hash are easy to meet.  Each case holds one group of such members - or, as a control, of members
# that ARE equal: 0.0 / -0.0 ordinates, one instant in two time zones, different properties only -
# adjacent or apart among other shapes, in every order of the group, and queries placed where the
# group's per-shape verdicts differ (inside one member's hole, in the region two vertex orders
# disagree on, around the ordinate that differs).  Results are compared member by member, by
# IDENTITY (ids are positions of the constructed objects), with the plain per-shape scan.
def _holes_group(rng):
    cx, cy = rng.randint(-3, 3), rng.randint(-3, 3)
    k = rng.choice(['box', 'box', 'rect', 'ell', 'circle', 'ellipse', 'ring'])
    if k in ('box', 'rect', 'ell'):
        r = rng.choice([4, 8])
        x0, y0, x1 = cx - r, cy - r, cx + r
        base = {'box': {'k': 'box', 'g': [x0, y0, x1, cy + r]},
                'rect': {'k': 'poly', 'g': [[x0, y0], [x1, y0], [x1, cy + r], [x0, cy + r]]},
                'ell': {'k': 'poly', 'g': [[x0, y0], [x1, y0], [x1, cy], [cx, cy], [cx, cy + r], [x0, cy + r]]}}[k]
        h1, h2 = [x0 + 1, y0 + 1, x0 + 3, y0 + 3], [x1 - 3, y0 + 1, x1 - 1, y0 + 3]      # SW and SE corners
    else:
        base = {'circle': {'k': 'circle', 'g': [cx, cy, 500_000]},
                'ellipse': {'k': 'ellipse', 'g': [cx, cy, 600_000, 400_000, rng.choice([0, 30])]},
                'ring': {'k': 'ring', 'g': [cx, cy, 60_000, 500_000]}}[k]
        h1, h2 = [cx - 2, cy - 1, cx - 1, cy], [cx + 1, cy, cx + 2, cy + 1]
    def hole(b, as_poly):
        if as_poly:
            return {'k': 'poly', 'g': [[b[0], b[1]], [b[2], b[1]], [b[2], b[3]], [b[0], b[3]]], 'dt': None}
        return {'k': 'box', 'g': b, 'dt': None}
    tri1 = {'k': 'poly', 'g': [[h1[0], h1[1]], [h1[2], h1[1]], [h1[0], h1[3]]], 'dt': None}
    sets = [[], [hole(h1, False)], [hole(h2, False)], [hole(h1, False), hole(h2, False)], [hole(h2, False), hole(h1, False)],
            [hole(h1, True)], [tri1]]
    variants = [dict(base, holes=hs) for hs in rng.sample(sets, rng.choice([2, 2, 3, 4]))]
    mid = lambda b: [(b[0] + b[2]) / 2, (b[1] + b[3]) / 2]
    qs = [{'k': 'pt', 'g': mid(h1)}, {'k': 'pt', 'g': mid(h2)}, {'k': 'pt', 'g': [h1[0] + 1.5, h1[1] + 1.5]},
          {'k': 'box', 'g': [h1[0] + 0.5, h1[1] + 0.5, h1[2] - 0.5, h1[3] - 0.5]},
          {'k': 'box', 'g': [h2[0] + 0.5, h2[1] + 0.5, h2[2] + 0.5, h2[3] + 0.5]},
          {'k': 'box', 'g': [cx - 20, cy - 20, cx + 20, cy + 20]}, {'k': 'pt', 'g': [cx - 0.5, cy - 0.5]}]
    return 'holes:' + k, variants, qs


def _order_group(rng):
    cx, cy, r = rng.randint(-3, 3), rng.randint(-3, 3), rng.choice([2, 4])
    sq = [[cx - r, cy - r], [cx + r, cy - r], [cx + r, cy + r], [cx - r, cy + r]]
    p = [cx + rng.choice([-1, 0, 1]), cy + rng.choice([-1, 0, 1])]
    dents = [sq[:i + 1] + [p] + sq[i + 1:] for i in range(4)]         # the dent on each side: four unequal simple polygons
    rings = list(dents)
    rot = rng.randint(1, 4)
    rings.append(dents[0][rot:] + dents[0][:rot])                     # equal to dents[0] (rotation) - control
    rings.append(list(reversed(dents[1])))                            # equal to dents[1] (reversal) - control
    rings.append([sq[0], sq[2], sq[1], p, sq[3]])                     # a self-crossing order of the same vertices
    variants = [{'k': 'poly', 'g': g} for g in rng.sample(rings, rng.choice([2, 2, 3, 4]))]
    qs = []
    for i in range(4):
        a, b = sq[i], sq[(i + 1) % 4]
        c = [(a[0] + b[0] + p[0]) / 3, (a[1] + b[1] + p[1]) / 3]     # inside the triangle that dent i removes
        qs.append({'k': 'pt', 'g': c})
        qs.append({'k': 'box', 'g': [c[0] - 0.125, c[1] - 0.125, c[0] + 0.125, c[1] + 0.125]})
    qs.append({'k': 'box', 'g': [cx - 10, cy - 10, cx + 10, cy + 10]})
    return 'vertex-order', variants, rng.sample(qs, 5)


def _flat(g):
    return [v for e in g for v in (e if isinstance(e, list) else [e])]


def _subst(g, pos, val):
    """the geometry with its pos-th ordinate (in _flat order) replaced"""
    out, n = [], 0
    for e in g:
        if isinstance(e, list):
            out.append([val if n + j == pos else v for j, v in enumerate(e)])
            n += len(e)
        else:
            out.append(val if n == pos else e)
            n += 1
    return out


def _valid(k, g):
    if k == 'box':
        return g[0] < g[2] and g[1] < g[3]
    if k in ('poly', 'line'):
        return len({tuple(v) for v in g}) == len(g)
    return True


def _ordinate_group(rng, twins):
    """members differing in single ordinates a <-> twins(a): hash-equal numbers"""
    while True:
        k, g = gen_geom(rng)
        if rng.random() < 0.15:
            k, g = 'circle', [rng.randint(-3, 3), rng.randint(-3, 3), 300_000]
        elif k == 'pt' and rng.random() < 0.3:
            g = g + [rng.choice([-1, -2, 1, 5])]                      # a z ordinate (hashed, compared, not used spatially)
        npos = 2 if k == 'circle' else len(_flat(g))
        cand = [(i, t) for i in range(npos) for t in twins(_flat(g)[i])]
        if cand:
            break
    variants, seen = [{'k': k, 'g': g}], {json.dumps(g)}
    for _ in range(rng.choice([1, 1, 2, 3])):
        g2 = g
        for i, t in rng.sample(cand, rng.randint(1, min(2, len(cand)))):
            g2 = _subst(g2, i, t)
        if _valid(k, g2) and json.dumps(g2) not in seen:
            seen.add(json.dumps(g2))
            variants.append({'k': k, 'g': g2})
    qs = []
    for v in variants:                                               # around each ordinate pair (x, y) of each variant
        f = _flat(v['g'])
        pairs = [f[:2]] if k in ('pt', 'circle') else [[f[0], f[1]], [f[2], f[3]], [f[0], f[3]], [f[2], f[1]]] if k == 'box' else v['g']
        for x, y in pairs:
            qs.append({'k': 'pt', 'g': [x, y]})
            qs.append({'k': 'box', 'g': [x - 0.25, y - 0.25, x + 0.25, y + 0.25]})
            qs.append({'k': 'box', 'g': [x - 0.5, y - 0.5, x + 8, y + 8]})
    return variants, rng.sample(qs, min(6, len(qs)))


def _neg12_group(rng):
    v, q = _ordinate_group(rng, lambda a: {-1: [-2], -2: [-1]}.get(a, []))
    return 'minus-one/minus-two', v, q


def _pow61_group(rng):
    v, q = _ordinate_group(rng, lambda a: [a * 2.0 ** -61] if a not in (0, -1) else [])
    return 'x/x*2^-61', v, q


def _zero_group(rng):                     # control: 0.0 == -0.0, the members are equal
    v, q = _ordinate_group(rng, lambda a: [-0.0] if a == 0 else [])
    return 'zero/minus-zero (equal)', v, q


def _props_group(rng):                    # control: equal members, different properties / time zone of the same instant
    k, g = gen_geom(rng)
    variants = [{'k': k, 'g': g} for _ in range(rng.choice([2, 3]))]
    f = _flat(g)
    qs = [{'k': 'pt', 'g': f[:2]}, {'k': 'box', 'g': [f[0] - 0.5, f[1] - 0.5, f[0] + 0.5, f[1] + 0.5]},
          {'k': 'box', 'g': [f[0] - 9, f[1] - 9, f[0] + 9, f[1] + 9]}, {'k': 'pt', 'g': [f[0] + 50, f[1]]}]
    return 'properties/zone only (equal)', variants, qs


GROUPS = [_holes_group, _holes_group, _order_group, _order_group, _neg12_group, _neg12_group, _pow61_group,
          _zero_group, _props_group]


def gen_collision_cases(rng):
    """-> list of specs: one group, one arrangement, every order of the group (<= 6 orders)"""
    name, variants, queries = rng.choice(GROUPS)(rng)
    kind = rng.choice(['FC', 'FC', 'TR'])
    dt = gen_dt(rng, 0.4 if kind == 'FC' else 0.0)
    if name.startswith('properties') and dt is None and rng.random() < 0.5:
        dt = [H, H]
    group = []
    for v in variants:
        props = {'color': rng.choice(['red', 'blue']), 'n': rng.randint(0, 5)}
        group.append(dict(v, dt=dt, props=props, sty=rng.choice(['utc', 'utc', 120, -330]) if dt else 'utc', bare=False))
    nfill = rng.randint(0, 4)
    fill = [gen_shape(rng, 0.35 if kind == 'FC' else 0.0) for _ in range(nfill)]
    for f in fill:
        if rng.random() < 0.5:
            f['dt'], f['bare'] = dt, False          # shares the group's time bounds (a Track keeps it between the group's members)
    apart = rng.random() < 0.5
    steps = []
    for q in queries:
        u = rng.random()
        qdt = None if u < 0.6 or dt is None else dt if u < 0.85 else [dt[1] + H, dt[1] + 2 * H]
        q = dict(q, dt=qdt, props={})
        for f in ('int', 'contains', 'contained_by'):
            steps.append([f, q])
    sel = list(steps)
    for _ in range(3):
        steps.append(['chain', rng.choice(sel), rng.choice(sel), rng.sample(READABLE, rng.randint(0, 2))])
    steps.append(['len'])
    perms = list(itertools.permutations(range(len(group))))
    if len(perms) > 6:
        perms = [perms[0], perms[-1]] + rng.sample(perms[1:-1], 4)
    out = []
    for pm in perms:
        g = [group[i] for i in pm]
        if apart and fill:
            shapes = []
            for i, m in enumerate(g):
                shapes.append(m)
                shapes += fill[i::len(g)] if i < len(g) - 1 else []
            shapes += [f for f in fill if not any(f is x for x in shapes)]
        else:
            cut = rng.randint(0, nfill)
            shapes = fill[:cut] + g + fill[cut:]
        out.append({'kind': kind, 'shapes': shapes, 'steps': steps, 'pre': [], 'group': name,
                    'arrangement': 'apart' if apart and fill else 'adjacent'})
    return out


# ---- R. read-then-derive histories ----------------------------------------------------------
# Mechanism class: a derived collection (the result of any of the five filters, of +, copy(), a Track time slice,
# and results of results) that is not built from its own members alone but carries over state of the collection it
# was derived from - a shallow / deep copy of the parent (its __dict__ holds every cached_property already read),
# a shared cache keyed by something both have in common, a constructor shortcut that skips validation / sorting,
# caches pre-filled "because the parent knew them".  Such state only exists if the parent was OBSERVED before the
# derivation, and only shows if the derivation changes the observation.  So each collection is a tight core of
# members plus 1-3 far OUTLIERS that alone define its extent (bounds, geospan, hull) and are separable from the core
# by every kind of filter (position, time, properties `zone` / `tag`); on it run 4-8 chains of 1-3 derivations, a
# seeded subset of the observations (bounds, geospan, convex_hull, len, centroid; for Tracks also centroid_distances,
# time_start_diffs, has_duplicate_timestamps, speed_diffs, first, last, start, end) being read on each collection just
# BEFORE it is derived from (or none, as control; the first chains meet a source nobody read yet).  Queries: a box
# around the core, a box around one core member, a half plane keeping some outliers, a point in a core member, the
# core's time window, instants, property predicates, and + with near / far shapes (the result is LARGER than a parent
# whose bounds were read), copy().  Every result at every level: exactly the per-shape selection by identity, FRes
# (Coq: bounds = coll_bounds of its members), and EVERY observation equal to that of a freshly constructed collection
# of the same members - once right away (or not, seeded) and again after it was derived from in turn; the source is
# compared with a fresh twin at the end.
def gen_history_case(rng):
    kind = rng.choice(['FC', 'TR'])
    names = HREAD_TR if kind == 'TR' else HREAD_FC
    cx, cy = rng.randint(-3, 3), rng.randint(-3, 3)

    def small(x, y, zone, dt):
        k = rng.choice(['pt', 'box', 'box', 'poly', 'line'])
        r = rng.choice([1, 2])
        g = {'pt': [x, y], 'box': [x - r, y - r, x + r, y + r], 'poly': [[x - r, y - r], [x + r, y - r], [x, y + r]],
             'line': [[x - r, y - r], [x + r, y + r]]}[k]
        return {'k': k, 'g': g, 'dt': dt, 'sty': rng.choice(['utc', 'utc', 120]), 'bare': False,
                'props': {'zone': zone, 'tag': rng.randint(0, 3), 'color': rng.choice(['red', 'blue']), 'n': rng.randint(0, 5)}}

    def core_dt():
        if kind == 'FC' and rng.random() < 0.2:
            return None
        a = rng.randint(0, 3) * H
        return [a, a] if rng.random() < 0.5 else [a, a + rng.choice([1, 2]) * H // 2]

    def far_pos():
        while True:
            sx, sy = rng.choice([-1, 0, 1]), rng.choice([-1, 0, 1])
            if sx or sy:
                return cx + sx * rng.randint(20, 60) + (0 if sx else rng.randint(-2, 2)), cy + sy * rng.randint(15, 40) + (0 if sy else rng.randint(-2, 2))

    core = [small(cx + rng.randint(-2, 2), cy + rng.randint(-2, 2), 'core', core_dt()) for _ in range(rng.randint(2, 6))]
    outl = []
    for _ in range(rng.choice([1, 1, 2, 3])):
        u = rng.random()
        dt = core_dt() if u < 0.35 else [rng.randint(10, 14) * H] * 2
        outl.append(small(*far_pos(), rng.choice(['far', 'far', 'core']), dt))
    shapes = core + outl
    rng.shuffle(shapes)

    def q(k, g):
        return {'k': k, 'g': g, 'dt': None, 'props': {}}
    m = rng.choice(core)
    mf = _flat(m['g'])
    big = q('box', [cx - 12, cy - 12, cx + 12, cy + 12])
    near = q('box', [mf[0] - 3, mf[1] - 3, mf[0] + 3, mf[1] + 3])
    half = q('box', rng.choice([[cx - 70, cy - 50, cx, cy + 50], [cx, cy - 50, cx + 70, cy + 50], [cx - 70, cy, cx + 70, cy + 50]]))
    spot = q('pt', [mf[0], mf[1]] if m['k'] != 'pt' and rng.random() < 0.5 else [cx, cy])
    ev = sorted({t for s_ in core if s_['dt'] for t in s_['dt']}) or [0]

    def op():
        u = rng.random()
        if u < 0.40:
            return [rng.choice(['int', 'int', 'contained_by', 'contained_by', 'contains']), rng.choice([big, big, near, half, spot, spot])]
        if u < 0.55:
            a, b = sorted((rng.choice([0, 0, rng.choice(ev)]), rng.choice([4 * H, rng.choice(ev) + H, rng.choice(ev)])))
            return ['iv', a, b, rng.choice(['utc', 'naive'])] if rng.random() < 0.7 else ['dt', rng.choice(ev), rng.choice(['utc', 120])]
        if u < 0.78:
            return ['prop', rng.choice(['zone_core', 'zone_core', 'zone_not_far', 'tag_low', 'tag_odd', 'color_red', 'n_gt2'])]
        if u < 0.86 and kind == 'TR':
            return ['tslice', rng.choice([None, None, rng.choice(ev)]), rng.choice([5 * H, rng.choice(ev) + H, None])]
        if u < 0.95:
            more = [small(*(far_pos() if rng.random() < 0.6 else (cx + rng.randint(-2, 2), cy + rng.randint(-2, 2))), 'more',
                          core_dt() or [0, 0] if kind == 'TR' else core_dt()) for _ in range(rng.randint(0, 2))]
            return ['add', kind, more, reads()]
        return ['copy']

    def reads():
        if rng.random() < 0.2:
            return []
        r = rng.sample(names, rng.randint(1, 4))
        if rng.random() < 0.8 and not set(r) & set(EXTENT_READS):
            r.append(rng.choice(EXTENT_READS))
        return r

    steps = []
    for _ in range(rng.randint(4, 8)):
        steps.append(['hist', [[reads(), op(), rng.random() < 0.6] for _ in range(rng.choice([1, 2, 2, 3]))], reads()])
    steps.insert(rng.randint(0, len(steps)), ['len'])
    return {'kind': kind, 'shapes': shapes, 'steps': steps, 'pre': reads() if rng.random() < 0.5 else [], 'family': 'history'}


# ---- W. curved shapes whose .bounds do not enclose them -------------------------------------
# Mechanism class: a filter that decides (or pre-selects, indexes, sorts, prunes) from a SUMMARY of the shapes -
# .bounds boxes, centroids, a grid / R-tree keyed on them, "nearby" tests - instead of asking the per-shape predicate
# for every member.  Such a shortcut is only as good as the summary, and the library's bounds of circles, ellipses and
# rings (two corner points at bearings 315 / 135) are not enclosing boxes: (a) when the shape reaches across the 180th
# meridian they come out with min_lon > max_lon, so every plain range comparison fails; (b) away from the equator the
# corner points fall short of the poleward extent by about r^2 tan(lat) / 2R (1.4 km for 100 km at 60 N), so a cap of
# the shape lies outside its own bounds.  Each case holds 1-3 such shapes (circle / ellipse / ring; 5-80 km across the
# meridian at |lat| <= 60, 50-300 km at |lat| 55-80, or both) together with probes placed from the shape's own
# geometry: points, small boxes, small circles and short lines on BOTH sides of the meridian at 0.2-1.5 radii, in the
# poleward cap between the corner-derived bound and the true extent, just short of the bound and just beyond the cap.
# The curved shapes and the probes serve both as members and as queries of all three spatial filters (and chains);
# results are compared by identity with the plain per-shape scan x.intersects(q) / x.contains(q) / q.contains(x).
def _wrap_lon(x):
    return round((x + 180.0) % 360.0 - 180.0, 6)


def gen_curved_case(rng):
    import math
    M = 111_195.0
    kind = rng.choice(['FC', 'FC', 'TR'])
    mode = rng.choice(['dateline', 'polar', 'polar', 'polar-dateline'])
    pole = rng.choice([-1, 1])
    if mode == 'dateline':
        lat0, r = round(rng.uniform(-60, 60), 3), float(rng.choice([5, 10, 20, 40, 80])) * 1000
    else:
        lat0, r = round(pole * rng.uniform(55, 80), 3), float(rng.randint(50, 300)) * 1000
    if lat0 < 0:
        pole = -1
    elif lat0 > 0:
        pole = 1
    mlon = M * math.cos(math.radians(lat0))                       # metres per degree of longitude at the centre
    if mode == 'polar':
        lon0 = round(rng.uniform(-170, 170), 3)
    else:
        lon0 = _wrap_lon(rng.choice([-1, 1]) * 180.0 + rng.choice([-1, 1]) * rng.uniform(0.02, 0.9) * r / mlon)
    nodt = 0.4 if kind == 'FC' else 0.0

    def curved(k, x, y, rr):
        if k == 'circle':
            return {'k': k, 'g': [x, y, rr]}
        if k == 'ellipse':
            return {'k': k, 'g': [x, y, rr, round(rr * rng.uniform(0.3, 0.9)), rng.choice([0, 30, 90, 135])]}
        return {'k': 'ring', 'g': [x, y, round(rr * rng.uniform(0.05, 0.5)), rr]}

    big = curved(rng.choice(['circle', 'circle', 'ellipse', 'ring']), lon0, lat0, r)
    curves = [big]
    if rng.random() < 0.6:        # a second one, shifted by a fraction of the radius (overlapping the first)
        curves.append(curved(rng.choice(['circle', 'ellipse', 'ring']), _wrap_lon(lon0 + rng.uniform(-0.8, 0.8) * r / mlon),
                             round(lat0 + rng.uniform(-0.5, 0.5) * r / M, 4), round(r * rng.uniform(0.4, 1.0))))
    if rng.random() < 0.4:        # a control that stays clear of the meridian / is small
        curves.append(curved('circle', _wrap_lon(lon0 + rng.choice([-1, 1]) * 3 * r / mlon), lat0, 2000.0))
    b = build(dict(big, dt=None)).bounds
    edge = b[3] if pole > 0 else b[1]                             # the corner-derived poleward bound
    top = lat0 + pole * r / M                                     # the poleward extent of a circle / ring of radius r
    capw = max(abs(top - edge), 1e-4)
    spots = []                                                    # (lon, lat) placed from the geometry
    for f in (0.2, 0.6, 0.95, 1.1, 1.5):
        for sgn in (-1, 1):
            spots.append((_wrap_lon(lon0 + sgn * f * r / mlon), lat0))
    for f in (-2.0, -0.3, 0.15, 0.5, 0.85, 1.3, 3.0):
        spots.append((_wrap_lon(lon0 + rng.uniform(-0.02, 0.02) * r / mlon), round(edge + pole * f * capw, 6)))
    for _ in range(3):
        a = rng.uniform(0, 2 * math.pi)
        f = rng.choice([0.3, 0.9, 0.99, 1.05])
        spots.append((_wrap_lon(lon0 + f * r * math.sin(a) / mlon), round(lat0 + f * r * math.cos(a) / M, 6)))

    def probe(x, y):
        k = rng.choice(['pt', 'pt', 'pt', 'box', 'circle', 'line'])
        if k == 'pt':
            return {'k': k, 'g': [x, y]}
        if k == 'box':
            w, h = min(0.05, abs(180 - abs(x)) / 2 or 0.01), 0.3 * capw
            if abs(x) + w >= 180:
                return {'k': 'pt', 'g': [x, y]}
            return {'k': k, 'g': [round(x - w, 6), round(y - h, 6), round(x + w, 6), round(y + h, 6)]}
        if k == 'circle':
            return {'k': k, 'g': [x, y, float(rng.choice([200, 1000, 3000]))]}
        x2 = _wrap_lon(x + rng.uniform(-0.5, 0.5) * r / mlon)
        if abs(x2 - x) > 180:                                     # a line is drawn the short way only if it stays on one side
            x2 = x
        return {'k': k, 'g': [[x, y], [x2, round(y + pole * rng.uniform(0.5, 3) * capw, 6)]]}

    def dress(g, p_none):
        return dict(g, dt=gen_dt(rng, p_none), props={'color': rng.choice(['red', 'blue']), 'n': rng.randint(0, 5)},
                    sty=rng.choice(['utc', 'utc', 120]), bare=False)

    probes = [probe(x, y) for x, y in spots]
    members = [dress(g, nodt) for g in rng.sample(probes, rng.randint(4, 9))] + [dress(c, nodt) for c in curves]
    rng.shuffle(members)
    steps = []
    for g in curves + rng.sample(probes, 5):
        u = rng.random()
        q = dict(g, dt=None if u < 0.7 else gen_dt(rng, 0.0), props={})
        for f in ('int', 'contains', 'contained_by'):
            steps.append([f, q])
    sel = list(steps)
    for _ in range(2):
        steps.append(['chain', rng.choice(sel), rng.choice(sel), rng.sample(READABLE, rng.randint(0, 2))])
    steps.append(['len'])
    return {'kind': kind, 'shapes': members, 'steps': steps, 'pre': rng.sample(READABLE, rng.randint(0, 2)), 'family': 'curved:' + mode}


def apply_filter(c, st):
    k = st[0]
    if k in ('int', 'contains', 'contained_by'):
        q = build(st[1])
        return {'int': c.filter_by_intersection, 'contains': c.filter_contains, 'contained_by': c.filter_contained_by}[k](q)
    if k == 'dt':
        return c.filter_by_dt(to_dt(st[1], st[2]))
    return c.filter_by_dt(TimeInterval(to_dt(st[1], st[3]), to_dt(st[2], st[3])))


def filter_laws(rng, spec):
    """the theorems of Props/C18b.v on the implementation: members are identified by their position in the source
    (results hold the same objects), so the laws are judged on id lists.  Returns the first failing law (text) or None"""
    cls = Track if spec['kind'] == 'TR' else FeatureCollection
    src = guarded(lambda: cls([build(sh) for sh in spec['shapes']]))
    if src[0] != 'Ok':
        return None
    src = src[1]
    sel = [st for st in spec['steps'] if st[0] in ('int', 'contains', 'contained_by', 'dt', 'iv')]
    if len(sel) < 2:
        return None
    ids = lambda c: [id(x) for x in c.geoshapes]      # noqa: E731
    pos = {id(x): i for i, x in enumerate(src.geoshapes)}
    for _ in range(3):
        f, g = rng.choice(sel), rng.choice(sel)
        r = guarded(lambda: (apply_filter(src, f), apply_filter(src, g)))
        if r[0] != 'Ok':
            continue                          # a raising filter is judged by the main family
        pf, pg = r[1]
        r2 = guarded(lambda: (apply_filter(pf, g), apply_filter(pg, f), apply_filter(pf, f)))
        if r2[0] != 'Ok':
            return f'a filter that answers on the collection raised on a filter result: {r2[1]} (filters {f[0]}, {g[0]})'
        fg, gf, ff = r2[1]
        if ids(fg) != ids(gf):
            return f'C18_filter_commute: {f[0]} then {g[0]} keeps positions {[pos.get(i) for i in ids(fg)]}, the other order {[pos.get(i) for i in ids(gf)]}'
        if ids(fg) != [i for i in ids(pf) if i in set(ids(pg))]:
            return f'C18_filter_compose: {f[0]} then {g[0]} is not the members passing both'
        if ids(ff) != ids(pf):
            return f'C18_filter_idem: {f[0]} applied to its own result changes it'
        if len(pf.geoshapes) > len(src.geoshapes) or [pos.get(i) for i in ids(pf)] != sorted(pos.get(i, -1) for i in ids(pf)):
            return f'C18_filter_length / order: {f[0]}'
        if type(fg) is not type(src):
            return 'C18_filter_kind on a chained result'
        if f[0] == 'contains' and g[0] == 'int' and f[1] is g[1]:
            inter = set(ids(pg))
            per = [guarded(lambda x=x: (x.contains(build(f[1])), x.intersects(build(f[1])))) for x in src.geoshapes]
            if all(p[0] == 'Ok' and (not p[1][0] or p[1][1]) for p in per) and any(i not in inter for i in ids(pf)):
                return 'C18_filter_mono: a member kept by filter_contains is dropped by filter_by_intersection although containment implies intersection member-wise'
    return None


def main():
    ck = Check('C18')
    ck.build_theories(['theories/Props/C18.vo', 'theories/Props/C18b.vo', 'theories/Corr/FilterK.vo'])
    rep = gen_coll.main(REPO, os.path.join(ck.rundir, 'CollGen.v'))      # the filters regenerated from collections.py ...
    ck.gen('CollGen.v', rep, 'CollGenEq.v')                              # ... proved equal to FilterM for all arguments
    ck.props('Props/C18.v')
    ck.props('Props/C18b.v')     # filter algebra: composition = conjunction, commutation, idempotence, monotonicity, partition
    rng = ck.rng
    quick = ck.tier == 'quick'
    cases, meta, failing = [], [], {}
    tot = {'steps': 0, 'skipped': 0, 'asym': 0, 'proper': 0, 'results': 0, 'shrunk': 0, 'hulls': 0,
           'coll_pairs': 0, 'coll_eq_pairs': 0, 'coll_split': 0, 'coll_split_first_true': 0,
           'hist_results': 0, 'hist_deep': 0, 'hist_cut_after_read': 0, 'hist_grown_after_read': 0, 'hist_cut_unread': 0, 'hist_full': 0,
           'true_apart': 0, 'true_apart_wrap': 0}
    for _ in range(600 if quick else 12000):
        spec = gen_case(rng)
        lit, m, fails, stats = run_case(spec)
        cases.append(lit)
        meta.append(m)
        if fails:
            failing[len(cases) - 1] = fails
        for k in tot:
            tot[k] += stats[k]
        ck.count(spec['kind'] + (':rejected' if m['first'][0] != 'Ok' else ''))
        for c in stats['classes']:
            ck.count('op:' + c)
    # L. filter algebra (Props/C18b.v) on the implementation, chained on library-returned collections
    n_laws, law_bad = 0, []
    for _ in range(250 if quick else 5000):
        spec = gen_case(rng)
        why = guarded(lambda: filter_laws(rng, spec))
        n_laws += 1
        if why[0] == 'Ok' and why[1]:
            law_bad.append((spec, why[1]))
    for spec, why in law_bad[:3]:
        ck.violation({'kind': 'property-fails-on-implementation', 'case': {'k': 'filter-laws', 'kind': spec['kind'], 'shapes': spec['shapes']},
                      'detail': why, 'theorems': 'Props/C18b.v'})
    ck.cov['filter_law_cases'] = n_laws
    # H. hash-colliding members (see gen_collision_cases)
    for _ in range(150 if quick else 800):
        for spec in gen_collision_cases(rng):
            lit, m, fails, stats = run_case(spec)
            cases.append(lit)
            meta.append(m)
            if fails:
                failing[len(cases) - 1] = fails
            for k in tot:
                tot[k] += stats[k]
            ck.count('collide:' + spec['group'] + '/' + spec['arrangement'])
            if stats['coll_split']:
                ck.count('collide-with-differing-verdicts:' + spec['group'])
            for c in stats['classes']:
                ck.count('op:' + c)
    # R. read-then-derive histories (see gen_history_case)
    for _ in range(250 if quick else 3000):
        spec = gen_history_case(rng)
        lit, m, fails, stats = run_case(spec)
        cases.append(lit)
        meta.append(m)
        if fails:
            failing[len(cases) - 1] = fails
        for k in tot:
            tot[k] += stats[k]
        ck.count('history:' + spec['kind'])
        for c in stats['classes']:
            ck.count('op:' + c)
    # W. curved shapes across the 180th meridian / large at high latitude (see gen_curved_case)
    for _ in range(120 if quick else 1500):
        spec = gen_curved_case(rng)
        lit, m, fails, stats = run_case(spec)
        cases.append(lit)
        meta.append(m)
        if fails:
            failing[len(cases) - 1] = fails
        for k in tot:
            tot[k] += stats[k]
        ck.count(spec['family'] + ':' + spec['kind'])
        for c in stats['classes']:
            ck.count('op:' + c)
    ck.cov['intersecting_member/query_pairs_whose_.bounds_boxes_read_as_plain_ranges_are_apart'] = tot['true_apart']
    ck.cov['of_which_one_of_the_two_bounds_wraps_the_180th_meridian'] = tot['true_apart_wrap']
    ck.cov['history_results_(every_level_of_every_chain)'] = tot['hist_results']
    ck.cov['history_results_derived_from_a_result'] = tot['hist_deep']
    ck.cov['history_results_SMALLER_in_extent_than_a_parent_whose_bounds/geospan/hull_were_read_before'] = tot['hist_cut_after_read']
    ck.cov['history_results_not_inside_the_extent_of_a_parent_whose_bounds/geospan/hull_were_read_before'] = tot['hist_grown_after_read']
    ck.cov['history_results_with_another_extent_than_a_parent_not_read_before'] = tot['hist_cut_unread']
    ck.cov['full_observation_comparisons_with_a_fresh_collection_of_the_same_members'] = tot['hist_full']
    ck.cov['evaluations'] = tot['steps'] + tot['results'] + len(cases)
    ck.cov['pairs_of_unequal_members_with_one_hash'] = tot['coll_pairs']
    ck.cov['pairs_of_equal_members'] = tot['coll_eq_pairs']
    ck.cov['filter_calls_x_such_pairs_with_DIFFERENT_per_shape_verdicts'] = tot['coll_split']
    ck.cov['of_which_the_earlier_member_is_the_selected_one'] = tot['coll_split_first_true']
    ck.cov['collections'] = len(cases)
    ck.cov['distinct_nontrivial'] = tot['proper']
    ck.cov['asymmetric_containment_pairs'] = tot['asym']
    ck.cov['results_whose_derived_attributes_were_read'] = tot['results']
    # collections with CURVED members (fixed corpus, implementation side): `bounds` is the union of the members' bounds
    # whatever was read from the same collection before (convex_hull first, geospan first, bounds twice)
    from geostructures import GeoCircle, GeoEllipse, GeoRing
    curved_sets = [
        lambda: [GeoCircle(Coordinate(10.0, 50.0), 40000, dt=to_dt(0, 'utc')), GeoBox(Coordinate(9.9, 50.1), Coordinate(10.1, 49.9), dt=to_dt(H, 'utc'))],
        lambda: [GeoEllipse(Coordinate(-20.0, -35.0), 60000, 20000, 30, dt=to_dt(0, 'utc')), GeoPoint(Coordinate(-20.0, -35.0), dt=to_dt(2 * H, 'utc')),
                 GeoRing(Coordinate(-19.0, -35.5), 5000, 30000, dt=to_dt(H, 'utc'))],
        lambda: [GeoCircle(Coordinate(0.0, 0.0), 1000, dt=to_dt(0, 'utc'))],
    ]
    curved_n = 0
    for mk in curved_sets:
        for cls in (FeatureCollection, Track):
            for hist in (['bounds'], ['convex_hull', 'bounds'], ['geospan', 'convex_hull', 'bounds'], ['bounds', 'convex_hull', 'bounds'], ['centroid', 'convex_hull', 'geospan', 'bounds']):
                coll = cls(mk())
                bs = [x.bounds for x in mk()]
                want = (min(b[0] for b in bs), min(b[1] for b in bs), max(b[2] for b in bs), max(b[3] for b in bs))
                got = None
                for a in hist:
                    got = guarded(lambda: getattr(coll, a))
                curved_n += 1
                if got != ('Ok', want):
                    ck.violation({'kind': 'property-fails-on-implementation',
                                  'case': {'collection': cls.__name__, 'members': [repr(x) for x in mk()], 'reads_in_order': hist,
                                           'bounds': str(got), 'union_of_member_bounds': want},
                                  'detail': 'collection.bounds differs from the union of the members\' bounds', 'theorems': 'C18_coll_bounds_*'})
                    break
    ck.cov['curved_member_bounds_histories'] = curved_n
    ck.cov['results_with_bounds_different_from_the_source'] = tot['shrunk']
    ck.cov['result_hulls_checked'] = tot['hulls']
    ck.cov['collections_with_attributes_read_before_filtering'] = sum(1 for m in meta if m['spec'].get('pre'))
    ck.cov['queries_skipped_because_a_per_shape_call_raised'] = tot['skipped']
    for i in (0, len(cases) // 2):
        ck.sample(cases[i][:1500])

    bad, broken = ck.corr('filter', 'From Coq Require Import QArith.\nFrom GV Require Import Prelude CollM FilterM FilterK.\nOpen Scope Z_scope.',
                          'check', cases, chunk=100)
    reported = 0
    for i in sorted(set(bad) | set(failing)):
        if reported >= 5:
            break
        rep = {'kind': 'property-fails-on-implementation' if i in failing else 'model-vs-implementation',
               'case': meta[i], 'gallina_case': cases[i][:20000],
               'theorems': 'C18_* (Props/C18.v): the model value on this input is the one the theorems pin to the per-shape predicate',
               'how_to_replay': 'bin/check C18 --replay <this file>'}
        if i in failing:
            rep['property_clauses_violated'] = [list(f) for f in failing[i][:10]]
        ck.violation(rep)
        reported += 1

    ck.finish(rule='seeded FeatureCollections and Tracks of 0..12 points/boxes/polygons/linestrings on an integer grid (nested sizes '
                   '1..8 around nearby centres so containment is frequent and asymmetric), dt none/instant/interval in mixed zones; '
                   'per collection: 3-6 query shapes (with/without dt) x the three spatial filters, instants and intervals at and '
                   'around event times, a non-datetime argument, 4 property predicates (present / partly missing / missing keys, '
                   'non-bool results), len/bool/iter, every boundary index, membership of a member / an equal copy / a fresh shape, '
                   '+ with the same and the other class, bounds and geospan; chained filters and Track time slices; bounds / convex_hull / '
                   'len / centroid / geospan read on the source before or between the operations in a seeded mix (or not at all), then on '
                   'collections holding a group of members with ONE hash that are unequal (same outline, different holes - boxes, polygons, '
                   'circles, ellipses, rings; one vertex set in different orders; ordinates -1 vs -2; x vs x*2^-61) or equal (0.0/-0.0, '
                   'same instant in two zones, properties only), adjacent or apart among other shapes, in every order of the group, '
                   'with queries on which the group\'s per-shape verdicts differ, the three spatial filters and chains of them, '
                   'compared by member identity; then READ-THEN-DERIVE histories (family R): collections made of a tight core and 1-3 far '
                   'outliers that alone define the extent, 4-8 chains of 1-3 derivations (the five filters with queries that cut the outliers / '
                   'part of the core / nothing, Track time slices, + with near and far shapes, copy()), a seeded subset of bounds / geospan / '
                   'convex_hull / len / centroid (Tracks: + centroid_distances, time_start_diffs, has_duplicate_timestamps, speed_diffs, first, '
                   'last, start, end) read on each collection just before it is derived from, every result at every level compared in ALL those '
                   'observations with a freshly constructed collection of the same members, right away and again after it was derived from; '
                   'then CURVED shapes whose .bounds do not enclose them (family W): circles / ellipses / rings reaching across the 180th meridian '
                   '(bounds with min_lon > max_lon) and 50-300 km ones at |lat| 55-80 (corner-derived bounds short of the poleward extent), with '
                   'points / small boxes / small circles / lines on both sides of the meridian, inside the poleward cap, just short of the bound and '
                   'just beyond the cap, each serving as member and as query of the three spatial filters and chains, by identity against the scan; '
                   'EVERY result (filter, +, slice, chained filter): bounds = coll_bounds of exactly its members (Coq, FRes), hull vertices '
                   'among its members\' vertices and containing all of them (exact integers), len/iter/bool; source re-read at the end. '
                   'evaluations = collections built + step results compared + results whose derived attributes were read. '
                   'non-trivial = filter results that are a non-empty proper subset of the members',
              assumptions=['the per-shape predicates are the implementation\'s own answers observed member by member (Section variables in the theorems)',
                           'datetime -> integer microseconds UTC is a faithful abstraction of Python datetime comparison/equality/hash',
                           'bounds are compared as exact rationals of the floats (integer grid: exact)',
                           'hull containment is relative to C10 (premise of C18_hull_contains_members)',
                           'a user function that raises, and cache staleness after mutation (C16), are not modelled'])


def replay(path):
    r = json.load(open(path))
    m = r.get('case')
    if not m or 'spec' not in m:
        print(json.dumps(r, indent=1))
        return
    lit, m2, fails, stats = run_case(m['spec'])
    print('implementation now: first =', m2['first'])
    for s in m2['steps']:
        print('  ', str(s['step'])[:100], '->', s['result'])
    print('property clauses violated now:', fails)
    print('gallina case:', lit[:5000])


if __name__ == '__main__':
    if '--replay' in sys.argv:
        replay(sys.argv[sys.argv.index('--replay') + 1])
    else:
        main()
