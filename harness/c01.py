#!/usr/bin/env python3
"""C01 - polygon and box point-membership is exact.  See DESIGN.md section 5 / C01.

Model coordinates = implementation coordinates * SCALE (2), so that every grid and half-grid
query is an integer point of the model; the model's ray ends at W = -180 * SCALE.
"""
import json
import logging
import re
import math
import os
import sys
from fractions import Fraction as F

sys.path.insert(0, os.path.dirname(os.path.abspath(__file__)))
from lib import Check, REPO, guarded, zlit, blit, listlit, qlit   # noqa: E402
import gen_geom   # noqa: E402  (tools/: translator tie for find_line_intersection / _point_in_polygon / contains_coordinate)

logging.disable(logging.CRITICAL)
from geostructures import GeoPolygon, GeoBox, Coordinate           # noqa: E402  (the implementation)
from geostructures._geometry import find_line_intersection        # noqa: E402

SCALE = 2
W = -180 * SCALE
IMPORTS = 'From Coq Require Import QArith.\nFrom GV Require Import Prelude GeomM GeomK.\nOpen Scope Z_scope.'


# ------------------------------------------------------------------ literals
def sc(v, scale=SCALE):
    """implementation value (int, float or Fraction, a multiple of 1/scale) -> model integer"""
    f = F(v) * scale
    assert f.denominator == 1, v
    return int(f)


def ptlit(p, scale=SCALE):
    return f'({zlit(sc(p[0], scale))}, {zlit(sc(p[1], scale))})'


def ringlit(r, scale=SCALE):
    return listlit([ptlit(p, scale) for p in r])


def holelit(h, scale=SCALE):
    if h[0] == 'poly':
        return f'HPoly {ringlit(h[2], scale)}'            # stored outline of the hole
    return f'HBox {ptlit(h[1], scale)} {ptlit(h[2], scale)}'


def boollist(bs):
    return listlit([blit(b) for b in bs])


def C(p):
    return Coordinate(float(p[0]), float(p[1]))


def hole_json(h):
    if h[0] == 'poly':
        return ['poly', [[str(x), str(y)] for x, y in h[1]], bool(h[2])]
    return ['box', [str(h[1][0]), str(h[1][1])], [str(h[2][0]), str(h[2][1])]]


def hole_unjson(j):
    if j[0] == 'poly':
        return ('poly', [(F(x), F(y)) for x, y in j[1]], j[2])
    return ('box', (F(j[1][0]), F(j[1][1])), (F(j[2][0]), F(j[2][1])))


def outline_of(poly):
    return [(F(c.longitude), F(c.latitude)) for c in poly.outline]


# ------------------------------------------------------------------ independent reference
def on_seg(p, a, b):
    cr = (b[0] - a[0]) * (p[1] - a[1]) - (b[1] - a[1]) * (p[0] - a[0])
    return cr == 0 and min(a[0], b[0]) <= p[0] <= max(a[0], b[0]) and min(a[1], b[1]) <= p[1] <= max(a[1], b[1])


def ref_ring(p, ring):
    """ring: open list of vertices. Returns 'boundary' | 'in' | 'out' (exact even-odd, ray cast EAST)"""
    n = len(ring)
    inside = False
    for i in range(n):
        a, b = ring[i], ring[(i + 1) % n]
        if on_seg(p, a, b):
            return 'boundary'
        if (a[1] > p[1]) != (b[1] > p[1]):
            x = F(a[0]) + F(p[1] - a[1]) * (b[0] - a[0]) / (b[1] - a[1])
            if x > p[0]:
                inside = not inside
    return 'in' if inside else 'out'


def ref_hole(p, h):
    if h[0] == 'poly':
        return ref_ring(p, h[1]) == 'in'           # a polygon hole excludes its strict interior
    nw, se = h[1], h[2]                            # a box hole excludes the closed box (faithful to GeoBox)
    return nw[0] <= p[0] <= se[0] and se[1] <= p[1] <= nw[1]


def ref_poly(p, ring, holes):
    return ref_ring(p, ring) == 'in' and not any(ref_hole(p, h) for h in holes)


def ref_box(p, nw, se, holes):
    return nw[0] <= p[0] <= se[0] and se[1] <= p[1] <= nw[1] and not any(ref_hole(p, h) for h in holes)


# ------------------------------------------------------------------ implementation drivers
def mk_hole(h):
    """h = ('poly', open_ring, is_hole_flag) | ('box', nw, se) -> (implementation object, model descr)"""
    if h[0] == 'poly':
        obj = GeoPolygon([C(v) for v in h[1]] + [C(h[1][0])], _is_hole=h[2])
        return obj, ('poly', h[1], outline_of(obj))
    return GeoBox(C(h[1]), C(h[2])), ('box', h[1], h[2])


def mk_poly(raw, holes):
    hs = [mk_hole(h) for h in holes]
    poly = GeoPolygon([C(v) for v in raw], holes=[o for o, _ in hs] or None)
    return poly, [m for _, m in hs]


def open_ring(r):
    return r[:-1] if len(r) > 1 and r[0] == r[-1] else r


def variant(ring, rot, rev, closed):
    r = ring[rot:] + ring[:rot]
    if rev:
        r = r[::-1]
    return r + [r[0]] if closed else r


def grid_points(xlo, xhi, ylo, yhi):
    """half-grid points, row-major, in implementation units"""
    return [(F(x, SCALE), F(y, SCALE)) for y in range(ylo * SCALE, yhi * SCALE + 1)
            for x in range(xlo * SCALE, xhi * SCALE + 1)]


def star(rng, n, R, lo=0):
    """random star-shaped simple polygon around (R,R) with integer vertices in [lo, 2R-lo]"""
    pts = set()
    while len(pts) < n:
        pts.add((rng.randint(lo, 2 * R - lo), rng.randint(lo, 2 * R - lo)))
    pts = sorted((p for p in pts if p != (R, R)), key=lambda p: math.atan2(p[1] - R, p[0] - R))
    out = []
    for p in pts:
        # keep one vertex per direction (exact test of equal direction)
        if out and (out[-1][0] - R) * (p[1] - R) == (out[-1][1] - R) * (p[0] - R) and \
                (out[-1][0] - R) * (p[0] - R) + (out[-1][1] - R) * (p[1] - R) > 0:
            continue
        out.append(p)
    if len(out) >= 2 and (out[-1][0] - R) * (out[0][1] - R) == (out[-1][1] - R) * (out[0][0] - R) and \
            (out[-1][0] - R) * (out[0][0] - R) + (out[-1][1] - R) * (out[0][1] - R) > 0:
        out.pop()
    return out


FIXED_RINGS = [
    ('diamond', [(0, 4), (4, 0), (8, 4), (4, 8)]),
    ('square', [(0, 0), (8, 0), (8, 8), (0, 8)]),
    ('square+collinear', [(0, 0), (8, 0), (8, 8), (0, 8), (0, 4)]),
    ('notch', [(0, 0), (8, 0), (8, 8), (4, 4), (0, 8)]),
    ('L', [(0, 0), (4, 0), (4, 4), (8, 4), (8, 8), (0, 8)]),
    ('U', [(0, 0), (8, 0), (8, 2), (2, 2), (2, 6), (8, 6), (8, 8), (0, 8)]),
    ('tri-flat', [(0, 0), (8, 0), (4, 8)]),
    ('tri-side', [(0, 0), (8, 4), (0, 8)]),
    ('tri-skew', [(1, 1), (7, 2), (3, 7)]),
    ('star4', [(4, 0), (5, 3), (8, 4), (5, 5), (4, 8), (3, 5), (0, 4), (3, 3)]),
    ('collinear-slant', [(0, 0), (4, 0), (8, 0), (6, 4), (4, 8), (2, 4)]),
    ('hexagon', [(2, 0), (6, 0), (8, 4), (6, 8), (2, 8), (0, 4)]),
    ('W', [(0, 0), (2, 4), (4, 0), (6, 4), (8, 0), (8, 8), (0, 8)]),
    ('M', [(0, 0), (8, 0), (8, 8), (6, 4), (4, 8), (2, 4), (0, 8)]),
    ('stairs', [(0, 0), (8, 0), (8, 2), (6, 2), (6, 4), (4, 4), (4, 6), (2, 6), (2, 8), (0, 8)]),
    ('arrow', [(0, 4), (4, 0), (4, 2), (8, 2), (8, 6), (4, 6), (4, 8)]),
]

HOLE_LIB = [
    ('poly', [(2, 2), (4, 2), (3, 4)], False),
    ('poly', [(4, 2), (6, 4), (4, 6), (2, 4)], False),
    ('poly', [(5, 5), (7, 5), (7, 7), (5, 7)], True),
    ('poly', [(1, 5), (3, 5), (3, 6), (2, 6), (2, 7), (1, 7)], True),
    ('box', (5, 7), (7, 5)),
    ('box', (1, 3), (3, 1)),
    ('box', (2, 6), (6, 2)),
]
# holes that are disjoint although their bounding rectangles overlap (an L with a small hole in its notch,
# two triangles facing each other): the answer must not depend on which hole is listed first
HOLE_L = ('poly', [(1, 1), (5, 1), (5, 2), (2, 2), (2, 5), (1, 5)], False)
HOLE_NOTCH = ('poly', [(3, 3), (4, 3), (4, 4), (3, 4)], True)
HOLE_T1 = ('poly', [(1, 5), (6, 5), (1, 7)], False)
HOLE_T2 = ('poly', [(7, 7), (2, 7), (7, 5)], True)
HOLE_NOTCH_BOX = ('box', (3, 4), (4, 3))
OVERLAPPING_EXTENTS = [[HOLE_L, HOLE_NOTCH], [HOLE_NOTCH, HOLE_L], [HOLE_T1, HOLE_T2], [HOLE_T2, HOLE_T1],
                       [HOLE_L, HOLE_NOTCH_BOX], [HOLE_NOTCH_BOX, HOLE_L], [HOLE_L, HOLE_NOTCH, HOLE_T2]]
HOLE_HOSTS = ['square', 'square+collinear', 'hexagon', 'diamond']

# ------------------------------------------------------------------ wide placements
# Mechanism class covered: any decision of the membership test that depends on the polygon's EXTENT or POSITION in
# longitude rather than on its edges - the bounding-rectangle prefilter and GeoPolygon.bounds, heuristics that read
# "spread over more than 180 degrees" as "crosses the antimeridian", the direction the test ray is cast in (it runs
# east to +180 from a query east of the prime meridian and west to -180 otherwise), sign / hemisphere special cases.
# The property excludes shapes that span the antimeridian; a polygon that is WIDER than a hemisphere but stays
# inside [-180, 180) (continental and ocean masks) is not excluded.  The library reads an EDGE whose end points are more
# than 180 degrees of longitude apart as the short way round (ensure_edge_bounds), so such an outline has intermediate
# vertices on its long edges: `split_long_edges` inserts them (collinear, float-exact).
# (label, degrees of longitude per grid step, longitude of grid x = 0): the 0..8 grid then spans 8 steps
WIDE_PLACEMENTS = [
    ('160-east', 20, 10), ('160-west', 20, -175), ('160-mid', 20, -80),
    ('176-mid', 22, -88), ('176-west', 22, -180),
    ('180-east', F(45, 2), -5), ('180-west', F(45, 2), -175), ('180-mid', F(45, 2), -90),
    ('184-east', 23, -5), ('184-west', 23, -178), ('184-mid', 23, -92),
    ('200-mid', 25, -100), ('200-east', 25, -25),
    ('240-east', 30, -62), ('240-west', 30, -175), ('240-mid', 30, -120),
    ('320-east', 40, -142), ('320-west', 40, -175), ('320-mid', 40, -160),
    ('344-east', 43, -166), ('344-west', 43, -178), ('344-mid', 43, -172),
    ('352-mid', 44, -176),
]
WIDE_LAT = [(1, 0), (2, -8), (5, -40), (5, 30), (8, -72), (8, 0), (16, -64), (10, -45)]    # (degrees per grid step, latitude of y = 0)


def place(p, sx, ox, sy, oy):
    return (ox + F(sx) * p[0], oy + F(sy) * p[1])


def split_long_edges(ring, rng=None, extra=0.0, limit=180):
    """open ring -> open ring with the same point set: an edge spanning more than `limit` degrees of longitude gets
    equally spaced intermediate vertices (halves, quarters, ...); with `rng` some other edges get a midpoint too"""
    out = []
    n = len(ring)
    for i in range(n):
        a, b = ring[i], ring[(i + 1) % n]
        out.append(a)
        k = 1
        while abs(b[0] - a[0]) > limit * k:
            k *= 2
        if k == 1 and rng is not None and rng.random() < extra:
            k = 2
        for j in range(1, k):
            out.append((a[0] + (b[0] - a[0]) * F(j, k), a[1] + (b[1] - a[1]) * F(j, k)))
    return out


def place_hole(h, sx, ox, sy, oy):
    if h[0] == 'poly':
        return ('poly', split_long_edges([place(v, sx, ox, sy, oy) for v in h[1]]), h[2])
    return ('box', place(h[1], sx, ox, sy, oy), place(h[2], sx, ox, sy, oy))


def common_scale(vals):
    s = SCALE
    for v in vals:
        s = s * F(v * s).denominator
    return s


def float_exact(vals):
    return all(F(float(v)) == v for v in vals)


# ------------------------------------------------------------------ dense rings
# Mechanism class covered: any decision of the membership test that depends on HOW MANY coordinates a ring is stored
# with rather than on the region it bounds - a second ("fast", vectorised, indexed, simplified, sampled) code path
# taken above some vertex count, per-ring accelerators built only for big rings, chunked loops.  The property
# quantifies over rings "with collinear edges": putting extra vertices ON the edges changes neither the region nor the
# exact answer, so the whole ring corpus is re-asked with 65..300 stored coordinates.  The classical weak spots of a
# re-implemented ray cast are exactly axis-parallel edges (the on-the-ring test of a vertical / horizontal edge, the
# division by lat2 - lat1, vertices level with the query), hence rings with many exactly vertical and horizontal edges
# (L, U, notch, staircase, arrow, random raster traces) queried along the PROLONGATIONS of those edges (inside and
# outside the ring, inside and outside dense holes), at inserted vertices and level with them.
DENSE_KMAX = 64          # inserted vertices sit at j/k of an edge, k a power of two <= 64: grid coordinates stay dyadic (<= 7 decimals)


def densify(ring, target, rng, kmax=DENSE_KMAX):
    """open ring -> open ring bounding the same region with (room permitting) `target` vertices: the extra ones lie
    exactly on the edges at distinct dyadic fractions (irregular spacing)"""
    n = len(ring)
    ks = [k for k in (2, 4, 8, 16, 32, 64, 128) if k <= kmax]
    chosen = [set() for _ in range(n)]
    want = min(max(0, target - n), (n * (kmax - 1) * 3) // 4)
    got = 0
    while got < want:
        e, k = rng.randrange(n), rng.choice(ks)
        fr = F(rng.randint(1, k - 1), k)
        if fr not in chosen[e]:
            chosen[e].add(fr)
            got += 1
    out = []
    for i in range(n):
        a, b = ring[i], ring[(i + 1) % n]
        out.append((F(a[0]), F(a[1])))
        for fr in sorted(chosen[i]):
            out.append((a[0] + (b[0] - a[0]) * fr, a[1] + (b[1] - a[1]) * fr))
    return out


def raster(rng, transpose=False):
    """random raster trace ('histogram') on the 0..8 grid: a base edge and columns of random widths and heights, i.e.
    only exactly vertical and exactly horizontal edges, most of whose prolongations run through the interior"""
    xs = [0] + sorted(rng.sample(range(1, 8), rng.randint(2, 5))) + [8]
    hs = []
    for _ in range(len(xs) - 1):
        hs.append(rng.choice([h for h in range(1, 9) if not hs or h != hs[-1]]))
    ring = [(0, 0), (8, 0)]
    for i in reversed(range(len(hs))):
        ring += [(xs[i + 1], hs[i]), (xs[i], hs[i])]
    return [(y, x) for x, y in ring] if transpose else ring


def dense_target(rng):
    """number of stored coordinates aimed at (closing vertex included): just above 64, around 128, up to 300"""
    t = rng.random()
    return rng.randint(65, 96) if t < 0.5 else (rng.randint(97, 160) if t < 0.8 else rng.randint(161, 300))


def dense_queries(ring, vring, window, rng, budget):
    """queries for a densified ring (`ring` = corners, `vring` = with inserted vertices): every half-grid point of the
    window on the lines through the exactly vertical and exactly horizontal edges (the edges themselves, their
    prolongations inside and outside), points at / level with / above and below inserted vertices, edge points between
    inserted vertices, and random half-grid points; thinned to about `budget` queries"""
    xlo, xhi, ylo, yhi = window
    hx = [F(x, SCALE) for x in range(xlo * SCALE, xhi * SCALE + 1)]
    hy = [F(y, SCALE) for y in range(ylo * SCALE, yhi * SCALE + 1)]
    n = len(ring)
    edges = [(ring[i], ring[(i + 1) % n]) for i in range(n)]
    prol = set()
    for a, b in edges:
        if a[0] == b[0]:
            prol.update((F(a[0]), y) for y in hy)
        if a[1] == b[1]:
            prol.update((x, F(a[1])) for x in hx)
    other = set()
    corners = set(ring)
    ins = [v for v in vring if v not in corners]
    for v in rng.sample(ins, min(len(ins), 10)):
        other.update([v, (v[0], rng.choice(hy)), (rng.choice(hx), v[1]), (v[0] + F(1, 2), v[1]), (v[0] - F(1, 2), v[1])])
    m = len(vring)
    for i in rng.sample(range(m), min(m, 8)):
        a, b = vring[i], vring[(i + 1) % m]
        other.add(((a[0] + b[0]) / 2, (a[1] + b[1]) / 2))
    for v in rng.sample(ring, min(n, 3)):
        other.update((F(v[0]), y) for y in hy)
        other.update((x, F(v[1])) for x in hx)
    other.update((rng.choice(hx), rng.choice(hy)) for _ in range(40))
    other -= prol
    prol, other = sorted(prol), sorted(other)
    if len(prol) > budget:
        prol = rng.sample(prol, budget)
    other = rng.sample(other, min(len(other), max(30, budget - len(prol))))
    return [q for q in prol + other if xlo <= q[0] <= xhi and ylo <= q[1] <= yhi]


# ------------------------------------------------------------------ process history (look-alike questions asked first)
# Mechanism class covered: any state kept ACROSS calls (memoised helpers, per-process or per-object caches, interned
# segments, "last query" shortcuts) whose key is coarser than what the computation reads.  Before each judged plain
# question the same geometry is asked through look-alike inputs, whose answers are DISCARDED (inputs carrying Z / M are
# outside the property's quantifier, and the unchanged code is known to answer some of them differently):
#   * twins of the shape built from coordinates that carry M, Z or both (Coordinate.__eq__/__hash__ ignore M, equality of
#     shapes ignores more), through the constructor and through 'POLYGON M/Z/ZM' text, rotated / reversed / without the
#     holes / with other holes;
#   * the same query coordinate with m= / z= set, asked of the judged object itself or of an equal copy;
#   * the same ring asked with include_boundary=True, a plain polygon sharing one edge with the ring, the shape's hole
#     asked on its own.
# The judged shape sits at a translation nothing else in the run uses (`fresh cell`), so that the look-alike question
# really is the first one about these segments in the process; judged = exact reference + the Coq model as elsewhere.
ZM_VALUES = [1.0, 2.5, -3.0, 7.0, 100.0, 0.5]

HISTORY_KINDS = ['m-twin', 'm-query', 'wkt-m-twin', 'zm-twin', 'z-twin', 'm-twin-rotated', 'm-twin-reversed', 'zm-query',
                 'z-query', 'm-twin-no-holes', 'm-twin+m-query', 'include-boundary', 'edge-neighbour', 'plain-twin-no-holes',
                 'm-query-copy', 'wkt-zm-twin', 'hole-alone', 'm-hole-alone']


def history_steps(kind, rng):
    """kind -> list of JSON-able steps (see prepare_history)"""
    pick = lambda: [rng.choice(ZM_VALUES) for _ in range(rng.choice([1, 1, 3]))]        # noqa: E731  one value for all vertices, or varying
    tw = lambda **kw: dict({'ask': 'twin', 'z': None, 'm': None, 'via': 'coords', 'rot': 0, 'rev': False, 'holes': 'same'}, **kw)   # noqa: E731
    qu = lambda **kw: dict({'ask': 'query', 'z': None, 'm': None, 'on': 'same'}, **kw)   # noqa: E731
    return {
        'm-twin': lambda: [tw(m=pick())],
        'zm-twin': lambda: [tw(z=pick(), m=pick())],
        'z-twin': lambda: [tw(z=pick())],
        'wkt-m-twin': lambda: [tw(m=pick()[:1], via='wkt')],
        'wkt-zm-twin': lambda: [tw(z=pick()[:1], m=pick()[:1], via='wkt')],
        'm-twin-rotated': lambda: [tw(m=pick(), rot=rng.randint(1, 5))],
        'm-twin-reversed': lambda: [tw(m=pick(), rot=rng.randint(0, 5), rev=True)],
        'm-twin-no-holes': lambda: [tw(m=pick(), holes='none')],
        'plain-twin-no-holes': lambda: [tw(holes='none', rot=rng.randint(0, 5))],
        'm-query': lambda: [qu(m=rng.choice(ZM_VALUES))],
        'm-query-copy': lambda: [qu(m=rng.choice(ZM_VALUES), on='copy')],
        'z-query': lambda: [qu(z=rng.choice(ZM_VALUES))],
        'zm-query': lambda: [qu(z=rng.choice(ZM_VALUES), m=rng.choice(ZM_VALUES))],
        'm-twin+m-query': lambda: [tw(m=pick()), qu(m=rng.choice(ZM_VALUES)), tw(m=pick(), rev=True)],
        'include-boundary': lambda: [{'ask': 'include-boundary'}],
        'edge-neighbour': lambda: [{'ask': 'neighbour', 'edge': rng.randint(0, 50), 'side': rng.choice([-1, 1]), 'm': rng.choice([None, 2.0])}],
        'hole-alone': lambda: [{'ask': 'hole-alone', 'm': None}],
        'm-hole-alone': lambda: [{'ask': 'hole-alone', 'm': pick()}],
    }[kind]()


def build_shape(desc, zs=None, ms=None, via='coords'):
    """desc = ('poly', raw ring as given to the constructor, holes) | ('box', nw, se, holes), holes as in mk_hole.
    zs / ms: None or a list of non-zero values handed out cyclically to the vertices (outline, holes, box corners); the
    closing vertex of a ring is the object of its first vertex."""
    cnt = [0]

    def co(p):
        k = cnt[0]
        cnt[0] += 1
        return Coordinate(float(p[0]), float(p[1]), z=zs[k % len(zs)] if zs else None, m=ms[k % len(ms)] if ms else None)

    def ring_coords(r, close):
        o = open_ring(list(r))
        cs = [co(v) for v in o]
        return cs + [cs[0]] if (close or len(o) < len(r)) else cs

    def hole(h):
        if h[0] == 'poly':
            return GeoPolygon(ring_coords(h[1], True), _is_hole=h[2])
        return GeoBox(co(h[1]), co(h[2]))

    holes = desc[-1]
    if via == 'wkt':
        # 'POLYGON M ((x y m, ...), (hole ...))': box holes are written as rings; one value per dimension
        dims = ('Z' if zs else '') + ('M' if ms else '')
        vals = ([zs[0]] if zs else []) + ([ms[0]] if ms else [])
        rings = [open_ring(list(desc[1]))] if desc[0] == 'poly' else [[desc[1], (desc[2][0], desc[1][1]), desc[2], (desc[1][0], desc[2][1])]]
        for h in holes:
            rings.append(list(h[1]) if h[0] == 'poly' else [h[1], (h[2][0], h[1][1]), h[2], (h[1][0], h[2][1])])
        txt = ', '.join('(' + ', '.join(' '.join(repr(float(c)) for c in (*v, *vals)) for v in r + r[:1]) + ')' for r in rings)
        return GeoPolygon.from_wkt(f'POLYGON {dims} ({txt})'.replace('  ', ' '))
    hs = [hole(h) for h in holes] or None
    if desc[0] == 'poly':
        return GeoPolygon(ring_coords(desc[1], False), holes=hs)
    return GeoBox(co(desc[1]), co(desc[2]), holes=hs)


def prepare_history(steps, desc, obj):
    """-> list of functions q -> None that ask the look-alike questions of `steps` about the query q (answers are
    discarded, exceptions too: a look-alike the library cannot build or answer is simply not part of the history)"""
    asks = []

    def both(shape):
        def f(c):
            shape.contains_coordinate(c)
            if isinstance(shape, GeoPolygon):
                GeoPolygon._point_in_polygon(c, shape.outline)
        return f

    for st in steps:
        fn = None
        try:
            if st['ask'] == 'twin':
                d = desc
                if desc[0] == 'poly' and (st['rot'] or st['rev']):
                    o = open_ring(list(desc[1]))
                    d = ('poly', variant(o, st['rot'] % len(o), st['rev'], True), desc[2])
                if st['holes'] == 'none':
                    d = (*d[:-1], [])
                g = both(build_shape(d, st['z'], st['m'], st['via']))
                fn = lambda q, g=g: g(C(q))                                                        # noqa: E731
            elif st['ask'] == 'query':
                g = both(obj if st['on'] == 'same' else build_shape(desc))
                fn = lambda q, g=g, st=st: g(Coordinate(float(q[0]), float(q[1]), z=st['z'], m=st['m']))   # noqa: E731
            elif st['ask'] == 'include-boundary':
                rings = ([obj.outline] if isinstance(obj, GeoPolygon) else []) + [h.outline for h in obj.holes if isinstance(h, GeoPolygon)]
                fn = lambda q, rings=rings: [GeoPolygon._point_in_polygon(C(q), r, include_boundary=True) for r in rings]   # noqa: E731
            elif st['ask'] == 'neighbour':
                # a plain (or M-carrying) parallelogram that has one edge of the shape as its side
                o = open_ring(list(desc[1])) if desc[0] == 'poly' else [desc[1], (desc[2][0], desc[1][1]), desc[2], (desc[1][0], desc[2][1])]
                a, b = o[st['edge'] % len(o)], o[(st['edge'] + 1) % len(o)]
                nx, ny = (b[1] - a[1]) * st['side'], (a[0] - b[0]) * st['side']
                g = both(build_shape(('poly', [a, b, (b[0] + nx, b[1] + ny), (a[0] + nx, a[1] + ny)], []), None, [st['m']] if st['m'] else None))
                fn = lambda q, g=g: g(C(q))                                                        # noqa: E731
            elif st['ask'] == 'hole-alone':
                gs = [both(build_shape((('poly', h[1], []) if h[0] == 'poly' else ('box', h[1], h[2], [])), None, st['m'])) for h in desc[-1]]
                fn = lambda q, gs=gs: [g(C(q)) for g in gs]                                        # noqa: E731
        except Exception:                                                                       # noqa: BLE001
            fn = None
        if fn is not None:
            asks.append(fn)
    return asks


def ask_history(asks, q):
    for f in asks:
        try:
            f(q)
        except Exception:                                                                       # noqa: BLE001
            pass


def main():
    ck = Check('C01')
    ck.build_theories(['theories/Props/C01.vo', 'theories/Props/C01b.vo', 'theories/Corr/GeomK.vo'])
    rep = gen_geom.main(REPO, os.path.join(ck.rundir, 'GeomGen.v'))   # the planar core regenerated from the source ...
    ck.gen('GeomGen.v', rep, 'GeomGenEq.v')                           # ... proved equal to GeomM.fli / pip / poly_contains / box_contains
    ck.props('Props/C01.v')
    ck.props('Props/C01b.v')     # even-odd interior = geometric interior for rectangles, triangles and all strictly convex rings
    rng = ck.rng
    thorough = ck.tier == 'thorough'
    cases, meta = [], []
    nontrivial = set()
    n_eval = 0
    prop_bad = []        # (meta index, detail) : the property itself fails on the implementation
    prop_box_bad = []    # (case description, detail) : the same for cases that have no correspondence literal (wide boxes)

    def add(lit, m):
        cases.append(lit)
        meta.append(m)
        return len(cases) - 1

    # ---------------------------------------------------------------- ring family on the 0..8 grid
    rings = list(FIXED_RINGS)
    for k in range(24 if thorough else 8):
        r = star(rng, rng.randint(3, 9), 4)
        if len(r) >= 3:
            rings.append((f'star{k}', r))
    GX = (-1, 9, -1, 9)
    gpts = grid_points(*GX)

    def grid_case(name, ring, rot, rev, closed, holes, GX=GX, gpts=gpts, history=None):
        nonlocal n_eval
        raw = variant(ring, rot, rev, closed)
        poly, hm = mk_poly(raw, holes)
        asks = prepare_history(history[1], ('poly', raw, holes), poly) if history else []
        if (rot + len(holes) + len(raw)) % 2 == 0:
            # membership is a function of the polygon and the coordinate: on every other case the same object has first
            # been converted, measured, hashed and exported (which fills its caches)
            guarded(lambda: (poly.to_shapely(), poly.area, poly.bounds, poly.centroid, hash(poly), poly.to_wkt(), poly.to_geojson()))
            ck.count('membership after other queries on the same object')
        stored = outline_of(poly)
        add(f'KNorm false {ringlit(raw)} {ringlit(stored)}',
            {'k': 'norm', 'ring': name, 'raw': [list(map(str, v)) for v in raw], 'stored': [list(map(str, v)) for v in stored]})
        for h, m in zip(holes, hm):
            if h[0] == 'poly':
                add(f'KNorm {blit(h[2])} {ringlit(h[1] + [h[1][0]])} {ringlit(m[2])}', {'k': 'norm-hole', 'hole': str(h)})
        o1, o2 = [], []
        i = len(cases)
        for q in gpts:
            ask_history(asks, q)           # look-alike questions first (answers discarded), then the judged plain one
            c = C(q)
            a = GeoPolygon._point_in_polygon(c, poly.outline)
            b = poly.contains_coordinate(c)
            o1.append(a)
            o2.append(b)
            n_eval += 1
            st = ref_ring(q, ring)
            if st == 'boundary' or any(v[1] == q[1] for v in ring) or any(
                    hh[0] == 'poly' and ref_ring(q, hh[1]) == 'boundary' for hh in holes):
                nontrivial.add((name, rot, rev, closed, len(holes), q))
            want = ref_poly(q, ring, holes)
            if b != want:
                prop_bad.append((i, {'query': [str(q[0]), str(q[1])], 'contains_coordinate': b, 'exact_reference': want,
                                     'position_wrt_outer': st}))
            if a != (st == 'in'):
                prop_bad.append((i, {'query': [str(q[0]), str(q[1])], '_point_in_polygon': a, 'exact_reference': st}))
        add(f'KGrid {zlit(W)} {ringlit(stored)} {listlit([holelit(m) for m in hm])} '
            f'{zlit(GX[0] * SCALE)} {zlit(GX[1] * SCALE)} {zlit(GX[2] * SCALE)} {zlit(GX[3] * SCALE)} '
            f'{boollist(o1)} {boollist(o2)}',
            dict({'k': 'grid', 'ring': name, 'outline': [[str(x), str(y)] for x, y in ring], 'rot': rot, 'rev': rev, 'closed': closed,
                  'holes': [hole_json(h) for h in holes], 'grid': GX, 'raw': [[str(x), str(y)] for x, y in raw]},
                 **({'history': {'kind': history[0], 'asked_before_each_query': history[1]}} if history else {})))
        ck.count(('history:' + history[0]) if history else ('grid:' + ('holes' if holes else 'plain')))

    for name, ring in rings:
        n = len(ring)
        variants = [(rot, rev) for rot in range(n) for rev in (False, True)]
        if not thorough:
            variants = [(0, False)] + rng.sample(variants[1:], 2)
        for j, (rot, rev) in enumerate(variants):
            grid_case(name, ring, rot, rev, closed=(j % 2 == 0), holes=[])
    # rings touching the antimeridian from the east (vertices and queries at longitude -180 = the ray's end)
    WEST = [('west-square', [(-180, 0), (-176, 0), (-176, 4), (-180, 4)]),
            ('west-diamond', [(-180, 2), (-178, 0), (-176, 2), (-178, 4)]),
            ('west-notch', [(-180, 0), (-176, 0), (-176, 4), (-180, 4), (-178, 2)]),
            ('west-tri', [(-180, 1), (-176, 0), (-177, 4)])]
    GXW = (-180, -175, -1, 5)
    gptsw = grid_points(*GXW)
    for name, ring in WEST:
        n = len(ring)
        variants = [(rot, rev) for rot in range(n) for rev in (False, True)]
        if not thorough:
            variants = [(0, False), rng.choice(variants[1:])]
        for j, (rot, rev) in enumerate(variants):
            grid_case(name, ring, rot, rev, closed=(j % 2 == 0), holes=[], GX=GXW, gpts=gptsw)
    # holes: 0..2 holes (polygon and box holes) in the hosts
    hosts = [(nm, r) for nm, r in FIXED_RINGS if nm in HOLE_HOSTS]
    combos = [[h] for h in HOLE_LIB] + [[HOLE_LIB[0], HOLE_LIB[4]], [HOLE_LIB[5], HOLE_LIB[2]], [HOLE_LIB[3], HOLE_LIB[4]],
                                        [HOLE_LIB[0], HOLE_LIB[2]]]
    for nm, ring in hosts:
        sel = combos if thorough else rng.sample(combos[:len(HOLE_LIB)], 2) + [rng.choice(combos[len(HOLE_LIB):])]
        if nm in ('square', 'square+collinear'):
            sel = sel + OVERLAPPING_EXTENTS
        for hs in sel:
            n = len(ring)
            grid_case(nm, ring, rng.randrange(n), rng.random() < 0.5, closed=True, holes=hs)

    # ---------------------------------------------------------------- boxes (with and without holes)
    boxes = [((0, 8), (8, 0)), ((2, 6), (6, 3)), ((3, 3), (3, 3)), ((0, 5), (8, 5))]
    for nw, se in boxes:
        for hs in ([], [HOLE_LIB[0]], [HOLE_LIB[4]], [HOLE_LIB[1], HOLE_LIB[5]]):
            hobj = [mk_hole(h) for h in hs]
            box = GeoBox(C(nw), C(se), holes=[o for o, _ in hobj] or None)
            outs = []
            i = len(cases)
            for q in gpts:
                b = box.contains_coordinate(C(q))
                outs.append(b)
                n_eval += 1
                if q[0] in (nw[0], se[0]) or q[1] in (nw[1], se[1]):
                    nontrivial.add(('box', nw, se, len(hs), q))
                want = ref_box(q, nw, se, hs)
                if b != want:
                    prop_bad.append((i, {'query': [str(q[0]), str(q[1])], 'contains_coordinate': b, 'exact_reference': want}))
            add(f'KBoxGrid {zlit(W)} {ptlit(nw)} {ptlit(se)} {listlit([holelit(m) for _, m in hobj])} '
                f'{zlit(GX[0] * SCALE)} {zlit(GX[1] * SCALE)} {zlit(GX[2] * SCALE)} {zlit(GX[3] * SCALE)} {boollist(outs)}',
                {'k': 'box', 'nw': [str(nw[0]), str(nw[1])], 'se': [str(se[0]), str(se[1])], 'holes': [hole_json(h) for h in hs], 'grid': GX})
            ck.count('box')

    # ---------------------------------------------------------------- random star-shaped polygons, integer coordinates <= 1000
    # in units of 1/16 degree (latitudes must stay below 90): implementation coordinate = k/16, queries on the
    # 1/32 grid, model coordinate = implementation coordinate * 32, ray end = -180 * 32
    U, S2 = 16, 32
    W2 = -180 * S2
    for k in range(400 if thorough else 40):
        R = rng.choice([5, 20, 100, 500])
        iring = star(rng, rng.randint(3, 12), R)
        if len(iring) < 3:
            continue
        ring = [(F(x, U), F(y, U)) for x, y in iring]
        rot, rev = rng.randrange(len(ring)), rng.random() < 0.5
        raw = variant(ring, rot, rev, closed=rng.random() < 0.7)
        holes = []
        if rng.random() < 0.3:
            holes = [('box', (F(R - 1, U), F(R + 1, U)), (F(R + 1, U), F(R - 1, U)))]
        poly, hm = mk_poly(raw, holes)
        stored = outline_of(poly)
        add(f'KNorm false {ringlit(raw, S2)} {ringlit(stored, S2)}', {'k': 'norm', 'ring': f'rstar{k}', 'raw': str(raw)})
        qs = []
        n = len(ring)
        for i2 in range(n):
            a, b = ring[i2], ring[(i2 + 1) % n]
            qs.append(a)                                                     # on a vertex
            qs.append(((a[0] + b[0]) / 2, (a[1] + b[1]) / 2))                # on an edge
            qs.append((F(rng.randint(-1, 2 * R + 1), U), a[1]))              # level with a vertex
            qs.append((F(rng.randint(-2, 4 * R + 2), S2), a[1]))
        for _ in range(2 * n):
            qs.append((F(rng.randint(-2, 4 * R + 2), S2), F(rng.randint(-2, 4 * R + 2), S2)))
        qs += [(F(R, U), F(R, U)), (F(R - 1, U), F(R, U)), (F(R, U), F(R + 1, U))]
        outs = []
        i = len(cases)
        for q in qs:
            c = C(q)
            a = GeoPolygon._point_in_polygon(c, poly.outline)
            b = poly.contains_coordinate(c)
            outs.append((q, a, b))
            n_eval += 1
            st = ref_ring(q, ring)
            if st == 'boundary' or any(v[1] == q[1] for v in ring):
                nontrivial.add((f'rstar{k}', q))
            want = ref_poly(q, ring, holes)
            if b != want:
                prop_bad.append((i, {'query': [str(q[0]), str(q[1])], 'contains_coordinate': b, 'exact_reference': want,
                                     'position_wrt_outer': st}))
        add(f'KPts {zlit(W2)} {ringlit(stored, S2)} {listlit([holelit(m, S2) for m in hm])} '
            + listlit([f'({ptlit(q, S2)}, {blit(a)}, {blit(b)})' for q, a, b in outs]),
            {'k': 'pts', 'ring': f'rstar{k}', 'outline': [[str(x), str(y)] for x, y in ring], 'rot': rot, 'rev': rev,
             'raw': [[str(x), str(y)] for x, y in raw], 'holes': [hole_json(h) for h in holes], 'scale': S2,
             'queries': [[str(q[0]), str(q[1]), a, b] for q, a, b in outs]})
        ck.count('random-star')

    # ---------------------------------------------------------------- the grid corpus at continental / hemispheric scales
    # (see WIDE_PLACEMENTS): the same rings, holes and exhaustive grid / half-grid queries, mapped by
    # lon = ox + sx * x, lat = oy + sy * y to extents below, exactly and above 180 degrees of longitude (up to 352)
    # in mostly-eastern, mostly-western and prime-meridian-straddling positions; nothing crosses +-180.  Queries that
    # would fall outside [-180, 180) x [-90, 90] are dropped (Coordinate would wrap them).  The exact reference is
    # evaluated on the placed ring WITHOUT the inserted vertices; the model on the stored outline times `scale`.
    GQ = [(F(x, SCALE), F(y, SCALE)) for y in range(-SCALE, 9 * SCALE + 1) for x in range(-SCALE, 9 * SCALE + 1)]

    def wide_case(name, ring, plc, lat, rot, rev, closed, holes):
        nonlocal n_eval
        label, sx, ox = plc
        sy, oy = lat
        pring = [place(v, sx, ox, sy, oy) for v in ring]                     # the geometric ring (reference)
        vring = split_long_edges(pring, rng, extra=0.15)                     # what the library is given
        pholes = [place_hole(h, sx, ox, sy, oy) for h in holes]
        qs = [place(q, sx, ox, sy, oy) for q in GQ]
        qs = [q for q in qs if -180 <= q[0] < 180 and -90 <= q[1] <= 90]
        coords = [c for v in vring + qs for c in v] + [c for h in pholes for v in (h[1] if h[0] == 'poly' else h[1:]) for c in v]
        assert float_exact(coords) and all(-180 <= v[0] < 180 and abs(v[1]) <= 80 for v in vring), (name, plc, lat)
        assert all(abs(a[0] - b[0]) <= 180 for a, b in zip(vring, vring[1:] + vring[:1])), (name, plc)
        s = common_scale(coords)
        w = -180 * s
        raw = variant(vring, rot % len(vring), rev, closed)
        poly, hm = mk_poly(raw, pholes)
        if (rot + len(raw)) % 2 == 0:
            guarded(lambda: (poly.bounds, poly.area, poly.centroid, hash(poly), poly.to_wkt()))
        stored = outline_of(poly)
        width = max(v[0] for v in pring) - min(v[0] for v in pring)
        cls = 'below-180' if width < 180 else ('exactly-180' if width == 180 else 'above-180')
        add(f'KNorm false {ringlit(raw, s)} {ringlit(stored, s)}',
            {'k': 'norm', 'ring': name, 'placement': label, 'raw': [list(map(str, v)) for v in raw]})
        outs = []
        i = len(cases)
        for q in qs:
            c = C(q)
            a = GeoPolygon._point_in_polygon(c, poly.outline)
            b = poly.contains_coordinate(c)
            outs.append((q, a, b))
            n_eval += 1
            st = ref_ring(q, pring)
            if st == 'boundary' or any(v[1] == q[1] for v in pring):
                nontrivial.add((name, label, lat, rot, rev, closed, len(holes), q))
            want = ref_poly(q, pring, pholes)
            if b != want:
                prop_bad.append((i, {'query': [str(q[0]), str(q[1])], 'contains_coordinate': b, 'exact_reference': want,
                                     'position_wrt_outer': st, 'longitude_extent_of_outline': str(width)}))
            if not holes and a != (st == 'in'):
                prop_bad.append((i, {'query': [str(q[0]), str(q[1])], '_point_in_polygon': a, 'exact_reference': st,
                                     'longitude_extent_of_outline': str(width)}))
        add(f'KPts {zlit(w)} {ringlit(stored, s)} {listlit([holelit(m, s) for m in hm])} '
            + listlit([f'({ptlit(q, s)}, {blit(a)}, {blit(b)})' for q, a, b in outs]),
            {'k': 'pts', 'ring': name, 'placement': label, 'longitude_extent': str(width), 'degrees_per_step': [str(sx), str(sy)],
             'origin': [str(ox), str(oy)], 'outline': [[str(x), str(y)] for x, y in pring], 'rot': rot, 'rev': rev, 'closed': closed,
             'raw': [[str(x), str(y)] for x, y in raw], 'holes': [hole_json(h) for h in pholes], 'scale': s,
             'queries': [[str(q[0]), str(q[1]), a, b] for q, a, b in outs]})
        ck.count('wide:' + cls + (':holes' if holes else ''))
        ck.count('wide-placement:' + label.split('-')[1])

    for plc in WIDE_PLACEMENTS:
        sel = rng.sample(rings, 12) if thorough else rng.sample(rings[:len(FIXED_RINGS)], 2) + [rng.choice(rings[len(FIXED_RINGS):])]
        for name, ring in sel:
            wide_case(name, ring, plc, rng.choice(WIDE_LAT), rng.randrange(len(ring)), rng.random() < 0.5, rng.random() < 0.5, [])
        nm, ring = rng.choice(hosts)
        hs = rng.choice(combos + OVERLAPPING_EXTENTS) if nm.startswith('square') else rng.choice(combos)
        wide_case(nm, ring, plc, rng.choice(WIDE_LAT), rng.randrange(len(ring)), rng.random() < 0.5, True, hs)
    # boxes wider than a hemisphere (inclusive corner comparison; judged by the exact reference only: the box grid case
    # of the correspondence enumerates unit steps)
    for plc in (WIDE_PLACEMENTS if thorough else rng.sample(WIDE_PLACEMENTS, 6)):
        label, sx, ox = plc
        sy, oy = rng.choice(WIDE_LAT)
        nw, se = rng.choice(boxes[:2])
        hs = rng.choice([[], [HOLE_LIB[0]], [HOLE_LIB[4]], [HOLE_LIB[1], HOLE_LIB[5]]])
        pnw, pse = place(nw, sx, ox, sy, oy), place(se, sx, ox, sy, oy)
        phs = [place_hole(h, sx, ox, sy, oy) for h in hs]
        hobj = [mk_hole(h) for h in phs]
        box = GeoBox(C(pnw), C(pse), holes=[o for o, _ in hobj] or None)
        for q in GQ:
            q = place(q, sx, ox, sy, oy)
            if not (-180 <= q[0] < 180 and -90 <= q[1] <= 90):
                continue
            b = box.contains_coordinate(C(q))
            n_eval += 1
            want = ref_box(q, pnw, pse, phs)
            if b != want and len(prop_box_bad) < 5:
                prop_box_bad.append(({'k': 'box', 'placement': label, 'nw': [str(pnw[0]), str(pnw[1])], 'se': [str(pse[0]), str(pse[1])],
                                      'holes': [hole_json(h) for h in phs],
                                      'scale': common_scale([*pnw, *pse, *q] + [c for h in phs for v in (h[1] if h[0] == 'poly' else h[1:]) for c in v])},
                                     {'query': [str(q[0]), str(q[1])], 'contains_coordinate': b, 'exact_reference': want}))
        ck.count('wide-box')

    # ---------------------------------------------------------------- find_line_intersection directly
    def fli_case(s1, s2):
        nonlocal n_eval
        r = find_line_intersection((C(s1[0]), C(s1[1])), (C(s2[0]), C(s2[1])))
        n_eval += 1
        if r is None:
            out = 'None'
        else:
            x, y = F(r[0].longitude) * SCALE, F(r[0].latitude) * SCALE
            out = f'(Some ({qlit(x)}, {qlit(y)}, {blit(bool(r[1]))}))'
        seglit = lambda s: f'({ptlit(s[0])}, {ptlit(s[1])})'   # noqa: E731
        add(f'KFli {seglit(s1)} {seglit(s2)} {out}', {'k': 'fli', 's1': str(s1), 's2': str(s2), 'out': str(r)})
        ck.count('fli')

    for _ in range(3000 if thorough else 600):
        m = rng.choice([3, 4, 8])
        rp = lambda: (F(rng.randint(0, 2 * m), 2) if rng.random() < 0.3 else rng.randint(0, m),   # noqa: E731
                      F(rng.randint(0, 2 * m), 2) if rng.random() < 0.3 else rng.randint(0, m))
        a, b, c, d = rp(), rp(), rp(), rp()
        t = rng.random()
        if t < 0.2:
            c = a                                     # shared endpoint
        elif t < 0.3:
            b = (-180, a[1])                          # the membership test ray
        elif t < 0.4:
            d = (c[0], rng.randint(0, m))             # vertical
        fli_case((a, b), (c, d))

    import time
    t_fam = {'start': time.time()}
    # ---------------------------------------------------------------- translations nothing else in the run uses
    # 11 x 11 degree cells (the [-1, 9]^2 window of the grid corpus fits in one), away from the origin window, the random
    # star area [0, 62.5]^2 and the -180 rings; handed out without replacement
    cells = [(ox, oy) for ox in range(-170, 161, 11) for oy in range(-80, 71, 11)
             if not (-13 <= ox <= 64 and -13 <= oy <= 64)]
    rng.shuffle(cells)

    def translate_hole(h, ox, oy):
        if h[0] == 'poly':
            return ('poly', [(v[0] + ox, v[1] + oy) for v in h[1]], h[2])
        return ('box', (h[1][0] + ox, h[1][1] + oy), (h[2][0] + ox, h[2][1] + oy))

    # ---------------------------------------------------------------- dense rings (see densify)
    def dense_case(name, ring, holes, target, rot, rev, closed, dense_outline=True, dense_holes=False, history=None, off=(0, 0)):
        """ring / holes on the 0..8 grid (moved by `off`); the library gets the outline and / or the polygon holes with inserted
        collinear vertices; the exact reference is evaluated on the corners only"""
        nonlocal n_eval
        ox, oy = off
        ring = [(F(x) + ox, F(y) + oy) for x, y in ring]
        holes = [translate_hole(h, ox, oy) for h in holes]
        vring = densify(ring, target - 1, rng) if dense_outline else ring
        vholes = [('poly', densify(h[1], dense_target(rng) - 1, rng), h[2]) if dense_holes and h[0] == 'poly' else h for h in holes]
        window = (ox - 1, ox + 9, oy - 1, oy + 9)
        nstored = max([len(vring)] + [len(h[1]) for h in vholes if h[0] == 'poly']) + 1
        budget = max(60, (40000 if thorough else 32000) // nstored)
        qs = set(dense_queries(ring, vring, window, rng, budget))
        for h, vh in zip(holes, vholes):
            if h[0] == 'poly':
                qs.update(dense_queries(h[1], vh[1], window, rng, budget // 2))
        qs = sorted(qs)
        coords = [c for v in vring + qs for c in v] + [c for h in vholes for v in (h[1] if h[0] == 'poly' else h[1:]) for c in v]
        assert float_exact(coords), name
        s = common_scale(coords)
        raw = variant(vring, rot % len(vring), rev, closed)
        poly, hm = mk_poly(raw, vholes)
        asks = prepare_history(history[1], ('poly', raw, vholes), poly) if history else []
        if (rot + len(raw)) % 2 == 0:
            guarded(lambda: (poly.bounds, poly.area, poly.centroid, hash(poly), poly.to_wkt()))
        stored = outline_of(poly)
        add(f'KNorm false {ringlit(raw, s)} {ringlit(stored, s)}',
            {'k': 'norm', 'ring': name, 'stored_coordinates': len(stored), 'raw': [list(map(str, v)) for v in raw]})
        for vh, m in zip(vholes, hm):
            if vh[0] == 'poly' and dense_holes:
                add(f'KNorm {blit(vh[2])} {ringlit(vh[1] + [vh[1][0]], s)} {ringlit(m[2], s)}', {'k': 'norm-hole', 'hole': str(vh)})
        outs = []
        i = len(cases)
        for q in qs:
            ask_history(asks, q)
            c = C(q)
            a = GeoPolygon._point_in_polygon(c, poly.outline)
            b = poly.contains_coordinate(c)
            outs.append((q, a, b))
            n_eval += 1
            st = ref_ring(q, ring)
            if st == 'boundary' or any(v[1] == q[1] or v[0] == q[0] for v in ring) or any(
                    hh[0] == 'poly' and any(v[1] == q[1] or v[0] == q[0] for v in hh[1]) for hh in holes):
                nontrivial.add((name, len(stored), rot, rev, closed, len(holes), q))
            want = ref_poly(q, ring, holes)
            if b != want:
                prop_bad.append((i, {'query': [str(q[0]), str(q[1])], 'contains_coordinate': b, 'exact_reference': want,
                                     'position_wrt_outer': st, 'stored_coordinates_of_outline': len(stored)}))
            if a != (st == 'in'):
                prop_bad.append((i, {'query': [str(q[0]), str(q[1])], '_point_in_polygon': a, 'exact_reference': st,
                                     'stored_coordinates_of_outline': len(stored)}))
        add(f'KPts {zlit(-180 * s)} {ringlit(stored, s)} {listlit([holelit(m, s) for m in hm])} '
            + listlit([f'({ptlit(q, s)}, {blit(a)}, {blit(b)})' for q, a, b in outs]),
            dict({'k': 'pts', 'ring': name, 'stored_coordinates': len(stored),
                  'stored_coordinates_of_holes': [len(m[2]) for m in hm if m[0] == 'poly'],
                  'outline': [[str(x), str(y)] for x, y in ring], 'rot': rot, 'rev': rev, 'closed': closed,
                  'raw': [[str(x), str(y)] for x, y in raw], 'holes': [hole_json(h) for h in vholes], 'scale': s,
                  'queries': [[str(q[0]), str(q[1]), a, b] for q, a, b in outs]},
                 **({'history': {'kind': history[0], 'asked_before_each_query': history[1]}} if history else {})))
        ck.count(('history:' + history[0] + ':dense') if history else
                 ('dense:' + ('outline' if dense_outline else '') + ('+holes' if dense_holes else ('+sparse-holes' if holes else ''))))
        ck.count('dense-size:' + ('65-96' if nstored <= 96 else '97-160' if nstored <= 160 else '161-300'))

    AXIS = ['square', 'square+collinear', 'L', 'U', 'stairs', 'arrow', 'notch']       # fixed rings with exactly vertical / horizontal edges
    fixed = dict(FIXED_RINGS)
    dense_pool = [(nm, fixed[nm]) for nm in AXIS] + [(f'raster{k}', raster(rng, k % 2 == 1)) for k in range(12 if thorough else 4)]
    dense_sel = dense_pool + rng.sample([r for r in rings if r[0] not in AXIS], 12 if thorough else 3)
    for k, (name, ring) in enumerate(dense_sel):
        for _ in range(2 if thorough and k < len(dense_pool) else 1):
            dense_case(name, ring, [], dense_target(rng), rng.randrange(4 * len(ring)), rng.random() < 0.5, rng.random() < 0.5)
    for name, ring in rng.sample(dense_pool, 6 if thorough else 3):            # and some well above 128 / 256
        dense_case(name, ring, [], rng.randint(200, 300), rng.randrange(4 * len(ring)), rng.random() < 0.5, rng.random() < 0.5)
    # dense holes in sparse and dense hosts: a query strictly inside a dense hole, on the prolongation of one of its edges, is excluded
    HOLE_U = ('poly', [(1, 1), (7, 1), (7, 3), (3, 3), (3, 5), (7, 5), (7, 7), (1, 7)], False)
    HOLE_STAIRS = ('poly', [(1, 1), (7, 1), (7, 3), (5, 3), (5, 5), (3, 5), (3, 7), (1, 7)], True)
    dense_hole_sets = [[HOLE_L], [HOLE_U], [HOLE_STAIRS], [HOLE_L, HOLE_NOTCH], [HOLE_LIB[3], HOLE_LIB[2]], [HOLE_LIB[1]],
                       [HOLE_LIB[3], HOLE_LIB[4]], [HOLE_T1, HOLE_T2]]
    for hs in (dense_hole_sets if thorough else rng.sample(dense_hole_sets[:3], 2) + rng.sample(dense_hole_sets[3:], 2)):
        nm = rng.choice(['square', 'square+collinear'])
        dense_case(nm, fixed[nm], hs, dense_target(rng), rng.randrange(16), rng.random() < 0.5, True,
                   dense_outline=rng.random() < 0.5, dense_holes=True)
    # a box with dense polygon holes (exact reference only: the box case of the correspondence enumerates unit steps)
    for hs in (dense_hole_sets[:5] if thorough else rng.sample(dense_hole_sets[:5], 2)):
        vhs = [('poly', densify(h[1], dense_target(rng) - 1, rng), h[2]) if h[0] == 'poly' else h for h in hs]
        hobj = [mk_hole(h) for h in vhs]
        nw, se = (0, 8), (8, 0)
        box = GeoBox(C(nw), C(se), holes=[o for o, _ in hobj])
        nst = max(len(h[1]) for h in vhs if h[0] == 'poly') + 1
        qs = set()
        for h, vh in zip(hs, vhs):
            if h[0] == 'poly':
                qs.update(dense_queries(h[1], vh[1], GX, rng, max(60, 32000 // nst)))
        for q in sorted(qs):
            b = box.contains_coordinate(C(q))
            n_eval += 1
            want = ref_box(q, nw, se, hs)
            if b != want and len(prop_box_bad) < 5:
                prop_box_bad.append(({'k': 'box', 'nw': [str(nw[0]), str(nw[1])], 'se': [str(se[0]), str(se[1])],
                                      'holes': [hole_json(h) for h in vhs], 'stored_coordinates_of_holes': [len(m[2]) for _, m in hobj if m[0] == 'poly'],
                                      'scale': common_scale([*q] + [c for h in vhs for v in (h[1] if h[0] == 'poly' else h[1:]) for c in v])},
                                     {'query': [str(q[0]), str(q[1])], 'contains_coordinate': b, 'exact_reference': want}))
        ck.count('dense:box+holes')

    t_fam['dense'] = time.time()
    # ---------------------------------------------------------------- process history (see HISTORY_KINDS)
    # every kind of look-alike comes first in at least one case of the run (the first question about a segment is the one a
    # memo keeps); shapes: the grid corpus (rings, rings with holes, boxes with holes, a few dense rings), each in its own cell
    hist_rings = rings[:len(FIXED_RINGS)]
    kinds = list(HISTORY_KINDS) * (3 if thorough else 1)
    rng.shuffle(kinds)
    kinds += [rng.choice(HISTORY_KINDS[:5]) for _ in range(12 if thorough else 6)]          # the M / Z twins and queries once more
    for j, kind in enumerate(kinds):
        ox, oy = cells.pop()
        steps = history_steps(kind, rng)
        if rng.random() < 0.3:
            steps = steps + history_steps(rng.choice(HISTORY_KINDS), rng)                   # a second look-alike after the first
        hist = (kind, steps)
        needs_holes = 'hole' in kind
        t = rng.random()
        if t < 0.15 and not needs_holes:
            # dense ring
            name, ring = rng.choice(dense_pool)
            dense_case(name, ring, [], rng.randint(65, 100), rng.randrange(4 * len(ring)), rng.random() < 0.5, True,
                       history=hist, off=(ox, oy))
        elif t < 0.4 or (needs_holes and t < 0.7):
            # a box with polygon / box holes
            nw, se = ((0, 8), (8, 0)) if needs_holes or rng.random() < 0.5 else rng.choice(boxes[:2])
            hs = rng.choice([[HOLE_LIB[0]], [HOLE_LIB[1]], [HOLE_LIB[1], HOLE_LIB[5]], [HOLE_L, HOLE_NOTCH], [HOLE_LIB[3], HOLE_LIB[4]]]
                            + ([] if needs_holes else [[]]))
            nw, se = (nw[0] + ox, nw[1] + oy), (se[0] + ox, se[1] + oy)
            hs = [translate_hole(h, ox, oy) for h in hs]
            hobj = [mk_hole(h) for h in hs]
            box = GeoBox(C(nw), C(se), holes=[o for o, _ in hobj] or None)
            asks = prepare_history(steps, ('box', nw, se, hs), box)
            gx = (ox - 1, ox + 9, oy - 1, oy + 9)
            outs = []
            i = len(cases)
            for q in grid_points(*gx):
                ask_history(asks, q)
                b = box.contains_coordinate(C(q))
                outs.append(b)
                n_eval += 1
                if q[0] in (nw[0], se[0]) or q[1] in (nw[1], se[1]) or any(
                        hh[0] == 'poly' and (ref_ring(q, hh[1]) == 'boundary' or any(v[1] == q[1] for v in hh[1])) for hh in hs):
                    nontrivial.add(('box', kind, nw, se, len(hs), q))
                want = ref_box(q, nw, se, hs)
                if b != want:
                    prop_bad.append((i, {'query': [str(q[0]), str(q[1])], 'contains_coordinate': b, 'exact_reference': want}))
            add(f'KBoxGrid {zlit(W)} {ptlit(nw)} {ptlit(se)} {listlit([holelit(m) for _, m in hobj])} '
                f'{zlit(gx[0] * SCALE)} {zlit(gx[1] * SCALE)} {zlit(gx[2] * SCALE)} {zlit(gx[3] * SCALE)} {boollist(outs)}',
                {'k': 'box', 'nw': [str(nw[0]), str(nw[1])], 'se': [str(se[0]), str(se[1])], 'holes': [hole_json(h) for h in hs], 'grid': gx,
                 'history': {'kind': kind, 'asked_before_each_query': steps}})
            ck.count('history:' + kind + ':box')
        else:
            if needs_holes or t > 0.8:
                name, ring = rng.choice(hosts)
                hs = rng.choice(combos + (OVERLAPPING_EXTENTS if name.startswith('square') else []))
            else:
                (name, ring), hs = rng.choice(hist_rings + rings[len(FIXED_RINGS):]), []
            ring = [(x + ox, y + oy) for x, y in ring]
            hs = [translate_hole(h, ox, oy) for h in hs]
            gx = (ox - 1, ox + 9, oy - 1, oy + 9)
            grid_case(name, ring, rng.randrange(len(ring)), rng.random() < 0.5, rng.random() < 0.7, hs, GX=gx, gpts=grid_points(*gx),
                      history=hist)

    t_fam['history'] = time.time()
    ck.cov['seconds_new_families'] = {'dense': round(t_fam['dense'] - t_fam['start'], 1), 'history': round(t_fam['history'] - t_fam['dense'], 1),
                                      'all_generation': round(t_fam['history'] - ck.t0, 1)}
    ck.cov['evaluations'] = n_eval
    ck.cov['distinct_nontrivial'] = len(nontrivial)
    for i in (1, len(cases) // 2, len(cases) - 1):
        ck.sample(cases[i][:600])

    bad, broken = ck.corr('geom', IMPORTS, 'check', cases, chunk=60)

    # ---------------------------------------------------------------- classification
    reported = 0
    seen = set()
    for i, detail in prop_bad:
        if reported >= 5:
            break
        if i in seen:
            continue
        seen.add(i)
        ck.violation({'kind': 'property-fails-on-implementation', 'case': meta[i], 'failing_query': detail,
                      'all_failing_queries_of_case': [d for j, d in prop_bad if j == i][:20],
                      'theorems': 'C01_pip_exact / C01_poly_contains_spec / C01_box_contains_spec',
                      'how_to_replay': 'bin/check C01 --replay <this file>'})
        reported += 1
    for m, detail in prop_box_bad[:max(0, 5 - reported)]:
        ck.violation({'kind': 'property-fails-on-implementation', 'case': m, 'failing_query': detail,
                      'theorems': 'C01_box_contains_spec', 'how_to_replay': 'bin/check C01 --replay <this file>'})
        reported += 1
    for i in bad:
        if reported >= 5:
            break
        if i in seen:
            continue
        seen.add(i)
        ck.violation({'kind': 'model-vs-implementation', 'case': meta[i], 'gallina_case': cases[i][:4000],
                      'theorems': 'the model value is the one pinned by C01_* (Props/C01.v)',
                      'how_to_replay': 'bin/check C01 --replay <this file>'})
        reported += 1

    # known finding (reported to the lead; active once listed in KNOWN_FINDINGS.json): a coordinate on
    # the edge of a GeoBox used as a hole is excluded (GeoBox membership is inclusive)
    for f in ck.findings:
        if f.get('status') == 'open' and f.get('signature') == 'on_box_hole_boundary':
            poly = GeoPolygon([C(v) for v in [(0, 0), (8, 0), (8, 8), (0, 8), (0, 0)]], holes=[GeoBox(C((2, 6)), C((6, 2)))])
            if not poly.contains_coordinate(C((2, 4))):
                ck.known(f)

    # known finding D48: the 10-decimal rounding inside find_line_intersection flips the parity for a query whose latitude
    # needs 11+ decimals (exact even-odd reference says outside; the theorems are about exact arithmetic, DESIGN 3)
    for f in ck.findings:
        if f.get('status') == 'open' and f.get('signature') == 'latitude_beyond_ten_decimals':
            rp = f['replay']
            tri = GeoPolygon([Coordinate(x, y) for x, y in rp['outline'] + rp['outline'][:1]])
            if tri.contains_coordinate(Coordinate(*rp['query'])) != rp['expected']:
                ck.known(f)

    ck.finish(rule='16 fixed rings on the 0..8 grid (convex, concave, collinear vertices, axis-parallel edges, vertices touching a '
                   'level line from one side) + seeded star-shaped rings, each queried at EVERY grid and half-grid point of '
                   '[-1,9]^2 (441 queries: on vertices, on edges, on horizontal edges, level with vertices inside and outside), '
                   'rotations x windings x closed/open input (all in thorough, sampled in quick); the same with 1..2 holes '
                   '(polygon holes of both orientations, box holes); boxes with/without holes; random star-shaped polygons with '
                   'coordinates <= 1000 queried on vertices, edge midpoints, level with vertices and at random half-grid points; '
                   'the same rings, holes and grid / half-grid queries placed at continental / hemispheric scales (23 placements: '
                   'longitude extents 160..352 degrees - below, exactly and above 180 - mostly eastern, mostly western and straddling '
                   'the prime meridian, never crossing +-180; long edges carry intermediate collinear vertices so that no edge spans more '
                   'than 180 degrees; boxes wider than a hemisphere against the exact reference only); '
                   'find_line_intersection on random small segments; DENSE rings: axis-parallel fixed rings (square, L, U, notch, '
                   'stairs, arrow), seeded raster traces and stars with collinear vertices inserted at dyadic fractions of their edges up '
                   'to 65..300 stored coordinates (also dense polygon holes in sparse / dense hosts and in boxes), queried along the lines '
                   'through every exactly vertical / horizontal edge (edge, prolongations inside and outside), at and level with inserted '
                   'vertices and at random half-grid points, judged by the exact reference on the corners and by the model on the stored '
                   'ring; PROCESS HISTORY: the grid corpus (rings, holes, boxes with holes, dense rings) at translations nothing else '
                   'uses, every judged plain question preceded by look-alike questions whose answers are discarded (twins carrying M / Z / '
                   'both via constructor and POLYGON M/ZM text, rotated, reversed, without holes; the query with m= / z=; '
                   'include_boundary=True; an edge-sharing neighbour; the hole alone). Non-trivial = distinct (shape variant, query) '
                   'with the query on a boundary or level with a vertex (dense: also on the line through a vertex).',
              assumptions=['IEEE double arithmetic of the implementation is exact on the integer/half-integer grids used (DESIGN section 3)',
                           'the even-odd interior of a simple ring is its topological interior (Jordan curve theorem for polygons), not proved',
                           'no edge spans more than 180 degrees of longitude (ensure_edge_bounds is the identity; shapes spanning the '
                           'antimeridian are excluded by the property); longitudes are in [-180, 180) as Coordinate normalises them',
                           'a GeoBox used as a hole removes the CLOSED box (faithful to the code; the clause "on a hole boundary => contained" '
                           'is proved for polygon holes and refuted for box holes: C01_box_hole_boundary_refuted)'])


def replay(path):
    """rebuild the input from its constructor-level description, call the implementation, the exact
    reference and (through coqc) the model, and print the three answers"""
    import subprocess
    import tempfile
    from lib import COQ
    r = json.load(open(path))
    m = r.get('case') or {}
    print(json.dumps({k: v for k, v in r.items() if k not in ('gallina_case', 'all_failing_queries_of_case')}, indent=1)[:2500])
    qs = [r['failing_query']['query']] if 'failing_query' in r else []
    if not qs and m.get('k') == 'pts':
        qs = [q[:2] for q in m.get('queries', [])][:10]
    if not qs and 'grid' in m:
        g = m['grid']
        qs = [[str(x), str(y)] for x, y in grid_points(*g)]
    scale = m.get('scale', SCALE)
    w = -180 * scale
    holes = [hole_unjson(h) for h in m.get('holes', [])]
    if m.get('k') in ('grid', 'pts'):
        raw = [(F(x), F(y)) for x, y in m['raw']]
        ring = [(F(x), F(y)) for x, y in m['outline']]
        obj, hm = mk_poly(raw, holes)
        model = f'poly_contains {zlit(w)} {ringlit(outline_of(obj), scale)} {listlit([holelit(h, scale) for h in hm])}'
        ref = lambda q: ref_poly(q, ring, holes)                                 # noqa: E731
        desc = ('poly', raw, holes)
    elif m.get('k') == 'box':
        nw, se = (F(m['nw'][0]), F(m['nw'][1])), (F(m['se'][0]), F(m['se'][1]))
        hobj = [mk_hole(h) for h in holes]
        obj = GeoBox(C(nw), C(se), holes=[o for o, _ in hobj] or None)
        model = f'box_contains {zlit(w)} {ptlit(nw, scale)} {ptlit(se, scale)} {listlit([holelit(h, scale) for _, h in hobj])}'
        ref = lambda q: ref_box(q, nw, se, holes)                                # noqa: E731
        desc = ('box', nw, se, holes)
    else:
        return
    # a case of the process-history family: the look-alike questions are asked again before each query
    asks = prepare_history(m['history']['asked_before_each_query'], desc, obj) if m.get('history') else []
    if asks:
        print(f"history '{m['history']['kind']}': {len(asks)} look-alike question(s) asked before each query, answers discarded")
    qs = [(F(q[0]), F(q[1])) for q in qs]
    with tempfile.TemporaryDirectory() as td:
        fn = os.path.join(td, 'replay.v')
        with open(fn, 'w') as f:
            f.write(IMPORTS + '\n')
            f.write('Eval vm_compute in map (' + model + ') ' + listlit([ptlit(q, scale) for q in qs]) + '.\n')
        out = subprocess.run(['coqc', '-Q', os.path.join(COQ, 'theories'), 'GV', fn], cwd=td, stdout=subprocess.PIPE,
                             stderr=subprocess.STDOUT, text=True, timeout=300).stdout
    mvals = re.findall(r'\b(true|false)\b', out.split(':')[0]) if '=' in out else []
    shown = 0
    for k, q in enumerate(qs):
        ask_history(asks, q)
        impl = obj.contains_coordinate(C(q))
        mv = mvals[k] if k < len(mvals) else '?'
        want = ref(q)
        if len(qs) <= 12 or impl != want or str(impl).lower() != mv:
            print(f'query ({q[0]}, {q[1]}): implementation now = {impl}; model = {mv}; exact even-odd/boundary reference = {want}')
            shown += 1
    if not shown:
        print(f'{len(qs)} queries: implementation, model and exact reference agree on all of them now')


if __name__ == '__main__':
    if '--replay' in sys.argv:
        replay(sys.argv[sys.argv.index('--replay') + 1])
    else:
        main()
