#!/usr/bin/env python3
"""C13 - WKT round-trips; malformed or wrongly-typed text is rejected with ValueError.
See DESIGN.md section 5 / C13.  Model: coq/theories/Model/{RingM,WktM}.v."""
import copy
import json
import os
import re
import signal
import sys
from decimal import Decimal

sys.path.insert(0, os.path.dirname(os.path.abspath(__file__)))
from lib import Check, REPO, guarded, reslit, zlit, blit, listlit   # noqa: E402
import c14 as G                                                    # noqa: E402  generators / literals shared with C14
import gen_wkt                                                     # noqa: E402  (tools/)
import gen_wktio                                                   # noqa: E402  (tools/) writer / reader assembly

from geostructures import (Coordinate, GeoBox, GeoCircle, GeoLineString, GeoPoint, GeoPolygon,   # noqa: E402
                           MultiGeoLineString, MultiGeoPoint, MultiGeoPolygon)
from geostructures.parsers import parse_wkt                        # noqa: E402

SIMPLE = G.SIMPLE
TAG = {'point': 'TPoint', 'line': 'TLine', 'poly': 'TPoly', 'mpoint': 'TMPoint', 'mline': 'TMLine', 'mpoly': 'TMPoly'}
KEYWORD = {'POINT': 'TPoint', 'LINESTRING': 'TLine', 'POLYGON': 'TPoly', 'MULTIPOINT': 'TMPoint',
           'MULTILINESTRING': 'TMLine', 'MULTIPOLYGON': 'TMPoly'}
KIND_OF_TAG = {v: k for k, v in TAG.items()}


# ------------------------------------------------------------------ the harness's own WKT tokenizer
class NoTree(Exception):
    pass


def tokenize(text):
    """text -> (tag | None, upper, zm letters, nested lists of number strings); independent of the library"""
    m = re.match(r'([A-Za-z]*)', text)
    word = m.group(1)
    rest = text[len(word):]
    tag, zm, upper = None, '', False
    for kw in sorted(KEYWORD, key=len, reverse=True):
        if word.upper().startswith(kw) and re.fullmatch(r'[ZMzm]{0,2}', word[len(kw):]):
            tag = KEYWORD[kw]
            upper = word == kw
            attached = word[len(kw):]
            m2 = re.match(r'\s?([ZMzm]{0,2})\s?', rest) if not attached else re.match(r'()\s?', rest)
            marker = attached or m2.group(1)
            rest = rest[m2.end():]
            # the library looks for the marker case-sensitively, after a capital keyword
            zm = marker if (word[:len(kw)] == kw and marker.isupper()) else ''
            break
    pos = 0

    def group():
        nonlocal pos
        if pos >= len(rest) or rest[pos] != '(':
            raise NoTree('expected (')
        pos += 1
        items = []
        while True:
            while pos < len(rest) and rest[pos] == ' ':
                pos += 1
            if pos < len(rest) and rest[pos] == '(':
                items.append(group())
            else:
                j = pos
                while j < len(rest) and rest[j] not in '(),':
                    j += 1
                nums = rest[pos:j].split()
                if not nums:
                    raise NoTree('empty coordinate')
                items.append(tuple(nums))
                pos = j
            while pos < len(rest) and rest[pos] == ' ':
                pos += 1
            if pos < len(rest) and rest[pos] == ',':
                pos += 1
                continue
            if pos < len(rest) and rest[pos] == ')':
                pos += 1
                return items
            raise NoTree('expected , or )')
    tree = group()
    if rest[pos:].strip() != '':
        raise NoTree('trailing text')
    return tag, upper, zm, tree


def depth(tree):
    if isinstance(tree, tuple):
        return 0
    ds = {depth(x) for x in tree}
    if len(ds) != 1:
        raise NoTree('mixed nesting')
    return 1 + ds.pop()


def wkt_lit(tok, enc):
    tag, upper, zm, tree = tok
    d = depth(tree)
    if d not in (1, 2, 3):
        raise NoTree('depth')

    def tl(t):
        return listlit([zlit(enc(float(x))) for x in t])

    def lv(x, d):
        return tl(x) if d == 0 else listlit([lv(y, d - 1) for y in x])
    zl = listlit(['LZ' if c == 'Z' else 'LM' for c in zm])
    tg = 'None' if tag is None else f'(Some {tag})'
    return f'(mkwkt {tg} {blit(upper)} {zl} (W{d} {lv(tree, d)}))'


# ------------------------------------------------------------------ literals for the character level
def strlit(text):
    out, cur = [], ''
    for ch in text:
        if 32 <= ord(ch) < 127:
            cur += '""' if ch == '"' else ch
        else:
            assert ord(ch) < 128
            out.append(('s', cur))
            out.append(('c', ord(ch)))
            cur = ''
    out.append(('s', cur))
    lit = None
    for kind, v in reversed(out):
        if kind == 's':
            lit = f'"{v}"' if lit is None else f'(append "{v}" {lit})'
        else:
            lit = f'(String (ascii_of_nat {v}%nat) {lit})'
    return lit


def dec_of(v):
    sign, digits, exp = Decimal(repr(float(v))).as_tuple()
    m = int(''.join(map(str, digits)))
    return (-m if sign else m), exp


class DecEnc:
    """floats -> integers at one common power of ten (chosen after all values are seen)"""

    def __init__(self):
        self.vals = []

    def __call__(self, x):
        self.vals.append(dec_of(x))
        return ('@', len(self.vals) - 1)


def obs_geom_dec(shape):
    """observed shape -> (geom literal over integers at one power of ten, that exponent)"""
    vals = []

    def collect(x):
        vals.append(dec_of(x))
        return 0
    G.obs_geom(shape, collect)
    e = min([0] + [d[1] for d in vals])

    def enc(x):
        m, ex = dec_of(x)
        return m * 10 ** (ex - e)
    return f'({G.obs_geom(shape, enc)}, {zlit(e)})'


class Hang(Exception):
    pass


def _alarm(*_):
    raise Hang()


def run_impl(fn):
    signal.signal(signal.SIGALRM, _alarm)
    signal.setitimer(signal.ITIMER_REAL, 5.0)
    try:
        return guarded(fn)
    except Hang:
        return ('Err', 'OtherError')
    finally:
        signal.setitimer(signal.ITIMER_REAL, 0)


# the coordinate token of the WKT grammar (the harness's pinned copy, for the D26 signature only)
MY_COORD = re.compile(r'(?:-?\d{1,3}(?:\.?\d*)?(?:[eE][-+]?\d+)?\s?){2,4}\s?')


def digit_run_split(case):
    """D26: the grammar accepts a coordinate token that has no single-space separator (a digit run it
    splits into several numbers, or numbers separated by other whitespace): split(' ') yields one part"""
    return any(len(tok.split(' ')) < 2 for tok in MY_COORD.findall(case['text']))


PREDICATES = {'z_zero': lambda case: G.has_z0(case['spec']), 'digit_run_split': digit_run_split}


def fixed_shapes():
    C = lambda x, y, z=None: (x, y, z)   # noqa: E731
    sq = [C(0.0, 0.0), C(4.0, 0.0), C(4.0, 4.0), C(0.0, 4.0), C(0.0, 0.0)]
    hole = [C(1.0, 1.0), C(2.0, 1.0), C(2.0, 2.0), C(1.0, 2.0), C(1.0, 1.0)]
    tri = [C(10.0, 10.0), C(11.0, 10.0), C(11.0, 11.0), C(10.0, 10.0)]
    th = [C(1.0, 0.5), C(2.0, 0.5), C(2.0, 1.5), C(1.0, 0.5)]
    return [
        {'kind': 'point', 'c': C(12.5, -3.25)},
        {'kind': 'point', 'c': C(1.0, 2.0, 3.5)},
        {'kind': 'line', 'vs': [C(0.0, 0.0), C(1.5, 1.0), C(2.0, -0.5)]},
        {'kind': 'poly', 'o': sq, 'holes': [{'o': hole}]},
        {'kind': 'mpoint', 'cs': [C(0.0, 0.0), C(1.0, 1.5)]},
        {'kind': 'mline', 'ls': [[C(0.0, 0.0), C(1.0, 1.0)], [C(2.0, 2.0), C(3.0, 3.5)]]},
        {'kind': 'mpoly', 'ps': [{'o': [C(0.0, 0.0), C(4.0, 0.0), C(4.0, 4.0), C(0.0, 0.0)], 'holes': [{'o': th}]}, {'o': tri}]},
    ]


SPECIAL_TEXTS = [
    'POINT(1234)', 'POINT(12)', 'POINT(12 34)', 'POINT(1 2 3 4 5)', 'POINT(1.2.3 4)', 'POINT(1e2 2)', 'POINT(1E-2 2e+1)',
    'POINT(1e-05 5.0)', 'POINT(-1 -2)', 'POINT(+1 2)', 'POINT(1  2)', 'POINT( 1 2 )', 'POINT(1 2 )', 'POINT(1 2 3 4 )',
    'POINT(1 2 3 )', 'POINT Z(1 2 3 )', 'POINT (1 2)', 'POINT  (1 2)', 'POINTZ(1 2 3)', 'POINT Z (1 2 3)', 'POINT M (1 2 3)',
    'POINT ZM(1 2 3 4)', 'POINT MZ(1 2 3 4)', 'POINT ZZ(1 2 3 4)', 'POINT MM(1 2 3 4)', 'POINT Z(1 2)', 'POINT ZM(1 2 3)',
    'POINT ZMZ(1 2 3)', 'point z(1 2 3)', 'POINT z(1 2 3)', 'Point M(1 2 3)', 'POINT(1. 2.)', 'POINT(.5 2)', 'POINT(1 2)\n',
    'POINT(1 2)\n\n', 'POINT(1 2) ', ' POINT(1 2)', 'POINT(1\t2)', 'POINT(1\n2)', 'POINT(1 2\t)', 'POINT(1,2)', 'POINT()', 'POINT',
    'POINT(1 2', 'POINT 1 2)', 'POINT((1 2))', 'POINT(a b)', 'POINT(1 2)x', 'xPOINT(1 2)', '', '(1 2)', '12', 'POINT(-0 -0.0)',
    'POINT(179.75 89.5)', 'POINT(0.0001 1e-7)', 'POINT(1-2 3)', 'POINT(1 -2-3)', 'POINT(1e 2)', 'POINT(1e+ 2)', 'POINT(1.e1 2)',
    'POINT(1..2 3)', 'POINT(- 1 2)', 'POINT(1 2 3 4)', 'POINT(12345 6)', 'POINT(1234567 8)',
    'POINT(1.0 2.0 1500.5)', 'POINT(1.0 2.0 1500.0)', 'MULTIPOINT(6.5 0.1 12345.678, 1.0 0.5)', 'LINESTRING(1 2 1500.5,3 4 1600.25)',
    'LINESTRING(1 2)', 'LINESTRING(1 2,3 4,)', 'LINESTRING()', 'LINESTRING(1 2 3 4 5 6)', 'LINESTRING(1 2,,3 4)',
    'LINESTRING(1 2, 3 4)', 'LINESTRING(1 2 ,3 4)', 'LINESTRING(1 2 , 3 4)', 'LINESTRING(1 2  ,3 4)', 'LINESTRING (1 2,3 4)',
    'LINESTRING((1 2,3 4))', 'LINESTRING(1 2,3 4)(5 6,7 8)', 'LINESTRING Z(1 2 3,4 5 6)', 'LINESTRING(1 2 3,4 5)', 'linestring(0 0,1 1)',
    'POLYGON((0 0,1 0,1 1,0 0))', 'POLYGON((0 0,1 0,1 1,0 0),)', 'POLYGON((0 0,1 0,1 1,0 0)(0.25 0.25,0.5 0.25,0.5 0.5,0.25 0.25))',
    'POLYGON((0 0,1 0,1 1))', 'POLYGON((0 0,0 1,1 1,0 0))', 'POLYGON(0 0,1 0,1 1,0 0)', 'POLYGON()', 'POLYGON(())', 'POLYGON((0 0))',
    'POLYGON((0 0,1 0,1 1,0 0),(0 0,1 1,2 2,0 0))', 'POLYGON ((0 0,1 0,1 1,0 0))', 'POLYGON((0 0,1 0,1 1,0 0)) ',
    'POLYGON(((0 0,1 0,1 1,0 0)))', 'POLYGON((0 0 5,1 0 5,1 1 5,0 0 5))',
    'MULTIPOINT((0 0),(1 1))', 'MULTIPOINT ((0 0), (1 1))', 'MULTIPOINT(0 0, 1 1)', 'MULTIPOINT(0 0)', 'MULTIPOINT()', 'MULTIPOINT Z(0 0 1, 1 1 2)',
    # the OGC multipoint form (repair D41) and its near misses
    'MULTIPOINT Z ((0 0 5), (1 1 6))', 'MULTIPOINT((0 0, 1 1))', 'MULTIPOINT((0 0) (1 1))', 'MULTIPOINT(())', 'MULTIPOINT((0 0),(1 1)',
    'MULTIPOINT((0 0)),(1 1))', 'MULTIPOINT((0 0),1 1)', 'MULTIPOINT(0 0,(1 1))', 'MULTIPOINT(((0 0)))', 'MULTIPOINT ( (0 0) , (1 1) )', 'multipoint((0 0))',
    'MULTILINESTRING((0 0,1 1),(2 2,3 3))', 'MULTILINESTRING((0 0,1 1))', 'MULTILINESTRING(0 0,1 1)', 'MULTILINESTRING((0 0,1 1)(2 2,3 3))',
    'MULTILINESTRING()', 'MULTILINESTRING (( 0 0,1 1))',
    'MULTIPOLYGON(((0 0,1 0,1 1,0 0)))', 'MULTIPOLYGON(((0 0,1 0,1 1,0 0)),((5 5,6 5,6 6,5 5)))', 'MULTIPOLYGON(((0 0,1 0,1 1,0 0))((5 5,6 5,6 6,5 5)))',
    'MULTIPOLYGON(((0 0,4 0,4 4,0 0),(1 0.5,2 0.5,2 1.5,1 0.5)))', 'MULTIPOLYGON(((0 0,4 0,4 4,0 0),(1 0.5,2 1.5,2 0.5,1 0.5)), ((5 5,6 5,6 6,5 5)))',
    'MULTIPOLYGON((0 0,1 0,1 1,0 0))', 'MULTIPOLYGON()', 'MULTIPOLYGON((()))', 'MULTIPOLYGON (((0 0,1 0,1 1,0 0)))', 'multipolygon(((0 0,1 0,1 1,0 0)))',
    'GEOMETRYCOLLECTION(POINT(1 2))', 'POINT EMPTY', 'POLYGON EMPTY', 'SRID=4326;POINT(1 2)', 'CIRCULARSTRING(0 0,1 1,2 0)',
]

# texts on which the token-level reader is compared too (comma separated, well-lexed numbers)
TOKEN_SPECIALS = [
    'POINT Z (1 2 3)', 'POINT M (1 2 3)', 'POINT ZM(1 2 3 4)', 'POINT MZ(1 2 3 4)', 'POINT ZZ(1 2 3 4)', 'POINT MM(1 2 3 4)', 'POINT Z(1 2)',
    'POINT ZM(1 2 3)', 'POINTZ(1 2 3)', 'point z(1 2 3)', 'POINT z(1 2 3)', 'Point M(1 2 3)', 'POINT(1 2 3 4 5)', 'POINT(1 2 3 4)', 'POINT(1,2)',
    'POINT(1)', 'LINESTRING(1 2)', 'LINESTRING((1 2,3 4))', 'LINESTRING Z(1 2 3,4 5 6)', 'LINESTRING(1 2 3,4 5)', 'linestring(0 0,1 1)',
    'POLYGON((0 0,1 0,1 1,0 0))', 'POLYGON((0 0,1 0,1 1))', 'POLYGON((0 0,0 1,1 1,0 0))', 'POLYGON(0 0,1 0,1 1,0 0)', 'POLYGON((0 0))',
    'POLYGON((0 0,1 0,1 1,0 0),(0 0,1 1,2 2,0 0))', 'POLYGON(((0 0,1 0,1 1,0 0)))', 'POLYGON((0 0 5,1 0 5,1 1 5,0 0 5))',
    'MULTIPOINT((0 0),(1 1))', 'MULTIPOINT(0 0, 1 1)', 'MULTIPOINT(0 0)', 'MULTIPOINT Z(0 0 1, 1 1 2)', 'MULTILINESTRING((0 0,1 1),(2 2,3 3))',
    'MULTIPOINT Z ((0 0 5), (1 1 6))', 'MULTIPOINT((0 0, 1 1))', 'MULTIPOINT((0 0),(1 1),(2.5 3))', 'multipoint((0 0))',
    'MULTILINESTRING(0 0,1 1)', 'MULTIPOLYGON(((0 0,1 0,1 1,0 0)))', 'MULTIPOLYGON(((0 0,1 0,1 1,0 0)),((5 5,6 5,6 6,5 5)))',
    'MULTIPOLYGON(((0 0,4 0,4 4,0 0),(1 0.5,2 0.5,2 1.5,1 0.5)))', 'MULTIPOLYGON((0 0,1 0,1 1,0 0))', 'multipolygon(((0 0,1 0,1 1,0 0)))',
]

# Z values of every magnitude the writer emits: positional (incl. 1000 <= |z| < 1e16, repair D33) and exponent form
ZMAGS = [7.25, 1e-06, 999.75, -123.456, 1000.0, 1500.5, -8848.86, 12345.678, 99999.9, 1234567.125, 123456789012.5, 9007199254740993.0,
         999999999999999.9, 1e+16, 1.5e+16, -2.5e+20, 1.7976931348623157e+308, 1e-05, 5e-324]

ALPHABET = ['0', '7', '.', '-', ' ', ',', '(', ')', 'Z', 'x', '+']


def corruptions(text, alphabet):
    out = []
    for i in range(len(text)):
        out.append(('del', i, text[:i] + text[i + 1:]))
        for ch in alphabet:
            if ch != text[i]:
                out.append(('sub', i, text[:i] + ch + text[i + 1:]))
    for i in range(len(text) + 1):
        for ch in alphabet:
            out.append(('ins', i, text[:i] + ch + text[i:]))
    return out


def main():
    ck = Check('C13')
    ck.build_theories(['theories/Props/C13.vo', 'theories/Corr/WktK.vo'])
    try:
        rep = gen_wkt.main(REPO, os.path.join(ck.rundir, 'WktGen.v'))
    except Exception as ex:   # noqa
        rep = {'gen_wkt': f'failed({ex!r})'}
    ck.gen('WktGen.v', rep, 'WktGenEq.v')
    try:
        rep_io = gen_wktio.main(REPO, os.path.join(ck.rundir, 'WktIoGen.v'))
    except Exception as ex:   # noqa
        rep_io = {'gen_wktio': f'failed({ex!r})'}
    ck.gen('WktIoGen.v', rep_io, 'WktIoGenEq.v')
    ck.props('Props/C13.v')
    rng = ck.rng
    quick = ck.tier == 'quick'
    Q = G.Enc()
    cases, meta, pyviol = [], [], []
    nontrivial = set()

    def add(lit, m):
        cases.append(lit)
        meta.append(m)
        ck.count(m['op'] + ':' + str(m.get('kind', '')))

    def chars_case(tag, text, origin, kind=None, extra=None):
        """character-level case: Type.from_wkt (tag) or parse_wkt (None) on raw text"""
        cls = SIMPLE[KIND_OF_TAG[tag]] if tag else None
        r = run_impl((lambda: cls.from_wkt(text)) if cls else (lambda: parse_wkt(text)))
        m = {'op': 'chars', 'tag': tag, 'text': text, 'origin': origin, 'kind': kind or (KIND_OF_TAG[tag] if tag else 'parse'),
             'outcome': r[0] if r[0] == 'Ok' else r[1]}
        if extra:
            m.update(extra)
        tl = 'None' if tag is None else f'(Some {tag})'
        add(f'KChars {tl} {strlit(text)} {reslit(r, obs_geom_dec)}', m)
        if r[0] == 'Err' and r[1] != 'ValueError':
            pyviol.append((m, 'malformed_rejected_with_ValueError',
                           f'{"parse_wkt" if tag is None else cls.__name__ + ".from_wkt"}({text!r}) raised {r[1]} (or hung), not ValueError'))
        return r

    # ---- 1. write / read / dispatch on generated shapes (token level AND character level)
    kinds = ['point', 'line', 'poly', 'mpoint', 'mline', 'mpoly', 'box']
    per_kind = 30 if quick else 400
    specs = [s for s in fixed_shapes()]
    # rings / paths that write a vertex several times in a row (G.with_repeats: a writer, reader or `==` that normalises the
    # coordinate sequence); fixed here, and about a third of the seeded polygons / holes below carry random ones
    specs += G.repeat_corpus()
    for kind in kinds:
        for i in range(per_kind):
            specs.append(G.rand_spec(rng, kind, 'z' if i % 4 == 3 else None))
    for sp in specs:
        sp['dt'], sp['props'] = None, None
    specs += [{'kind': 'point', 'c': (1.0, 2.0, 0.0)}, {'kind': 'line', 'vs': [(0.0, 0.0, 0.0), (1.0, 1.0, 2.0)]}]     # D14, model faithful
    def touch_vertices(o):
        """read-only uses of the shape's own Coordinate objects (labels in the other order, tuples) before writing:
        the text must not depend on them"""
        cs = []
        for attr in ('coordinate', 'vertices', 'outline', 'nw_bound', 'se_bound'):
            v = getattr(o, attr, None)
            if v is not None:
                cs += v if isinstance(v, list) else [v]
        for m_ in getattr(o, 'geoshapes', []) or []:
            touch_vertices(m_)
        for h_ in getattr(o, 'holes', []) or []:
            touch_vertices(h_)
        for c_ in cs[:3] + cs[-1:]:
            guarded(lambda: (c_.to_str(reverse=True), c_.to_float(reverse=True), c_.to_str(), str(c_)))

    for n, spec in enumerate(specs):
        spec.setdefault('dt', None)
        spec.setdefault('props', None)
        kind = spec['kind']
        obj = G.build(spec, style=n)
        if n % 3 == 1:
            touch_vertices(obj)
            ck.count('written after read-only uses of its coordinates')
        text = obj.to_wkt()
        m = {'op': 'write', 'kind': kind, 'spec': spec, 'text': text, 'style': n}
        try:
            tok = tokenize(text)
            wl = wkt_lit(tok, Q)
        except (NoTree, ValueError) as ex:
            pyviol.append((m, 'wkt_roundtrip', f'to_wkt produced text the independent tokenizer cannot read: {text!r} ({ex})'))
            continue
        glit, outer, inner = G.geom_lit(spec, obj, Q)
        add(f'KWrite {G.tablit(outer, Q)} {G.tablit(inner, Q)} {glit} None {wl}', m)
        nontrivial.add(('shape', json.dumps(spec, sort_keys=True, default=str)))
        if kind not in SIMPLE:
            # shapeless_write: the text is the text of the polygon form
            pt = obj.to_polygon().to_wkt()
            if pt != text:
                pyviol.append((m, 'shapeless_write', f'{type(obj).__name__}.to_wkt() = {text!r} but its polygon form writes {pt!r}'))
            continue
        tag = TAG[kind]
        r = run_impl(lambda: SIMPLE[kind].from_wkt(text))
        add(f'KRead {tag} {wl} {reslit(r, lambda s: G.obs_geom(s, Q))}', dict(m, op='read'))
        r2 = run_impl(lambda: parse_wkt(text))
        add(f'KParseTok {wl} {reslit(r2, lambda s: G.obs_geom(s, Q))}', dict(m, op='parse_tok'))
        chars_case(tag, text, 'written', kind, {'spec': spec})
        chars_case(None, text, 'written', kind, {'spec': spec})
        # the property itself
        if not G.has_z0(spec):
            for how, rr in (('Type.from_wkt', r), ('parse_wkt', r2)):
                if rr[0] != 'Ok':
                    pyviol.append((m, 'wkt_roundtrip', f'{how} raised {rr[1]} on the library\'s own text {text!r}'))
                else:
                    back = rr[1]
                    if not (back == obj and obj == back):
                        pyviol.append((m, 'wkt_roundtrip', f'{how}({text!r}) != the shape that wrote it'))
        elif r[0] == 'Ok' and r[1] != obj:
            pyviol.append((m, 'wkt_roundtrip', 'z = 0 lost'))      # excused below by the D14 signature
        # reading is a function of the text: after the first result has been updated in place (set_dt and
        # set_property are in-place by default) the same text must again read as a fresh, time-less shape
        if n % 3 == 0 and r[0] == 'Ok' and r2[0] == 'Ok':
            for how, fn, first, caseop in (('Type.from_wkt', lambda: SIMPLE[kind].from_wkt(text), r[1], f'KRead {tag}'),
                                           ('parse_wkt', lambda: parse_wkt(text), r2[1], 'KParseTok')):
                first.set_dt(G.EPOCH)
                first.set_property('seen', 1)
                again = guarded(fn)
                add(f'{caseop} {wl} {reslit(again, lambda s: G.obs_geom(s, Q))}', dict(m, op='read-again-after-update', how=how))
                if again[0] != 'Ok' or again[1] is first or again[1].dt is not None or again[1]._properties != {}:
                    pyviol.append((m, 'wkt_roundtrip', f'{how}({text!r}) read a second time, after the first result was updated in '
                                                       f'place, gives {again[1] if again[0] != "Ok" else (again[1], again[1].dt, again[1]._properties)}: '
                                                       'not a fresh shape equal to the first reading'))
                    ck.count('reread-after-update:bad')
                else:
                    ck.count('reread-after-update:ok')
        # wrong type: every other reader must refuse with ValueError
        for other in TAG:
            if other != kind and n < 60:
                chars_case(TAG[other], text, 'wrong-type', kind)

    # ---- 2. numbers of every magnitude the writer can emit (points / lines; opaque labels at token level)
    mags = [0.0, -0.0, 1.0, -1.0, 12.0, 179.0, -179.99999999999997, 89.99999999999999, 0.5, 0.1, -0.3, 1.2345678901234567,
            123.45678901234568, 0.0001, 0.00011, 1e-05, -1e-05, 1.5e-07, 2.2250738585072014e-308, 5e-324, 1e-10, 33.333333333333336,
            -77.0364, 38.8951, 100.0, 0.30000000000000004]
    n_mag = 40 if quick else 600
    for i in range(n_mag):
        L = G.Enc(labels=True)
        vs = [(rng.choice(mags) if rng.random() < 0.7 else rng.uniform(-179, 179) * 10 ** -rng.randint(0, 9),
               max(-90.0, min(90.0, rng.choice(mags) if rng.random() < 0.7 else rng.uniform(-89, 89) * 10 ** -rng.randint(0, 9))),
               rng.choice([None, None] + ZMAGS)) for _ in range(rng.randint(1, 4))]
        kind = 'point' if len(vs) == 1 else rng.choice(['line', 'mpoint'])
        spec = {'kind': kind, 'dt': None, 'props': None}
        spec.update({'c': vs[0]} if kind == 'point' else {'vs' if kind == 'line' else 'cs': vs})
        obj = G.build(spec)
        text = obj.to_wkt()
        m = {'op': 'write', 'kind': kind, 'spec': spec, 'text': text, 'style': 0}
        tok = tokenize(text)
        wl = wkt_lit(tok, L)
        glit, _, _ = G.geom_lit(spec, obj, L)
        add(f'KWrite [] [] {glit} None {wl}', m)
        r = run_impl(lambda: SIMPLE[kind].from_wkt(text))
        add(f'KRead {TAG[kind]} {wl} {reslit(r, lambda s: G.obs_geom(s, L))}', dict(m, op='read'))
        chars_case(TAG[kind], text, 'magnitudes', kind, {'spec': spec})
        chars_case(None, text, 'magnitudes', kind, {'spec': spec})
        nontrivial.add(('mag', text))
        if r[0] != 'Ok' or not (r[1] == obj and obj == r[1]):
            pyviol.append((m, 'wkt_roundtrip', f'Type.from_wkt({text!r}) -> {r}: not the shape that wrote it'))
        r2 = run_impl(lambda: parse_wkt(text))
        if r2[0] != 'Ok' or r2[1] != obj:
            pyviol.append((m, 'wkt_roundtrip', f'parse_wkt({text!r}) -> {r2}: not the shape that wrote it'))

    # ---- 3. curved shapes (fixed corpus): the written tree w.r.t. the sampled boundary
    for n, spec in enumerate(G.curved_corpus()):
        for k in (None, 4, 9):
            L = G.Enc(labels=True)
            obj = G.build(spec, style=n)
            text = obj.to_wkt(k=k) if k else obj.to_wkt()
            m = {'op': 'write', 'kind': spec['kind'], 'spec': spec, 'text': text[:300], 'k': k, 'style': n}
            tok = tokenize(text)
            wl = wkt_lit(tok, L)
            glit, outer, inner = G.geom_lit(spec, obj, L, k)
            if spec['kind'] == 'ring':      # GeoRing.to_wkt samples two GeoCircles
                kw = {'k': k} if k else {}
                outer = [(1, [G.ctuple(c) for c in GeoCircle(obj.center, obj.outer_radius).bounding_coords(**kw)])]
                inner = [(1, [G.ctuple(c) for c in GeoCircle(obj.center, obj.inner_radius).bounding_coords(**kw)])]
            kl = 'None' if k is None else f'(Some {k})'
            add(f'KWrite {G.tablit(outer, L)} {G.tablit(inner, L)} {glit} {kl} {wl}', m)
            nontrivial.add(('curved', n, k))
            back = run_impl(lambda: parse_wkt(text))
            if back[0] != 'Ok' or not isinstance(back[1], GeoPolygon):
                pyviol.append((m, 'shapeless_write', f'text written by {type(obj).__name__} is not read back as a polygon: {back}'))
            if spec['kind'] != 'ring':
                kw = {'k': k} if k else {}
                poly = obj.to_polygon(**kw)
                pt = poly.to_wkt()
                if pt != text:
                    pyviol.append((m, 'shapeless_write', f'{type(obj).__name__}.to_wkt differs from its polygon form\'s text'))
                # ... and the text reads back as that polygon form, vertex for vertex (a pie slice repeats its centre k + 1 times)
                if back[0] == 'Ok' and isinstance(back[1], GeoPolygon):
                    if not (back[1] == poly.copy().strip_dt() and len(back[1].outline) == len(poly.outline)):
                        pyviol.append((m, 'wkt_roundtrip', f'the text {type(obj).__name__}.to_wkt(k={k}) writes reads back as a polygon of '
                                                           f'{len(back[1].outline)} vertices that is != its polygon form ({len(poly.outline)} vertices)'))
                    else:
                        ck.count('curved text read back as the polygon form')

    # ---- 4. agreement with an independent reader (Shapely/GEOS), fixed corpus, observed
    import shapely
    agree = 0
    def ring_sizes(p_):
        ps = list(p_.geoms) if hasattr(p_, 'geoms') else [p_]
        return [[len(q.exterior.coords)] + [len(i_.coords) for i_ in q.interiors] if hasattr(q, 'exterior') else [len(q.coords)] for q in ps]
    pies = [sp for sp in G.curved_corpus() if sp['kind'] == 'wedge' and sp['r0'] == 0]
    def mixed_dim(sp):
        zs = {c[2] is None for p_ in ([sp] if 'o' in sp else sp.get('ps', [])) for r_ in [p_['o']] + [h_['o'] for h_ in p_.get('holes', []) if 'o' in h_]
              for c in r_}
        return len(zs) > 1
    for spec in fixed_shapes() + G.curved_corpus()[:8] + G.repeat_corpus() + pies:
        spec['dt'], spec['props'] = None, None
        if mixed_dim(spec):
            # a 2-D shell with a 3-D hole is written ring by ring ('POLYGON((0.0 0.0,...), (1.0 1.0 60.0,...))'), which GEOS does
            # not read at all: outside this corpus (observed and reported, unrelated to repeated vertices)
            ck.count('shapely: polygon with rings of different dimension left out')
            continue
        obj = G.build(spec)
        text = obj.to_wkt()
        m = {'op': 'shapely', 'kind': spec['kind'], 'spec': spec, 'text': text[:300]}
        why = ''
        try:
            a, b = shapely.from_wkt(text), obj.to_shapely()
            ok = a.equals_exact(b, 0.0) or (spec['kind'] == 'ring' and a.equals(b))
            if spec['kind'] != 'ring' and ring_sizes(a) != ring_sizes(b):     # vertex for vertex (equals_exact also says so)
                ok = False
                why = f': the independent reader sees rings of {ring_sizes(a)} vertices, the Shapely conversion has {ring_sizes(b)}'
        except Exception as ex:   # noqa
            ok = False
            m['error'] = repr(ex)
        if ok:
            agree += 1
        else:
            pyviol.append((m, 'independent_reader', 'shapely.from_wkt(text) differs from shape.to_shapely()' + why))
        # the other direction: the text an independent WRITER produces for the same geometry is read back as the shape
        if spec['kind'] in SIMPLE and not obj.has_z and not obj.has_m:      # (the Shapely bridge is 2-D)
            try:
                stext = obj.to_shapely().wkt
            except Exception as ex:   # noqa
                continue
            for how, fn in (('Type.from_wkt', lambda: SIMPLE[spec['kind']].from_wkt(stext)), ('parse_wkt', lambda: parse_wkt(stext))):
                back = run_impl(fn)
                if back[0] != 'Ok' or not back[1] == obj.copy().strip_dt():
                    pyviol.append((dict(m, shapely_text=stext[:300]), 'independent_writer',
                                   f'{how} of the text Shapely writes for the shape gives {back[1] if back[0] != "Ok" else "another shape"}'))
                else:
                    ck.count('shapely-written text read back')
    ck.cov['shapely_agreement'] = agree
    # ---- 4b. the Shapely bridge as a round trip: Type.from_shapely(shape.to_shapely()) is the shape again, for coordinates
    # with every number of decimals the writer can emit (mechanism class: any precision loss / reformatting inside the bridge).
    # 2-D simple shapes (the bridge drops nothing else); judged by == both ways and by exact ordinate comparison.
    from geostructures.collections import FeatureCollection
    def _nudge(v, j):
        return v + [0.0, 0.1234567, 0.000000123, 0.03648231234567, 1e-9, 0.5000004999][j % 6]
    bridge_n = 0
    for j in range(6 if ck.tier == 'quick' else 24):
        built = []
        for spec in fixed_shapes() + [x for x in G.repeat_corpus() if x['kind'] in SIMPLE]:
            sp = copy.deepcopy(spec)
            sp['dt'], sp['props'] = None, None
            def mv(c):
                return (_nudge(c[0], j), _nudge(c[1], j + 1), None)
            for key in ('c',):
                if key in sp:
                    sp[key] = mv(sp[key])
            if 'vs' in sp:
                sp['vs'] = [mv(c) for c in sp['vs']]
            if 'cs' in sp:
                sp['cs'] = [mv(c) for c in sp['cs']]
            if 'ls' in sp:
                sp['ls'] = [[mv(c) for c in l] for l in sp['ls']]
            def mvp(pp):
                pp['o'] = [mv(c) for c in pp['o']]
                for h in pp.get('holes', []):
                    h['o'] = [mv(c) for c in h['o']]
            if 'o' in sp:
                mvp(sp)
            for pp in sp.get('ps', []):
                mvp(pp)
            sp.setdefault('dt', None); sp.setdefault('props', None)
            obj = G.build(sp)
            built.append(obj)
            back = run_impl(lambda: SIMPLE[sp['kind']].from_shapely(obj.to_shapely()))
            bridge_n += 1
            ok = back[0] == 'Ok' and back[1] == obj and obj == back[1] and back[1].to_wkt() == obj.to_wkt()
            if not ok:
                pyviol.append(({'op': 'shapely-bridge', 'kind': sp['kind'], 'spec': sp, 'text': obj.to_wkt()[:300]}, 'shapely_bridge',
                               f'{type(obj).__name__}.from_shapely(shape.to_shapely()) is not the shape: '
                               f'{back[1].to_wkt()[:200] if back[0] == "Ok" else back}'))
        coll = run_impl(lambda: FeatureCollection.from_shapely(shapely.GeometryCollection([o.to_shapely() for o in built])))
        bridge_n += 1
        if coll[0] != 'Ok' or list(coll[1].geoshapes) != built:
            pyviol.append(({'op': 'shapely-bridge', 'kind': 'collection', 'text': '; '.join(o.to_wkt()[:60] for o in built)}, 'shapely_bridge',
                           'FeatureCollection.from_shapely(GeometryCollection of the shapes) does not give the shapes back'))
    ck.cov['shapely_bridge_round_trips'] = bridge_n

    # ---- 5. malformed stream: fixed special texts x every reader; every single-character corruption of valid texts
    for text in SPECIAL_TEXTS:
        for tag in list(TAG.values()) + [None]:
            chars_case(tag, text, 'special')
        nontrivial.add(('special', text))
    for text in TOKEN_SPECIALS:
        tok = tokenize(text)
        wl = wkt_lit(tok, Q)
        for kind, tag in TAG.items():
            r = run_impl(lambda: SIMPLE[kind].from_wkt(text))
            add(f'KRead {tag} {wl} {reslit(r, lambda s: G.obs_geom(s, Q))}', {'op': 'read', 'kind': kind, 'text': text, 'origin': 'special'})
        r = run_impl(lambda: parse_wkt(text))
        add(f'KParseTok {wl} {reslit(r, lambda s: G.obs_geom(s, Q))}', {'op': 'parse_tok', 'kind': 'parse', 'text': text, 'origin': 'special'})
    # valid base texts.  The polygon / multilinestring / multipolygon gates still backtrack exponentially on a match
    # that fails deep in the text (3 s for a 100-character polygon with one stray character, also after repair
    # D33), so those types use short bases; longer decimal-form ones only in the thorough tier.
    bases = [('TPoint', 'POINT(12.5 -3.25)'), ('TPoint', 'POINT(1.0 2.0 3.5)'), ('TPoint', 'POINT Z (1 2 1500.5)'),
             ('TLine', 'LINESTRING(0.0 0.0,1.5 1.0)'), ('TMPoint', 'MULTIPOINT(0.0 0.0, 1.0 1.5)'), ('TMPoint', 'MULTIPOINT((0.5 0.0), (1.0 1.5))'),
             ('TPoly', 'POLYGON((0 0,4 0,0 4), (1 1,1 2,2 1))'), ('TMLine', 'MULTILINESTRING((0 0,1 1), (2 2,3 3))'),
             ('TMPoly', 'MULTIPOLYGON(((0 0,4 0,0 4)), ((9 9,8 9,9 8)))')]
    if not quick:
        bases += [('TLine', 'LINESTRING(0.0 0.0,1.5 1.0,2.0 -0.5)'), ('TPoly', 'POLYGON((0.0 0.0,4.0 0.0,0.0 4.0))'),
                  ('TMPoly', 'MULTIPOLYGON(((0 0,4 0,0 4), (1 1,1 2,2 1)))')]
    for tag, base in bases:
        assert run_impl(lambda: SIMPLE[KIND_OF_TAG[tag]].from_wkt(base))[0] == 'Ok', base
    alphabet = ALPHABET if not quick else ['7', '.', '-', ' ', ',', '(', ')', 'Z']
    seen = set()
    for tag, base in bases:
        for how, i, text in corruptions(base, alphabet):
            if (tag, text) in seen:
                continue
            seen.add((tag, text))
            chars_case(tag, text, f'{how}@{i}', None, {'base': base})
            if quick and how == 'ins' and i % 2:
                continue
            chars_case(None, text, f'{how}@{i}', None, {'base': base})
            nontrivial.add(('corruption', text))

    # ---- 6. float(): the lexical grammar of the numbers, on a fixed list
    for t in ['1', '-1', '+1', '1.', '.5', '1.5', '1e5', '1E5', '1e-5', '1e+5', '1.e1', '.e1', 'e1', '1e', '1e+', '', ' ', ' 1', '1 ', '\t1\n', '-', '+',
              '.', '1.2.3', '1-2', '--1', '1e1.5', '0007', '-0', '-0.0', '12.50', '1,0', 'x', '1x', '00.10e02', '5e-324', '123456789.123456789']:
        r = guarded(lambda: float(t))
        ok = r[0] == 'Ok' and r[1] == r[1] and abs(r[1]) != float('inf')
        out = f'(Some ({zlit(dec_of(r[1])[0])}, {zlit(dec_of(r[1])[1])}))' if ok else 'None'
        if r[0] == 'Ok' and not ok:
            continue
        if len(re.sub(r'[^0-9]', '', t)) > 15:
            continue
        add(f'KFloat {strlit(t)} {out}', {'op': 'float', 'text': t, 'out': str(r)})

    ck.cov['evaluations'] = len(cases)
    ck.cov['distinct_nontrivial'] = len(nontrivial)
    for i in (0, 3, len(cases) // 3, len(cases) - 50):
        ck.sample(cases[max(0, min(i, len(cases) - 1))][:600])

    bad, broken = ck.corr('wkt', 'From Coq Require Import String Ascii.\nFrom GV Require Import Prelude RingM WktM WktK.\n'
                          'Open Scope string_scope. Open Scope Z_scope.', 'check', cases, chunk=300)

    reported = 0
    for i in bad:
        if reported >= 5:
            break
        ck.violation({'kind': 'model-vs-implementation', 'case': meta[i], 'gallina_case': cases[i][:4000],
                      'theorems': 'C13_* (Props/C13.v) are statements about the model; the character-level model decides accept/reject',
                      'how_to_replay': 'bin/check C13 --replay <this file>'})
        reported += 1
    seen_cl = set()
    for m, clause, detail in pyviol:
        f = None
        if clause == 'wkt_roundtrip' and 'spec' in m and G.has_z0(m['spec']):
            f = ck.finding_for(m, {'z_zero': PREDICATES['z_zero']})
        if clause == 'malformed_rejected_with_ValueError' and m.get('outcome') == 'TypeError':
            f = ck.finding_for(m, {'digit_run_split': PREDICATES['digit_run_split']})
        if f:
            ck.known(f)
            continue
        if clause in seen_cl or reported >= 8:
            continue
        seen_cl.add(clause)
        ck.violation({'kind': 'property-fails-on-implementation', 'clause': clause, 'detail': detail, 'case': m,
                      'theorems': f'C13_{clause}', 'how_to_replay': 'bin/check C13 --replay <this file>'})
        reported += 1

    # ---- regression for repair D33 (Z values of 1000 and above): a violation if it returns
    for text, zs in (('POINT(1.0 2.0 1500.5)', [1500.5]), ('MULTIPOINT(6.5 0.1 12345.678, 1.0 0.5)', [12345.678, None]),
                     ('LINESTRING(1.0 2.0 1000.0,3.0 4.0 123456789.25)', [1000.0, 123456789.25])):
        r = run_impl(lambda: parse_wkt(text))
        got = None
        if r[0] == 'Ok':
            s_ = r[1]
            cs = [s_.coordinate] if isinstance(s_, GeoPoint) else [p.coordinate for p in s_.geoshapes] if isinstance(s_, MultiGeoPoint) else s_.vertices
            got = [c.z for c in cs]
        if got != zs:
            ck.violation({'kind': 'property-fails-on-implementation', 'clause': 'wkt_roundtrip',
                          'detail': f'regression D33: parse_wkt({text!r}) gives z = {got if r[0] == "Ok" else r}, expected {zs}',
                          'case': {'op': 'chars', 'text': text}, 'theorems': 'C13_z_four_digits_read_exactly'})

    # ---- deterministic replays of the known findings
    for f in ck.findings:
        if f.get('status') != 'open':
            continue
        if f.get('signature') == 'z_zero':
            c = f['replay']['c']
            p = GeoPoint(G.Cd(tuple(c)))
            if GeoPoint.from_wkt(p.to_wkt()) != p:
                ck.known(f)
        if f.get('signature') == 'mixed_dimension_rings':
            import shapely as _sh
            rp = f['replay']
            P = GeoPolygon([Coordinate(*c) for c in rp['shell']], holes=[GeoPolygon([Coordinate(*c) for c in rp['hole']])])
            own = guarded(lambda: GeoPolygon.from_wkt(P.to_wkt()))
            try:
                _sh.from_wkt(P.to_wkt())
                indep_ok = True
            except Exception:   # noqa
                indep_ok = False
            if own[0] == 'Ok' and own[1] == P and not indep_ok:
                ck.known(f)
        if f.get('signature') == 'digit_run_split':
            r = guarded(lambda: GeoPoint.from_wkt(f['replay']['text']))
            if r == ('Err', 'TypeError'):
                ck.known(f)

    ck.finish(rule='seeded: every vertex-defined kind (point, line, polygon with 0-2 holes, the three multi forms, box) written, the '
                   'text tokenised independently and compared with the model\'s tree, read back by Type.from_wkt and parse_wkt '
                   '(token level and character level), by every wrong reader; points/lines over the magnitudes str(float) can emit '
                   '(exponent form, 17 digits, subnormals); about a third of the seeded rings (a sixth of the paths) write a vertex several '
                   'times in a row (G.with_repeats), plus a fixed corpus of those (G.repeat_corpus). Fixed: curved shapes x k incl. pie '
                   'slices (inner radius 0: the centre k + 1 times in a row), their text read back as the polygon form; Shapely agreement '
                   '(vertex for vertex) on a fixed corpus incl. the repeated-vertex shapes and pie slices; 150 '
                   'special texts x 7 readers; every single-character deletion / substitution / insertion (fixed alphabet) of seven '
                   'valid texts through the right reader and parse_wkt; float() lexical cases. non-trivial = distinct shape spec | '
                   'text',
              assumptions=['float(str(x)) == x and the decimal value of a number text with <= 15 digits is recovered by repr (CPython, observed)',
                           'coordinates in canonical range (Coordinate.__init__ wrapping is C08); out-of-range corrupted texts are compared by verdict only',
                           'ASCII text; \\s restricted to ASCII white space; \\d to ASCII digits',
                           'Shapely/GEOS as the independent reader is observed on a fixed corpus, not proved',
                           'M values are outside the property'])


def replay(path):
    r = json.load(open(path))
    m = r.get('case') or {}
    print(json.dumps({k: v for k, v in r.items() if k != 'gallina_case'}, indent=1, default=str)[:3000])
    if 'text' in m:
        text = m['text']
        for name, cls in list(SIMPLE.items()):
            print(f'{cls.__name__}.from_wkt now:', run_impl(lambda: cls.from_wkt(text)))
        print('parse_wkt now:', run_impl(lambda: parse_wkt(text)))


if __name__ == '__main__':
    if '--replay' in sys.argv:
        replay(sys.argv[sys.argv.index('--replay') + 1])
    else:
        main()
