#!/usr/bin/env python3
"""C05 - space-time predicates are the conjunction of the spatial and temporal tests."""
import contextlib
import itertools
import os
import sys
import time

sys.path.insert(0, os.path.dirname(os.path.abspath(__file__)))
from lib import Check, REPO, guarded, reslit, zlit, blit   # noqa: E402
import gen_gate, gen_time                                   # noqa: E402
from shapes import KINDS, mk_dt, dt_pair, to_dt, of_dt, H   # noqa: E402
from geostructures import Coordinate                        # noqa: E402
from geostructures.time import TimeInterval                 # noqa: E402


def ivl(p):
    return f'({zlit(p[0])}, {zlit(p[1])})'


def olit(p):
    return 'None' if p is None else f'(Some {ivl(p)})'


def dt_of_shape(s):
    return None if s.dt is None else (of_dt(s.dt.start), of_dt(s.dt.end))


def mem(t, p):
    return t == p[0] if p[0] == p[1] else p[0] <= t < p[1]


def time_sets(a, b):
    """(share an instant, b included in a) by probing endpoints and midpoints"""
    from fractions import Fraction
    pts = sorted({Fraction(x) for x in a + b})
    probes = pts + [(x + y) / 2 for x, y in zip(pts, pts[1:])]
    share = any(mem(t, a) and mem(t, b) for t in probes)
    incl = all(mem(t, a) for t in probes if mem(t, b))
    return share, incl


# ---- process time zones.  MECHANISM CLASS: anything that reads a timezone-naive datetime through the PROCESS-LOCAL zone
# (datetime.astimezone()/timestamp() on a naive value, fromtimestamp() without tz, time.mktime/localtime, strftime('%z'))
# instead of stamping it UTC is invisible while the process zone is UTC and wrong everywhere else.  The property says
# naive datetimes are read as UTC, whatever the process zone; so the naive part of the corpus is repeated under several
# zones set in-process (POSIX TZ strings: no tz database needed; 'UTC-9' is nine hours EAST of Greenwich).
ZONES = ['EST5EDT', 'UTC-9', '<+0330>-3:30', 'NZST-12NZDT,M9.5.0,M4.1.0/3', '<-11>11', 'CET-1CEST,M3.5.0,M10.5.0/3', '<+0545>-5:45']


@contextlib.contextmanager
def process_zone(tz):
    os.environ['TZ'] = tz
    time.tzset()
    try:
        yield
    finally:
        os.environ['TZ'] = 'UTC'
        time.tzset()


def txt(d, sep='T'):
    """a timezone-less text of a naive datetime that TimeInterval.from_str recognises by default"""
    return d.strftime(f'%Y-%m-%d{sep}%H:%M:%S.%f')


def naive_ways(kind, spec):
    """every public way of handing a shape of `kind` the timezone-NAIVE reading of `spec` (an instant or an interval):
    [(label, Gallina dtarg of the INTENDED UTC reading, thunk -> shape)].  All of them must yield the bounds of the
    aware UTC reading."""
    from datetime import timedelta
    K = KINDS[kind]
    other = mk_dt(('v', 0, 1))
    if spec[0] == 'i':
        t = spec[1]
        n = to_dt(t * H, 'naive')
        inst, iv = f'Instant {zlit(t * H)}', f'Interval {zlit(t * H)} {zlit(t * H)}'
        return [
            ('ctor(dt=naive)', inst, lambda: K(dt=n)),
            ('set_dt(naive)', inst, lambda: K().set_dt(n)),
            ('set_dt(naive, inplace=False)', inst, lambda: K(dt=other).set_dt(n, inplace=False)),
            ('ctor(dt=TimeInterval(naive, naive))', iv, lambda: K(dt=TimeInterval(n, n))),
            ('ctor(dt=TimeInterval(naive, timedelta(0)))', iv, lambda: K(dt=TimeInterval(n, timedelta(0)))),
            ('set_dt(TimeInterval(naive, naive))', iv, lambda: K(dt=other).set_dt(TimeInterval(n, n))),
            ('ctor(dt=TimeInterval.from_str(naive text))', iv, lambda: K(dt=TimeInterval.from_str(txt(n)))),
            ('ctor(dt=TimeInterval(naive, aware +01:30))', iv, lambda: K(dt=TimeInterval(n, to_dt(t * H, 90)))),
            ('ctor(dt=TimeInterval(naive, naive).copy())', iv, lambda: K(dt=TimeInterval(n, n).copy())),
            ('ctor(dt=naive) then buffer_dt(0)', inst, lambda: K(dt=n).buffer_dt(timedelta(0))),
        ]
    s, e = spec[1], spec[2]
    ns, ne = to_dt(s * H, 'naive'), to_dt(e * H, 'naive')
    iv = f'Interval {zlit(s * H)} {zlit(e * H)}'
    hour = timedelta(hours=1)
    ways = [
        ('ctor(dt=TimeInterval(naive, naive))', iv, lambda: K(dt=TimeInterval(ns, ne))),
        ('ctor(dt=TimeInterval(naive, timedelta))', iv, lambda: K(dt=TimeInterval(ns, timedelta(hours=e - s)))),
        ('set_dt(TimeInterval(naive, naive))', iv, lambda: K(dt=other).set_dt(TimeInterval(ns, ne))),
        ('set_dt(TimeInterval(naive, naive), inplace=False)', iv, lambda: K().set_dt(TimeInterval(ns, ne), inplace=False)),
        ('ctor(dt=TimeInterval.from_str(naive texts))', iv, lambda: K(dt=TimeInterval.from_str(txt(ns), txt(ne, ' ')))),
        ('ctor(dt=TimeInterval(naive, aware -05:00))', iv, lambda: K(dt=TimeInterval(ns, to_dt(e * H, -300)))),
        ('ctor(dt=TimeInterval(aware +01:30, naive))', iv, lambda: K(dt=TimeInterval(to_dt(s * H, 90), ne))),
        ('ctor(dt=union of two naive instants)', iv, lambda: K(dt=TimeInterval(ns, ns).union(TimeInterval(ne, ne)))),
        ('ctor(dt=intersection of two naive intervals)', iv,
         lambda: K(dt=TimeInterval(ns, ne + hour).intersection(TimeInterval(ns - hour, ne)))),
    ]
    if (e - s) % 2 == 0:
        mid = to_dt((s + e) // 2 * H, 'naive')
        ways.append(('ctor(dt=naive) then buffer_dt', iv, lambda: K(dt=mid).buffer_dt(timedelta(hours=(e - s) // 2))))
        ways.append(('ctor(dt=TimeInterval(naive, naive)) then buffer_dt', iv,
                     lambda: K(dt=TimeInterval(mid, mid)).buffer_dt(timedelta(hours=(e - s) // 2))))
    return ways


def reach(kind, spec, style, route):
    """a shape of `kind` whose time bounds are `spec`, reached as long-lived objects reach them: built with other
    bounds, asked time-aware questions (which may cache things), then updated IN PLACE.  Route 0 is the constructor.
    The predicates must depend on the bounds the shape reports now, whatever was asked before."""
    from datetime import timedelta
    if route == 0:
        return KINDS[kind](dt=mk_dt(spec, style)), 'ctor'

    def ask(x):
        probe = KINDS['polygon'](dt=mk_dt(('v', 0, 4)))
        guarded(lambda: (x.intersects(probe), probe.contains(x), x.dt.is_instant if x.dt else None,
                         x.contains_time(to_dt(H)) if x.dt else None, hash(x.dt)))
    if spec is not None and spec[0] == 'v' and (spec[2] - spec[1]) % 2 == 0 and route == 2:
        mid, half = (spec[1] + spec[2]) // 2, (spec[2] - spec[1]) // 2
        x = KINDS[kind](dt=mk_dt(('i', mid), style))          # an instant, queried, then widened in place
        ask(x)
        x.buffer_dt(timedelta(hours=half))
        return x, 'instant+query+buffer_dt'
    if spec is not None and spec[0] == 'i' and route == 2:
        x = KINDS[kind](dt=mk_dt(('v', spec[1] - 1, spec[1] + 1), style))   # an interval, queried, then shrunk to an instant
        ask(x)
        x.buffer_dt(timedelta(hours=-1))
        return x, 'interval+query+buffer_dt(-)'
    x = KINDS[kind](dt=mk_dt(('v', 1, 3) if spec is None or spec[0] == 'i' else ('i', spec[1]), style))
    ask(x)
    if spec is None:
        x.strip_dt()
        return x, 'query+strip_dt'
    x.set_dt(mk_dt(spec, style))
    return x, 'query+set_dt'


def st_laws(ka, kb, kc, sa, sb, sc, style):
    """first C05b law that fails on the implementation (text), or None"""
    a, b, c = (KINDS[k](dt=mk_dt(sp, style)) for k, sp in ((ka, sa), (kb, sb), (kc, sc)))
    a0, b0, c0 = KINDS[ka](), KINDS[kb](), KINDS[kc]()
    pa, pb, pc = dt_pair(sa), dt_pair(sb), dt_pair(sc)
    if a0.intersects_shape(b0) == b0.intersects_shape(a0) and a.intersects(b) != b.intersects(a):
        return f'C05_intersects_sym: a.intersects(b) = {a.intersects(b)}, b.intersects(a) = {b.intersects(a)}, the spatial answers agree'
    if (not a0.contains_shape(b0) or a0.intersects_shape(b0)) and a.contains(b) and not a.intersects(b):
        return 'C05_contains_imp_intersects: a.contains(b) but not a.intersects(b)'
    if (pb is not None or pa is None or pc is None) and (not (a0.contains_shape(b0) and b0.contains_shape(c0)) or a0.contains_shape(c0)):
        if a.contains(b) and b.contains(c) and not a.contains(c):
            return 'C05_contains_trans: a contains b, b contains c, a does not contain c (the spatial answers are transitive here)'
    if pa and pb:
        share, incl = time_sets(pa, pb)
        if not share and (a.intersects(b) or a.contains(b) or b in a):
            return 'C05_disjoint_time: the time sets are disjoint but a predicate says yes'
        # widening the receiver in place keeps a yes
        yes_c, yes_i = a.contains(b), a.intersects(b)
        from datetime import timedelta
        a.buffer_dt(timedelta(hours=1))
        if (yes_c and not a.contains(b)) or (yes_i and not a.intersects(b)):
            return 'C05_contains_mono / C05_intersects_mono: widening the receiver time bounds (buffer_dt) turned a yes into a no'
    if pa:
        for t in range(-1, 6):
            d = to_dt(t * H)
            iv = TimeInterval(d, d)
            a2 = KINDS[ka](dt=mk_dt(sa, style))
            if a2.intersects_time(iv) != a2.intersects_time(d) or a2.contains_time(iv) != a2.contains_time(d):
                return f'C05_intersects_time_instant / C05_contains_time_instant at hour {t}'
    return None


def main():
    ck = Check('C05')
    ck.build_theories(['theories/Props/C05.vo', 'theories/Props/C05b.vo', 'theories/Corr/ShapeK.vo'])
    rep = gen_time.main(REPO, os.path.join(ck.rundir, 'TimeGen.v'))
    ck.gen('TimeGen.v', rep, 'TimeGenEq.v')
    rep = gen_gate.main(REPO, os.path.join(ck.rundir, 'GateGen.v'))
    ck.gen('GateGen.v', rep, 'GateGenEq.v')
    ck.props('Props/C05.v')
    ck.props('Props/C05b.v')     # spatial laws lifted through the time gate by the order laws of TimeInterval (C06b)
    rng = ck.rng

    pts = range(5)
    specs = [None] + [('i', t) for t in pts] + [('v', s, e) for s in pts for e in pts if s < e]
    kinds = list(KINDS)
    styles = itertools.cycle(['utc', 'naive', 90, -300])
    cases, meta, nontriv = [], [], set()

    def add(lit, m):
        cases.append(lit); meta.append(m)

    # constructor / set_dt normalisation for every kind and every dt spec (incl. naive/offset)
    for k in kinds:
        for sp in specs:
            st = next(styles)
            arg = mk_dt(sp, st)
            r1 = guarded(lambda: dt_of_shape(KINDS[k](dt=arg)))
            r2 = guarded(lambda: dt_of_shape(KINDS[k]().set_dt(arg)))
            r3 = guarded(lambda: dt_of_shape(KINDS[k](dt=mk_dt(('v', 0, 1))).set_dt(arg, inplace=False)))
            d = 'NoDt' if sp is None else (f'Instant {zlit(sp[1] * H)}' if sp[0] == 'i' else f'Interval {zlit(sp[1] * H)} {zlit(sp[2] * H)}')
            for how, r in (('ctor', r1), ('set_dt', r2), ('set_dt_copy', r3)):
                add(f'KNorm ({d}) {reslit(r, olit)}', {'k': 'norm', 'kind': k, 'how': how, 'dt': sp, 'style': st, 'out': r})
    # an interval constructed backwards is rejected
    r = guarded(lambda: TimeInterval(to_dt(2 * H), to_dt(1 * H)))
    add(f'KNorm (Interval {2 * H} {H}) {reslit((r[0], None) if r[0] == "Ok" else r, olit)}', {'k': 'norm-reject', 'out': r[0]})

    # gate: pairs of kinds x dt specs
    pairs = [(a, b) for a in kinds for b in kinds]
    full = {('polygon', 'point'), ('circle', 'box'), ('multipolygon', 'line'), ('point', 'point'), ('box', 'multipoint')}
    n_samp = 6 if ck.tier == 'quick' else 60
    for ka, kb in pairs:
        if (ka, kb) in full or ck.tier == 'thorough' and rng.random() < 0.1:
            combos = [(x, y) for x in specs for y in specs]
        else:
            combos = [(rng.choice(specs), rng.choice(specs)) for _ in range(n_samp)] + [(None, ('i', 1)), (('v', 0, 2), ('v', 2, 4)), (('v', 0, 2), ('i', 2))]
        for ci, (sa, sb) in enumerate(combos):
            a, how_a = reach(ka, sa, next(styles), ci % 3)
            b, how_b = reach(kb, sb, next(styles), (ci // 3) % 3)
            ck.count('reached:' + how_a)
            if dt_of_shape(a) != dt_pair(sa) or dt_of_shape(b) != dt_pair(sb):
                ck.violation({'kind': 'property-fails-on-implementation', 'case': {'a': ka, 'b': kb, 'dta': sa, 'dtb': sb, 'how': [how_a, how_b],
                              'detail': f'time bounds after the updates are {dt_of_shape(a)} / {dt_of_shape(b)}, expected {dt_pair(sa)} / {dt_pair(sb)}'}})
                continue
            a0, b0 = KINDS[ka](), KINDS[kb]()        # the same geometry without time bounds: the spatial test proper
            obs = guarded(lambda: (a0.intersects_shape(b0), a0.contains_shape(b0), a.intersects(b), a.contains(b), b in a))
            if obs[0] != 'Ok':
                ck.violation({'kind': 'implementation-raised', 'case': {'a': ka, 'b': kb, 'dta': sa, 'dtb': sb, 'err': obs[1]}})
                continue
            si, sc, oi, oc, oin = obs[1]
            pa, pb = dt_pair(sa), dt_pair(sb)
            add(f'KGate {olit(pa)} {olit(pb)} {blit(si)} {blit(sc)} {blit(oi)} {blit(oc)} {blit(oin)}',
                {'k': 'gate', 'a': ka, 'b': kb, 'dta': sa, 'dtb': sb, 'how': [how_a, how_b], 'spatial': [si, sc], 'obs': [oi, oc, oin]})
            if pa and pb and len({pa[0], pa[1], pb[0], pb[1]}) < 4:
                nontriv.add((ka, kb, sa, sb))
            # the property itself, on the implementation's answers
            if pa and pb:
                share, incl = time_sets(pa, pb)
                exp_i, exp_c = si and share, sc and incl
            else:
                exp_i, exp_c = si, sc
            if (oi, oc, oin) != (exp_i, exp_c, exp_c):
                meta[-1]['property_violation'] = {'expected': [exp_i, exp_c, exp_c], 'observed': [oi, oc, oin]}
            ck.count(f'gate:{"dt" if pa else "none"}-{"dt" if pb else "none"}')
    # contains_time / intersects_time and the coordinate shortcut
    for sa in specs:
        a = KINDS['polygon'](dt=mk_dt(sa))
        pa = dt_pair(sa)
        for sb in specs[1:]:
            pb = dt_pair(sb)
            tb = TimeInterval(to_dt(pb[0]), to_dt(pb[1]))
            add(f'KTime {olit(pa)} {ivl(pb)} {blit(a.contains_time(tb))} {blit(a.intersects_time(tb))}',
                {'k': 'time', 'dta': sa, 'b': sb})
        for t in pts:
            d = to_dt(t * H, next(styles))
            add(f'KTimeDt {olit(pa)} {zlit(t * H)} {blit(a.contains_time(d))} {blit(a.intersects_time(d))}',
                {'k': 'timedt', 'dta': sa, 't': t})
        for k in kinds:
            s = KINDS[k](dt=mk_dt(sa))
            for c in (Coordinate(3, 3), Coordinate(40, 40)):
                cc = s.contains_coordinate(c)
                add(f'KCoord {olit(pa)} {blit(cc)} {blit(s.contains(c))}', {'k': 'coord', 'kind': k, 'dta': sa})

    # ---- the naive-datetime part of the corpus again under several PROCESS TIME ZONES (see ZONES above).  The Gallina
    # cases carry the bounds of the INTENDED UTC reading of each spec (never read back from the object).
    zones = ZONES[:5] if ck.tier == 'quick' else ZONES
    rot = rng.randrange(len(kinds))
    per_zone = 3 if ck.tier == 'quick' else len(kinds)

    def flag(m, exp, got, what):
        if exp != got:
            m['property_violation'] = {'expected': exp, 'observed': got, 'what': what}

    raised = []

    def build_naive(tz, kind, sp, way):
        """the shape, or None (reported, first two) when a legitimate way of giving naive times raises"""
        r = guarded(way[2])
        if r[0] == 'Ok':
            return r[1]
        raised.append(1)
        if len(raised) <= 2:
            ck.violation({'kind': 'property-fails-on-implementation',
                          'case': {'zone': tz, 'kind': kind, 'dt': sp, 'how': way[0], 'err': r[1]},
                          'detail': f'giving a shape the naive datetime(s) of {sp} (hours after 2020-01-01, a well-formed instant/interval) raised while the process time zone is {tz}'})
        return None

    for zi, tz in enumerate(zones):
        with process_zone(tz):
            zkinds = [kinds[(rot + zi * per_zone + j) % len(kinds)] for j in range(per_zone)]      # quick: 5 zones x 3 = all 15 kinds
            # (1) every way of giving the naive reading yields the bounds of the aware UTC reading
            for k in zkinds:
                for sp in specs[1:]:
                    for how, d, th in naive_ways(k, sp):
                        r = guarded(lambda: dt_of_shape(th()))
                        add(f'KNorm ({d}) {reslit(r, olit)}', {'k': 'norm', 'zone': tz, 'kind': k, 'how': how, 'dt': sp, 'style': 'naive', 'out': r})
                        flag(meta[-1], ('Ok', dt_pair(sp)), r, f'time bounds of the shape given the naive datetime(s) of {sp} (hours after 2020-01-01) '
                                                                f'while the process time zone is {tz}: must be those of the same wall-clock reading in UTC')
                        ck.count('zone:norm')
            # (2) the gate between a shape given NAIVE times and one stamped UTC / with an explicit offset (both orders)
            zpairs = [(zkinds[j % per_zone], rng.choice(kinds)) for j in range(per_zone + 1)]
            for ka, kb in zpairs:
                combos = [(rng.choice(specs[1:]), rng.choice(specs[1:])) for _ in range(8 if ck.tier == 'quick' else 40)]
                combos += [(('v', 0, 2), ('v', 2, 4)), (('v', 0, 2), ('i', 2)), (('i', 1), ('i', 1)), (('v', 1, 3), ('i', 1)), (('i', 3), ('v', 0, 4))]
                for ci, (sa, sb) in enumerate(combos):
                    wa = rng.choice(naive_ways(ka, sa))
                    how = wa[0]
                    xa = build_naive(tz, ka, sa, wa)
                    if xa is None:
                        continue
                    got = ('Ok', (xa, KINDS[kb](dt=mk_dt(sb, ['utc', 90, -300][ci % 3]))))
                    for swap in (False, True):
                        (x, kx, sx), (y, ky, sy) = ((got[1][1], kb, sb), (got[1][0], ka, sa)) if swap else ((got[1][0], ka, sa), (got[1][1], kb, sb))
                        x0, y0 = KINDS[kx](), KINDS[ky]()
                        obs = guarded(lambda: (x0.intersects_shape(y0), x0.contains_shape(y0), x.intersects(y), x.contains(y), y in x))
                        if obs[0] != 'Ok':
                            ck.violation({'kind': 'implementation-raised', 'case': {'zone': tz, 'a': kx, 'b': ky, 'dta': sx, 'dtb': sy, 'err': obs[1]}})
                            continue
                        si, sc, oi, oc, oin = obs[1]
                        px, py = dt_pair(sx), dt_pair(sy)
                        add(f'KGate {olit(px)} {olit(py)} {blit(si)} {blit(sc)} {blit(oi)} {blit(oc)} {blit(oin)}',
                            {'k': 'gate', 'zone': tz, 'a': kx, 'b': ky, 'dta': sx, 'dtb': sy, 'naive_operand': 'b' if swap else 'a', 'naive_given_as': how,
                             'other_operand_style': ['utc', 90, -300][ci % 3], 'spatial': [si, sc], 'obs': [oi, oc, oin]})
                        share, incl = time_sets(px, py)
                        flag(meta[-1], [si and share, sc and incl, sc and incl], [oi, oc, oin], 'intersects / contains / in: spatial AND temporal, naive times read as UTC')
                        if len({px[0], px[1], py[0], py[1]}) < 4:
                            nontriv.add((kx, ky, sx, sy))
                        ck.count('zone:gate')
            # (3) contains_time / intersects_time / `in` with a NAIVE datetime or an interval of naive datetimes, against shapes
            #     stamped UTC and against shapes that were themselves given naive times
            zspecs = specs[1:] if ck.tier == 'thorough' else [specs[1 + (zi + 3 * j) % 15] for j in range(5)] + [('v', 1, 3)]
            for sa in zspecs:
                pa = dt_pair(sa)
                wa = rng.choice(naive_ways(zkinds[-1], sa))
                for a, given in ((KINDS[zkinds[0]](dt=mk_dt(sa, 'utc')), 'utc'), (build_naive(tz, zkinds[-1], sa, wa), 'naive')):
                    if a is None:
                        continue
                    for t in pts:
                        d = to_dt(t * H, 'naive')
                        oc, oi, oin = a.contains_time(d), a.intersects_time(d), d in a.dt
                        add(f'KTimeDt {olit(pa)} {zlit(t * H)} {blit(oc)} {blit(oi)}', {'k': 'timedt', 'zone': tz, 'dta': sa, 'shape_given': given, 't': t, 'probe': 'naive datetime'})
                        flag(meta[-1], [mem(t * H, pa)] * 3, [oc, oi, oin], 'contains_time / intersects_time / `in` of a naive datetime')
                        ck.count('zone:time')
                    for sb in specs[1:]:
                        pb = dt_pair(sb)
                        tb = build_naive(tz, 'point', sb, rng.choice([w for w in naive_ways('point', sb) if w[0].startswith('ctor(dt=TimeInterval')]))
                        if tb is None:
                            continue
                        tb = tb.dt
                        oc, oi = a.contains_time(tb), a.intersects_time(tb)
                        add(f'KTime {olit(pa)} {ivl(pb)} {blit(oc)} {blit(oi)}', {'k': 'time', 'zone': tz, 'dta': sa, 'shape_given': given, 'b': sb, 'probe': 'interval of naive datetimes'})
                        share, incl = time_sets(pa, pb)
                        flag(meta[-1], [incl, share], [oc, oi], 'contains_time / intersects_time of an interval given as naive datetimes')
                        ck.count('zone:time')

    # collections: `collection.intersects(q)` for members that all carry time bounds is "some member intersects q"
    # (space AND time, member by member) - also after a member has been re-timed in place, which leaves a Track's
    # stored order non-chronological: the answer must not depend on that order.  (Implementation-side check.)
    from geostructures.collections import Track, FeatureCollection
    from datetime import timedelta
    coll_bad = 0
    n_fixed = 12
    for n in range(n_fixed + (40 if ck.tier == 'quick' else 400)):
        if n < n_fixed:
            # fixed scenario: the first-stored member is re-timed (in place) to after the query's end; the member that
            # hits the query in space and time is stored behind it
            first, hit = ['point_out', 'point', 'box_far'][n % 3], ['point', 'triangle'][n % 2]
            ks = [first, hit] + (['point_out'] if n % 4 == 0 else [])
            ms = [KINDS[k](dt=mk_dt(('i', j), next(styles))) for j, k in enumerate(ks)]
            coll = (Track if n % 2 == 0 or n > 5 else FeatureCollection)(ms)
            q = KINDS[['polygon', 'box', 'circle'][n % 3]](dt=mk_dt(('v', 0, 3), next(styles)))
            retime = [(coll.geoshapes[0], ('i', 4))]
        else:
            ks = [rng.choice(['point', 'point_out', 'box', 'box_far', 'triangle', 'line']) for _ in range(rng.randint(2, 5))]
            ms = [KINDS[k](dt=mk_dt(rng.choice([('i', rng.randrange(5)), ('v', 0, 2), ('v', 2, 4), ('v', 1, 3)]), next(styles))) for k in ks]
            coll = (Track if n % 2 else FeatureCollection)(ms)
            q = KINDS[rng.choice(['polygon', 'box', 'circle', 'box_far'])](dt=mk_dt(rng.choice(specs[1:]), next(styles)))
            retime = None
        for step in range(3):
            want = any(m.intersects(q) for m in coll.geoshapes)
            got = guarded(lambda: coll.intersects(q))
            ck.count('collection.intersects')
            if got != ('Ok', want):
                coll_bad += 1
                if coll_bad <= 2:
                    ck.violation({'kind': 'property-fails-on-implementation',
                                  'case': {'collection': type(coll).__name__, 'members': ks, 'member_dts': [str(m.dt) for m in coll.geoshapes],
                                           'query_dt': str(q.dt), 'after_in_place_updates': step, 'observed': str(got), 'expected': want},
                                  'detail': 'collection.intersects(q) differs from "some member intersects q (space and time)"'})
            # re-time one member in place (set_dt / buffer_dt are in-place by default)
            m = rng.choice(coll.geoshapes)
            if retime is not None and step == 0:
                retime[0][0].set_dt(mk_dt(retime[0][1], next(styles)))
            elif step == 0:
                m.set_dt(mk_dt(('i', rng.randrange(5)), next(styles)))
            else:
                m.buffer_dt(timedelta(hours=rng.choice([1, 2])))
    # ---- the theorems of Props/C05b.v as exact instances on the implementation: each law is conditional on the spatial
    # answers the implementation itself gives for the untimed twins, so it can only fail through the time gate
    n_laws = 0
    law_bad = []
    for _ in range(400 if ck.tier == 'quick' else 6000):
        ka, kb, kc = rng.choice(kinds), rng.choice(kinds), rng.choice(kinds)
        sa, sb, sc = rng.choice(specs), rng.choice(specs), rng.choice(specs)
        r = guarded(lambda: st_laws(ka, kb, kc, sa, sb, sc, next(styles)))
        n_laws += 1
        ck.count('laws:triples')
        if r[0] != 'Ok':
            continue                      # a raising predicate is reported by the gate family above
        if r[1]:
            law_bad.append(({'k': 'laws', 'a': ka, 'b': kb, 'c': kc, 'dta': sa, 'dtb': sb, 'dtc': sc}, r[1]))
    for m, why in law_bad[:3]:
        ck.violation({'kind': 'property-fails-on-implementation', 'case': m, 'detail': why,
                      'theorems': 'Props/C05b.v: the named law is a theorem of the gate model for every spatial predicate'})
    ck.cov['evaluations'] = len(cases) + n_laws
    ck.cov['distinct_nontrivial'] = len(nontriv)
    for i in (0, 200, 900, len(cases) - 1):
        ck.sample(cases[min(i, len(cases) - 1)])
    bad, broken = ck.corr('gate', 'From GV Require Import Prelude TimeM TimeK ShapeM ShapeK.', 'gcheck', cases)
    bad = set(bad) | {i for i, m in enumerate(meta) if 'property_violation' in m}
    for i in sorted(bad)[:5]:
        ck.violation({'kind': 'property-fails-on-implementation' if 'property_violation' in meta[i] else 'model-vs-implementation',
                      'case': meta[i], 'gallina_case': cases[i],
                      'theorems': 'C05_intersects_sem / C05_contains_sem / C05_instant_is_zero_interval (Props/C05.v)'})
    ck.finish(rule='all ordered pairs of 15 shape fixtures (12 single incl. curved, 3 multi) x dt specs drawn from {none, 5 instants, 10 intervals} '
                   'on a 5-point timeline (full 16x16 product for 5 kind pairs, seeded samples + fixed touching/instant-at-end combos for the rest), '
                   'aware/naive/offset datetimes cycled; constructor, set_dt (in place and copy) for every kind x spec; contains_time/intersects_time; '
                   'the naive-datetime part again under 5 (thorough 7) non-UTC PROCESS time zones set with TZ+tzset: ~10 public ways of giving a shape '
                   'the naive reading of each instant/interval (bounds must be those of the UTC reading), the gate between naive-given and UTC/offset-stamped '
                   'shapes in both orders, contains_time/intersects_time/in with naive datetimes and intervals of naive datetimes; '
                   'coordinate shortcut. Spatial answers are the implementation own intersects_shape/contains_shape on the same geometry WITHOUT time bounds. '
                   'non-trivial = both shapes time-bounded and the two intervals share an endpoint value (distinct (kinds,dts) counted)',
              assumptions=['spatial predicates are abstract in the theorems (any answers); C02 decides them',
                           'datetime -> integer microseconds UTC abstraction (as C06)'])


if __name__ == '__main__':
    if '--replay' in sys.argv:
        import json
        print(json.dumps(json.load(open(sys.argv[sys.argv.index('--replay') + 1])), indent=1))
    else:
        main()
