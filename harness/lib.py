"""Shared machinery of the checks (see DESIGN.md section 2.3).

A check = (1) build the hand-written Coq development (setup does it; re-made here under a lock,
a no-op when up to date); (2) regenerate the translator output from /repo's working tree and
compile the GenEq lemmas against it; (3) compile the property file and collect Print
Assumptions; (4) run the implementation on generated inputs, write the inputs together with
the implementation's outputs as Gallina literals, and let Coq's vm_compute compare them with
the model; (5) classify what broke, print VIOLATION / KNOWN-FINDING lines, write the evidence.
"""
import fcntl
import logging
logging.disable(logging.CRITICAL)      # the library warns on every naive datetime / open ring
import json
import os
import random
import re
import shutil
import subprocess
import sys
import time
import traceback
from concurrent.futures import ThreadPoolExecutor

VERIF = os.path.dirname(os.path.dirname(os.path.abspath(__file__)))
COQ = os.path.join(VERIF, 'coq')
REPO = os.environ.get('VERIF_REPO', '/repo')
sys.path.insert(0, os.path.join(VERIF, 'tools'))

COQC_TIMEOUT = 600
FORBIDDEN = re.compile(r'\b(Admitted|admit|Axiom|Axioms|Parameter|Parameters|Conjecture|Conjectures|'
                       r'Unset\s+Guard|bypass_check|type-in-type|impredicative-set|Admit\s+Obligations|'
                       r'Unset\s+Positivity|Unset\s+Universe)\b')
SECTION_ONLY = re.compile(r'^\s*(?:Local\s+|Global\s+)?(Variable|Variables|Hypothesis|Hypotheses|Context)\b')


def forbidden_in(txt):
    """Declarations that would add an axiom: the FORBIDDEN words anywhere (comments stripped), and
    Variable/Hypothesis/Context outside any Section (inside a Section they are discharged)."""
    txt = re.sub(r'\(\*.*?\*\)', '', txt, flags=re.S)
    out = [m.group(0) for m in FORBIDDEN.finditer(txt)]
    depth = 0
    for sentence in re.split(r'\.\s', txt):
        st = sentence.strip()
        if re.match(r'Section\s+\w+', st):
            depth += 1
        elif re.match(r'End\s+\w+', st) and depth > 0:
            depth -= 1
        else:
            m = SECTION_ONLY.match(st)
            if m and depth == 0:
                out.append(m.group(1) + ' outside a Section')
    return out


def sh(cmd, cwd=None, timeout=COQC_TIMEOUT, env=None):
    try:
        r = subprocess.run(cmd, cwd=cwd, timeout=timeout, env=env, stdout=subprocess.PIPE,
                           stderr=subprocess.STDOUT, text=True)
        return r.returncode, r.stdout
    except subprocess.TimeoutExpired as ex:
        return 124, (ex.stdout or '') + f'\nTIMEOUT after {timeout}s'


def zlit(z):
    z = int(z)
    return f'({z})' if z < 0 else f'{z}'


def blit(b):
    return 'true' if b else 'false'


def qlit(fr):
    """a fractions.Fraction / (num, den) as a Gallina Q literal"""
    n, d = (fr.numerator, fr.denominator) if hasattr(fr, 'numerator') else fr
    return f'({zlit(n)} # {d})'


def listlit(items):
    return '[' + '; '.join(items) + ']'


class Check:
    def __init__(self, pid, argv=None):
        argv = sys.argv[1:] if argv is None else argv
        self.pid = pid
        self.tier = os.environ.get('VERIF_TIER', 'quick')
        self.replay = None
        i = 0
        while i < len(argv):
            if argv[i] == '--tier':
                self.tier = argv[i + 1]; i += 2
            elif argv[i] == '--replay':
                self.replay = argv[i + 1]; i += 2
            else:
                i += 1
        if self.tier not in ('quick', 'thorough'):
            self.tier = 'quick'
        self.seed = int(os.environ.get('VERIF_SEED', '0') or 0)
        self.rng = random.Random(self.seed * 1000003 + sum(map(ord, pid)))
        # the library's own randomised routine (Welzl circumscribing circle) draws from the GLOBAL generator: seed it, so that
        # every run of a check is a function of VERIF_SEED alone (a harness that studies seed-dependence re-seeds it itself)
        random.seed(self.seed * 7919 + sum(map(ord, pid)))
        self.t0 = time.time()
        # VERIF_RUNTAG: a side run (seeded-mutant runs, concurrent development) that must not
        # disturb the registered run's scratch directory, evidence file or replays
        self.tag = os.environ.get('VERIF_RUNTAG', '')
        # one scratch directory per process, so that two runs of the same check never share files;
        # directories left by finished runs of the same check are removed here
        base = os.path.join(VERIF, '.run')
        os.makedirs(base, exist_ok=True)
        prefix = pid + self.tag + '.'
        for d in os.listdir(base):
            if d.startswith(prefix) and d[len(prefix):].isdigit() and not os.path.exists(f'/proc/{d[len(prefix):]}'):
                shutil.rmtree(os.path.join(base, d), ignore_errors=True)
        shutil.rmtree(os.path.join(base, pid + self.tag), ignore_errors=True)      # layout of earlier versions
        self.rundir = os.path.join(base, prefix + str(os.getpid()))
        shutil.rmtree(self.rundir, ignore_errors=True)
        os.makedirs(self.rundir, exist_ok=True)
        os.makedirs(os.path.join(VERIF, 'evidence'), exist_ok=True)
        os.makedirs(os.path.join(VERIF, 'replays'), exist_ok=True)
        self.obligations = []      # dicts: name kind ok detail
        self.violation_lines = []
        self.known_lines = []
        self.axioms = {}
        self.cov = {'evaluations': 0, 'distinct_nontrivial': 0, 'samples': [], 'classes': {}}
        self.notes = []
        self.translator = {}
        self.findings = [f for f in json.load(open(os.path.join(VERIF, 'KNOWN_FINDINGS.json')))['findings']
                         if f['property'] == pid]
        self._nreplay = 0
        self.Q = ['-Q', os.path.join(COQ, 'theories'), 'GV', '-Q', self.rundir, 'GVgen']

    # ------------------------------------------------------------------ build
    def build_theories(self, targets=None):
        """(re)build the hand-written development; full .vo, under a lock"""
        lock = open(os.path.join(COQ, '.build.lock'), 'w')
        fcntl.flock(lock, fcntl.LOCK_EX)
        try:
            sh([os.path.join(VERIF, 'tools', 'mkproject.sh')])
            if not os.path.exists(os.path.join(COQ, 'Makefile')) or \
                    os.path.getmtime(os.path.join(COQ, 'Makefile')) < os.path.getmtime(os.path.join(COQ, '_CoqProject')):
                sh(['coq_makefile', '-f', '_CoqProject', '-o', 'Makefile'], cwd=COQ)
            tg = targets or []
            rc, out = sh(['make', '-j16'] + tg, cwd=COQ, timeout=3000)
        finally:
            fcntl.flock(lock, fcntl.LOCK_UN)
            lock.close()
        ok = rc == 0
        if not ok:
            self.obligations.append({'name': 'hand-written development builds', 'kind': 'build', 'ok': False,
                                     'detail': out[-1500:]})
        self.scan_forbidden()
        return ok

    def scan_forbidden(self):
        bad = []
        for root, _, files in os.walk(COQ):
            for f in files:
                if f.endswith('.v'):
                    p = os.path.join(root, f)
                    for w in forbidden_in(open(p).read()):
                        bad.append(f'{os.path.relpath(p, COQ)}: {w}')
        self.obligations.append({'name': 'no Admitted/admit/Axiom/Parameter/disabled checks in the development',
                                 'kind': 'hygiene', 'ok': not bad, 'detail': '; '.join(bad)})
        return not bad

    def coqc(self, path, timeout=COQC_TIMEOUT):
        return sh(['coqc'] + self.Q + [path], cwd=self.rundir, timeout=timeout)

    def props(self, relfile):
        """compile the property file (in the run directory, so that the Print Assumptions output
        of THIS run is what the evidence reports)"""
        src = os.path.join(COQ, 'theories', relfile)
        dst = os.path.join(self.rundir, 'Run' + os.path.basename(relfile))
        txt = open(src).read()
        shutil.copy(src, dst)
        names = re.findall(r'^(?:Theorem|Example)\s+(\w+)', txt, flags=re.M)
        rc, out = self.coqc(dst)
        # parse Print Assumptions blocks, in order
        blocks = re.split(r'(?m)^(?=Closed under the global context|Axioms:)', out)
        blocks = [b for b in blocks if b.startswith(('Closed under', 'Axioms:'))]
        printed = re.findall(r'^Print Assumptions\s+(\w+)', txt, flags=re.M)
        for nm, b in zip(printed, blocks):
            ax = [] if b.startswith('Closed') else re.findall(r'^(\S+)\s*:', b[len('Axioms:'):], flags=re.M)
            self.axioms[nm] = ax
        failed_at = None
        if rc != 0:
            m = re.search(r'line (\d+), characters', out)
            failed_at = int(m.group(1)) if m else 0
        lines = txt.split('\n')
        for nm in names:
            ln = next(i for i, l in enumerate(lines, 1) if re.match(rf'(Theorem|Example)\s+{nm}\b', l))
            ok = rc == 0 or (failed_at is not None and self._proved_before(lines, ln, failed_at))
            self.obligations.append({'name': nm, 'kind': 'theorem', 'ok': ok,
                                     'detail': '' if ok else out[-800:]})
        if self.tier == 'thorough' and rc == 0 and not os.environ.get('VERIF_NO_COQCHK'):
            self.coqchk(relfile)
        return rc == 0

    def coqchk(self, relfile, timeout=2400):
        """thorough tier: re-check the compiled property file and everything it depends on with the
        independent checker, and record the axioms it reports"""
        mod = 'GV.' + relfile[:-2].replace('/', '.')
        # all coqchk calls of one check share a wall-clock budget, so that the registered command stays inside
        # its limit (bin/check: 5400 s) whatever the load; files over Reals/Interval alone can take 40 minutes
        if not hasattr(self, '_chk_left'):
            self._chk_left = float(os.environ.get('VERIF_COQCHK_BUDGET', '1800'))
        if self._chk_left < 120:
            self.cov.setdefault('coqchk_not_finished', []).append(f'{mod}: not started, the coqchk budget of this run was used up')
            return True
        timeout = min(timeout, self._chk_left)
        t_chk = time.time()
        rc, out = sh(['coqchk', '-silent', '-o', '-Q', os.path.join(COQ, 'theories'), 'GV', mod], cwd=COQ, timeout=timeout)
        self._chk_left -= time.time() - t_chk
        if rc == 124 or rc < 0 or rc == 137:
            # the independent re-check did not finish (time limit under machine load - Reals/Interval files take tens of
            # minutes - or the process was killed, e.g. by the kernel's out-of-memory handler: coqchk needs up to 3.7 GB):
            # coqc's kernel has already accepted every proof of this run, so this is recorded, not counted
            self.cov.setdefault('coqchk_not_finished', []).append(f'{mod}: no verdict (exit status {rc}) after {int(time.time() - t_chk)}s of at most {int(timeout)}s')
            return True
        m = re.search(r'\* Axioms:(.*?)\n\s*\n\* Constants/Inductives relying on type-in-type:(.*?)\n\s*\n'
                      r'\* Constants/Inductives relying on unsafe \(co\)fixpoints:(.*?)\n\s*\n'
                      r'\* Inductives whose positivity is assumed:(.*?)\n', out + '\n', flags=re.S)
        ok = rc == 0 and m is not None and all('<none>' in m.group(i) for i in (2, 3, 4))
        ax = [] if not m or '<none>' in m.group(1) else [a.strip() for a in m.group(1).strip().split('\n') if a.strip()]
        self.cov['coqchk_axioms'] = sorted(set(self.cov.get('coqchk_axioms', [])) | set(ax))
        self.obligations.append({'name': f'coqchk -o {mod} (independent re-check; no type-in-type / unsafe fixpoints / assumed positivity)',
                                 'kind': 'coqchk', 'ok': ok, 'detail': '' if ok else out[-600:]})
        return ok

    @staticmethod
    def _proved_before(lines, ln, failed_at):
        # the statement starting at ln is closed (Qed.) before the failing line
        for i in range(ln - 1, min(failed_at - 1, len(lines))):
            if re.search(r'\bQed\.', lines[i]):
                return True
        return False

    def gen(self, genfile, rep, geneq_src):
        """compile freshly generated <genfile> (already written into rundir) and the GenEq file"""
        self.translator.update(rep)
        rc, out = self.coqc(genfile)
        if rc != 0:
            self.obligations.append({'name': f'{genfile} compiles', 'kind': 'geneq', 'ok': False, 'detail': out[-800:]})
        src = os.path.join(COQ, 'geneq', geneq_src)
        dst = os.path.join(self.rundir, geneq_src)
        shutil.copy(src, dst)
        txt = open(src).read()
        lemmas = [(m.group(1), txt[:m.start()].count('\n') + 1)
                  for m in re.finditer(r'^\s*Lemma\s+(\w+)', txt, flags=re.M)]
        rc2, out2 = self.coqc(dst) if rc == 0 else (1, 'generated file did not compile')
        if rc2 == 0:
            for nm, _ in lemmas:
                self.obligations.append({'name': nm, 'kind': 'geneq', 'ok': True, 'detail': ''})
            return True
        # find every failing lemma: recompile with each failing lemma's proof replaced until it passes
        failing = []
        body = txt
        for _ in range(len(lemmas) + 1):
            m = re.search(r'line (\d+), characters', out2)
            if not m:
                break
            fl = int(m.group(1))
            cand = [nm for nm, ln in lemmas if ln <= fl]
            if not cand:
                break
            nm = cand[-1]
            failing.append(nm)
            # drop that lemma (blank its lines up to the next Qed.) and try again
            ls = body.split('\n')
            start = next(ln for n2, ln in lemmas if n2 == nm) - 1
            end = start
            while end < len(ls) and 'Qed.' not in ls[end]:
                end += 1
            for k in range(start, min(end + 1, len(ls))):
                ls[k] = ''
            body = '\n'.join(ls)
            open(dst, 'w').write(body)
            rc2, out2 = self.coqc(dst)
            if rc2 == 0:
                break
        if not failing:
            failing = ['<' + geneq_src + '>']
        for nm, _ in lemmas:
            self.obligations.append({'name': nm, 'kind': 'geneq', 'ok': nm not in failing,
                                     'detail': '' if nm not in failing else 'generated definition no longer provably equal to the model'})
        if failing == ['<' + geneq_src + '>']:
            self.obligations.append({'name': geneq_src, 'kind': 'geneq', 'ok': False, 'detail': out2[-800:]})
        return False

    # ------------------------------------------------------------- correspondence
    def corr(self, name, imports, check_fn, cases, chunk=400, show_fn=None, timeout=COQC_TIMEOUT, prelude=''):
        """cases: list of Gallina terms (strings). Returns sorted list of global indices on which
        the model and the implementation disagree (decided by vm_compute inside Coq), and a
        dict index -> text shown by show_fn (the model's side)."""
        files = []
        for k in range(0, len(cases), chunk):
            part = cases[k:k + chunk]
            fn = f'cases_{name}_{k // chunk}.v'
            with open(os.path.join(self.rundir, fn), 'w') as f:
                f.write(imports + '\n' + prelude + '\n')
                f.write('Definition cases := ' + listlit(part).replace('; ', ';\n  ') + '.\n')
                f.write(f'Definition bad := mismatches {check_fn} cases.\n')
                f.write('Eval vm_compute in bad.\n')
                f.write('Lemma corr_ok : bad = []. Proof. vm_compute. reflexivity. Qed.\n')
            files.append((k, fn, len(part)))

        def run(item):
            k, fn, n = item
            rc, out = self.coqc(fn, timeout=timeout)
            return k, fn, n, rc, out
        bad, broken = [], []
        with ThreadPoolExecutor(max_workers=14) as ex:
            for k, fn, n, rc, out in ex.map(run, files):
                m = re.search(r'=\s*\[(.*?)\]\s*:\s*list nat', out, flags=re.S)
                if m is not None:
                    idx = [int(x) for x in re.findall(r'\d+', m.group(1))]
                    bad += [k + i for i in idx]
                    ok = (rc == 0 and not idx)
                    if rc != 0 and not idx:
                        broken.append((fn, out[-600:]))
                else:
                    ok = False
                    broken.append((fn, out[-600:]))
                self.obligations.append({'name': f'corr_ok[{name}:{k // chunk}] ({n} cases)', 'kind': 'corr',
                                         'ok': ok, 'detail': '' if ok else out[-400:]})
        return sorted(bad), broken

    # ------------------------------------------------------------------ reporting
    def count(self, cls, nontrivial_key=None):
        self.cov['classes'][cls] = self.cov['classes'].get(cls, 0) + 1

    def sample(self, s, limit=6):
        if len(self.cov['samples']) < limit:
            self.cov['samples'].append(s)

    def finding_for(self, case, predicates):
        for f in self.findings:
            if f.get('status') == 'open' and f['signature'] in predicates and predicates[f['signature']](case):
                return f
        return None

    def known(self, finding, what=None):
        line = f"KNOWN-FINDING: property={self.pid} {finding['id']} {what or finding['what']}"
        if line not in self.known_lines:
            self.known_lines.append(line)
            print(line, flush=True)

    def violation(self, replay, no_input=False):
        self._nreplay += 1
        path = os.path.join(VERIF, 'replays', f'{self.pid}{self.tag}-{self._nreplay}.json')
        replay = dict(replay)
        replay.update({'property': self.pid, 'seed': self.seed, 'tier': self.tier})
        with open(path, 'w') as f:
            json.dump(replay, f, indent=1, default=str)
        line = f'VIOLATION property={self.pid} replay={path}' + (' no-failing-input-found' if no_input else '')
        self.violation_lines.append(line)
        print(line, flush=True)

    def finish(self, level='proof', rule='', assumptions=None, extra=None, checker_cmd=None):
        nobl = len(self.obligations)
        ndis = sum(1 for o in self.obligations if o['ok'])
        # broken obligations that no concrete violation accounts for
        failed = [o for o in self.obligations if not o['ok']]
        if failed and not self.violation_lines:
            self.violation({'kind': 'obligation-no-longer-checks',
                            'obligations': [{'name': o['name'], 'kind': o['kind'], 'detail': o['detail']} for o in failed],
                            'note': 'no concrete failing input was found by the search; the property is no longer shown to hold'},
                           no_input=True)
        axioms = sorted({a for v in self.axioms.values() for a in v})
        tb = ['Coq 8.16.1 kernel incl. vm_compute (no native_compute, no extraction)',
              'tools/translate.py (fail-closed Python-ast -> Gallina translator) and the datatype abstraction it states',
              'harness generators/canonicalisation; CPython as executor of the implementation',
              'axioms per Print Assumptions: ' + (', '.join(axioms) if axioms else 'none (closed under the global context)')]
        cov = dict(self.cov)
        cov.update({'obligations': nobl, 'discharged': ndis,
                    'checker_cmd': checker_cmd or f'bin/check {self.pid} --tier {self.tier}',
                    'trusted_base': tb, 'rule': rule,
                    'obligation_list': [{'name': o['name'], 'kind': o['kind'], 'ok': o['ok']} for o in self.obligations],
                    'axioms_by_theorem': self.axioms, 'translator': self.translator,
                    'known_findings_reproduced': self.known_lines})
        if extra:
            cov.update(extra)
        ev = {'property_id': self.pid, 'tier': self.tier, 'seed': self.seed, 'level': level,
              'coverage': cov, 'assumptions': assumptions or [], 'wall_s': round(time.time() - self.t0, 2),
              'violations': len(self.violation_lines)}
        evpath = os.path.join(VERIF, 'evidence', f'{self.pid}.json') if not self.tag else os.path.join(self.rundir, 'evidence.json')
        with open(evpath, 'w') as f:
            json.dump(ev, f, indent=1, default=str)
        print(f'[{self.pid}] tier={self.tier} seed={self.seed} obligations={ndis}/{nobl} '
              f'evaluations={cov["evaluations"]} nontrivial={cov["distinct_nontrivial"]} '
              f'violations={len(self.violation_lines)} known={len(self.known_lines)} wall={ev["wall_s"]}s', flush=True)
        sys.exit(1 if self.violation_lines else 0)


class _CallTimeout(Exception):
    pass


def guarded_alarm(fn, secs=5):
    """guarded(), with a wall-clock limit on the implementation call: a call that does not return is ('Err', 'Timeout')"""
    import signal

    def _h(*_a):
        raise _CallTimeout()
    old = signal.signal(signal.SIGALRM, _h)
    signal.alarm(secs)
    try:
        return guarded(fn)
    except _CallTimeout:
        return ('Err', 'Timeout')
    finally:
        signal.alarm(0)
        signal.signal(signal.SIGALRM, old)


def guarded(fn):
    """run an implementation call, mapping exceptions to ('Err', kind)"""
    try:
        return ('Ok', fn())
    except ValueError:
        return ('Err', 'ValueError')
    except KeyError:
        return ('Err', 'KeyError')
    except TypeError:
        return ('Err', 'TypeError')
    except IndexError:
        return ('Err', 'IndexError')
    except Exception:   # noqa
        return ('Err', 'OtherError')


def reslit(r, f):
    return f'(Ok {f(r[1])})' if r[0] == 'Ok' else f'(Err {r[1]})'
