"""A small library of implementation shapes of every kind on an integer grid (used by c04/c05/c09)."""
from datetime import datetime, timedelta, timezone

from geostructures import (Coordinate, GeoBox, GeoCircle, GeoEllipse, GeoLineString, GeoPoint, GeoPolygon,
                           GeoRing, MultiGeoLineString, MultiGeoPoint, MultiGeoPolygon)
from geostructures.time import TimeInterval

EPOCH = datetime(2020, 1, 1, tzinfo=timezone.utc)
US = timedelta(microseconds=1)
H = 3_600_000_000


def to_dt(z, style='utc'):
    d = EPOCH + timedelta(microseconds=z)
    if style == 'utc':
        return d
    if style == 'naive':
        return d.replace(tzinfo=None)
    return d.astimezone(timezone(timedelta(minutes=style)))


def of_dt(d):
    if d.tzinfo is None:
        d = d.replace(tzinfo=timezone.utc)
    return (d - EPOCH) // US


def C(x, y):
    return Coordinate(x, y)


def poly(pts, holes=None, **kw):
    return GeoPolygon([C(*p) for p in pts], holes=holes, **kw)


def mk_dt(spec, style='utc'):
    """spec: None | ('i', t) | ('v', s, e)  (hours on the discrete timeline) -> constructor argument"""
    if spec is None:
        return None
    if spec[0] == 'i':
        return to_dt(spec[1] * H, style)
    return TimeInterval(to_dt(spec[1] * H, style), to_dt(spec[2] * H, style))


def dt_pair(spec):
    """expected stored interval (microseconds) for a dt spec"""
    if spec is None:
        return None
    if spec[0] == 'i':
        return (spec[1] * H, spec[1] * H)
    return (spec[1] * H, spec[2] * H)


SQ = [(0, 0), (6, 0), (6, 6), (0, 6), (0, 0)]
SQ2 = [(10, 10), (14, 10), (14, 14), (10, 14), (10, 10)]
TRI = [(1, 1), (5, 1), (3, 4), (1, 1)]
HOLE = [(2, 2), (4, 2), (4, 4), (2, 4), (2, 2)]

KINDS = {
    'point': lambda **kw: GeoPoint(C(3, 3), **kw),
    'point_out': lambda **kw: GeoPoint(C(20, 20), **kw),
    'line': lambda **kw: GeoLineString([C(0, 0), C(4, 4), C(8, 0)], **kw),
    'polygon': lambda **kw: poly(SQ, **kw),
    'polygon_hole': lambda **kw: poly(SQ, holes=[poly(HOLE)], **kw),
    'triangle': lambda **kw: poly(TRI, **kw),
    'box': lambda **kw: GeoBox(C(1, 5), C(5, 1), **kw),
    'box_far': lambda **kw: GeoBox(C(10, 14), C(14, 10), **kw),
    'circle': lambda **kw: GeoCircle(C(3, 3), 150_000, **kw),
    'ellipse': lambda **kw: GeoEllipse(C(3, 3), 200_000, 100_000, 30, **kw),
    'ring': lambda **kw: GeoRing(C(3, 3), 50_000, 250_000, **kw),
    'wedge': lambda **kw: GeoRing(C(3, 3), 50_000, 250_000, angle_min=10, angle_max=120, **kw),
    'multipoint': lambda **kw: MultiGeoPoint([GeoPoint(C(20, 20)), GeoPoint(C(3, 3))], **kw),
    'multiline': lambda **kw: MultiGeoLineString(
        [GeoLineString([C(20, 20), C(21, 21)]), GeoLineString([C(1, 3), C(5, 3)])], **kw),
    'multipolygon': lambda **kw: MultiGeoPolygon([poly(SQ2), poly(TRI)], **kw),
    # members that carry time bounds of their own (far from every interval the checks use): the predicates of the
    # multi-shape look at the multi-shape's time bounds, never at those of its parts
    'multipoint_stamped': lambda **kw: MultiGeoPoint([GeoPoint(C(20, 20), dt=to_dt(900 * H)), GeoPoint(C(3, 3), dt=to_dt(901 * H))], **kw),
    'multipolygon_stamped': lambda **kw: MultiGeoPolygon(
        [poly(SQ2, dt=TimeInterval(to_dt(900 * H), to_dt(902 * H))), poly(TRI, dt=to_dt(905 * H))], **kw),
}
