#!/usr/bin/env python3
"""C11 - the Niemeyer geohash codec is a consistent hierarchical tiling.  DESIGN.md section 5 / C11.

Tie: (T) the three _NIEMEYER_CONFIG tables are regenerated from the tree under check and proved
equal to the model's tables, and `cfg_ok` is re-proved for them (coq/geneq/GeohashCfgGenEq.v); the codec
functions (_decode_niemeyer, _coord_to_niemeyer, _get_niemeyer_subhashes, niemeyer_to_geobox,
NiemeyerHasher.__init__) are re-translated from the source and proved equal to the model's functions
for all arguments (coq/geneq/GeohashGenEq.v);
(K) the bisection algorithms are compared with the model by vm_compute on every in-range cell
down to depth 3/2/2 and on seeded random coordinates at lengths 1..12.  The property itself is
also evaluated on the implementation's answers (oracle_*), so that a break is reported with a
concrete failing input.  Two families look at HISTORIES rather than single calls: (2b) many
coordinates encoded in one call, successive ones exactly on the edges/corners of the previous one's
cell (the geohash of a coordinate is a function of that coordinate alone); (2c) ask / change the
returned mutable container in place / ask again (answers are values, not shared storage)."""
import itertools
import json
import math
import os
import sys
import traceback
from fractions import Fraction as F

sys.path.insert(0, os.path.dirname(os.path.abspath(__file__)))
from lib import Check, REPO, guarded, reslit, zlit, blit, qlit, listlit   # noqa: E402
import gen_geohash                                                          # noqa: E402  (tools/)

import logging                                                              # noqa: E402
logging.disable(logging.CRITICAL)
from geostructures import Coordinate, GeoBox, GeoPoint, GeoPolygon          # noqa: E402
from geostructures import geohash as GH                                     # noqa: E402

CFG = GH._NIEMEYER_CONFIG
DEPTH = {16: 3, 32: 2, 64: 2}


# ------------------------------------------------------------------ literals
def slit(s):
    """a Python string as a Gallina list of code points"""
    if all(32 <= ord(ch) < 127 and ch != '"' for ch in s):
        return f'(codes "{s}")'
    return listlit([f'{ord(ch)}%Z' for ch in s])


def fq(x):
    return qlit(F(x))


def q4(t):
    return '(' + ', '.join(fq(v) for v in t) + ')'


def q2(t):
    return f'({fq(t[0])}, {fq(t[1])})'


def boxlit(b):
    return f'({q2(b[0])}, {q2(b[1])})'


def jf(x):
    """exact, JSON-able form of a float"""
    return [x, str(F(x))]


# ------------------------------------------------------------------ implementation drivers
def impl_decode(h, base):
    return guarded(lambda: tuple(GH._decode_niemeyer(h, base)))


def impl_encode(c, L, base, route):
    """c: a Coordinate.  Four routes to the same function."""
    if route == 0:
        return guarded(lambda: GH._coord_to_niemeyer(c, L, base))
    if route == 1:
        def f():
            d = GH.NiemeyerHasher(L, base).hash_coordinates([c])
            assert list(d.values()) == [1], d
            return next(iter(d))
        return guarded(f)
    if route == 2:
        def g():
            s = GH.NiemeyerHasher(L, base).hash_shape(GeoPoint(c))
            assert len(s) == 1, s
            return next(iter(s))
        return guarded(g)

    def h():
        d = GH.NiemeyerHasher(L, base).hash_coordinates([c, c, c], agg_fn=lambda cs: [x.to_float() for x in cs])
        assert list(d.values()) == [[c.to_float()] * 3], d
        return next(iter(d))
    return guarded(h)


def impl_box(h, base, route):
    """(nw, se) as ((lon, lat), (lon, lat))"""
    def f():
        if route == 0:
            b = GH.niemeyer_to_geobox(h, base)
            assert b.properties == {'niemeyer_geohash': h}
            return b, (b.nw_bound.to_float(), b.se_bound.to_float())
        if route == 1:
            b = GeoBox.from_niemeyer_geohash(h, base)
            return b, (b.nw_bound.to_float(), b.se_bound.to_float())
        p = GeoPolygon.from_niemeyer_geohash(h, base)
        o = p.outline
        assert len(o) == 5 and o[0] == o[4]
        # nw, sw, se, ne, nw: the polygon is built from the same box
        assert o[1].to_float() == (o[0].longitude, o[2].latitude) or o[2].longitude == -180
        return GH.niemeyer_to_geobox(h, base), (o[0].to_float(), o[2].to_float())
    return guarded(f)


def impl_children(h, base):
    return guarded(lambda: sorted(GH._get_niemeyer_subhashes(h, base)))


# ------------------------------------------------------------------ many coordinates in one call
SEQ_ROUTES = ('hash_coordinates', 'hash_collection', 'hash_coordinates-again')


def impl_sequence(coords, L, base, route):
    """One call of a public entry that encodes MANY coordinates; returns the geohash under which each
    coordinate of the sequence was filed (by position), judged by object identity of what agg_fn received.
    Raises if a coordinate is filed under no / several keys (the caller turns that into a malformed case)."""
    hasher = GH.NiemeyerHasher(L, base)
    if route == 'hash_collection':
        from geostructures.collections import FeatureCollection
        pts = [GeoPoint(c, properties={'i': i}) for i, c in enumerate(coords)]
        d = hasher.hash_collection(FeatureCollection(pts), agg_fn=lambda shapes: [s.properties['i'] for s in shapes])
        filed = {}
        for k, ids in d.items():
            for i in ids:
                filed.setdefault(i, []).append(k)
    else:
        if route == 'hash_coordinates-again':
            # the same hasher has answered for this very sequence before, and the caller emptied that answer in place
            # (dict and the lists inside): answers are values, not shared storage
            first = hasher.hash_coordinates(coords, agg_fn=list)
            for v in list(first.values()):
                if isinstance(v, list):
                    v.clear()
            first.clear()
        d = hasher.hash_coordinates(coords, agg_fn=list)
        pos = {}
        for i, c in enumerate(coords):
            pos.setdefault(id(c), []).append(i)
        filed = {}
        for k, cs in d.items():
            seen = {}
            for c in cs:
                n = seen.get(id(c), 0)
                seen[id(c)] = n + 1
                filed.setdefault(pos[id(c)][n], []).append(k)
        counts = hasher.hash_coordinates(coords)
        assert {k: len(v) for k, v in d.items()} == counts, ('default agg_fn (count) disagrees with the coordinates filed', counts)
    assert sorted(filed) == list(range(len(coords))) and all(len(v) == 1 for v in filed.values()), \
        ('not every coordinate is filed under exactly one geohash', filed)
    return [filed[i][0] for i in range(len(coords))]


def ref_encode(lon, lat, L, base):
    """The tiling's own answer, exact and independent of the code under check: bisection on rationals of the
    base's coordinate range, log2(base) bits per character starting with longitude, a value exactly on a
    midpoint belongs to the lower half (the only rule under which the prefix clause can hold on cell edges)."""
    lon, lat = F(lon), F(lat)
    cfg = CFG[base]
    w, e, s, n = F(cfg['min_x']), F(cfg['max_x']), F(cfg['min_y']), F(cfg['max_y'])
    nbits = {16: 4, 32: 5, 64: 6}[base]
    out, lon_turn = '', True
    for _ in range(max(L, 0)):
        v = 0
        for _b in range(nbits):
            v <<= 1
            if lon_turn:
                mid = (w + e) / 2
                if lon > mid:
                    v, w = v | 1, mid
                else:
                    e = mid
            else:
                mid = (s + n) / 2
                if lat > mid:
                    v, s = v | 1, mid
                else:
                    n = mid
            lon_turn = not lon_turn
        out += cfg['charset'][v]
    return out


# ------------------------------------------------------------------ in-place mutations of a returned container
def mutate(obj, how, rng):
    """what a caller may do to an answer it owns: use it as a work queue, prune it, extend it"""
    if isinstance(obj, set):
        if how == 0:
            while obj:
                obj.pop()
        elif how == 1:
            obj.clear()
        elif how == 2:
            for x in sorted(obj)[::2]:
                obj.discard(x)
        elif how == 3:
            obj.add('tampered')
            obj.add('')
        elif how == 4:
            obj.intersection_update(sorted(obj)[:1])
        else:
            x = sorted(obj)[rng.randrange(len(obj))] if obj else ''
            obj.discard(x)
            obj.add(x + x[-1:] if x else 'x')
        return ['drain with pop()', 'clear()', 'discard every other', 'add foreign strings', 'intersection_update to one', 'replace one element'][min(how, 5)]
    if isinstance(obj, list):
        [lambda: obj.clear(), lambda: obj.reverse(), lambda: obj.pop() if obj else None, lambda: obj.append('tampered'),
         lambda: obj.sort(reverse=True), lambda: obj.__setitem__(slice(0, 2), ['tampered'])][how % 6]()
        return ['clear()', 'reverse()', 'pop()', 'append', 'sort(reverse)', 'slice assignment'][how % 6]
    if isinstance(obj, dict):
        if how % 2:
            for k in list(obj):
                obj[k] = None
            obj['tampered'] = 1
            return 'overwrite values, add a key'
        obj.clear()
        return 'clear()'
    raise TypeError(f'no mutation for {type(obj)}')


# ------------------------------------------------------------------ the property on the implementation's answers
def cell_of(dec):
    lon, lat, ex, ey = (F(v) for v in dec)
    return (lon - ex, lon + ex, lat - ey, lat + ey)


def in_range(dec):
    w, e, s, n = cell_of(dec)
    return -180 <= w and e <= 180 and -90 <= s and n <= 90


def east_edge_180(m):
    """signature of D12: the decoded cell's east edge is longitude 180"""
    return m.get('east') == 180


PREDICATES = {'cell_east_edge_180': east_edge_180}


def oracle_children(h, base, dec, kids):
    """children tile the parent: base-many, each inside, pairwise interior-disjoint, areas add up"""
    bad = []
    cs = CFG[base]['charset']
    if len(kids) != base or len(set(kids)) != base:
        bad.append(('children-count', f'{len(set(kids))} distinct sub-hashes, expected {base}'))
    if any(len(k) != len(h) + 1 or k[:len(h)] != h or k[-1] not in cs for k in kids):
        bad.append(('children-form', 'a sub-hash is not the parent plus one alphabet character'))
    pw, pe, ps, pn = cell_of(dec)
    boxes = []
    for k in kids:
        r = impl_decode(k, base)
        if r[0] != 'Ok':
            bad.append(('children-decode', f'sub-hash {k!r} does not decode: {r[1]}'))
            return bad
        boxes.append(cell_of(r[1]))
    if any(not (pw <= b[0] and b[1] <= pe and ps <= b[2] and b[3] <= pn) for b in boxes):
        bad.append(('children-inside', 'a sub-hash cell is not inside the parent cell'))
    if sum((b[1] - b[0]) * (b[3] - b[2]) for b in boxes) != (pe - pw) * (pn - ps):
        bad.append(('children-area', 'areas of the sub-hash cells do not add up to the parent area'))
    for a, b in itertools.combinations(boxes, 2):
        if max(a[0], b[0]) < min(a[1], b[1]) and max(a[2], b[2]) < min(a[3], b[3]):
            bad.append(('children-disjoint', 'two sub-hash cells overlap in their interiors'))
            break
    return bad


def valid_in(h, base):
    return base in CFG and all(ch in CFG[base]['charset'] for ch in h)


def main():
    ck = Check('C11')
    ck.build_theories(['theories/Props/C11.vo', 'theories/Corr/GeohashK.vo'])
    rep = gen_geohash.main(REPO, os.path.join(ck.rundir, 'GeohashCfgGen.v'))
    ck.gen('GeohashCfgGen.v', rep, 'GeohashCfgGenEq.v')
    rep = gen_geohash.main_codec(REPO, os.path.join(ck.rundir, 'GeohashGen.v'))
    ck.gen('GeohashGen.v', rep, 'GeohashGenEq.v')
    ck.props('Props/C11.v')

    rng = ck.rng
    thorough = ck.tier == 'thorough'
    cases, meta = [], []
    flagged = {}          # index -> list of (clause, detail): the property fails on the implementation

    def add(lit, m):
        cases.append(lit)
        meta.append(m)
        return len(cases) - 1

    def flag(i, clause, detail):
        flagged.setdefault(i, []).append([clause, detail])

    def total(kind, default):
        """make a case builder total: whatever the implementation returned (wrong type, Ok where an
        error was expected, an unexpected exception inside a driver), the outcome is a case that can
        only mismatch (KMalformed) carrying the arguments, never a Python exception of the harness"""
        def deco(fn):
            def wrapped(*a, **kw):
                try:
                    return fn(*a, **kw)
                except Exception as ex:   # noqa
                    i = add('KMalformed', {'k': kind, 'args': [repr(x)[:300] for x in a], 'kwargs': {k: repr(v)[:200] for k, v in kw.items()},
                                           'harness_exception': traceback.format_exc()[-1500:]})
                    flag(i, 'malformed-answer', f'{kind}{tuple(repr(x)[:80] for x in a)}: the implementation\'s answer could not be '
                                                f'encoded/evaluated ({ex!r})')
                    return default(i)
            return wrapped
        return deco

    nontrivial = set()
    route = itertools.count()

    @total('decode', lambda i: (i, ('Err', 'Malformed')))
    def add_decode(h, base, expect_valid=None, why='decode'):
        r = impl_decode(h, base)
        if r[0] == 'Ok':
            vals = tuple(r[1])
            if len(vals) != 4 or not all(isinstance(v, (int, float)) and not isinstance(v, bool) for v in vals):
                raise TypeError(f'decode returned {r[1]!r}')
            r = ('Ok', tuple(float(v) for v in vals))
        i = add(f'KDecode {zlit(base)} {slit(h)} {reslit(r, q4)}',
                {'k': 'decode', 'base': base, 'hash': h, 'out': [r[0], [jf(v) for v in r[1]] if r[0] == 'Ok' else r[1]]})
        if expect_valid is True and r[0] != 'Ok':
            flag(i, 'decode-valid', f'{h!r} is over the base-{base} alphabet but decode raised {r[1]} ({why})')
        if expect_valid is False and r != ('Err', 'ValueError'):
            flag(i, 'decode-rejects', f'{h!r} has a character outside the base-{base} alphabet but decode gave {r} ({why})')
        return i, r

    @total('encode', lambda i: (i, ('Err', 'Malformed')))
    def add_encode(c, L, base, expect=None, why=''):
        rt = next(route) % 4
        r = impl_encode(c, L, base, rt)
        if r[0] == 'Ok' and not isinstance(r[1], str):
            raise TypeError(f'encode returned {r[1]!r}')
        i = add(f'KEncode {zlit(base)} {fq(c.longitude)} {fq(c.latitude)} {zlit(L)} {reslit(r, slit)}',
                {'k': 'encode', 'base': base, 'lon': jf(c.longitude), 'lat': jf(c.latitude), 'len': L, 'route': rt,
                 'out': list(r)})
        if expect is not None and r != ('Ok', expect):
            flag(i, why, f'got {r}, expected {expect!r}')
        return i, r

    def box_out(r):
        """impl_box answer -> ('Ok', ((lon, lat), (lon, lat))) | ('Err', kind); raises on anything else"""
        if r[0] != 'Ok':
            return r
        corners = r[1][1]
        (a, b), (c, d) = corners
        if not all(isinstance(v, (int, float)) and not isinstance(v, bool) for v in (a, b, c, d)):
            raise TypeError(f'box corners {corners!r}')
        return ('Ok', ((float(a), float(b)), (float(c), float(d))))

    @total('box', lambda i: None)
    def add_box(h, base, dec, pts, nroutes=3):
        rt = next(route) % nroutes
        r = impl_box(h, base, rt)
        out = box_out(r)
        inr = in_range(dec)
        east = cell_of(dec)[1]
        for (px, py) in pts:
            o_in = bool(r[1][0].contains_coordinate(Coordinate(px, py))) if r[0] == 'Ok' else False
            pc = Coordinate(px, py)
            m = {'k': 'box', 'base': base, 'hash': h, 'route': rt, 'point': [jf(px), jf(py)], 'in': o_in,
                 'east': float(east), 'in_range': inr,
                 'out': [out[0], [[jf(v) for v in c] for c in out[1]] if out[0] == 'Ok' else out[1]]}
            i = add(f'KBox {zlit(base)} {slit(h)} {reslit(out, boxlit)} {fq(pc.longitude)} {fq(pc.latitude)} {blit(o_in)}', m)
            if inr and out[0] == 'Ok':
                w, e, s, n = cell_of(dec)
                corners_ok = (tuple(F(v) for v in out[1][0]) == (w, n) and tuple(F(v) for v in out[1][1]) == (e, s))
                if not (o_in and corners_ok):
                    if east_edge_180(m) and ck.finding_for(m, PREDICATES):
                        m['known'] = 'D12'
                    else:
                        flag(i, 'cell-box', f'box {out[1]} of cell {h!r} (w,e,s,n)={tuple(map(float, (w, e, s, n)))}: '
                                            f'corners_ok={corners_ok}, contains {(px, py)} = {o_in}')
            elif inr:
                flag(i, 'cell-box', f'niemeyer_to_geobox raised {out[1]}')

    @total('box-reject', lambda i: None)
    def add_box_reject(h, base, why=''):
        """niemeyer_to_geobox on a string that is not over the alphabet of `base` (or an unknown base)"""
        out = box_out(impl_box(h, base, 0))
        j = add(f'KBox {zlit(base)} {slit(h)} {reslit(out, boxlit)} {fq(0)} {fq(0)} false',
                {'k': 'box-reject', 'base': base, 'hash': h, 'out': list(out) if out[0] == 'Err' else ['Ok', [[jf(v) for v in c] for c in out[1]]]})
        exp = ('Err', 'ValueError') if base in CFG else ('Err', 'KeyError')
        if out != exp:
            flag(j, 'decode-rejects', f'niemeyer_to_geobox({h!r}, {base}) gave {out[0]} {out[1] if out[0] == "Err" else "a box"}, expected {exp[1]} ({why})')

    @total('children', lambda i: None)
    def add_children(h, base, dec=None, given=None, history=None):
        """given: an answer already obtained (the later queries of a history); history: what happened before it"""
        rk = impl_children(h, base) if given is None else given
        if rk[0] == 'Ok' and not all(isinstance(k, str) for k in rk[1]):
            raise TypeError(f'sub-hashes {rk[1]!r}')
        m = {'k': 'children', 'base': base, 'hash': h, 'out': list(rk)}
        if history:
            m['history'] = history
        j = add(f'KChildren {zlit(base)} {slit(h)} {reslit(rk, lambda ks: listlit([slit(k) for k in ks]))}', m)
        if dec is None:
            return j
        if rk[0] != 'Ok':
            flag(j, 'children', f'raised {rk[1]}')
        else:
            for cl, det in oracle_children(h, base, dec, rk[1]):
                flag(j, cl, det + (f' [{history[-1]}]' if history else ''))
        return j

    xcount = itertools.count()

    def cross_bases(h, own, first):
        """the same string under the other bases (varying order), then under its own base again:
        validity must depend on (string, base) only, and the own-base answer must not change"""
        k = next(xcount)
        others = [b for b in (16, 32, 64) if b != own]
        if k % 2:
            others.reverse()
        for ob in others:
            v = valid_in(h, ob)
            add_decode(h, ob, expect_valid=v, why=f'after base {own}')
            if not v:
                add_box_reject(h, ob, why=f'after base {own} accepted it')
        i, again = add_decode(h, own, expect_valid=valid_in(h, own), why='again after the other bases')
        if again != first:
            flag(i, 'decode-stable', f'decode({h!r}, {own}) changed from {first} to {again} after the string was decoded under other bases')

    # ---------------------------------------------------------------- 1. every cell down to DEPTH
    depth = dict(DEPTH)
    kids_depth = dict(DEPTH) if thorough else {16: 3, 32: 2, 64: 1}
    n_cells = n_inrange = 0
    for base in (16, 32, 64):
        cs = CFG[base]['charset']
        for L in range(1, depth[base] + 1):
            for tup in itertools.product(cs, repeat=L):
                h = ''.join(tup)
                n_cells += 1
                i, r = add_decode(h, base, expect_valid=True)
                if r[0] != 'Ok':
                    continue
                if L <= 2 and (base != 64 or L == 1 or n_cells % 4 == 0 or thorough):
                    cross_bases(h, base, r)
                dec = r[1]
                lon, lat = dec[0], dec[1]
                inr = in_range(dec)
                if inr:
                    n_inrange += 1
                    nontrivial.add(('cell', base, h))
                    add_encode(Coordinate(lon, lat), L, base, expect=h, why='reencode-centre')
                    if L <= kids_depth[base]:
                        add_children(h, base, dec)
                    # the box of the cell contains the cell's centre (and, on a rotating basis, a corner)
                    w, e, s, n = (float(v) for v in cell_of(dec))
                    pts = [(lon, lat)]
                    if n_inrange % 3 == 0:
                        pts.append([(w, s), (w, n), (e - (e - w) / 4, s)][(n_inrange // 3) % 3])
                    add_box(h, base, dec, pts)
                elif L <= 2:
                    # cells of the +-180 latitude range that leave the coordinate range: only the
                    # model/implementation agreement of the wrapped corners is looked at
                    add_box(h, base, dec, [(lon, max(-90.0, min(90.0, lat)))], nroutes=2)
    ck.cov['classes']['cells_enumerated'] = n_cells
    ck.cov['classes']['cells_in_range'] = n_inrange

    # ---------------------------------------------------------------- 2. random coordinates, lengths 1..12
    # each coordinate is encoded under ALL three bases (order shuffled) in the same process, and each
    # resulting string is decoded under all three bases
    n_rand = 10000 if thorough else 1700
    specials_x = [-180.0, 180.0, 0.0, 90.0, -90.0, 45.0, 179.99999999999997, -179.99999999999997, 11.25, 135.0]
    specials_y = [-90.0, 90.0, 0.0, 45.0, -45.0, 5.625, 89.99999999999999, -89.99999999999999]
    for _ in range(n_rand):
        base0 = rng.choice([16, 32, 64])
        L = rng.randint(1, 12)
        kind = rng.random()
        if kind < 0.45:
            x, y, cls = rng.uniform(-180, 180), rng.uniform(-90, 90), 'uniform'
        elif kind < 0.75:
            # a point exactly on an edge / corner / centre of a random in-range cell of length <= L
            L0 = rng.randint(1, L)
            r0 = guarded(lambda: cell_of(GH._decode_niemeyer(
                GH._coord_to_niemeyer(Coordinate(rng.uniform(-180, 180), rng.uniform(-90, 90)), L0, base0), base0)))
            if r0[0] == 'Ok':
                w, e, s, n = (float(v) for v in r0[1])
            else:
                w, e, s, n = -11.25, 0.0, 5.625, 11.25
            x = rng.choice([w, e, (w + e) / 2, rng.uniform(w, e)])
            y = rng.choice([s, n, (s + n) / 2, rng.uniform(s, n)])
            y = max(-90.0, min(90.0, y))
            cls = 'cell-edge'
        else:
            x = rng.choice(specials_x) if rng.random() < 0.7 else rng.uniform(-180, 180)
            y = rng.choice(specials_y) if rng.random() < 0.7 else rng.uniform(-90, 90)
            cls = 'range-limit'
        c = Coordinate(x, y)
        ck.count('coord:' + cls)
        order = [16, 32, 64]
        rng.shuffle(order)
        L2 = rng.randint(0, L)
        for base in order:
            i, r = add_encode(c, L, base)
            if r[0] != 'Ok':
                flag(i, 'encode', f'raised {r[1]}')
                continue
            h = r[1]
            nontrivial.add(('coord', base, L, c.longitude, c.latitude))
            if len(h) != L or any(ch not in CFG[base]['charset'] for ch in h):
                flag(i, 'encode-length-alphabet', f'{h!r} is not {L} characters of the base-{base} alphabet')
                continue
            j, rd = add_decode(h, base, expect_valid=True, why='decode of an encoding')
            if rd[0] == 'Ok':
                w, e, s, n = cell_of(rd[1])
                if not (w <= F(c.longitude) <= e and s <= F(c.latitude) <= n):
                    flag(i, 'decode-encode-contains', f'cell {h!r} = {tuple(map(float, (w, e, s, n)))} does not contain the coordinate')
                if base == order[0]:
                    cross_bases(h, base, rd)
            add_encode(c, L2, base, expect=h[:L2], why='encode-prefix')

    # ---------------------------------------------------------------- 2b. many coordinates in ONE call
    # Mechanism class: anything that makes the geohash under which a coordinate is filed depend on the OTHER
    # coordinates of the same call or on their order (a "still in the previous cell" fast path, a per-call cache keyed
    # by rounded values, sorting/bisecting shortcuts, batching).  The sequences put successive coordinates exactly on
    # the west/south/east/north edges and the four corners of the cell of the coordinate before them (cells whose
    # edges are also grid lines of a coarser length included), walk along the edges, interleave two adjacent cells,
    # repeat objects and equal coordinates, and shuffle; every coordinate of every call must be filed under exactly
    # the model's `encode` of itself, under what it gets when encoded alone, and under the tiling's own cell
    # (ref_encode); the same sequence at a shorter length must give prefixes.
    def grid(base, L):
        """origin and cell size of the length-L grid, from the base's coordinate range and bit width alone (exact floats)"""
        cfg = CFG[base]
        nb = {16: 4, 32: 5, 64: 6}[base] * L
        nlon, nlat = (nb + 1) // 2, nb // 2
        return (float(cfg['min_x']), float(cfg['min_y']), (float(cfg['max_x']) - float(cfg['min_x'])) / 2 ** nlon,
                (float(cfg['max_y']) - float(cfg['min_y'])) / 2 ** nlat, nlon, nlat)

    def anchor_cell(base, L):
        """(w, e, s, n) of an in-range cell of length L, placed on the grid of a random coarser length L0 <= L
        (so that its west/south edges are often also edges of the coarser cells); exact in floats for L <= 12.
        Pure arithmetic: the generator does not ask the code under check where the cells are."""
        mx, my, cw, ch, _, _ = grid(base, L)
        for _ in range(60):
            L0 = rng.randint(1, L)
            _, _, cw0, ch0, nlon0, nlat0 = grid(base, L0)
            w0, s0 = mx + rng.randrange(2 ** nlon0) * cw0, my + rng.randrange(2 ** nlat0) * ch0
            kx, ky = round(cw0 / cw), round(ch0 / ch)
            ix = rng.choice([0, kx // 2, kx - 1, rng.randrange(kx)])
            iy = rng.choice([0, ky // 2, ky - 1, rng.randrange(ky)])
            w, s = w0 + ix * cw, s0 + iy * ch
            if -180 <= w and w + cw <= 180 and -90 <= s and s + ch <= 90:
                return w, w + cw, s, s + ch
        return 0.0, cw, 0.0, ch

    def cell_track(cell):
        """named coordinates on and around a cell: (interiors, specials) as lists of (name, (x, y))"""
        w, e, s, n = cell
        cw, ch = e - w, n - s
        cx, cy = (w + e) / 2, (s + n) / 2
        rx, ry = w + cw * rng.uniform(0.05, 0.95), s + ch * rng.uniform(0.05, 0.95)
        interiors = [('centre', (cx, cy)), ('interior', (rx, ry)),
                     ('just-inside-SW', (math.nextafter(w, math.inf), math.nextafter(s, math.inf))),
                     ('just-inside-NE', (math.nextafter(e, -math.inf), math.nextafter(n, -math.inf)))]
        xi, yi = rng.choice([cx, rx]), rng.choice([cy, ry])
        specials = [('W-edge', (w, yi)), ('S-edge', (xi, s)), ('E-edge', (e, yi)), ('N-edge', (xi, n)),
                    ('SW-corner', (w, s)), ('NW-corner', (w, n)), ('SE-corner', (e, s)), ('NE-corner', (e, n)),
                    ('W-neighbour', (w - cw / 2, cy)), ('S-neighbour', (cx, s - ch / 2)), ('SW-neighbour', (w - cw / 2, s - ch / 2)),
                    ('E-neighbour', (e + cw / 2, cy)), ('N-neighbour', (cx, n + ch / 2)),
                    ('just-outside-W', (math.nextafter(w, -math.inf), cy)), ('just-outside-S', (cx, math.nextafter(s, -math.inf)))]
        ok = lambda p: -180 <= p[1][0] <= 180 and -90 <= p[1][1] <= 90     # noqa: E731
        return [p for p in interiors if ok(p)], [p for p in specials if ok(p)]

    def build_sequence(pattern, base, L):
        cell = anchor_cell(base, L)
        ins, sp = cell_track(cell)
        name = ['edge-after-interior', 'shuffle-with-repeats', 'edge-walk', 'interior-after-edge', 'two-adjacent-cells'][pattern]
        if pattern == 0:
            rng.shuffle(sp)
            seq = [q for p in sp for q in (rng.choice(ins), p)]
        elif pattern == 1:
            seq = ins + sp + [rng.choice(ins + sp) for _ in range(rng.randint(3, 8))]
            rng.shuffle(seq)
        elif pattern == 2:
            d = dict(sp)
            walk = ['W-edge', 'SW-corner', 'S-edge', 'SE-corner', 'E-edge', 'NE-corner', 'N-edge', 'NW-corner', 'W-edge', 'SW-corner']
            if rng.random() < 0.5:
                walk.reverse()
            seq = [ins[0]] + [(k, d[k]) for k in walk if k in d] + [ins[1]]
        elif pattern == 3:
            rng.shuffle(sp)
            seq = [q for p in sp for q in (p, rng.choice(ins))] + [sp[0]]
        else:
            w, e, s, n = cell
            other = rng.choice([(w - (e - w), w, s, n), (w, e, s - (n - s), s), (w - (e - w), w, s - (n - s), s)])
            if other[0] < -180 or other[2] < -90:
                other = (e, e + (e - w), s, n) if e + (e - w) <= 180 else cell
            ins2, sp2 = cell_track(other)
            a, b = ins + sp[:8], ins2 + sp2[:8]
            rng.shuffle(a)
            rng.shuffle(b)
            seq = [q for pair in itertools.zip_longest(a, b) for q in pair if q is not None]
        return name, cell, seq

    seq_id = itertools.count()

    @total('sequence', lambda i: None)
    def add_sequence(names, coords, L, base, route, why, cell):
        sid = next(seq_id)
        r = guarded(lambda: impl_sequence(coords, L, base, route))
        pts = [[jf(c.longitude), jf(c.latitude)] for c in coords]
        if r[0] != 'Ok':
            i = add('KMalformed', {'k': 'sequence', 'base': base, 'len': L, 'route': route, 'pattern': why, 'seq': pts, 'names': names, 'out': list(r)})
            flag(i, 'encode-sequence', f'{route} on a sequence of {len(coords)} coordinates: {r[1]} (an exception, a coordinate filed under '
                                       f'no/several geohashes, or counts that disagree with the coordinates filed)')
            return None
        keys = r[1]
        if not all(isinstance(k, str) for k in keys):
            raise TypeError(f'keys {keys!r}')
        for idx, (c, k) in enumerate(zip(coords, keys)):
            i = add(f'KEncode {zlit(base)} {fq(c.longitude)} {fq(c.latitude)} {zlit(L)} (Ok {slit(k)})',
                    {'k': 'encode', 'base': base, 'lon': jf(c.longitude), 'lat': jf(c.latitude), 'len': L, 'route': route,
                     'out': ['Ok', k], 'sequence': {'id': sid, 'pattern': why, 'index': idx, 'what': names[idx],
                                                    'previous': names[idx - 1] if idx else None, 'cell_w_e_s_n': list(cell)},
                     'seq': pts})
            nontrivial.add(('seq', base, L, c.longitude, c.latitude, names[idx - 1] if idx else None))
            alone = guarded(lambda: GH._coord_to_niemeyer(c, L, base))
            ref = ref_encode(c.longitude, c.latitude, L, base)
            prev = f'after {names[idx - 1]} {coords[idx - 1].to_float()}' if idx else 'first of the call'
            if alone != ('Ok', k):
                flag(i, 'encode-function-of-coordinate', f'{names[idx]} {c.to_float()} ({prev}) is filed under {k!r} inside the call '
                                                         f'but encodes to {alone[1]!r} on its own')
            if ref != k:
                flag(i, 'encode-tiling-cell', f'{names[idx]} {c.to_float()} ({prev}) is filed under {k!r}; the cell of the tiling that owns it is {ref!r}')
        return keys

    n_seq = 600 if thorough else 90
    for nq in range(n_seq):
        base = [16, 32, 64][nq % 3]
        L = 1 + (nq // 3) % 12 if nq < 36 else rng.randint(1, 12)
        pattern = (nq // 3 + nq // 36) % 5
        why, cell, seq = build_sequence(pattern, base, L)
        names = [nm for nm, _ in seq]
        objs = {}
        coords = []
        for nm, (x, y) in seq:
            # the same object when a named point recurs (half of the time), an equal twin otherwise
            if (nm, x, y) in objs and rng.random() < 0.5:
                coords.append(objs[(nm, x, y)])
            else:
                objs[(nm, x, y)] = Coordinate(x, y)
                coords.append(objs[(nm, x, y)])
        sroute = SEQ_ROUTES[nq % len(SEQ_ROUTES)] if nq % 7 else 'hash_coordinates'
        ck.count('sequence:' + why)
        keys = add_sequence(names, coords, L, base, sroute, why, cell)
        if keys is not None and L > 1:
            L2 = rng.randint(1, L - 1)
            short = add_sequence(names, coords, L2, base, 'hash_coordinates', why + ' (shorter length)', cell)
            if short is not None:
                for idx, (k, k2) in enumerate(zip(keys, short)):
                    if k[:L2] != k2:
                        flag(len(cases) - len(coords) + idx, 'encode-prefix',
                             f'{names[idx]} {coords[idx].to_float()}: length {L2} gives {k2!r}, not a prefix of {k!r} (length {L}) in the same sequence')
        # a whole sequence as one MultiGeoPoint: the set of cells is the set of the members' own cells
        if nq % 3 == 0:
            def mp():
                from geostructures.multistructures import MultiGeoPoint
                return sorted(GH.NiemeyerHasher(L, base).hash_shape(MultiGeoPoint([GeoPoint(c) for c in coords])))
            got = guarded(mp)
            exp = sorted({ref_encode(c.longitude, c.latitude, L, base) for c in coords})
            if got != ('Ok', exp):
                i = add('KMalformed', {'k': 'sequence', 'base': base, 'len': L, 'route': 'hash_shape(MultiGeoPoint)', 'pattern': why,
                                       'seq': [[jf(c.longitude), jf(c.latitude)] for c in coords], 'names': names, 'out': list(got)})
                flag(i, 'encode-tiling-cell', f'hash_shape(MultiGeoPoint of the sequence) gave {got[1]}, the cells owning the members are {exp}')

    # ---------------------------------------------------------------- 2c. histories: answers are values, not shared storage
    # Mechanism class: memoisation / object reuse behind an entry point that hands out a MUTABLE container (lru_cache on
    # a set-returning function, a module-level scratch list, a per-hasher dict reused between calls).  History: ask,
    # change the answer in place the way a caller that owns it may (drain it as a work queue, prune it, extend it), ask
    # again with the same arguments, then with other arguments (child, sibling, the same string under another base),
    # change again, ask again.  Every later answer must equal the first-call answer, the model and the tiling oracle.
    @total('children-history', lambda i: None)
    def children_history(h, base):
        cs = CFG[base]['charset']
        i0, r0 = add_decode(h, base, expect_valid=True, why='history')
        if r0[0] != 'Ok':
            return
        dec = r0[1]
        hist = []
        raw = guarded(lambda: GH._get_niemeyer_subhashes(h, base))
        if raw[0] != 'Ok' or not isinstance(raw[1], (set, frozenset, list, tuple)):
            add_children(h, base, dec)
            return
        first = ('Ok', sorted(raw[1]))
        add_children(h, base, dec, given=first, history=['first query'])
        for step in range(2):
            obj = raw[1]
            if isinstance(obj, (set, list)):
                hist.append(f'the answer of query {step + 1} was changed in place: ' + mutate(obj, rng.randrange(6), rng))
            else:
                hist.append(f'the answer of query {step + 1} is immutable ({type(obj).__name__})')
            if step == 0:
                # other arguments in between: a child, a sibling / the parent, the same string under another base
                for h2, b2 in [(h + rng.choice(cs), base), ((h[:-1] + rng.choice(cs)) if h else cs[0], base), (h[:-1], base)][:3 if h else 1] + \
                              [(h, ob) for ob in (16, 32, 64) if ob != base and valid_in(h, ob)][:1]:
                    r2 = impl_decode(h2, b2)
                    if r2[0] == 'Ok':
                        add_children(h2, b2, r2[1], history=hist + [f'then sub-hashes of {h2!r} (base {b2})'])
            raw = guarded(lambda: GH._get_niemeyer_subhashes(h, base))
            again = ('Ok', sorted(raw[1])) if raw[0] == 'Ok' and isinstance(raw[1], (set, frozenset, list, tuple)) else raw
            j = add_children(h, base, dec, given=again, history=hist + [f'query {step + 2} with the same arguments'])
            ck.count('history:children')
            nontrivial.add(('history', base, h, step))
            if j is not None and again != first:
                flag(j, 'children-stable', f'sub-hashes of {h!r} (base {base}) changed between queries: first {len(first[1])} strings, '
                                           f'now {again[1] if again[0] != "Ok" else len(again[1])} ({hist[-1]})')
            if raw[0] != 'Ok':
                return

    n_hist = 240 if thorough else 45
    for nh in range(n_hist):
        base = [16, 32, 64][nh % 3]
        cs = CFG[base]['charset']
        Lh = [0, 1, 1, 2, 2, 3, 4, 6][(nh // 3) % 8]
        if Lh <= 1:
            h = ''.join(rng.choice(cs) for _ in range(Lh))
        else:
            h = ref_encode(rng.uniform(-180, 180), rng.uniform(-90, 90), Lh, base)
        children_history(h, base)

    # the other answers that are mutable objects: the box of a cell (its properties / corners reassigned by the caller),
    # the dict of hash_coordinates and the set of hash_shape(GeoPoint) (both on the SAME hasher and the same arguments)
    @total('box/point/coordinates-history', lambda i: None)
    def other_history(h, base):
        r0 = impl_decode(h, base)
        if r0[0] != 'Ok' or not in_range(r0[1]) or cell_of(r0[1])[1] == 180:
            return
        dec = r0[1]
        lon, lat = dec[0], dec[1]

        def tamper_box():
            b = GH.niemeyer_to_geobox(h, base)
            b.set_property('niemeyer_geohash', 'tampered')
            b.nw_bound, b.se_bound = b.se_bound, b.nw_bound
            b2 = GeoBox.from_niemeyer_geohash(h, base)
            b2.nw_bound = Coordinate(0.0, 0.0)
        guarded(tamper_box)
        add_box(h, base, dec, [(lon, lat)], nroutes=1)
        add_box(h, base, dec, [(lon, lat)])
        hasher = GH.NiemeyerHasher(len(h), base)
        c = Coordinate(lon, lat)
        p = GeoPoint(c)

        def tamper_sets():
            s1 = hasher.hash_shape(p)
            mutate(s1, rng.randrange(6), rng)
            d1 = hasher.hash_coordinates([c, c])
            mutate(d1, rng.randrange(2), rng)
        guarded(tamper_sets)

        def again():
            s2 = hasher.hash_shape(p)
            d2 = hasher.hash_coordinates([c, c])
            assert isinstance(s2, set) and len(s2) == 1 and list(d2.values()) == [2] and set(d2) == s2, (s2, d2)
            return next(iter(s2))
        r = guarded(again)
        i = add(f'KEncode {zlit(base)} {fq(c.longitude)} {fq(c.latitude)} {zlit(len(h))} {reslit(r, slit)}',
                {'k': 'encode', 'base': base, 'lon': jf(c.longitude), 'lat': jf(c.latitude), 'len': len(h), 'route': 'same hasher, second query',
                 'out': list(r), 'history': ['hash_shape(GeoPoint) and hash_coordinates answered once for this coordinate on this hasher; '
                                             'both answers were changed in place; asked again']})
        ck.count('history:box/point/coordinates')
        if r != ('Ok', h):
            flag(i, 'reencode-centre', f'second query on the same hasher after the first answers were changed in place: got {r}, expected {h!r}')

    for nh in range(n_hist // 3):
        base = [16, 32, 64][nh % 3]
        Lh = rng.randint(1, 8)
        other_history(ref_encode(rng.uniform(-179, 179), rng.uniform(-89, 89), Lh, base), base)

    # ---------------------------------------------------------------- 3. rejection / error behaviour (fixed)
    outsiders = {16: 'gGzA -=_é', 32: 'ailoAZ-= é', 64: '-+/ .~é中'}
    # line ends, control characters and non-ASCII spaces: what an unstripped line of a file carries, and what
    # pattern-based validation ('$' matches before a final newline) or translate tables let through
    for base in outsiders:
        outsiders[base] += '\n\r\t\x00\x0b\x7f\x85\u00a0\u2028'
    for base in (16, 32, 64):
        cs = CFG[base]['charset']
        for bad_ch in outsiders[base]:
            for pre, post in (('', ''), (cs[3], ''), ('', cs[5]), (cs[1] + cs[-1], cs[2]), (cs[0] * 5, cs[7] * 3)):
                h = pre + bad_ch + post
                # under every base, each one after the others have seen the same string
                for rot in range(3):
                    for b in [(16, 32, 64), (32, 64, 16), (64, 16, 32)][rot]:
                        add_decode(h, b, expect_valid=valid_in(h, b), why='rejection corpus')
                        if rot == 0 and not valid_in(h, b):
                            add_box_reject(h, b, why='rejection corpus')
        add_decode('', base, expect_valid=True)
        add_encode(Coordinate(1.5, 2.25), 0, base, expect='', why='encode-length')
        add_encode(Coordinate(1.5, 2.25), -3, base, expect='', why='encode-length')
    for ub in (0, 8, 15, 33, 128, -16):
        i, r = add_decode('0', ub)
        if r != ('Err', 'KeyError'):
            flag(i, 'unknown-base', f'decode under the unsupported base {ub} gave {r}')
        i, r = add_encode(Coordinate(1.5, 2.25), 3, ub)
        if r != ('Err', 'ValueError'):
            flag(i, 'unknown-base', f'encode under the unsupported base {ub} gave {r}')
        add_children('0', ub)
        add_box_reject('0', ub, why='unsupported base')

    # Coordinate normalisation the box goes through (dyadic inputs; exact)
    @total('coord', lambda i: None)
    def add_coord(lon, lat):
        c = Coordinate(lon, lat)
        add(f'KCoord {fq(lon)} {fq(lat)} {q2((c.longitude, c.latitude))}',
            {'k': 'coord', 'lon': lon, 'lat': lat, 'out': [c.longitude, c.latitude]})
    for lon, lat in [(180.0, 0.0), (-180.0, 0.0), (180.0, 90.0), (190.0, 10.0), (-190.5, -10.25), (540.0, 0.0), (0.0, 95.0),
                     (10.0, 180.0), (-10.0, -135.0), (0.0, 270.0), (45.0, -90.0), (179.5, 45.0), (360.0, 0.0), (-45.0, 157.5)]:
        add_coord(lon, lat)

    ck.cov['evaluations'] = len(cases)
    ck.cov['distinct_nontrivial'] = len(nontrivial)
    ck.cov['exhaustive_parts'] = 'every cell of bases 16/32/64 to depth 3/2/2 (decode; re-encoded centre and box for in-range cells; ' \
                           f'children to depth {kids_depth}); strings of depth <= 2 also decoded under the other two bases'
    for i in (0, 40, 5000, len(cases) - 400, len(cases) - 30):
        ck.sample(cases[max(0, min(i, len(cases) - 1))])

    bad, broken = ck.corr('geohash', 'From Coq Require Import QArith String.\nFrom GV Require Import Prelude GeohashM GeohashK.\n'
                                     'Open Scope string_scope. Open Scope Z_scope. Open Scope Q_scope.', 'check', cases, chunk=800)

    if os.environ.get('VERIF_DEBUG'):
        for i in bad[:12]:
            print('DEBUG bad', i, cases[i][:400])
    reported = 0
    allbad = sorted(set(bad) | set(flagged))
    # report property-level failures first (they carry the clause), then pure model/implementation gaps
    allbad.sort(key=lambda i: (i not in flagged, i))
    for i in allbad:
        if reported >= 5:
            break
        m = dict(meta[i])
        if i in flagged:
            m['property_clauses_violated'] = flagged[i]
        ck.violation({'kind': 'property-fails-on-implementation' if i in flagged else 'model-vs-implementation',
                      'case': m, 'gallina_case': cases[i], 'model_disagrees': i in bad,
                      'theorems': 'C11_* (Props/C11.v): the model value at this input is the one the theorems pin to the tiling semantics',
                      'how_to_replay': 'bin/check C11 --replay <this file>'})
        reported += 1

    # D12: deterministic replay of the known finding (fixed input)
    for f in ck.findings:
        if f.get('status') == 'open' and f.get('signature') == 'cell_east_edge_180':
            rp = f.get('replay', {'hash': 'z', 'base': 32})
            try:
                b = GH.niemeyer_to_geobox(rp['hash'], rp['base'])
                lon, lat, ex, ey = GH._decode_niemeyer(rp['hash'], rp['base'])
                if lon + ex == 180 and b.se_bound.longitude == -180 and not b.contains_coordinate(Coordinate(lon, lat)):
                    ck.known(f)
            except Exception:   # noqa
                pass

    ck.finish(rule='every cell of every base down to depth 3 (base 16) / 2 (base 32) / 2 (base 64): decode, and for cells inside '
                   'the coordinate range re-encode of the centre, sub-hashes, box and box membership; every string of depth <= 2 is '
                   'also decoded under the other two bases (accepted iff over that alphabet) and then again under its own; seeded '
                   'random coordinates at lengths 1..12 (uniform / exactly on edges, corners and centres of random cells / at the '
                   'range limits), each encoded under all three bases in shuffled order through one of four routes '
                   '(_coord_to_niemeyer, hash_coordinates, hash_shape(GeoPoint), hash_coordinates with agg_fn), decoded back, '
                   'cross-decoded under the other bases, and re-encoded at a shorter length; fixed rejection corpus decoded under all '
                   'three bases in rotating order; sequences of coordinates hashed in ONE call (hash_coordinates with list/count agg_fn, '
                   'hash_collection of points, hash_shape(MultiGeoPoint)) whose successive members sit exactly on the W/S/E/N edges and the four '
                   'corners of the previous member\'s cell (cells aligned to coarser grid lines included), edge walks, two interleaved adjacent cells, '
                   'repeats and shuffles, at lengths 1..12 and again at a shorter length: every member against the model, its own encoding alone, '
                   'the exact tiling cell and the prefix clause; histories on answers that are mutable containers (_get_niemeyer_subhashes sets, '
                   'niemeyer_to_geobox boxes, hash_shape(GeoPoint) sets, hash_coordinates dicts): ask, change the answer in place, ask again with the '
                   'same and with other arguments. non-trivial = distinct in-range cells + distinct (base, length, coordinate) triples + distinct '
                   '(base, length, coordinate, predecessor) of the sequences + (cell, query number) of the histories',
              assumptions=['floats are read exactly (float.as_integer_ratio); the float code is exact on these inputs for lengths <= 12 (DESIGN section 3)',
                           'the four observation routes call the same module-level function (checked: all routes are compared with the same model function)'])


def replay(path):
    r = json.load(open(path))
    m = r.get('case') or {}
    print(json.dumps(m, indent=1))
    k = m.get('k')
    if k == 'decode':
        print('implementation now:', impl_decode(m['hash'], m['base']))
    elif k == 'encode':
        c = Coordinate(m['lon'][0], m['lat'][0])
        print('implementation now (the coordinate on its own, four routes):', [impl_encode(c, m['len'], m['base'], rt) for rt in range(4)])
        print('cell of the tiling that owns it:', ref_encode(c.longitude, c.latitude, m['len'], m['base']))
        if m.get('seq'):
            coords = [Coordinate(x[0], y[0]) for x, y in m['seq']]
            for rt in SEQ_ROUTES:
                rs = guarded(lambda: impl_sequence(coords, m['len'], m['base'], rt))
                print(f'implementation now, whole sequence through {rt}: position {m["sequence"]["index"]} is filed under',
                      rs[1][m['sequence']['index']] if rs[0] == 'Ok' else rs)
    elif k == 'sequence':
        coords = [Coordinate(x[0], y[0]) for x, y in m['seq']]
        for rt in SEQ_ROUTES:
            print(f'implementation now, through {rt}:', guarded(lambda: impl_sequence(coords, m['len'], m['base'], rt)))
        print('cells of the tiling:', [ref_encode(c.longitude, c.latitude, m['len'], m['base']) for c in coords])
    elif k in ('box', 'box-reject'):
        print('implementation now:', [(lambda x: x if x[0] == 'Err' else x[1][1])(impl_box(m['hash'], m['base'], rt)) for rt in range(3)])
    elif k == 'children':
        print('implementation now:', impl_children(m['hash'], m['base']))
        if m.get('history'):
            print('history recorded:', m['history'])

            def hist():
                a = GH._get_niemeyer_subhashes(m['hash'], m['base'])
                n1 = len(a)
                a.clear()
                return n1, sorted(GH._get_niemeyer_subhashes(m['hash'], m['base']))
            print('implementation now, ask / clear() the answer / ask again: (size of the first answer, second answer) =', guarded(hist))
    print('gallina case:', r.get('gallina_case'))
    model_side(r.get('gallina_case'), m)


def model_side(lit, m):
    """evaluate the model on the replayed case inside Coq and print its value and the verdict"""
    import tempfile
    from lib import COQ, sh
    if not lit:
        return
    extra = ''
    k = m.get('k')
    if k == 'decode':
        extra = f'Eval vm_compute in decode_niemeyer {zlit(m["base"])} {slit(m["hash"])}.\n'
    elif k == 'encode':
        extra = f'Eval vm_compute in coord_to_niemeyer {zlit(m["base"])} ({fq(m["lon"][0])}, {fq(m["lat"][0])}) {zlit(m["len"])}.\n'
    elif k in ('box', 'box-reject'):
        extra = f'Eval vm_compute in niemeyer_to_geobox {zlit(m["base"])} {slit(m["hash"])}.\n'
    elif k == 'children':
        extra = f'Eval vm_compute in get_subhashes {zlit(m["base"])} {slit(m["hash"])}.\n'
    with tempfile.TemporaryDirectory(dir=os.path.join(os.path.dirname(COQ), '.run')) as d:
        f = os.path.join(d, 'replay.v')
        open(f, 'w').write('From Coq Require Import QArith String.\nFrom GV Require Import Prelude GeohashM GeohashK.\n'
                           'Open Scope string_scope. Open Scope Z_scope. Open Scope Q_scope.\n'
                           + extra + f'Eval vm_compute in check ({lit}).\n')
        rc, out = sh(['coqc', '-Q', os.path.join(COQ, 'theories'), 'GV', f], cwd=d, timeout=300)
        print('model (value, then whether model and recorded implementation answer agree):')
        print(out[-3000:])


if __name__ == '__main__':
    if '--replay' in sys.argv:
        replay(sys.argv[sys.argv.index('--replay') + 1])
    else:
        main()
