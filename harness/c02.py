#!/usr/bin/env python3
"""C02 - pairwise spatial predicates.  See DESIGN.md section 5 / C02.

Model coordinates = implementation coordinates (integers, SCALE 1); the model's ray ends at W = -180.

Streams
  sweep   do_edges_intersect called directly on seeded random small edge lists (duplicates,
          retraced, horizontal, vertical, zero-length, touching, collinear) -> KSweep cases;
          the same answers are compared in Python with brute force over find_line_intersection,
          with the mirrored call, and must not raise.
  pair    all ordered pairs of the fixed shape library (+ rotations/reversals of the first ring,
          + the nine dt combinations) -> KPair cases (intersects_shape, contains_shape as
          Ok b / Err kind); the laws (symmetry, contains => intersects, dt independence, no
          exception) are evaluated in Python on the implementation's answers.
  edges   shape.edges()/segments of every library shape -> KEdges;  is_sub_list -> KSub.
  ref     (fixed library only, no seeded randomness: the clause "equals planar set truth" is
          not a theorem) exact closed-set reference with fractions; disagreements must fall
          in a documented class: D5 signatures -> KNOWN-FINDING, collinear-only contact ->
          documented exception; anything else is a violation.
"""
import itertools
import json
import logging
import os
import sys
from datetime import datetime, timedelta, timezone
from fractions import Fraction as F

sys.path.insert(0, os.path.dirname(os.path.abspath(__file__)))
from lib import Check, REPO, guarded, reslit, zlit, blit, listlit   # noqa: E402
import gen_pair   # noqa: E402  (tools/: translator tie for is_sub_list / do_bounds_overlap)
import gen_geom   # noqa: E402  (tools/: find_line_intersection, regenerated here too: the sweep tie is instantiated with it)
import gen_sweep  # noqa: E402  (tools/: translator tie for do_edges_intersect)

logging.disable(logging.CRITICAL)
import warnings                                                      # noqa: E402
warnings.filterwarnings('ignore')
from geostructures import GeoPolygon, GeoBox, GeoLineString, GeoPoint, Coordinate   # noqa: E402
from geostructures.time import TimeInterval                                         # noqa: E402
from geostructures._geometry import do_edges_intersect, find_line_intersection      # noqa: E402
from geostructures.utils.functions import is_sub_list                               # noqa: E402

W = -180
IMPORTS = 'From GV Require Import Prelude TimeM GeomM SweepM PairM PairK.\nOpen Scope Z_scope.'
EPOCH = datetime(2020, 1, 1, tzinfo=timezone.utc)


# ------------------------------------------------------------------ descriptors -> implementation
def C(p):
    return Coordinate(float(p[0]), float(p[1]))


def mk_dt(d):
    if d is None:
        return None
    if d[0] == 'inst':
        return EPOCH + timedelta(hours=d[1])
    return TimeInterval(EPOCH + timedelta(hours=d[1]), EPOCH + timedelta(hours=d[2]))


def mk_hole(h):
    if h['k'] == 'hpoly':
        return GeoPolygon([C(v) for v in h['o']])
    return GeoBox(C(h['nw']), C(h['se']))


def build(s, dt=None):
    d = mk_dt(dt)
    k = s['k']
    if k == 'pt':
        return GeoPoint(C(s['p']), dt=d)
    if k == 'ln':
        return GeoLineString([C(v) for v in s['vs']], dt=d)
    holes = [mk_hole(h) for h in s.get('holes', [])] or None
    if k == 'poly':
        return GeoPolygon([C(v) for v in s['o']], holes=holes, dt=d)
    return GeoBox(C(s['nw']), C(s['se']), holes=holes, dt=d)


# ------------------------------------------------------------------ descriptors -> Gallina
def ptlit(p):
    return f'({zlit(p[0])}, {zlit(p[1])})'


def ptslit(ps):
    return listlit([ptlit(p) for p in ps])


def seglit(e):
    return f'({ptlit(e[0])}, {ptlit(e[1])})'


def dtlit(d):
    if d is None:
        return 'None'
    if d[0] == 'inst':
        return f'(Some (mkiv {zlit(d[1])} {zlit(d[1])}))'
    return f'(Some (mkiv {zlit(d[1])} {zlit(d[2])}))'


def holelit(h):
    if h['k'] == 'hpoly':
        return f'mk_hpoly {ptslit(h["o"])}'
    return f'HBox {ptlit(h["nw"])} {ptlit(h["se"])}'


def shapelit(s, dt=None):
    k = s['k']
    if k == 'pt':
        return f'(Pt {ptlit(s["p"])} {dtlit(dt)})'
    if k == 'ln':
        return f'(Ln {ptslit(s["vs"])} {dtlit(dt)})'
    hs = listlit([holelit(h) for h in s.get('holes', [])])
    if k == 'poly':
        return f'(mk_poly {ptslit(s["o"])} {hs} {dtlit(dt)})'
    return f'(Box {ptlit(s["nw"])} {ptlit(s["se"])} {hs} {dtlit(dt)})'


def rlit(r):
    return reslit(r, blit)


def of_coord(c):
    x, y = c.longitude, c.latitude
    assert float(x).is_integer() and float(y).is_integer()
    return (int(x), int(y))


# ------------------------------------------------------------------ the fixed shape library
def sq(x0, y0, x1, y1):
    return [[x0, y0], [x1, y0], [x1, y1], [x0, y1]]


def P(o, holes=()):
    return {'k': 'poly', 'o': [list(v) for v in o], 'holes': list(holes)}


def B(x0, y0, x1, y1, holes=()):
    return {'k': 'box', 'nw': [x0, y1], 'se': [x1, y0], 'holes': list(holes)}


def L(*vs):
    return {'k': 'ln', 'vs': [list(v) for v in vs]}


def PT(x, y):
    return {'k': 'pt', 'p': [x, y]}


def HP(o):
    return {'k': 'hpoly', 'o': [list(v) for v in o]}


def HB(x0, y0, x1, y1):
    return {'k': 'hbox', 'nw': [x0, y1], 'se': [x1, y0]}


def closed(o):
    return o + [o[0]]


LIB = [
    # --- polygons (open outlines are closed by the constructor; clockwise ones are flipped)
    ('SQ', P(sq(0, 0, 8, 8))),
    ('SQ-closed-cw', P(closed(sq(0, 0, 8, 8)[::-1]))),
    ('SQ-in', P(sq(2, 2, 6, 6))),
    ('SQ-polyhole', P(sq(0, 0, 8, 8), [HP(sq(2, 2, 6, 6))])),
    ('SQ-boxhole', P(sq(0, 0, 8, 8), [HB(2, 2, 6, 6)])),
    ('SQ-2holes', P(sq(0, 0, 8, 8), [HP(sq(1, 1, 3, 3)), HB(5, 5, 7, 7)])),
    ('small-in-hole', P(sq(3, 3, 5, 5))),
    ('around-hole', P(sq(1, 1, 7, 7))),
    ('around-hole-with-own-hole', P(sq(1, 1, 7, 7), [HP(sq(3, 3, 5, 5))])),
    ('far', P(sq(20, 20, 24, 24))),
    ('crossing', P(sq(4, 4, 12, 12))),
    ('corner-to-corner', P(sq(8, 8, 12, 12))),
    ('vertex-to-edge', P([[8, 4], [10, 2], [12, 4], [10, 6]])),
    ('shared-edge', P(sq(8, 0, 16, 8))),
    ('partial-shared-edge', P(sq(8, 2, 12, 6))),
    ('inside-sharing-edge', P(sq(0, 2, 3, 6))),
    ('diamond0', P([[0, 1], [1, 0], [0, -1], [-1, 0]])),
    ('diamond-up', P([[0, 1], [1, 2], [0, 3], [-1, 2]])),
    ('diamond-big', P([[4, 0], [8, 4], [4, 8], [0, 4]])),
    ('nested-level-vertex', P([[4, 4], [5, 3], [6, 4], [5, 5]])),
    ('L-shape', P([[0, 0], [8, 0], [8, 3], [3, 3], [3, 8], [0, 8]])),
    ('U-shape', P([[0, 0], [8, 0], [8, 8], [6, 8], [6, 2], [2, 2], [2, 8], [0, 8]])),
    ('in-U-notch', P(sq(3, 4, 5, 7))),
    ('poly-hole-to-body', P([[4, 4], [7, 4], [7, 5], [4, 5]])),
    ('triangle', P([[1, 1], [7, 2], [3, 7]])),
    ('collinear-vertices', P([[0, 0], [4, 0], [8, 0], [8, 8], [4, 8], [0, 8], [0, 4]])),
    ('big', P(sq(-4, -4, 30, 30))),
    ('big-hole-over-SQ', P(sq(-4, -4, 30, 30), [HP(sq(-2, -2, 10, 10))])),
    # --- boxes
    ('BOX', B(0, 0, 8, 8)),
    ('BOX-in', B(2, 2, 6, 6)),
    ('BOX-polyhole', B(0, 0, 8, 8, [HP(sq(2, 2, 6, 6))])),
    ('BOX-boxhole', B(0, 0, 8, 8, [HB(2, 2, 6, 6)])),
    ('BOX-far', B(20, 0, 24, 4)),
    ('BOX-crossing', B(6, 6, 10, 10)),
    ('BOX-corner', B(8, -4, 12, 0)),
    ('BOX-small', B(3, 3, 5, 5)),
    # --- linestrings
    ('ln-inside', L([1, 1], [3, 2], [5, 1])),
    ('ln-sub-a', L([1, 1], [3, 2])),
    ('ln-sub-b', L([3, 2], [5, 1])),
    ('ln-reversed', L([5, 1], [3, 2], [1, 1])),
    ('ln-noncontig', L([1, 1], [5, 1])),
    ('ln-crossing', L([-2, 4], [10, 4])),
    ('ln-out-and-back', L([5, 5], [6, 6], [5, 5])),
    ('ln-retrace', L([1, 1], [3, 3], [1, 1], [3, 3])),
    ('ln-closed', L([1, 1], [3, 1], [3, 3], [1, 1])),
    ('ln-corner-touch', L([8, 8], [10, 10])),
    ('ln-ends-on-edge', L([8, 4], [12, 4])),
    ('ln-along-edge', L([0, 0], [8, 0])),
    ('ln-inside-edge', L([2, 0], [6, 0])),
    ('ln-overlap-edge', L([6, 0], [12, 0])),
    ('ln-vertical', L([4, -2], [4, 10])),
    ('ln-in-hole', L([3, 3], [5, 4], [4, 5])),
    ('ln-far', L([20, 1], [22, 3], [25, 1])),
    ('ln-dup-vertex', L([1, 1], [1, 1], [3, 2])),
    ('ln-long-diag', L([1, 1], [5, 3])),
    ('ln-through-hole', L([1, 4], [7, 4])),
    ('ln-collinear-extension', L([1, 1], [-1, 0], [-3, -1])),
    ('ln-hole-to-body', L([4, 4], [7, 4])),
    ('ln-retrace-tail', L([3, 3], [1, 1], [3, 3])),
    ('ln-zigzag-vertices-on-sq', L([0, 0], [4, 8], [8, 0])),
    # --- points
    ('pt-interior', PT(4, 4)),
    ('pt-interior-off-hole', PT(1, 4)),
    ('pt-on-edge', PT(8, 4)),
    ('pt-on-vertex', PT(8, 8)),
    ('pt-on-hole-edge', PT(2, 4)),
    ('pt-outside', PT(20, 1)),
    ('pt-line-vertex', PT(3, 2)),
    ('pt-line-start', PT(1, 1)),
    ('pt-origin', PT(0, 0)),
    ('pt-level-with-vertex', PT(4, 3)),
]
DTS = [None, ('inst', 5), ('ivl', 0, 10)]
DT2 = [None, ('inst', 12), ('ivl', 5, 15)]        # second operand: overlapping but not contained


def ring_variants(s):
    """rotations / reversals of the first ring (polygons) or the vertex list reversed (lines)"""
    out = []
    if s['k'] == 'poly':
        o = s['o']
        if o[0] == o[-1]:
            o = o[:-1]
        n = len(o)
        for rot in range(n):
            for rev in (False, True):
                if rot == 0 and not rev:
                    continue
                r = o[rot:] + o[:rot]
                if rev:
                    r = r[::-1]
                out.append(dict(s, o=r))
    return out


# ------------------------------------------------------------------ driving the implementation
def observe(a, b, da=None, db=None):
    A, Bs = build(a, da), build(b, db)
    return guarded(lambda: bool(A.intersects_shape(Bs))), guarded(lambda: bool(A.contains_shape(Bs)))


def pair_case(a, b, da, db):
    oi, oc = observe(a, b, da, db)
    lit = f'KPair {zlit(W)} {shapelit(a, da)} {shapelit(b, db)} {rlit(oi)} {rlit(oc)}'
    return lit, oi, oc


# ------------------------------------------------------------------ exact closed-set reference
def on_seg(p, a, b):
    cr = (b[0] - a[0]) * (p[1] - a[1]) - (b[1] - a[1]) * (p[0] - a[0])
    return cr == 0 and min(a[0], b[0]) <= p[0] <= max(a[0], b[0]) and min(a[1], b[1]) <= p[1] <= max(a[1], b[1])


def orient(a, b, c):
    v = (b[0] - a[0]) * (c[1] - a[1]) - (b[1] - a[1]) * (c[0] - a[0])
    return (v > 0) - (v < 0)


def segs_touch(s, t):
    """closed segments share at least one point (collinear overlap included)"""
    a, b = s
    c, d = t
    o1, o2, o3, o4 = orient(a, b, c), orient(a, b, d), orient(c, d, a), orient(c, d, b)
    if o1 != o2 and o3 != o4:
        return True
    return on_seg(c, a, b) or on_seg(d, a, b) or on_seg(a, c, d) or on_seg(b, c, d)


def segs_touch_noncollinear(s, t):
    """share a point and are not parallel (what find_line_intersection can report)"""
    a, b = s
    c, d = t
    par = (b[0] - a[0]) * (d[1] - c[1]) - (b[1] - a[1]) * (d[0] - c[0]) == 0
    return (not par) and segs_touch(s, t)


def ring_state(p, ring):
    """ring: open vertex list -> 'boundary' | 'in' | 'out' (even-odd, exact)"""
    n = len(ring)
    inside = False
    for i in range(n):
        a, b = ring[i], ring[(i + 1) % n]
        if on_seg(p, a, b):
            return 'boundary'
        if (a[1] > p[1]) != (b[1] > p[1]):
            x = F(a[0]) + F(p[1] - a[1]) * (b[0] - a[0]) / (b[1] - a[1])
            if x > p[0]:
                inside = not inside
    return 'in' if inside else 'out'


def open_ring(o):
    return o[:-1] if len(o) > 1 and o[0] == o[-1] else o


def rings(s):
    """[outer, hole1, ...] as open vertex lists (polygon-like shapes)"""
    if s['k'] == 'poly':
        outer = open_ring(s['o'])
    else:
        (x0, y1), (x1, y0) = s['nw'], s['se']
        outer = sq(x0, y0, x1, y1)
    hs = []
    for h in s.get('holes', []):
        if h['k'] == 'hpoly':
            hs.append(open_ring(h['o']))
        else:
            (x0, y1), (x1, y0) = h['nw'], h['se']
            hs.append(sq(x0, y0, x1, y1))
    return [outer] + hs


def ring_segs(r):
    return [(r[i], r[(i + 1) % len(r)]) for i in range(len(r))]


def boundary_segs(s):
    if s['k'] == 'pt':
        return []
    if s['k'] == 'ln':
        return list(zip(s['vs'], s['vs'][1:]))
    return [e for r in rings(s) for e in ring_segs(r)]


def vertices(s):
    if s['k'] == 'pt':
        return [s['p']]
    if s['k'] == 'ln':
        return s['vs']
    return [v for r in rings(s) for v in r]


def in_closed(p, s):
    """p in the closed point set of s"""
    if s['k'] == 'pt':
        return list(p) == list(s['p'])
    if s['k'] == 'ln':
        return any(on_seg(p, a, b) for a, b in boundary_segs(s))
    rs = rings(s)
    if ring_state(p, rs[0]) == 'out':
        return False
    return not any(ring_state(p, h) == 'in' for h in rs[1:])


def in_open(p, s):
    """p in the interior of a polygon-like s"""
    rs = rings(s)
    return ring_state(p, rs[0]) == 'in' and all(ring_state(p, h) == 'out' for h in rs[1:])


def ref_intersects(a, b):
    if a['k'] == 'pt':
        return in_closed(a['p'], b)
    if b['k'] == 'pt':
        return in_closed(b['p'], a)
    if any(segs_touch(s, t) for s in boundary_segs(a) for t in boundary_segs(b)):
        return True
    return any(in_closed(v, a) for v in vertices(b)) or any(in_closed(v, b) for v in vertices(a))


def ref_contains(a, b):
    """b lies inside a without touching its boundary; for a linestring / point receiver the
    library's documented vertex rule is the definition"""
    if a['k'] == 'pt':
        return b['k'] == 'pt' and list(a['p']) == list(b['p'])
    if a['k'] == 'ln':
        if b['k'] == 'pt':
            return list(b['p']) in [list(v) for v in a['vs']]
        if b['k'] == 'ln':
            va, vb = [list(v) for v in a['vs']], [list(v) for v in b['vs']]
            return any(va[i:i + len(vb)] == vb for i in range(len(va) - len(vb) + 1))
        return False
    if b['k'] == 'pt':
        return in_open(b['p'], a)
    if any(segs_touch(s, t) for s in boundary_segs(a) for t in boundary_segs(b)):
        return False
    if not all(in_open(v, a) for v in vertices(b)):
        return False
    if b['k'] in ('poly', 'box'):
        # no hole of a may sit inside b's region
        for h in rings(a)[1:]:
            if any(in_closed(v, b) for v in h):
                return False
    return True


# D5 signature predicates (over a pair of descriptors)
def sig_point_on_ring_edge(case):
    a, b = case['a'], case['b']
    for p, s in ((a, b), (b, a)):
        if p['k'] == 'pt' and s['k'] in ('poly', 'box'):
            if any(ring_state(p['p'], r) == 'boundary' for r in rings(s)):
                return True
    return False


def sig_point_on_segment_interior(case):
    a, b = case['a'], case['b']
    for p, s in ((a, b), (b, a)):
        if p['k'] == 'pt' and s['k'] == 'ln':
            q = list(p['p'])
            if q not in [list(v) for v in s['vs']] and any(on_seg(q, u, v) for u, v in boundary_segs(s)):
                return True
    return False


def sig_polygon_around_hole(case):
    a, b = case['a'], case['b']
    if a['k'] in ('poly', 'box') and b['k'] in ('poly', 'box'):
        for h in rings(a)[1:]:
            if all(in_closed(v, b) for v in h):
                return True
    return False


def cls_box_boundary(case):
    """receiver is a GeoBox and the tested point / first vertex of the argument lies on the box's
    outer boundary: GeoBox membership is inclusive (C01 box_contains_spec), so contains_shape is True"""
    a, b = case['a'], case['b']
    if a['k'] != 'box' or b['k'] not in ('pt', 'ln'):
        return False
    v = b['p'] if b['k'] == 'pt' else b['vs'][0]
    return ring_state(v, rings(a)[0]) == 'boundary'


def cls_hole_boundary(case):
    """the argument is a point on the boundary of a POLYGON hole of the receiver: a polygon hole
    excludes only its strict interior (C01 poly_contains_spec), so the point counts as contained"""
    a, b = case['a'], case['b']
    if a['k'] not in ('poly', 'box') or b['k'] != 'pt':
        return False
    hs = [h for h in a.get('holes', []) if h['k'] == 'hpoly']
    return any(ring_state(b['p'], open_ring(h['o'])) == 'boundary' for h in hs)


def collinear_only(a, b):
    """the closed sets touch, but no non-parallel segment pair does and no vertex of one lies in
    the other's closed set except along collinear overlaps: the documented exception"""
    sa, sb = boundary_segs(a), boundary_segs(b)
    if any(segs_touch_noncollinear(s, t) for s in sa for t in sb):
        return False
    return any(segs_touch(s, t) for s in sa for t in sb)


PREDICATES = {'point_on_ring_edge': sig_point_on_ring_edge,
              'point_on_segment_interior': sig_point_on_segment_interior,
              'polygon_around_hole': sig_polygon_around_hole}


def finding(ck, sig):
    """the open entry of KNOWN_FINDINGS.json with this signature (None once it is closed/removed:
    the disagreement is then reported as a violation)"""
    for f in ck.findings:
        if f.get('status') == 'open' and f.get('signature') == sig:
            return f
    return None


# ------------------------------------------------------------------ random edge lists
def rand_edges(rng, n, g):
    es = []
    for _ in range(n):
        kind = rng.random()
        a = (rng.randint(0, g), rng.randint(0, g))
        if kind < 0.12:
            b = (rng.randint(0, g), a[1])            # horizontal (maybe zero length)
        elif kind < 0.24:
            b = (a[0], rng.randint(0, g))            # vertical
        else:
            b = (rng.randint(0, g), rng.randint(0, g))
        es.append((a, b))
    # duplicates, retraced segments, chains (shared endpoints)
    if es and rng.random() < 0.3:
        e = rng.choice(es)
        es.insert(rng.randrange(len(es) + 1), (e[1], e[0]))
    if es and rng.random() < 0.2:
        es.insert(rng.randrange(len(es) + 1), rng.choice(es))
    if es and rng.random() < 0.3:
        e = rng.choice(es)
        es.append((e[1], (rng.randint(0, g), rng.randint(0, g))))
    return es


def rand_pt(rng, g):
    return [rng.randint(0, g), rng.randint(0, g)]


def rand_hole(rng, g):
    if rng.random() < 0.5:
        x0, x1 = sorted(rng.sample(range(0, g + 1), 2))
        y0, y1 = sorted(rng.sample(range(0, g + 1), 2))
        return HB(x0, y0, x1, y1)
    return HP([rand_pt(rng, g) for _ in range(rng.randint(3, 4))])


def rand_shape(rng, g):
    """arbitrary valid shapes on a (g+1)^2 grid: the laws are theorems for every vertex list
    (paths with >= 2 vertices, outlines with >= 2), simple or not, so nothing is filtered"""
    r = rng.random()
    if r < 0.2:
        return PT(*rand_pt(rng, g))
    if r < 0.5:
        n = rng.randint(2, 5)
        vs = [rand_pt(rng, g) for _ in range(n)]
        if rng.random() < 0.25:
            vs.append(list(vs[-2]))                     # retrace the last segment
        if rng.random() < 0.15:
            vs.append(list(vs[0]))                      # closed path
        return L(*vs)
    holes = [rand_hole(rng, g) for _ in range(rng.choice([0, 0, 0, 1, 1, 2]))]
    if r < 0.65:
        x0, x1 = sorted(rng.sample(range(0, g + 1), 2))
        y0, y1 = sorted(rng.sample(range(0, g + 1), 2))
        return B(x0, y0, x1, y1, holes)
    if r < 0.8:
        x0, x1 = sorted(rng.sample(range(0, g + 1), 2))
        y0, y1 = sorted(rng.sample(range(0, g + 1), 2))
        o = sq(x0, y0, x1, y1)
        k = rng.randrange(4)
        o = o[k:] + o[:k]
        if rng.random() < 0.5:
            o = o[::-1]
        return P(o, holes)
    o = [rand_pt(rng, g) for _ in range(rng.randint(3, 6))]
    if rng.random() < 0.3:
        o.append(list(o[0]))                            # already closed
    return P(o, holes)


def derived_shape(rng, s, g):
    """a second shape related to s: shares vertices / is a sub-path / sits on its boundary"""
    vs = [list(v) for v in vertices(s)]
    r = rng.random()
    if s['k'] == 'ln' and r < 0.4 and len(vs) >= 2:
        i = rng.randrange(len(vs) - 1)
        j = rng.randrange(i + 2, len(vs) + 1)
        sub = vs[i:j]
        if rng.random() < 0.3:
            sub = sub[::-1]
        return L(*sub)
    if r < 0.55:
        return PT(*rng.choice(vs))
    if r < 0.8:
        a, b = rng.choice(vs), rng.choice(vs)
        return L(a, rand_pt(rng, g), b) if rng.random() < 0.5 else L(a, b)
    return rand_shape(rng, g)


def impl_sweep(ea, eb):
    return guarded(lambda: bool(do_edges_intersect([(C(a), C(b)) for a, b in ea], [(C(a), C(b)) for a, b in eb])))


def impl_hit(a, b):
    return find_line_intersection((C(a[0]), C(a[1])), (C(b[0]), C(b[1]))) is not None


def main():
    ck = Check('C02')
    ck.build_theories(['theories/Props/C02.vo', 'theories/Props/C02b.vo', 'theories/Corr/PairK.vo'])
    rep = gen_pair.main(REPO, os.path.join(ck.rundir, 'PairGen.v'))   # is_sub_list / do_bounds_overlap regenerated from the source ...
    ck.gen('PairGen.v', rep, 'PairGenEq.v')                           # ... proved equal to PairM.is_sub_list / GeomM.bounds_overlap for all arguments
    rep = gen_geom.main(REPO, os.path.join(ck.rundir, 'GeomGen.v'))   # find_line_intersection (C01's tie, needed by the sweep's instantiation)
    ck.gen('GeomGen.v', rep, 'GeomGenEq.v')
    rep = gen_sweep.main(REPO, os.path.join(ck.rundir, 'SweepGen.v'))  # do_edges_intersect: events, __lt__, sort, the active-set loop ...
    ck.gen('SweepGen.v', rep, 'SweepGenEq.v')                          # ... proved equal to SweepM.sweep for all edge lists
    ck.props('Props/C02.v')
    ck.props('Props/C02b.v')     # planar set truth for the axis-aligned family (boxes and rectangle polygons)
    rng = ck.rng
    quick = ck.tier == 'quick'
    cases, meta = [], []
    nontrivial = set()

    def add(lit, m):
        cases.append(lit)
        meta.append(m)

    # ---------------------------------------------------------------- sweep, called directly
    n_sweep = 2500 if quick else 60000
    corpus = [   # regression cases of D2 / D3 and degenerate inputs, always first
        ([((0, 1), (1, 0)), ((1, 0), (0, -1)), ((0, -1), (-1, 0)), ((-1, 0), (0, 1))],
         [((0, 1), (1, 2)), ((1, 2), (0, 3)), ((0, 3), (-1, 2)), ((-1, 2), (0, 1))]),
        ([((5, 5), (6, 6)), ((6, 6), (5, 5))], [((0, 0), (1, 0)), ((1, 0), (1, 1))]),
        ([], []), ([((0, 0), (1, 1))], []), ([], [((0, 0), (1, 1))]),
        ([((0, 0), (0, 0))], [((0, 0), (0, 0))]),
        ([((0, 2), (4, 2))], [((2, 0), (2, 2))]), ([((0, 2), (4, 2))], [((2, 2), (2, 4))]),
        ([((0, 2), (4, 2)), ((1, 0), (1, 1))], [((2, 3), (2, 5)), ((2, 2), (2, 3))]),
    ]
    corpus += [(b, a) for a, b in corpus]
    for i in range(len(corpus) + n_sweep):
        if i < len(corpus):
            ea, eb = corpus[i]
        else:
            g = rng.choice([2, 3, 4, 6, 9])
            ea = rand_edges(rng, rng.randint(0, 5), g)
            eb = rand_edges(rng, rng.randint(0, 5), g)
            if ea and rng.random() < 0.3:                # the same segment in both groups
                e = rng.choice(ea)
                eb.insert(rng.randrange(len(eb) + 1), e if rng.random() < 0.5 else (e[1], e[0]))
            if rng.random() < 0.5:
                # slide both groups so that 0 (a falsy number) and negative values occur as top / bottom /
                # interior latitudes and longitudes: the algorithm is translation invariant, the theorem holds on all of Z
                ox, oy = rng.choice([0, -g, -(g // 2), -1]), rng.choice([-g, -(g // 2), -1, -g - 3])
                ea = [((a[0] + ox, a[1] + oy), (b[0] + ox, b[1] + oy)) for a, b in ea]
                eb = [((a[0] + ox, a[1] + oy), (b[0] + ox, b[1] + oy)) for a, b in eb]
        out = impl_sweep(ea, eb)
        m = {'k': 'sweep', 'ea': ea, 'eb': eb, 'out': out}
        add(f'KSweep {listlit([seglit(e) for e in ea])} {listlit([seglit(e) for e in eb])} {rlit(out)}', m)
        # the property on the implementation itself
        bad = []
        if out[0] != 'Ok':
            bad.append(('no-exception', f'do_edges_intersect raised {out[1]}'))
        else:
            brute = any(impl_hit(a, b) for a in ea for b in eb)
            if out[1] != brute:
                bad.append(('sweep=brute', f'sweep says {out[1]}, some edge pair intersects: {brute}'))
            mir = impl_sweep(eb, ea)
            if mir != out:
                bad.append(('symmetry', f'do_edges_intersect(a,b)={out} but (b,a)={mir}'))
            # touching / shared latitude makes the event order matter
            lats_a = {p[1] for e in ea for p in e}
            lats_b = {p[1] for e in eb for p in e}
            if lats_a & lats_b:
                nontrivial.add((tuple(ea), tuple(eb)))
        if bad:
            m['property_clauses_violated'] = bad
        ck.count('sweep:' + (str(out[1]) if out[0] == 'Ok' else 'Err'))

    # ---------------------------------------------------------------- shape pairs
    names = [n for n, _ in LIB]
    shapes = dict(LIB)
    base = {}                                  # (na, nb) -> (oi, oc) with no dt
    dt_cycle = itertools.cycle([(x, y) for x in DTS for y in DT2])
    for na in names:
        for nb in names:
            a, b = shapes[na], shapes[nb]
            da, db = next(dt_cycle)
            lit, oi, oc = pair_case(a, b, da, db)
            m = {'k': 'pair', 'a': a, 'b': b, 'names': [na, nb], 'da': da, 'db': db, 'int': oi, 'con': oc}
            add(lit, m)
            base[(na, nb)] = (oi, oc)
            bad = []
            # no exception
            for nm, o in (('intersects_shape', oi), ('contains_shape', oc)):
                if o[0] != 'Ok':
                    bad.append(('no-exception', f'{nm} raised {o[1]}'))
            # dt independence, on the implementation: all nine combinations (thorough) / 3 (quick)
            combos = [(x, y) for x in DTS for y in DT2]
            if quick:
                combos = [combos[0], combos[4], combos[(len(cases)) % 9]]
            for x, y in combos:
                if (x, y) == (da, db):
                    continue
                o2 = observe(a, b, x, y)
                if o2 != (oi, oc):
                    bad.append(('time-free', f'dt=({da},{db}) gives {(oi, oc)}, dt=({x},{y}) gives {o2}'))
                    break
            if oc == ('Ok', True) and oi != ('Ok', True):
                bad.append(('contains=>intersects', f'contains_shape True, intersects_shape {oi}'))
            if bad:
                m['property_clauses_violated'] = bad
            ck.count(f'pair:{a["k"]}-{b["k"]}')
            if oi == ('Ok', True) or oc == ('Ok', True):
                nontrivial.add((na, nb))
    for na in names:
        for nb in names:
            if base[(na, nb)][0] != base[(nb, na)][0]:
                i = next(j for j, m in enumerate(meta) if m['k'] == 'pair' and m['names'] == [na, nb])
                meta[i].setdefault('property_clauses_violated', []).append(
                    ('symmetry', f'{na}.intersects_shape({nb})={base[(na, nb)][0]} but mirrored {base[(nb, na)][0]}'))

    # rotations / reversals of the first ring, both argument orders (model vs implementation)
    polys = [n for n in names if shapes[n]['k'] == 'poly']
    rot_jobs = []
    for na in polys:
        for v in ring_variants(shapes[na]):
            for nb in names:
                rot_jobs.append((na, v, nb))
    if quick:
        rot_jobs = rng.sample(rot_jobs, 1500)
    for na, v, nb in rot_jobs:
        b = shapes[nb]
        for x, y, order in ((v, b, 'ab'), (b, v, 'ba')):
            da, db = next(dt_cycle)
            lit, oi, oc = pair_case(x, y, da, db)
            m = {'k': 'pair', 'a': x, 'b': y, 'names': [na + '*', nb] if order == 'ab' else [nb, na + '*'],
                 'da': da, 'db': db, 'int': oi, 'con': oc}
            add(lit, m)
            bad = []
            if oi[0] != 'Ok' or oc[0] != 'Ok':
                bad.append(('no-exception', f'raised: {oi} {oc}'))
            if oc == ('Ok', True) and oi != ('Ok', True):
                bad.append(('contains=>intersects', f'contains_shape True, intersects_shape {oi}'))
            if bad:
                m['property_clauses_violated'] = bad
            ck.count('pair-rotated')

    # ---------------------------------------------------------------- seeded random shape pairs
    # (model vs implementation, and the laws that are theorems for every valid input)
    n_rand = 1200 if quick else 25000
    for it in range(n_rand):
        g = rng.choice([3, 4, 6, 8])
        a = rand_shape(rng, g)
        b = derived_shape(rng, a, g) if rng.random() < 0.35 else rand_shape(rng, g)
        if rng.random() < 0.5:
            a, b = b, a
        da, db = next(dt_cycle)
        lit, oi, oc = pair_case(a, b, da, db)
        m = {'k': 'pair', 'a': a, 'b': b, 'names': ['random', 'random'], 'da': da, 'db': db, 'int': oi, 'con': oc}
        add(lit, m)
        bad = []
        for nm, o in (('intersects_shape', oi), ('contains_shape', oc)):
            if o[0] != 'Ok':
                bad.append(('no-exception', f'{nm} raised {o[1]}'))
        x, y = rng.choice(DTS), rng.choice(DT2)
        o2 = observe(a, b, x, y)
        if o2 != (oi, oc):
            bad.append(('time-free', f'dt=({da},{db}) gives {(oi, oc)}, dt=({x},{y}) gives {o2}'))
        mir = observe(b, a, db, da)[0]
        if mir != oi:
            bad.append(('symmetry', f'a.intersects_shape(b)={oi} but b.intersects_shape(a)={mir}'))
        if oc == ('Ok', True) and oi != ('Ok', True):
            bad.append(('contains=>intersects', f'contains_shape True, intersects_shape {oi}'))
        if bad:
            m['property_clauses_violated'] = bad
        ck.count(f'pair-random:{a["k"]}-{b["k"]}')
        if oi == ('Ok', True) or oc == ('Ok', True):
            nontrivial.add(json.dumps([a, b], sort_keys=True))

    # ---------------------------------------------------------------- malformed shapes (fixed corpus)
    # a path with one vertex / an outline with one point has no edge: `edges[0][0]` raises
    # IndexError on some paths.  Outside the property ("valid shapes"); only the model's Err
    # answers are tied to the code here.
    SQ_ = shapes['SQ']
    one, far1 = L([1, 1]), L([9, 9])
    malformed = [(one, SQ_), (SQ_, one), (far1, SQ_), (SQ_, far1), (one, L([1, 1], [2, 2])), (L([1, 1], [2, 2]), one),
                 (far1, L([1, 1], [2, 2])), (L([1, 1], [2, 2]), far1), (P([[1, 1]]), SQ_), (SQ_, P([[1, 1]])),
                 (P([[1, 1], [2, 2]]), SQ_), (SQ_, P([[1, 1], [2, 2]])), (one, PT(1, 1)), (PT(1, 1), one), (one, one),
                 (shapes['BOX'], one), (one, shapes['BOX']), (P([[9, 9]]), far1)]
    for a, b in malformed:
        lit, oi, oc = pair_case(a, b, None, None)
        add(lit, {'k': 'pair', 'a': a, 'b': b, 'names': ['malformed', 'malformed'], 'da': None, 'db': None,
                  'int': oi, 'con': oc})
        ck.count('pair-malformed:' + oi[0] + '/' + oc[0])

    # ---------------------------------------------------------------- edges / is_sub_list
    for n in names:
        s = shapes[n]
        if s['k'] == 'pt':
            continue
        obj = build(s)
        er = obj.edges() if s['k'] in ('poly', 'box') else [obj.segments]
        flat = [(of_coord(a), of_coord(b)) for ring in er for a, b in ring]
        add(f'KEdges {shapelit(s)} {listlit([seglit(e) for e in flat])}', {'k': 'edges', 'a': s, 'out': flat})
    for _ in range(300 if quick else 3000):
        pool = [(rng.randint(0, 2), rng.randint(0, 1)) for _ in range(3)]
        b = [rng.choice(pool) for _ in range(rng.randint(0, 6))]
        if b and rng.random() < 0.6:
            i = rng.randrange(len(b) + 1)
            j = rng.randrange(i, len(b) + 1)
            a = b[i:j]
            if rng.random() < 0.2 and a:
                a = a[:-1] + [rng.choice(pool)]
        else:
            a = [rng.choice(pool) for _ in range(rng.randint(0, 4))]
        out = bool(is_sub_list([C(p) for p in a], [C(p) for p in b]))
        m = {'k': 'sub', 'a': a, 'b': b, 'out': out}
        add(f'KSub {ptslit(a)} {ptslit(b)} {blit(out)}', m)
        truth = any(b[i:i + len(a)] == a for i in range(len(b) + 1))
        if truth != out:
            m['property_clauses_violated'] = [('sublist', f'is_sub_list={out}, contiguous occurrence exists: {truth}')]

    ck.cov['evaluations'] = len(cases)
    ck.cov['distinct_nontrivial'] = len(nontrivial)
    for i in (0, 1, len(corpus) + 5, len(corpus) + n_sweep + 3, len(corpus) + n_sweep + 200, len(cases) - 1):
        ck.sample(cases[min(i, len(cases) - 1)][:400])

    bad, broken = ck.corr('pair', IMPORTS, 'check', cases)
    bad = list(bad)
    for i, m in enumerate(meta):
        if 'property_clauses_violated' in m and i not in bad:
            bad.append(i)
    # report first the inputs on which the property itself fails on the implementation,
    # one per (stream, clause) where possible, then plain model/implementation differences
    def rank(i):
        m = meta[i]
        return (0 if 'property_clauses_violated' in m else 1, i)
    ordered, seen_kinds = [], set()
    for i in sorted(set(bad), key=rank):
        m = meta[i]
        kind = (m['k'], tuple(c[0] for c in m.get('property_clauses_violated', [])))
        if kind in seen_kinds:
            continue
        seen_kinds.add(kind)
        ordered.append(i)
    ordered += [i for i in sorted(set(bad), key=rank) if i not in ordered]
    ck.cov['disagreeing_cases'] = len(set(bad))
    for i in ordered[:6]:
        m = meta[i]
        if m['k'] == 'sweep' and m.get('property_clauses_violated'):
            cl = m['property_clauses_violated'][0][0]
            sa, sb = shrink_sweep(m['ea'], m['eb'], cl)
            if (len(sa), len(sb)) != (len(m['ea']), len(m['eb'])):
                m = dict(m, shrunk_from={'ea': m['ea'], 'eb': m['eb']}, ea=sa, eb=sb, out=impl_sweep(sa, sb))
        ck.violation({'kind': 'property-fails-on-implementation' if 'property_clauses_violated' in m
                      else 'model-vs-implementation',
                      'case': m, 'gallina_case': cases[i],
                      'theorems': 'C02_* (Props/C02.v): the model value at this input is the one the theorems constrain',
                      'how_to_replay': 'bin/check C02 --replay <this file>'})

    # ---------------------------------------------------------------- closed-set reference (fixed library only)
    ref_stats = {'agree': 0, 'D5-point-on-ring-edge': 0, 'D5-point-on-segment': 0, 'D5-around-hole': 0,
                 'collinear-only (documented)': 0,
                 'point on polygon-hole boundary counted inside (C01 convention)': 0,
                 'box boundary inclusive (C01 convention)': 0, 'unexplained': 0}
    unexplained = []
    for na in names:
        for nb in names:
            a, b = shapes[na], shapes[nb]
            oi, oc = base[(na, nb)]
            if oi[0] != 'Ok' or oc[0] != 'Ok':
                continue
            ri, rc = ref_intersects(a, b), ref_contains(a, b)
            case = {'a': a, 'b': b}
            for what, got, want in (('intersects_shape', oi[1], ri), ('contains_shape', oc[1], rc)):
                if got == want:
                    ref_stats['agree'] += 1
                    continue
                cls = None
                if what == 'intersects_shape' and not got and sig_point_on_ring_edge(case):
                    cls = ('D5-point-on-ring-edge', 'point_on_ring_edge')
                elif what == 'intersects_shape' and not got and sig_point_on_segment_interior(case):
                    cls = ('D5-point-on-segment', 'point_on_segment_interior')
                elif what == 'contains_shape' and got and sig_polygon_around_hole(case):
                    cls = ('D5-around-hole', 'polygon_around_hole')
                elif what == 'intersects_shape' and not got and collinear_only(a, b):
                    ref_stats['collinear-only (documented)'] += 1
                    continue
                elif what == 'contains_shape' and got and cls_hole_boundary(case):
                    ref_stats['point on polygon-hole boundary counted inside (C01 convention)'] += 1
                    continue
                elif what == 'contains_shape' and got and cls_box_boundary(case) and \
                        (b['k'] == 'pt' or collinear_only(a, b)):
                    ref_stats['box boundary inclusive (C01 convention)'] += 1
                    continue
                f = finding(ck, cls[1]) if cls else None
                if f is not None:
                    ref_stats[cls[0]] += 1
                    ck.known(f)
                else:
                    ref_stats['unexplained'] += 1
                    unexplained.append({'names': [na, nb], 'a': a, 'b': b, 'what': what,
                                        'implementation': got, 'closed_set_reference': want})
    ck.cov['closed_set_reference_on_fixed_library'] = ref_stats

    # ---------------------------------------------------------------- known findings: deterministic replays
    for f in ck.findings:
        if f.get('status') != 'open' or 'replay' not in f:
            continue
        a, b = f['replay']['a'], f['replay']['b']
        oi, oc = observe(a, b)
        sig = f.get('signature')
        if sig in ('point_on_ring_edge', 'point_on_segment_interior'):
            if oi == ('Ok', False) and ref_intersects(a, b) and PREDICATES[sig]({'a': a, 'b': b}):
                ck.known(f)
        elif sig == 'polygon_around_hole':
            if oc == ('Ok', True) and not ref_contains(a, b) and PREDICATES[sig]({'a': a, 'b': b}):
                ck.known(f)
        elif sig == 'collinear_paths_end_to_end_order':
            b_rev = dict(b, vs=b['vs'][::-1])
            if oi[0] == 'Ok' and observe(a, b_rev)[0] != oi:
                ck.known(f)
    for u in unexplained[:3]:
        ck.violation({'kind': 'implementation-vs-closed-set-reference (fixed library)', 'case': u,
                      'note': 'not covered by a theorem (DESIGN C02 "Not proved"); the fixed library was triaged on '
                              'the pinned tree, so a new disagreement is a behaviour change'})

    ck.finish(level='proof',
              rule='sweep: seeded random edge lists on grids 2..9 with forced duplicates/retraced/horizontal/vertical/'
                   'chained edges + D2/D3 regression corpus; pair: all ordered pairs of the fixed 70-shape library '
                   '(dt combination cycled over the nine), rotations/reversals of the first ring in both argument '
                   'orders (sampled in quick, all in thorough); seeded random pairs of arbitrary valid shapes on grids 3..8 '
                   '(points, paths with retracing/closing, boxes, polygons from arbitrary vertex lists, 0-2 holes; 35% of the '
                   'second shapes derived from the first: sub-paths, own vertices, chords); non-trivial = sweep input where the two groups share a '
                   'latitude (event-order sensitive), or a pair with a True answer (distinct inputs counted)',
              assumptions=['integer coordinates |v| <= 30: the float code is exact on them (DESIGN section 3)',
                           'ensure_edge_bounds is the identity (no edge spans more than 180 degrees of longitude)',
                           'hit = "find_line_intersection is not None" is modelled by GeomM.fli (tied by C01 KFli and here by KSweep/KPair)',
                           'the clause "equals planar set truth" is not a theorem: compared with an exact closed-set '
                           'reference on the fixed library only'])


def model_eval(term):
    """value of a Gallina term under the model, by coqc (vm_compute)"""
    import subprocess
    import tempfile
    from lib import COQ
    with tempfile.TemporaryDirectory() as d:
        f = os.path.join(d, 'ReplayC02.v')
        open(f, 'w').write(IMPORTS + f'\nEval vm_compute in ({term}).\n')
        r = subprocess.run(['coqc', '-Q', os.path.join(COQ, 'theories'), 'GV', f], stdout=subprocess.PIPE,
                           stderr=subprocess.STDOUT, text=True, timeout=300)
        return ' '.join(r.stdout.split())


def sweep_clauses(ea, eb):
    """clauses of the property that do_edges_intersect violates on (ea, eb)"""
    out = impl_sweep(ea, eb)
    if out[0] != 'Ok':
        return ['no-exception']
    bad = []
    if out[1] != any(impl_hit(a, b) for a in ea for b in eb):
        bad.append('sweep=brute')
    if impl_sweep(eb, ea) != out:
        bad.append('symmetry')
    return bad


def shrink_sweep(ea, eb, clause):
    """greedy: drop edges while the same clause stays violated"""
    ea, eb = list(ea), list(eb)
    changed = True
    while changed:
        changed = False
        for which in (0, 1):
            lst = (ea, eb)[which]
            for i in range(len(lst)):
                cand = lst[:i] + lst[i + 1:]
                pair = (cand, eb) if which == 0 else (ea, cand)
                if clause in sweep_clauses(*pair):
                    ea, eb = pair
                    changed = True
                    break
            if changed:
                break
    return ea, eb


def replay(path):
    r = json.load(open(path))
    m = r.get('case') or {}
    if m.get('k') == 'sweep':
        ea = [tuple(map(tuple, e)) for e in m['ea']]
        eb = [tuple(map(tuple, e)) for e in m['eb']]
        print('do_edges_intersect now:', impl_sweep(ea, eb), ' mirrored:', impl_sweep(eb, ea),
              ' brute force:', any(impl_hit(a, b) for a in ea for b in eb))
        print('model (sweep, brute):', model_eval(
            f'sweep hit {listlit([seglit(e) for e in ea])} {listlit([seglit(e) for e in eb])}, '
            f'brute hit {listlit([seglit(e) for e in ea])} {listlit([seglit(e) for e in eb])}'))
    elif m.get('k') == 'pair':
        da = tuple(m['da']) if m.get('da') else None
        db = tuple(m['db']) if m.get('db') else None
        lit, oi, oc = pair_case(m['a'], m['b'], da, db)
        print('implementation now: intersects_shape', oi, 'contains_shape', oc)
        print('mirrored intersects_shape:', observe(m['b'], m['a'], db, da)[0])
        print('without dt:', observe(m['a'], m['b']))
        print('model (intersects_shape, contains_shape):', model_eval(
            f'intersects_shape {zlit(W)} {shapelit(m["a"], da)} {shapelit(m["b"], db)}, '
            f'contains_shape {zlit(W)} {shapelit(m["a"], da)} {shapelit(m["b"], db)}'))
        print('gallina case:', lit)
    elif 'a' in m and 'b' in m and isinstance(m['a'], dict):
        print('implementation now:', observe(m['a'], m['b']), ' closed-set reference:',
              (ref_intersects(m['a'], m['b']), ref_contains(m['a'], m['b'])))
    else:
        print(json.dumps(r, indent=1))


if __name__ == '__main__':
    if '--replay' in sys.argv:
        replay(sys.argv[sys.argv.index('--replay') + 1])
    else:
        main()
