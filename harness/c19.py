#!/usr/bin/env python3
"""C19 - coordinate text and grid formats round-trip within their resolution.  DESIGN.md 5/C19.

Tie (K): to_dms / from_dms / to_qdms / from_qdms / round_half_up / to_projection /
from_projection are run on generated coordinates; inputs and outputs are written as exact
literals and compared with the model FormatM inside Coq (vm_compute).  Floats produced by
`round(x, p)` are identified with the decimal k / 10**p after checking `value == k / 10**p`.
The single float product `abs(dd) * 3600` is handed to the model as the rational it evaluates
to, together with the proof obligation (checked in Coq) that it is within half an ulp of the
exact product (equal when the product is exact).  Python's `f'{h/100:.2f}'` and the second
rounding of to_qdms are validated against the model on their whole finite domains.
MGRS and pyproj round-trip tolerances are third-party numerics: no theorem.  pyproj: observed on a
FIXED corpus.  MGRS: judged directly (WGS84 chord against the property's 1.5 m) on a fixed lattice +
edge enumeration over both UPS caps, every UTM zone edge and the Norway/Svalbard exceptions, plus
seeded positions in the same strata (mgrs_families; the bound has an analytic margin).  D20 (to_projection wraps projected metres) is replayed as a known finding.
"""
import math
import os
import sys
from fractions import Fraction as F

sys.path.insert(0, os.path.dirname(os.path.abspath(__file__)))
from lib import Check, blit, qlit, zlit   # noqa: E402
from lib import REPO   # noqa: E402
import gen_format   # noqa: E402  (tools/: translator tie, proved in coq/geneq/FormatGenEq.v)

from geostructures.coordinates import Coordinate          # noqa: E402  (the implementation)
from geostructures.utils.functions import round_half_up   # noqa: E402

TOL = F(1, 2 ** 43)          # 4 ulp of a double in [128, 256)
ARCSEC = F(1, 3600)
DMS_BOUND = (F(1, 2 * 10 ** 5) + F(1, 10 ** 17)) * ARCSEC                       # proved: C19_dms_roundtrip
QDMS_BOUND = (F(1, 200) + F(1, 2 * 10 ** 5) + F(2, 10 ** 14)) * ARCSEC + F(1, 2 * 10 ** 6) + F(1, 10 ** 18)
FLOAT_SLACK = F(1, 10 ** 12)  # degrees; float evaluation of d + m/60 + s/3600


def slit(s):
    assert '"' not in s and '\\' not in s
    return '"' + s + '"'


def oq(v):
    return 'None' if v is None else f'(Some {qlit(F(v))})'


def dec_k(v, p):
    """integer k with v == k / 10**p as floats, else None"""
    k = round(v * 10 ** p)
    return k if k / 10 ** p == v else None


def rhu_guard(v, p):
    """True when the float addition inside round_half_up(v, p) does not change which decimal
    is chosen compared with the exact sum (decided in exact rationals, not from the output)"""
    fl = F(v + 10 ** -(p + 12))
    ex = F(v) + F(1, 10 ** (p + 12))
    return round(fl, p) == round(ex, p)


def ptol(x, y):
    """4 ulp at the magnitude of the projected pair (at least that of 180)"""
    return 4 * F(math.ulp(max(abs(x), abs(y), 180.0)))


def dist360(a, b):
    d = abs(F(a) - F(b))
    return min(d, abs(d - 360))


MGRS_BOUND_M = 1.5            # the property's figure.  A 1 m reference names the south-west corner of its cell, so the
#                               read-back is at most sqrt(2) GRID metres away = sqrt(2)/k ground metres with the point scale
#                               k >= 0.994 (UPS at the pole; UTM >= 0.9996): <= 1.4228 m.  Measured on the unchanged tree
#                               over 59 059 edge positions and 11 000 lattice positions: 1.4115 m (UPS), 1.4051 m (UTM).


def wgs84_chord_m(lon1, lat1, lon2, lat2):
    """straight-line distance (m) between two geodetic positions on the WGS84 ellipsoid (h = 0)"""
    a = 6378137.0
    f = 1 / 298.257223563
    e2 = f * (2 - f)

    def ecef(lon, lat):
        la, lo = math.radians(lat), math.radians(lon)
        n = a / math.sqrt(1 - e2 * math.sin(la) ** 2)
        return (n * math.cos(la) * math.cos(lo), n * math.cos(la) * math.sin(lo), n * (1 - e2) * math.sin(la))
    return math.dist(ecef(lon1, lat1), ecef(lon2, lat2))


def mgrs_families(ck):
    """MGRS round-trip positions, as (lon, lat, class, zm).

    Mechanism class covered: anything from_mgrs / to_mgrs do to a position IN ADDITION to the grid library's own
    conversion (offsets, re-centring, rounding, datum or axis mix-ups) whose size or direction depends on WHERE the
    position is: the two polar UPS grids (no zone number; grid north is the 0 / 180 meridian, so the grid axes are turned
    against true north/east by the longitude itself - 90 degrees at lon +-90, 180 degrees at the antimeridian), the 60
    UTM zones with their edges, the Norway (32V) and Svalbard (31X..37X) exceptions, the band limits 84N / 80S, the
    poles and the +-180 seam.  An error of this kind shows only for part of the sub-metre offsets inside a cell, so
    every stratum holds hundreds of positions with full-precision fractions.
      * 'lattice-*' and 'edge-*' are FIXED (a low-discrepancy lattice and an enumeration: same positions and same verdict
        for every VERIF_SEED; DESIGN 2.3 corpus policy for the clause no theorem decides; triaged on the unchanged tree:
        quiet, worst 1.4115 m);
      * 'seeded-*' adds positions from ck.rng in the same strata.  The bound has an analytic margin (sqrt(2)/0.994 =
        1.4228 m < 1.5 m for a reference that names the south-west corner of a 1 m cell), so these cannot make the
        unchanged tree flaky.
    """
    rng = ck.rng
    out = []
    g1, g2 = 0.6180339887498949, 0.7548776662466927     # golden / plastic ratios: a 2-d low-discrepancy lattice
    big = ck.tier != 'quick'

    def lattice(cls, n, lon_of, lat_of):
        for i in range(1, n + 1):
            out.append((lon_of((i * g1) % 1), lat_of((i * g2) % 1), cls, {}))

    def wrap(lo):
        return (lo + 180) % 360 - 180
    n = 6000 if big else 1200
    allon = lambda u: -180 + 360 * u                   # noqa: E731
    for cap, lat_of in (('north', lambda v: 84 + 6 * v), ('south', lambda v: -80 - 10 * v)):
        lattice(f'lattice-ups-{cap}', n, allon, lat_of)
        lattice(f'lattice-ups-{cap}-antimeridian', n // 2, lambda u: wrap(180 + 60 * (u - .5)), lat_of)       # grid turned ~180
        lattice(f'lattice-ups-{cap}-lon+90', n // 4, lambda u: 90 + 40 * (u - .5), lat_of)                    # grid turned ~90
        lattice(f'lattice-ups-{cap}-lon-90', n // 4, lambda u: -90 + 40 * (u - .5), lat_of)
        lattice(f'lattice-ups-{cap}-prime-meridian', n // 4, lambda u: 40 * (u - .5), lat_of)
        s = 1 if cap == 'north' else -1
        lattice(f'lattice-ups-{cap}-near-pole', n // 4, allon, lambda v: s * (90 - 0.2 * v * v))            # down to < 1 m from the pole
        lattice(f'lattice-ups-{cap}-band-limit', n // 4, allon, lambda v: (84 if s > 0 else -80) + s * 0.01 * v)
    lattice('lattice-utm', n, allon, lambda v: -80 + 164 * v)
    lattice('lattice-utm-norway-svalbard', n // 2, lambda u: -3 + 48 * u, lambda v: 56 + 28 * v)       # 31V/32V, 31X..37X
    # enumerated edges: band limits, poles, every zone edge, the exception zones' edges, +-90 / +-180, each approached
    # from both sides
    eps = [0.0, 1e-9, -1e-9, 1e-5, -1e-5, 0.37, -0.37]
    lons = list(range(-180, 181, 6)) + [3, 9, 21, 33, 42, 12, -90, 90, 45, -45, 135, -135]
    for la0 in (84, -80, 90, -90, 72, 56, 64, 0, 80, -8):
        for e1 in (eps if big else eps[:5]):
            la = la0 + e1
            if abs(la) > 90:
                continue
            for lo0 in lons:
                for e2 in (eps if big else (0.0, 1e-9, -1e-5, 0.37)):
                    lo = lo0 + e2
                    if -180 <= lo <= 180:
                        out.append((lo, la, 'edge-ups' if (la >= 84 or la < -80) else 'edge-utm', {}))
    # seeded positions in the same strata (a third of them carrying Z / M)
    m = 40000 if big else 2500
    for i in range(m):
        r = rng.random()
        if r < .3:
            lo, la = rng.uniform(-180, 180), rng.uniform(84, 90)
        elif r < .6:
            lo, la = rng.uniform(-180, 180), rng.uniform(-90, -80)
        elif r < .75:
            lo = wrap(180 + rng.uniform(-30, 30))
            la = rng.uniform(84, 90) if rng.random() < .5 else rng.uniform(-90, -80)
        elif r < .8:
            lo, la = rng.uniform(-180, 180), rng.choice([1, -1]) * (90 - 10 ** rng.uniform(-7, -1))
        else:
            lo, la = rng.uniform(-180, 180), rng.uniform(-80, 84)
        zm = {} if i % 3 else rng.choice([{'z': 12.5}, {'m': 3}, {'z': -40.0, 'm': 2.5}])
        out.append((lo, la, 'seeded-ups' if (la > 84 or la < -80) else 'seeded-utm', zm))
    return out



def gen_coords(ck):
    rng = ck.rng
    out = []

    def add(lo, la, cls):
        out.append((lo, la, cls))
    # every sign combination x characteristic magnitudes
    mags = [(0.0, 0.0), (0.154092, 51.539865), (10.0033333333, 20.0), (12.5, 45.25), (179.999999, 89.999999),
            (0.999999999, 59.99999999), (1e-9, 1e-9), (100.5, 0.5), (179.99999999999, 89.99999999999)]
    for lo, la in mags:
        for s1 in (1, -1):
            for s2 in (1, -1):
                add(s1 * lo, s2 * la, 'signs')
    add(-0.0, -0.0, 'signs')
    add(-180.0, 90.0, 'signs')
    add(-180.0, -90.0, 'signs')
    n = 500 if ck.tier == "quick" else 4000
    sg = lambda: rng.choice([1, -1])   # noqa: E731
    for _ in range(n):
        # whole seconds
        d, m, s = rng.randrange(0, 180), rng.randrange(0, 60), rng.randrange(0, 60)
        add(sg() * (d + m / 60 + s / 3600), sg() * ((d % 90) + m / 60 + s / 3600), 'whole-seconds')
    for _ in range(n):
        # hundredths with a trailing zero (the D19 class): SS.H0
        d, m = rng.randrange(0, 180), rng.randrange(0, 60)
        s = rng.randrange(0, 600) / 10
        add(sg() * (d + m / 60 + s / 3600), sg() * ((d % 90) + m / 60 + s / 3600), 'trailing-zero')
    for _ in range(n):
        # seconds that round up to 60 (at 5 or at 2 decimals)
        d, m = rng.randrange(0, 179), rng.randrange(0, 60)
        eps = rng.choice([1e-7, 4e-6, 5e-6, 6e-6, 1e-5, 4.9e-3, 5e-3, 5.1e-3, 1e-3])
        s = 60 - eps
        add(sg() * (d + m / 60 + s / 3600), sg() * ((d % 89) + m / 60 + s / 3600), 'rounds-to-60')
    for _ in range(2 * n):
        # at most 6 decimals
        add(round(rng.uniform(-180, 180), rng.choice([0, 1, 2, 4, 6])),
            round(rng.uniform(-90, 90), rng.choice([0, 1, 3, 5, 6])), 'six-decimals')
    for _ in range(n):
        add(rng.uniform(-180, 180), rng.uniform(-90, 90), 'full-precision')
    for _ in range(n):
        # dyadic values: the float product abs(dd)*3600 is exact
        j = rng.choice([0, 1, 2, 4, 8, 16, 24])
        add(rng.randrange(-180 * 2 ** j, 180 * 2 ** j) / 2 ** j, rng.randrange(-90 * 2 ** j, 90 * 2 ** j + 1) / 2 ** j, 'dyadic')
    for _ in range(n // 2):
        # hundredths of a second next to a rounding tie at 2 decimals (x.xx5) and at 5 decimals
        d, m = rng.randrange(0, 180), rng.randrange(0, 60)
        s = rng.randrange(0, 6000) / 100 + rng.choice([0.005, 0.004999, 0.0049996, 0.005001, 0.000005, 0.0000049])
        add(sg() * (d + m / 60 + s / 3600), sg() * ((d % 90) + m / 60 + s / 3600), 'near-tie')
    return out


def main():
    ck = Check('C19')
    ck.build_theories(['theories/Props/C19.vo', 'theories/Corr/FormatK.vo'])
    rep = gen_format.main(REPO, os.path.join(ck.rundir, 'FormatGen.v')); ck.gen('FormatGen.v', rep, 'FormatGenEq.v')   # regenerated from the source, proved equal to the model
    ck.props('Props/C19.v')
    rng = ck.rng
    IMPORTS = ('From Coq Require Import QArith String.\nFrom GV Require Import Prelude CoordM FormatM FormatK.\n'
               'Open Scope string_scope.\nOpen Scope Q_scope.')

    # ---------------------------------------------------------------- finite domains, exhaustively
    tab, tabmeta = [], []
    for h in range(0, 6001):
        tab.append(f'KFmt {h} {slit(f"{h / 100:.2f}")}')
        tabmeta.append({'k': 'fmt', 'h': h})
    k5s = set()
    for j in range(0, 6000):
        k5s.update([1000 * j + 500, 1000 * j + 499, 1000 * j + 501])
    k5s.update([0, 1, 6000000, 5999999, 5999500, 5999499])
    if ck.tier == 'thorough':
        k5s.update(rng.randrange(0, 6000001) for _ in range(60000))
    else:
        k5s.update(rng.randrange(0, 6000001) for _ in range(2000))
    for k5 in sorted(k5s):
        v = round_half_up(k5 / 1e5, 2)
        h = dec_k(v, 2)
        tab.append(f'KHund {k5} {zlit(h if h is not None else -1)}')
        tabmeta.append({'k': 'hund', 'k5': k5, 'out': v})
    # the real to_qdms across every hundredth 0..6000 of a second (latitude axis; longitude on a stride)
    for h in range(0, 6001):
        dd = (h / 100) / 3600 + (h % 60) / 60 + (h % 90 if h % 7 else 0)
        for is_lon in ([False, True] if h % 10 == 0 else [False]):
            c = Coordinate(dd, 0.0) if is_lon else Coordinate(0.0, dd)
            t = c.to_dms()[0 if is_lon else 1]
            s = c.to_qdms()[0 if is_lon else 1]
            k5 = dec_k(t[2], 5)
            tab.append(f'KQdmsAxis {blit(is_lon)} {t[0]} {t[1]} {zlit(k5 if k5 is not None else -1)} '
                       f'{blit(t[3] in "EN")} {slit(s)}')
            tabmeta.append({'k': 'qdms-axis', 'coord': [c.longitude, c.latitude], 'dms': list(t), 'qdms': s})
    # round_half_up itself (utils/functions.py) on guard-exact floats, incl. dyadic ties
    rh = []
    for _ in range(1500 if ck.tier == 'quick' else 40000):
        p = rng.choice([0, 2, 5, 6])
        kind = rng.random()
        if kind < .3:
            v = rng.randrange(-2 ** 20, 2 ** 20) / 2 ** rng.choice([1, 2, 3, 6, 7, 10])     # exact dyadic ties
        elif kind < .6:
            v = round(rng.uniform(-200, 200), p + 1)
        else:
            v = rng.uniform(-7e6, 7e6) if rng.random() < .3 else rng.uniform(-60, 60)
        if not rhu_guard(v, p):
            ck.count('rhu:guard-skipped')
            continue
        r = round_half_up(v, p)
        k = dec_k(r, p)
        if k is None:
            continue
        tab.append(f'KRhu {qlit(F(v))} {p} {zlit(k)}')
        tabmeta.append({'k': 'rhu', 'v': repr(v), 'p': p, 'out': repr(r)})
        ck.count('rhu')

    # ---------------------------------------------------------------- coordinates
    cases, meta = [], []
    nontrivial = set()
    skipped = 0

    def add(lit, m):
        cases.append(lit)
        meta.append(m)

    def flag(m, clause, detail):
        m.setdefault('property_clauses_violated', []).append([clause, detail])

    coords = gen_coords(ck)
    for idx, (lo, la, cls) in enumerate(coords):
        c = Coordinate(lo, la)
        lon, lat = c.longitude, c.latitude
        dms = c.to_dms()
        rev = bool(idx % 2)
        q = c.to_qdms(reverse=rev)
        q = (q[1], q[0]) if rev else q
        base = {'coord': [repr(lon), repr(lat)], 'class': cls, 'dms': [list(dms[0]), list(dms[1])], 'qdms': list(q)}
        exact_both = True
        ok_axes = True
        for ax, (dd, t, s) in enumerate(((lon, dms[0], q[0]), (lat, dms[1], q[1]))):
            x = abs(dd) * 3600
            xex = F(abs(dd)) * 3600
            xtol = F(0) if F(x) == xex else F(math.ulp(x)) / 2
            exact_both &= (xtol == 0)
            sec = math.fmod(x, 60)
            k5 = dec_k(t[2], 5)
            m = dict(base, k='dms', axis='lon' if ax == 0 else 'lat')
            # the property, directly
            if k5 is None or not (0 <= t[1] < 60 and 0 <= t[2] <= 60 and t[0] == int(abs(dd) * 3600 // 3600)):
                flag(m, 'dms-ranges', f'{t}')
            if (t[3] in 'EN') != (dd >= 0) or t[3] not in ('EW' if ax == 0 else 'NS'):
                flag(m, 'hemisphere', f'{t[3]} for {dd}')
            if len(s) != (10 if ax == 0 else 9):
                flag(m, 'qdms-length', f'{s!r} has {len(s)} characters')
            if k5 is None:
                add(f'KDms {qlit(F(dd))} {qlit(F(x))} {qlit(xtol)} {t[0]} {t[1]} (-1) {blit(t[3] in "EN")}', m)
                ok_axes = False
                continue
            if rhu_guard(sec, 5):
                add(f'KDms {qlit(F(dd))} {qlit(F(x))} {qlit(xtol)} {t[0]} {t[1]} {k5} {blit(t[3] in "EN")}', m)
                ck.count(f'dms:{cls}:{"exact-product" if xtol == 0 else "rounded-product"}')
            else:
                skipped += 1
                ck.count('dms:guard-skipped')
            add(f'KQdmsAxis {blit(ax == 0)} {t[0]} {t[1]} {k5} {blit(t[3] in "EN")} {slit(s)}',
                dict(base, k='qdms-axis', axis='lon' if ax == 0 else 'lat'))
            if k5 % 1000 == 0 and (k5 // 1000) % 10 == 0:
                nontrivial.add(('trailing-zero', dd))
            if k5 == 6000000 or s[-4:] == '6000':
                nontrivial.add(('sixty', dd))
            if k5 % 100000 == 0:
                nontrivial.add(('whole', dd))
        if not ok_axes:
            continue
        if exact_both and rhu_guard(math.fmod(abs(lon) * 3600, 60), 5) and rhu_guard(math.fmod(abs(lat) * 3600, 60), 5):
            qq = c.to_qdms(reverse=rev)
            add(f'KQdms {qlit(F(lon))} {qlit(F(lat))} {blit(rev)} {slit(qq[0])} {slit(qq[1])}', dict(base, k='qdms', reverse=rev))
            ck.count('qdms:whole-exact')
        # from_dms(to_dms(c))
        b = Coordinate.from_dms(*dms)
        m = dict(base, k='from_dms', back=[repr(b.longitude), repr(b.latitude)])
        e = max(dist360(b.longitude, lon), abs(F(b.latitude) - F(lat)))
        if e > DMS_BOUND + FLOAT_SLACK:
            flag(m, 'dms-roundtrip', f'from_dms(to_dms(c)) is {float(e * 3600):.3g} arc-seconds away')
        add('KFromDms ' + ' '.join(f'{t[0]} {t[1]} {qlit(F(t[2]))} {blit(t[3] in "EN")}' for t in dms) +
            f' {qlit(TOL)} {qlit(F(b.longitude))} {qlit(F(b.latitude))}', m)
        # from_qdms(to_qdms(c))
        b = Coordinate.from_qdms(*q)
        m = dict(base, k='from_qdms', back=[repr(b.longitude), repr(b.latitude)])
        e = max(dist360(b.longitude, lon), abs(F(b.latitude) - F(lat)))
        if e > QDMS_BOUND + FLOAT_SLACK:
            flag(m, 'qdms-roundtrip', f'from_qdms(to_qdms(c)) is {float(e * 3600):.3g} arc-seconds away')
        elif e > F(1, 200) * ARCSEC:
            # finding D37's signature: beyond the literal 0.005" but inside the proved bound (the excess is
            # to_qdms's double rounding of the seconds plus from_qdms's own rounding to 1e-6 degrees)
            ck.count('qdms:beyond-0.005-arcsec-within-proved-bound (D37)')
        if cls == 'six-decimals' and e > F(1, 10 ** 6) + FLOAT_SLACK:
            flag(m, 'qdms-roundtrip-6dec', f'{float(e):.3g} degrees for a 6-decimal input')
        add(f'KFromQdms {slit(q[0])} {slit(q[1])} {qlit(TOL)} {qlit(F(b.longitude))} {qlit(F(b.latitude))}', m)
        ck.count('coord:' + cls)

    # ---- D37: deterministic replay of the known finding (literal 0.005" exceeded through from_qdms's rounding)
    for f in ck.findings:
        if f.get('status') == 'open' and f.get('signature') == 'qdms_excess_within_read_rounding':
            c0 = Coordinate(f['replay']['lon'], f['replay']['lat'])
            b0 = Coordinate.from_qdms(*c0.to_qdms())
            e0 = max(dist360(b0.longitude, c0.longitude), abs(F(b0.latitude) - F(c0.latitude)))
            if F(1, 200) * ARCSEC < e0 <= QDMS_BOUND + FLOAT_SLACK:
                ck.known(f)

    # from_dms on hand-made tuples (ints and floats, any hemisphere, values the constructor must wrap)
    hand = [((200, 0, 0, 'E'), (95, 30, 0, 'N')), ((0, 0, 0.0, 'W'), (0, 0, 0.0, 'S')), ((179, 59, 60.0, 'E'), (89, 59, 60.0, 'S')),
            ((12, 75, 61.5, 'W'), (45, 0, 3600, 'N')), ((180, 0, 0, 'W'), (90, 0, 0, 'N')), ((10.5, 30.25, 15.125, 'E'), (1, 2, 3, 'X'))]
    for _ in range(150 if ck.tier == 'quick' else 3000):
        hand.append(((rng.randrange(0, 400), rng.randrange(0, 90), rng.randrange(0, 9000) / 128, rng.choice('EW')),
                     (rng.randrange(0, 200), rng.randrange(0, 90), rng.randrange(0, 9000) / 128, rng.choice('NS'))))
    for tl, ta in hand:
        b = Coordinate.from_dms(tl, ta)
        add('KFromDms ' + ' '.join(f'{zlit(t[0]) if isinstance(t[0], int) else "0"} {zlit(t[1]) if isinstance(t[1], int) else "0"} '
                                   f'{qlit(F(t[2]) + (0 if isinstance(t[0], int) else F(t[0]) * 3600) + (0 if isinstance(t[1], int) else F(t[1]) * 60))} '
                                   f'{blit(t[3] not in "SW")}' for t in (tl, ta)) +
            f' {qlit(TOL)} {qlit(F(b.longitude))} {qlit(F(b.latitude))}',
            {'k': 'from_dms-hand', 'lon': list(tl), 'lat': list(ta), 'back': [repr(b.longitude), repr(b.latitude)]})
        ck.count('from_dms:hand')
    # from_qdms on hand-made digit strings (minutes/seconds beyond 59 included: the reader does not validate)
    handq = [('E180000000', 'N90000000'), ('W180000000', 'S90000000'), ('E179596000', 'N89596000'), ('X010203045', 'Y0102030'[:8] + '4'),
             ('W000000000', 'S00000000'), ('E999999999', 'N99999999')]
    for _ in range(150 if ck.tier == 'quick' else 3000):
        handq.append((rng.choice('EW') + ''.join(rng.choice('0123456789') for _ in range(9)),
                      rng.choice('NS') + ''.join(rng.choice('0123456789') for _ in range(8))))
    for sl, sa in handq:
        b = Coordinate.from_qdms(sl, sa)
        m = {'k': 'from_qdms-hand', 'qdms': [sl, sa], 'back': [repr(b.longitude), repr(b.latitude)]}
        add(f'KFromQdms {slit(sl)} {slit(sa)} {qlit(TOL)} {qlit(F(b.longitude))} {qlit(F(b.latitude))}', m)
        ck.count('from_qdms:hand')

    # ---------------------------------------------------------------- third-party formats: FIXED corpus only
    fixed_pts = [(-0.154092, 51.539865), (0.0, 0.0), (151.2093, -33.8688), (-74.006, 40.7128), (139.6917, 35.6895),
                 (-179.5, 10.25), (179.5, -10.25), (18.4241, -33.9249), (-68.3, -54.8), (25.0, 71.17), (-45.0, 83.5), (100.0, -85.0)]
    crss = ['EPSG:3857', 'EPSG:32630', 'EPSG:3395', 'EPSG:4269', 'EPSG:4258']
    try:
        from pyproj import Transformer
        have_pyproj = True
    except Exception:   # noqa
        have_pyproj = False
        ck.notes.append('pyproj not importable: projection corpus skipped')
    d20 = next((f for f in ck.findings if f['id'] == 'D20' and f.get('status') == 'open'), None)
    d20_builtin = {'id': 'D20', 'what': 'Coordinate.to_projection passes False as z instead of _bounded: projected metres '
                                        'are wrapped into degree ranges'}
    d20_reproduces = True
    if have_pyproj:
        # deterministic replay of D20 (fixed coordinate and CRS).  The model of to_projection is faithful
        # to the defect (z = False, wrapping constructor); if the defect is repaired in /repo the model no
        # longer describes to_projection, so its cases are not compared and "as-is" is judged directly.
        rp = (d20 or {}).get('replay') or {'lon': -0.154092, 'lat': 51.539865, 'crs': 'EPSG:3857'}
        c0 = Coordinate(rp['lon'], rp['lat'])
        x0, y0 = Transformer.from_crs('EPSG:4326', rp['crs']).transform(c0.latitude, c0.longitude)
        p0 = c0.to_projection(rp['crs'])
        d20_reproduces = not (abs(p0.longitude - y0) < 1e-5 and abs(p0.latitude - x0) < 1e-5)
        if d20_reproduces:
            ck.known(d20 or d20_builtin)
        else:
            ck.notes.append('D20 does not reproduce on its replay: to_projection is no longer compared with the '
                            'defect-faithful model; as-is is checked directly on the fixed corpus')
        for crs in crss:
            fwd = Transformer.from_crs('EPSG:4326', crs)
            inv = Transformer.from_crs(crs, 'EPSG:4326')
            for lo, la in fixed_pts:
                if abs(la) > 84 and crs != 'EPSG:4269' and crs != 'EPSG:4258':
                    continue
                c = Coordinate(lo, la)
                x, y = fwd.transform(c.latitude, c.longitude)
                if not (math.isfinite(x) and math.isfinite(y)):
                    continue
                p = c.to_projection(crs)
                m = {'k': 'to_projection', 'coord': [lo, la], 'crs': crs, 'raw': [x, y], 'out': [p.longitude, p.latitude, repr(p.z)]}
                if d20_reproduces and rhu_guard(x, 6) and rhu_guard(y, 6):
                    zq = None if p.z is None else F(p.z)
                    add(f'KToProj {qlit(F(c.longitude))} {qlit(F(c.latitude))} {qlit(F(x))} {qlit(F(y))} {qlit(ptol(x, y))} '
                        f'{qlit(F(p.longitude))} {qlit(F(p.latitude))} {oq(zq)}', m)
                    ck.count('to_projection')
                # "returned as-is": D20 (known finding) whenever the projected pair is outside the degree ranges
                as_is = (abs(p.longitude - y) < 1e-5 and abs(p.latitude - x) < 1e-5)
                wrapped_sig = not (-180 <= round_half_up(y, 6) < 180 and -90 <= round_half_up(x, 6) <= 90)
                if not as_is:
                    if wrapped_sig and d20_reproduces:
                        ck.known(d20 or d20_builtin)
                    else:
                        flag(m, 'projection-as-is', f'to_projection returned {(p.longitude, p.latitude)} for raw {(y, x)}')
                        add('KRhu 0 0 0', m)   # trivial case that carries the flagged observation into the report
                # back from the raw projected pair (the API cannot feed its own wrapped output back): within 1 m
                bk = Coordinate.from_projection(y, x, crs)
                xi, yi = inv.transform(x, y)
                mb = {'k': 'from_projection', 'crs': crs, 'raw': [x, y], 'out': [bk.longitude, bk.latitude]}
                if rhu_guard(xi, 6) and rhu_guard(yi, 6):
                    add(f'KFromProj {qlit(F(y))} {qlit(F(x))} {qlit(F(xi))} {qlit(F(yi))} {qlit(ptol(xi, yi))} '
                        f'{qlit(F(bk.longitude))} {qlit(F(bk.latitude))} None', mb)
                    ck.count('from_projection')
                dm = max(abs(bk.latitude - c.latitude), min(abs(bk.longitude - c.longitude), 360 - abs(bk.longitude - c.longitude))
                         * math.cos(math.radians(c.latitude))) * 111320
                if dm > 1.0:
                    flag(mb, 'projection-roundtrip', f'{dm:.3f} m after {crs} and back')
                    add('KRhu 0 0 0', mb)
    # MGRS: fixed corpus, UTM and UPS latitudes
    try:
        import mgrs  # noqa
        zm_variants = [{}, {'z': 12.5}, {'m': 3}, {'z': 10.0, 'm': 2}, {'z': 10.0, 'm': 4.0}, {'z': 5, 'm': 7}]
        mgrs_pts = fixed_pts + [(10.0, 86.0), (-120.0, -88.0), (6.0, 60.0), (9.0, 72.0), (33.0, 78.0)]
        corpus = [(lo, la, 'fixed', {}) for lo, la in mgrs_pts]
        # second pass: the same positions carrying Z / M values (which must not reach the grid conversion)
        corpus += [(lo, la, 'fixed-zm', zm_variants[1 + (len(mgrs_pts) + i) % (len(zm_variants) - 1)])
                   for i, (lo, la) in enumerate(mgrs_pts)]
        corpus += mgrs_families(ck)
        n_flagged, worst = 0, {}
        for lo, la, cls, zm in corpus:
            c = Coordinate(lo, la, **zm)
            try:
                s = c.to_mgrs()
                b = Coordinate.from_mgrs(s)
            except Exception as ex:   # noqa  a reference the writer emits must be readable
                m = {'k': 'mgrs', 'class': cls, 'coord': [repr(lo), repr(la)], 'zm': zm, 'raised': repr(ex)}
                flag(m, 'mgrs-roundtrip', f'to_mgrs/from_mgrs raised {ex!r}')
                add('KRhu 0 0 0', m)
                continue
            # independent oracle of the clause: straight-line (chord) distance between the two positions on the WGS84
            # ellipsoid, from the closed-form geodetic -> ECEF map (no projection, no library, valid at the poles and
            # across +-180); at 2 m the chord and the geodesic agree to 1e-13 m
            dm = wgs84_chord_m(c.longitude, c.latitude, b.longitude, b.latitude)
            ck.count('mgrs:' + cls)
            zone = 'UPS' if not s[:1].isdigit() else 'UTM'
            worst[zone] = max(worst.get(zone, 0.0), dm)
            if zone == 'UPS' and abs(c.longitude) > 100:
                nontrivial.add(('mgrs-ups-rotated-grid', s))
            if dm > MGRS_BOUND_M or (b.z, b.m) != (None, None):
                n_flagged += 1
                if n_flagged <= 8:      # the report shows five; the rest is counted
                    m = {'k': 'mgrs', 'class': cls, 'coord': [repr(lo), repr(la)], 'zm': zm, 'mgrs': s,
                         'back': [repr(b.longitude), repr(b.latitude)], 'metres_apart_wgs84': dm, 'bound_m': MGRS_BOUND_M}
                    flag(m, 'mgrs-roundtrip', f'from_mgrs(to_mgrs(c)) is {dm:.3f} m from c (bound {MGRS_BOUND_M} m)'
                         if dm > MGRS_BOUND_M else f'Z/M reached the grid reference: {(b.z, b.m)}')
                    add('KRhu 0 0 0', m)
                ck.count('mgrs:beyond-bound')
        ck.cov['mgrs_worst_metres'] = {k: round(v, 4) for k, v in sorted(worst.items())}
    except ImportError:
        ck.notes.append('mgrs not importable: MGRS corpus skipped')

    ck.cov['evaluations'] = len(cases) + len(tab)
    ck.cov['distinct_nontrivial'] = len(nontrivial)
    ck.cov['rounding_guard_skipped'] = skipped
    ck.cov['exhaustive_parts'] = 'f"{h/100:.2f}" for h=0..6000; to_qdms across every hundredth 0..6000; every 2-decimal tie of the 5-decimal seconds'
    for i in (0, 40, 2000, len(cases) - 1):
        ck.sample(cases[min(i, len(cases) - 1)][:300])

    bad_t, _ = ck.corr('table', IMPORTS, 'check', tab, chunk=3000)
    bad, _ = ck.corr('format', IMPORTS, 'check', cases)
    rep = [(tab[i], tabmeta[i]) for i in bad_t]
    bad = list(bad)
    for i, m in enumerate(meta):
        if 'property_clauses_violated' in m and i not in bad:
            bad.append(i)
    order = sorted(set(bad), key=lambda i: (0 if 'property_clauses_violated' in meta[i] else 1, i))
    rep = [(cases[i], meta[i]) for i in order] + rep
    for lit, m in rep[:5]:
        ck.violation({'kind': 'property-fails-on-implementation' if 'property_clauses_violated' in m else 'model-vs-implementation',
                      'case': m, 'gallina_case': lit,
                      'theorems': 'C19_* (Props/C19.v): the model value at this input is the one the theorems bound',
                      'how_to_replay': 'bin/check C19 --replay <this file>'})

    ck.finish(rule='every sign combination of characteristic magnitudes; seeded coordinates whose seconds are whole, have a '
                   'trailing zero in the hundredths, round up to 60 (at 5 or 2 decimals), sit next to a rounding tie, have at '
                   'most 6 decimals, are dyadic (exact float product) or full precision; all of to_dms, to_qdms(reverse), '
                   'from_dms, from_qdms on each; hand-made DMS tuples / digit strings; exhaustive tables (6001 format values, '
                   'to_qdms across every hundredth, every tie of the second rounding); round_half_up on guard-exact floats. '
                   'MGRS round trips over both UPS caps (all longitudes, +-180, +-90, poles, band limits), UTM zone edges and the '
                   'Norway/Svalbard exceptions. '
                   'non-trivial = distinct axis values whose seconds are whole / have a trailing-zero hundredth / reach 60, and '
                   'distinct UPS references at |lon| > 100 (grid turned against true north by more than 100 degrees)',
              assumptions=['a float produced by round(x, p) is the double nearest to the decimal k/10**p (checked: value == k/10**p)',
                           'the float product abs(dd)*3600 is within half an ulp of the exact product (checked in Coq per case); '
                           'fmod/divmod of non-negative doubles are exact',
                           'cases where the float addition inside round_half_up could change the chosen decimal (decided in '
                           'exact rationals from the input) are counted and skipped, not compared',
                           'MGRS (1.5 m) and pyproj (1 m) round trips: third-party numerics, no theorem; pyproj on a fixed corpus only; '
                           'MGRS judged by the WGS84 chord on a fixed lattice/edge enumeration of both UPS caps, the UTM zone edges and '
                           'the Norway/Svalbard exceptions plus seeded positions in the same strata (analytic margin: a 1 m reference '
                           'naming the south-west cell corner is at most sqrt(2)/0.994 = 1.4228 m away)',
                           'from_qdms is modelled on digit strings of the exact width only'])


def replay(path):
    import json
    r = json.load(open(path))
    m = r.get('case') or {}
    print(json.dumps(m, indent=1))
    if 'coord' in m:
        c = Coordinate(float(m['coord'][0]), float(m['coord'][1]))
        print('implementation now: to_dms', c.to_dms(), 'to_qdms', c.to_qdms())
        print('  from_dms(to_dms):', Coordinate.from_dms(*c.to_dms()).to_float(),
              ' from_qdms(to_qdms):', Coordinate.from_qdms(*c.to_qdms()).to_float())
        if m.get('k') == 'mgrs':
            c = Coordinate(float(m['coord'][0]), float(m['coord'][1]), **(m.get('zm') or {}))
            b = Coordinate.from_mgrs(c.to_mgrs())
            print('  to_mgrs:', c.to_mgrs(), ' from_mgrs(to_mgrs):', (b.longitude, b.latitude), ' WGS84 chord:',
                  wgs84_chord_m(c.longitude, c.latitude, b.longitude, b.latitude), 'm (bound', MGRS_BOUND_M, 'm)')
        if 'crs' in m:
            p = c.to_projection(m['crs'])
            print('  to_projection:', (p.longitude, p.latitude, p.z))
    elif m.get('k') == 'from_qdms-hand':
        print('implementation now:', Coordinate.from_qdms(*m['qdms']).to_float())
    elif m.get('k') == 'from_dms-hand':
        print('implementation now:', Coordinate.from_dms(tuple(m['lon']), tuple(m['lat'])).to_float())
    print('gallina case:', r.get('gallina_case'))


if __name__ == '__main__':
    if '--replay' in sys.argv:
        replay(sys.argv[sys.argv.index('--replay') + 1])
    else:
        main()
