#!/usr/bin/env python3
"""C06 - TimeInterval is the set [start,end) or {start}.  See DESIGN.md section 5 / C06."""
import contextlib
import itertools
import os
import sys
import time
from datetime import datetime, timedelta, timezone
from fractions import Fraction

sys.path.insert(0, os.path.dirname(os.path.abspath(__file__)))
from lib import Check, REPO, guarded, reslit, zlit, blit   # noqa: E402
import gen_time                                            # noqa: E402  (tools/)

from geostructures.time import TimeInterval               # noqa: E402  (the implementation)

EPOCH = datetime(2020, 1, 1, tzinfo=timezone.utc)
US = timedelta(microseconds=1)


def to_dt(z, style):
    """style: 'utc' | 'naive' | int minutes of offset"""
    d = EPOCH + timedelta(microseconds=z)
    if style == 'utc':
        return d
    if style == 'naive':
        return d.replace(tzinfo=None)
    return d.astimezone(timezone(timedelta(minutes=style)))


def of_dt(d):
    if d.tzinfo is None:
        d = d.replace(tzinfo=timezone.utc)
    return (d - EPOCH) // US


def ivl(p):
    return f'({zlit(p[0])}, {zlit(p[1])})'


# ---- process time zones.  MECHANISM CLASS: reading a timezone-naive datetime through the PROCESS-LOCAL zone
# (astimezone()/timestamp() on a naive value, fromtimestamp() without tz, mktime/localtime) instead of stamping it UTC:
# invisible while the process zone is UTC, wrong elsewhere.  The naive part of the corpus is repeated under zones set
# in-process (POSIX TZ strings need no tz database; 'UTC-9' is nine hours EAST of Greenwich).
ZONES = ['EST5EDT', 'UTC-9', '<+0330>-3:30', 'NZST-12NZDT,M9.5.0,M4.1.0/3', '<-11>11', 'CET-1CEST,M3.5.0,M10.5.0/3', '<+0545>-5:45']


@contextlib.contextmanager
def process_zone(tz):
    os.environ['TZ'] = tz
    time.tzset()
    try:
        yield
    finally:
        os.environ['TZ'] = 'UTC'
        time.tzset()


def txt(d, sep='T'):
    """timezone-less text of a naive datetime in a format TimeInterval.from_str recognises by default"""
    return d.strftime(f'%Y-%m-%d{sep}%H:%M:%S.%f')


# ---- the whole range datetime supports.  MECHANISM CLASS: time arithmetic or comparison routed through floating-point
# seconds (timestamp(), total_seconds(), fromtimestamp) or any other representation that cannot resolve one microsecond
# everywhere in years 1..9999: a double resolves microseconds only within 2**33 s (~272 years) of 1970 and the spacing
# doubles at every further power of two.  The model is over Z: far bounds are just bigger integers.
DT_MIN, DT_MAX = datetime.min.replace(tzinfo=timezone.utc), datetime.max.replace(tzinfo=timezone.utc)


def far_anchors(rng):
    """[(label, microseconds relative to EPOCH, offset styles allowed)]: a seeded instant in each of the years 1066, 1697,
    1970, 2242, 2400, 3021, 9000; 1970 +- 2**k seconds (k = 31..37, where in range); the two ends of datetime's range"""
    out = []
    for y in (1066, 1697, 1970, 2242, 2400, 3021, 9000):
        d = datetime(y, rng.randint(1, 12), rng.randint(1, 28), rng.randrange(24), rng.randrange(60), rng.randrange(60),
                     rng.choice([0, 1, 250001, 999998, rng.randrange(10**6)]), tzinfo=timezone.utc)
        out.append((f'year {y}', of_dt(d), True))
    p0 = of_dt(datetime(1970, 1, 1, tzinfo=timezone.utc))
    lo, hi = of_dt(DT_MIN) + 2 * 86_400_000_000, of_dt(DT_MAX) - 2 * 86_400_000_000
    for k in range(31, 38):
        for sign in (1, -1):
            z = p0 + sign * 2**k * 10**6
            if lo < z < hi:
                out.append((f'1970{"+" if sign > 0 else "-"}2**{k}s', z, True))
    out.append(('datetime.min', of_dt(DT_MIN) + 2, False))
    out.append(('datetime.max', of_dt(DT_MAX) - 3, False))
    return out


def iv_out(i):
    return (of_dt(i.start), of_dt(i.end))


def build(p, styles):
    return TimeInterval(to_dt(p[0], styles[0]), to_dt(p[1], styles[1]))


def rel_case(a, b, sa, sb, A=None, B=None):
    """A / B may be supplied: intervals the LIBRARY returned (union, intersection, copy) instead of constructor-built ones"""
    A = build(a, sa) if A is None else A
    B = build(b, sb) if B is None else B
    obs = {
        'sub': A.issubset(B), 'sup': A.issuperset(B), 'dis': A.isdisjoint(B), 'int': A.intersects(B),
        'in': B in A, 'eq': A == B, 'hasheq': hash(A) == hash(B),
        'inter': guarded(lambda: (lambda r: None if r is None else iv_out(r))(A.intersection(B))),
        'union': guarded(lambda: iv_out(A.union(B))),
    }
    lit = (f'KRel {ivl(a)} {ivl(b)} {blit(obs["sub"])} {blit(obs["sup"])} {blit(obs["dis"])} {blit(obs["int"])} '
           f'{blit(obs["in"])} {blit(obs["eq"])} {blit(obs["hasheq"])} '
           f'{reslit(obs["inter"], lambda r: "None" if r is None else "(Some " + ivl(r) + ")")} '
           f'{reslit(obs["union"], ivl)}')
    return lit, obs


# ---- the property itself, evaluated on the implementation's answers (set semantics over a
# ---- dense timeline: all endpoints, the midpoints between them, and one point outside each end)
def mem(t, p):
    return t == p[0] if p[0] == p[1] else p[0] <= t < p[1]


def probe_points(*ivs):
    pts = sorted({Fraction(x) for p in ivs for x in p})
    out = [pts[0] - 1] + pts + [pts[-1] + 1]
    out += [(x + y) / 2 for x, y in zip(pts, pts[1:])]
    return out


def union_instant_at_end(case):
    """signature of D8: the union is a proper interval and an operand is an instant at its end"""
    a, b = case['a'], case['b']
    e = max(a[1], b[1])
    s = min(a[0], b[0])
    return s < e and any(p[0] == p[1] == e for p in (a, b))


PREDICATES = {'union_instant_at_end': union_instant_at_end}


def oracle(a, b, obs):
    """returns list of (clause, detail) the implementation's answers violate"""
    bad = []
    pts = probe_points(a, b)
    ina = [t for t in pts if mem(t, a)]
    inb = [t for t in pts if mem(t, b)]
    sub = all(mem(t, b) for t in ina)
    dis = not any(mem(t, b) for t in ina)
    if obs['sub'] != sub:
        bad.append(('issubset', f'issubset={obs["sub"]} but set inclusion is {sub}'))
    if obs['sup'] != all(mem(t, a) for t in inb):
        bad.append(('issuperset', 'issuperset disagrees with set inclusion'))
    if obs['in'] != all(mem(t, a) for t in inb):
        bad.append(('contains', '`b in a` disagrees with set inclusion'))
    if obs['dis'] != dis:
        bad.append(('isdisjoint', f'isdisjoint={obs["dis"]} but the sets {"do not " if dis else ""}share an instant'))
    if obs['int'] != (not dis):
        bad.append(('intersects', 'intersects is not the negation of set disjointness'))
    if obs['eq'] != (tuple(a) == tuple(b)):
        bad.append(('eq', '== disagrees with equality of (start,end)'))
    if tuple(a) == tuple(b) and not obs['hasheq']:
        bad.append(('hash', 'equal intervals hash differently'))
    if obs['inter'][0] != 'Ok':
        bad.append(('intersection', f'intersection raised {obs["inter"][1]}'))
    else:
        r = obs['inter'][1]
        if (r is None) != dis:
            bad.append(('intersection', f'intersection is {r} but the sets {"are" if dis else "are not"} disjoint'))
        elif r is not None:
            for t in probe_points(a, b, r):
                if mem(t, r) != (mem(t, a) and mem(t, b)):
                    bad.append(('intersection', f'instant {t}: in result={mem(t, r)}, in both operands={mem(t, a) and mem(t, b)}'))
                    break
    if obs['union'][0] != 'Ok':
        bad.append(('union', f'union raised {obs["union"][1]}'))
    else:
        u = obs['union'][1]
        if u != (min(a[0], b[0]), max(a[1], b[1])):
            bad.append(('union-hull', f'union is {u}, smallest covering span is {(min(a[0], b[0]), max(a[1], b[1]))}'))
        for t in ina + inb:
            if not mem(t, u):
                bad.append(('union-covers', f'instant {t} of an operand is not in the union {u}'))
                break
    return bad


def laws(A, B, C):
    """the C06b theorems evaluated on implementation objects; returns the first law that fails (text) or None"""
    key = lambda x: None if x is None else iv_out(x)      # noqa: E731
    ab, ba, bc = A.intersection(B), B.intersection(A), B.intersection(C)
    if key(ab) != key(ba):
        return f'C06_intersection_comm: a&b = {key(ab)}, b&a = {key(ba)}'
    if key(A.intersection(A)) != iv_out(A):
        return 'C06_intersection_idem'
    l = None if ab is None else ab.intersection(C)
    r = None if bc is None else A.intersection(bc)
    if key(l) != key(r):
        return f'C06_intersection_assoc: (a&b)&c = {key(l)}, a&(b&c) = {key(r)}'
    if (ab is None) != A.isdisjoint(B) or (ab is not None) != A.intersects(B):
        return 'C06_intersection_none_iff / C06_intersection_some_iff'
    if ab is not None and not (ab.issubset(A) and ab.issubset(B)):
        return f'C06_intersection_lower: a&b = {key(ab)} is not a subset of both operands'
    if C.issubset(A) and C.issubset(B) and (ab is None or not C.issubset(ab)):
        return f'C06_intersection_greatest: c is a subset of a and of b but not of a&b = {key(ab)}'
    if A.issubset(B) != (key(ab) == iv_out(A)):
        return f'C06_issubset_iff_intersection: issubset = {A.issubset(B)}, a&b = {key(ab)}'
    if A.issubset(B) and B.issubset(C) and not A.issubset(C):
        return 'C06_issubset_trans'
    if A.issubset(B) and B.issubset(A) and not (A == B and hash(A) == hash(B)):
        return 'C06_issubset_antisym'
    if not A.issubset(A):
        return 'C06_issubset_refl'
    u, v = A.union(B), B.union(A)
    if iv_out(u) != iv_out(v) or iv_out(A.union(A)) != iv_out(A):
        return 'C06_union_comm / C06_union_idem'
    if iv_out(u.union(C)) != iv_out(A.union(B.union(C))):
        return 'C06_union_assoc'
    if A.issubset(B) and iv_out(u) != iv_out(B):
        return f'C06_issubset_union: a is a subset of b but the hull is {iv_out(u)}'
    if ab is not None and iv_out(A.union(ab)) != iv_out(A):
        return 'C06_absorb_union_intersection'
    if A.start < A.end and B.start < B.end and not (A.issubset(u) and B.issubset(u)):
        return 'C06_union_upper_proper'
    if A.issubset(B) and A.intersects(C) and not B.intersects(C):
        return 'C06_intersects_mono'
    if A.intersects(B) != B.intersects(A):
        return 'C06_intersects_sym'
    if A.issubset(B) and not A.intersects(B):
        return 'C06_issubset_intersects'
    if C.start == C.end:
        if C.issubset(A) != (C.start in A) or A.intersects(C) != (C.start in A):
            return 'C06_issubset_instant / C06_intersects_instant'
        if A.issubset(B) and (C.start in A) and not (C.start in B):
            return 'C06_contains_dt_mono'
    return None


def main():
    ck = Check('C06')
    ck.build_theories(['theories/Props/C06.vo', 'theories/Props/C06b.vo', 'theories/Corr/TimeK.vo'])
    rep = gen_time.main(REPO, os.path.join(ck.rundir, 'TimeGen.v'))
    ck.gen('TimeGen.v', rep, 'TimeGenEq.v')
    ck.props('Props/C06.v')
    ck.props('Props/C06b.v')     # order and lattice laws (subset order, intersection = meet, hull = join up to D8)

    rng = ck.rng
    H = 3_600_000_000                      # one hour in microseconds: the discrete timeline's step
    pts = [k * H for k in range(7)]
    ivs = [(s, e) for s in pts for e in pts if s <= e]
    cases, meta = [], []

    def add(lit, m):
        cases.append(lit)
        meta.append(m)

    styles_cycle = itertools.cycle([('utc', 'utc'), ('naive', 'naive'), (120, -330), ('utc', 345), ('naive', 'utc'), (-90, 'naive')])
    # constructor: all 49 (start,end) pairs, datetime end and timedelta end
    for s in pts:
        for e in pts:
            stl = next(styles_cycle)
            r = guarded(lambda: iv_out(TimeInterval(to_dt(s, stl[0]), to_dt(e, stl[1]))))
            add(f'KMk {zlit(s)} {zlit(e)} {reslit(r, ivl)}', {'k': 'mk', 's': s, 'e': e, 'out': r})
            r = guarded(lambda: iv_out(TimeInterval(to_dt(s, stl[0]), timedelta(microseconds=e - s))))
            add(f'KMkDelta {zlit(s)} {zlit(e - s)} {reslit(r, ivl)}', {'k': 'mkdelta', 's': s, 'd': e - s, 'out': r})
    # membership of every instant in every interval
    for a in ivs:
        for t in pts + [p + 1 for p in pts[:2]] + [p - 1 for p in pts[-2:]]:
            stl = next(styles_cycle)
            A = build(a, stl)
            o1 = to_dt(t, stl[0]) in A
            o2 = A.intersects(to_dt(t, stl[1]))
            add(f'KContains {ivl(a)} {zlit(t)} {blit(o1)} {blit(o2)}', {'k': 'contains', 'a': a, 't': t, 'in': o1, 'intersects': o2})
    # all ordered pairs of the 28 intervals
    pairs = [(a, b) for a in ivs for b in ivs]
    # random microsecond-resolution pairs with shared endpoints forced often
    n_rand = 400 if ck.tier == 'quick' else 20000
    for _ in range(n_rand):
        base = rng.randrange(-10**15, 10**15)
        span = rng.choice([1, 2, 7, 1000, 10**6, 10**9, 10**12])
        vals = sorted(base + rng.randrange(0, 4) * span + rng.choice([0, 0, 0, 1, -1]) for _ in range(4))
        pick = lambda: tuple(sorted(rng.choice(vals) for _ in range(2)))   # noqa: E731
        pairs.append((pick(), pick()))
    nontrivial = set()
    for a, b in pairs:
        sa, sb = next(styles_cycle), next(styles_cycle)
        lit, obs = rel_case(a, b, sa, sb)
        add(lit, {'k': 'rel', 'a': a, 'b': b, 'styles': [sa, sb], 'obs': obs})
        if len({a[0], a[1], b[0], b[1]}) < 4:
            nontrivial.add((a, b))
        ck.count('rel:' + ('instant-' if a[0] == a[1] else 'interval-') + ('instant' if b[0] == b[1] else 'interval'))
    # intervals RETURNED by the library (union, intersection, copy, and copies of those) must behave as the
    # interval with the same bounds built by the constructor: every relation and membership again, with the
    # returned object as receiver and as argument
    derived_src = [(a, b) for a in ivs for b in ivs]
    if ck.tier == 'quick':
        derived_src = [p for i, p in enumerate(derived_src) if i % 5 == 0 or (p[0][0] == p[0][1] and p[1][0] == p[1][1])]
    third = [(H, H), (2 * H, 4 * H), (0, 6 * H), (3 * H, 3 * H), (H, 5 * H)]
    for n, (a, b) in enumerate(derived_src):
        sa, sb = next(styles_cycle), next(styles_cycle)
        A, B = build(a, sa), build(b, sb)
        outs = [('union', guarded(lambda: A.union(B))), ('intersection', guarded(lambda: A.intersection(B))),
                ('copy', guarded(lambda: A.copy()))]
        for how, r in outs:
            if r[0] != 'Ok' or r[1] is None:
                continue
            D = r[1] if n % 2 else r[1].copy()           # also through a copy of the returned object
            d = iv_out(D)
            c = third[n % len(third)]
            for t in (d[0], d[1], (d[0] + d[1]) // 2, d[1] - 1, c[0]):
                o1, o2 = to_dt(t, sa[0]) in D, D.intersects(to_dt(t, sb[1]))
                add(f'KContains {ivl(d)} {zlit(t)} {blit(o1)} {blit(o2)}', {'k': 'contains', 'a': d, 't': t, 'in': o1, 'intersects': o2,
                                                                             'derived': how, 'from': [a, b]})
            lit, obs = rel_case(d, c, None, next(styles_cycle), A=D)
            add(lit, {'k': 'rel', 'a': d, 'b': c, 'styles': [how, 'ctor'], 'obs': obs, 'derived': how, 'from': [a, b]})
            lit, obs = rel_case(c, d, next(styles_cycle), None, B=D)
            add(lit, {'k': 'rel', 'a': c, 'b': d, 'styles': ['ctor', how], 'obs': obs, 'derived': how, 'from': [a, b]})
            ck.count('derived:' + how)
    # ---- consecutive microsecond ticks around bounds anywhere in years 1..9999 (see far_anchors): every well-formed
    # interval over 6 consecutive ticks, membership of every tick, and the relations between them, all judged by the exact
    # integer set model (Gallina model over Z + the Python oracle)
    anchors = far_anchors(rng)
    plain = itertools.cycle([('utc', 'utc'), ('naive', 'naive'), ('naive', 'utc'), ('utc', 'naive')])
    for label, z, offsets_ok in anchors:
        stc = styles_cycle if offsets_ok else plain
        ticks = [z + k for k in range(-2, 4)]
        fivs = [(s_, e_) for s_ in ticks for e_ in ticks if s_ <= e_]
        for s_ in ticks[1:5]:
            for e_ in ticks[1:5]:
                stl = next(stc)
                r = guarded(lambda: iv_out(TimeInterval(to_dt(s_, stl[0]), to_dt(e_, stl[1]))))
                add(f'KMk {zlit(s_)} {zlit(e_)} {reslit(r, ivl)}', {'k': 'mk', 'far': label, 's': s_, 'e': e_, 'styles': stl, 'out': r})
                r = guarded(lambda: iv_out(TimeInterval(to_dt(s_, stl[0]), timedelta(microseconds=e_ - s_))))
                add(f'KMkDelta {zlit(s_)} {zlit(e_ - s_)} {reslit(r, ivl)}', {'k': 'mkdelta', 'far': label, 's': s_, 'd': e_ - s_, 'styles': stl, 'out': r})
        for a in fivs:
            for t in ticks:
                stl = next(stc)
                A = build(a, stl)
                o1, o2 = to_dt(t, stl[1]) in A, A.intersects(to_dt(t, stl[0]))
                add(f'KContains {ivl(a)} {zlit(t)} {blit(o1)} {blit(o2)}', {'k': 'contains', 'far': label, 'a': a, 't': t, 'styles': stl, 'in': o1, 'intersects': o2})
        fpairs = [(a, b) for a in fivs for b in fivs]
        if ck.tier == 'quick':
            fpairs = rng.sample(fpairs, 110)
        for a, b in fpairs:
            sa, sb = next(stc), next(stc)
            lit, obs = rel_case(a, b, sa, sb)
            add(lit, {'k': 'rel', 'far': label, 'a': a, 'b': b, 'styles': [sa, sb], 'obs': obs})
            if len({a[0], a[1], b[0], b[1]}) < 4:
                nontrivial.add((a, b))
            ck.count('far:' + ('year' if label.startswith('year') else 'pow2' if label.startswith('1970') else 'edge'))

    # ---- the naive-datetime part of the corpus again under several PROCESS TIME ZONES (see ZONES): naive datetimes are read
    # as UTC whatever the zone.  The Gallina cases carry the integer bounds of the INTENDED UTC reading.
    zones = ZONES[:5] if ck.tier == 'quick' else ZONES
    nv = itertools.cycle([('naive', 'naive'), ('naive', 'utc'), ('utc', 'naive'), ('naive', 120), (-330, 'naive'), ('naive', 'naive')])
    aw = itertools.cycle([('utc', 'utc'), (120, -330), ('utc', 345), ('naive', 'naive')])
    for zi, tz in enumerate(zones):
        with process_zone(tz):
            inner = [x for x in anchors if x[2]]                  # the two ends of the range admit no offset-aware spelling
            zanch = [inner[(zi * 4 + j) % len(inner)] for j in range(2)]
            for s in pts:
                for e in pts:
                    stl = next(nv)
                    r = guarded(lambda: iv_out(TimeInterval(to_dt(s, stl[0]), to_dt(e, stl[1]))))
                    add(f'KMk {zlit(s)} {zlit(e)} {reslit(r, ivl)}', {'k': 'mk', 'zone': tz, 's': s, 'e': e, 'styles': stl, 'out': r})
                    r = guarded(lambda: iv_out(TimeInterval(to_dt(s, 'naive'), timedelta(microseconds=e - s))))
                    add(f'KMkDelta {zlit(s)} {zlit(e - s)} {reslit(r, ivl)}', {'k': 'mkdelta', 'zone': tz, 's': s, 'd': e - s, 'styles': ['naive'], 'out': r})
                    r = guarded(lambda: iv_out(TimeInterval.from_str(txt(to_dt(s, 'naive')), txt(to_dt(e, 'naive'), ' '))))
                    add(f'KMk {zlit(s)} {zlit(e)} {reslit(r, ivl)}', {'k': 'mk', 'zone': tz, 's': s, 'e': e, 'styles': 'from_str(naive texts)', 'out': r})
                r = guarded(lambda: iv_out(TimeInterval.from_str(txt(to_dt(s + zi, 'naive')))))
                add(f'KMk {zlit(s + zi)} {zlit(s + zi)} {reslit(r, ivl)}', {'k': 'mk', 'zone': tz, 's': s + zi, 'e': s + zi, 'styles': 'from_str(naive text)', 'out': r})
            zivs = ivs + [(zq + k, zq + k2) for _, zq, _ in zanch for k in (0, 1) for k2 in (1, 2) if k <= k2]
            for a in zivs:
                for t in ([p_ for p_ in pts if a[0] - H <= p_ <= a[1] + H] if a[1] < 10**14 and a[0] > -10**14 else [a[0] - 1, a[0], a[1], a[1] - 1]):
                    stl = next(nv) if t % 2 else next(aw)        # the interval naive / mixed or aware; the probe always naive
                    A = build(a, stl)
                    d = to_dt(t, 'naive')
                    o1, o2 = d in A, A.intersects(d)
                    add(f'KContains {ivl(a)} {zlit(t)} {blit(o1)} {blit(o2)}', {'k': 'contains', 'zone': tz, 'a': a, 't': t, 'styles': [stl, 'naive probe'], 'in': o1, 'intersects': o2})
            zp = [(a, b) for a in zivs for b in zivs]
            if ck.tier == 'quick':
                zp = rng.sample(zp, 160)
            for n, (a, b) in enumerate(zp):
                sa, sb = (next(nv), next(aw)) if n % 2 else (next(aw), next(nv))     # one operand given naive, the other stamped
                try:
                    lit, obs = rel_case(a, b, sa, sb)
                except Exception as ex:                                              # a well-formed interval was rejected
                    ck.violation({'kind': 'property-fails-on-implementation', 'case': {'k': 'rel', 'zone': tz, 'a': a, 'b': b, 'styles': [sa, sb]},
                                  'detail': f'constructing the well-formed intervals or relating them raised {type(ex).__name__}: {ex}'}) if zi == 0 and n < 40 else None
                    continue
                add(lit, {'k': 'rel', 'zone': tz, 'a': a, 'b': b, 'styles': [sa, sb], 'obs': obs})
                if len({a[0], a[1], b[0], b[1]}) < 4:
                    nontrivial.add((a, b))
                ck.count('zone:rel')
    ck.cov['evaluations'] = len(cases)
    ck.cov['distinct_nontrivial'] = len(nontrivial)
    ck.cov['exhaustive'] = True
    for i in (0, 120, 700, len(cases) - 1):
        ck.sample(cases[min(i, len(cases) - 1)])

    bad, broken = ck.corr('time', 'From GV Require Import Prelude TimeM TimeK.', 'check', cases)

    # the property evaluated directly on the implementation's answers (every rel case)
    for i, m in enumerate(meta):
        if m['k'] == 'contains' and (m['in'], m['intersects']) != (mem(m['t'], m['a']),) * 2:
            bad.append(i) if i not in bad else None
            m.setdefault('property_clauses_violated', []).append(
                ['membership', f'`t in a` = {m["in"]}, a.intersects(t) = {m["intersects"]}, but instant {m["t"]} is {"" if mem(m["t"], m["a"]) else "not "}in the set {tuple(m["a"])}'])
        if m['k'] in ('mk', 'mkdelta') and 'styles' in m:
            s_, e_ = m['s'], m['e'] if m['k'] == 'mk' else m['s'] + m['d']
            want = ('Ok', (s_, e_)) if s_ <= e_ else None
            if (want is None and m['out'][0] == 'Ok') or (want is not None and tuple(m['out']) != want):
                bad.append(i) if i not in bad else None
                m.setdefault('property_clauses_violated', []).append(
                    ['constructor', f'bounds ({s_}, {e_}) given as {m["styles"]}: constructor gave {m["out"]}, expected {"rejection" if want is None else want}'])
        if m['k'] != 'rel':
            continue
        for clause, detail in oracle(m['a'], m['b'], m['obs']):
            f = ck.finding_for(m, PREDICATES) if clause == 'union-covers' else None
            if f:
                continue
            if i not in bad:
                bad.append(i)
            m.setdefault('property_clauses_violated', []).append([clause, detail])
    reported = 0
    for i in sorted(set(bad)):
        if reported >= 5:
            break
        m = meta[i]
        ck.violation({'kind': 'model-vs-implementation' if 'property_clauses_violated' not in m else 'property-fails-on-implementation',
                      'case': m, 'gallina_case': cases[i],
                      'theorems': 'C06_* (Props/C06.v): the model value at this input is the one the theorems pin to the set semantics',
                      'how_to_replay': 'bin/check C06 --replay <this file>'})
        reported += 1

    # ---- the laws of Props/C06b.v demanded of the implementation itself, on CHAINED results (the operands of the second
    # operation are objects the library returned): triples over the 7-point timeline
    triples = [(a, b, c) for a in ivs for b in ivs for c in ivs]
    if ck.tier == 'quick':
        triples = rng.sample(triples, 2500)
    law_bad = []
    for n, (a, b, c) in enumerate(triples):
        sa, sb, sc = next(styles_cycle), next(styles_cycle), next(styles_cycle)
        why = laws(build(a, sa), build(b, sb), build(c, sc))
        ck.count('laws:triples')
        if why:
            law_bad.append(((a, b, c), why))
    for (a, b, c), why in law_bad[:3]:
        ck.violation({'kind': 'property-fails-on-implementation',
                      'case': {'k': 'laws', 'a': a, 'b': b, 'c': c, 'unit': 'microseconds; one hour = 3600000000'},
                      'detail': why, 'theorems': 'Props/C06b.v (the law named in detail is a theorem of the model for all well-formed intervals)'})
    ck.cov['evaluations'] += len(triples)

    # D8: deterministic replay of the known finding
    for f in ck.findings:
        if f['status'] == 'open' and f['signature'] == 'union_instant_at_end':
            a, b = f['replay']['a'], f['replay']['b']
            u = build([a[0] * H, a[1] * H], ('utc', 'utc')).union(build([b[0] * H, b[1] * H], ('utc', 'utc')))
            if to_dt(b[0] * H, 'utc') not in u:
                ck.known(f)

    ck.finish(rule='exhaustive 7-point timeline (all 28 well-formed intervals, 784 ordered pairs, every instant, all 49 '
                   'constructor pairs x datetime/timedelta end) + seeded random microsecond pairs with forced shared '
                   'endpoints; aware/naive/offset datetimes cycled; every well-formed interval over 6 consecutive microsecond ticks around '
                   'seeded instants in years 1066/1697/1970/2242/2400/3021/9000, at 1970 +- 2**k s (k=31..37) and at both ends of '
                   'datetime range (constructor, membership of every tick, relations: all in thorough, 110 seeded pairs per anchor in quick); '
                   'the naive-datetime part again under 5 (thorough 7) non-UTC PROCESS time zones (TZ + tzset): constructor incl. timedelta end '
                   'and from_str, membership of naive datetimes, relations between a naive-given and a UTC/offset-stamped interval; non-trivial = the two intervals share an endpoint value '
                   'or one is an instant (distinct (a,b) counted)',
              assumptions=['datetime -> integer microseconds UTC is a faithful abstraction of Python datetime comparison/equality/hash',
                           'the dense timeline of the theorems is Q; the implementation is probed at endpoints and midpoints'])


def replay(path):
    import json
    r = json.load(open(path))
    m = r.get('case')
    if not m or m.get('k') not in ('rel', 'contains'):
        print(json.dumps(r, indent=1)); return

    def sty(x):
        x = tuple(x) if isinstance(x, (list, tuple)) and len(x) == 2 and all(y in ('utc', 'naive') or isinstance(y, int) for y in x) else ('utc', 'utc')
        return x
    with process_zone(m.get('zone') or 'UTC'):           # cases of the process-time-zone family replay under their zone
        if m['k'] == 'contains':
            A = build(tuple(m['a']), sty(m.get('styles', [])[0] if m.get('zone') else m.get('styles')))
            d = to_dt(m['t'], 'naive' if m.get('zone') else 'utc')
            print(f'implementation now: {d!r} in {A!r} = {d in A}; intersects = {A.intersects(d)}; set model says {mem(m["t"], m["a"])}')
            return
        st = m.get('styles') or [None, None]
        lit, obs = rel_case(tuple(m['a']), tuple(m['b']), sty(st[0]), sty(st[1]))
    print('implementation now:', obs)
    print('property clauses violated now:', oracle(tuple(m['a']), tuple(m['b']), obs))
    print('gallina case:', lit)


if __name__ == '__main__':
    if '--replay' in sys.argv:
        replay(sys.argv[sys.argv.index('--replay') + 1])
    else:
        main()
