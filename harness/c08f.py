"""C08, float part: the bit-exact binary64 model CoordF.mkf against Coordinate.__init__ on EVERY
kind of finite float input (no exactness side condition).  Called from harness/c08.py:

    import c08f
    ...
    c08f.run(ck)            # before ck.finish(...)

Tie (K): each input (int, float or numeric str) is converted with float() - as line 26 of
coordinates.py does - and written as a hexadecimal float literal (float.hex(): exact) together with
the stored longitude/latitude (also hex); Coq's vm_compute runs CoordF.mkf (fuel 2000 per loop)
and compares bit for bit (-0.0 and 0.0 are told apart).  The clauses proved of the model in
Proofs/CoordFP.v (range, idempotence with fuel 0, longitude != 180) are demanded of the
implementation's own output inside Coq AND evaluated here directly on the implementation
(oracle), so a failure comes with a concrete input.
Tie (T, optional): tools/gen_coordf.py regenerates the float definitions from the source and
coq/geneq/CoordFGenEq.v proves them equal to CoordF.
"""
import math
import os
import signal
import sys
from fractions import Fraction as F

sys.path.insert(0, os.path.dirname(os.path.abspath(__file__)))
from lib import blit, REPO, COQ   # noqa: E402

from geostructures.coordinates import Coordinate     # noqa: E402  (the implementation)

INF = float('inf')
IMPORTS = 'From Coq Require Import PrimFloat.\nFrom GV Require Import Prelude CoordF CoordFK.'
THEOREMS = ('C08f_range / C08f_idempotent / C08f_in_range / C08f_unbounded (Props/C08f.v): what the float model '
            'stores at this input is in range and a fixed point of the constructor')


class Hang(Exception):
    pass


def with_alarm(fn, secs):
    def handler(*_):
        raise Hang()
    old = signal.signal(signal.SIGALRM, handler)
    signal.setitimer(signal.ITIMER_REAL, secs)
    try:
        return fn()
    finally:
        signal.setitimer(signal.ITIMER_REAL, 0)
        signal.signal(signal.SIGALRM, old)


HANGS = [0]


def build(lon, lat, bounded=True, secs=None):
    try:
        secs = secs if secs is not None else (5.0 if HANGS[0] < 3 else 0.25)
        return ('Ok', with_alarm(lambda: Coordinate(lon, lat, None, None, bounded), secs))
    except Hang:
        HANGS[0] += 1
        return ('Hang', None)
    except Exception as ex:   # noqa
        return ('Err', type(ex).__name__)


def flit(x):
    """a double as a Gallina primitive-float literal (hexadecimal: exact)"""
    x = float(x)
    if x != x:
        return 'nan'
    if x == INF:
        return 'infinity'
    if x == -INF:
        return 'neg_infinity'
    return f'({x.hex()})%float'


def bits(x):
    return float(x).hex()


def nxt(x, up):
    return math.nextafter(x, INF if up else -INF)


def replay_float(lon, lat):
    """the two loops in doubles, counting iterations and float operations whose result is not the
    exact rational one (= where the rational model CoordM and the float code part ways)"""
    it = rounded = 0

    def op(res, exact):
        nonlocal rounded
        if F(res) != exact:
            rounded += 1
        return res
    while not -90 <= lat <= 90:
        if lat > 90:
            t = op(lat - 90, F(lat) - 90)
            lat = op(90 - t, 90 - F(t))
        else:
            t = op(lat + 90, F(lat) + 90)
            lat = op(-90 - t, -90 - F(t))
        lon = op(lon + 180, F(lon) + 180) if lon < 0 else op(lon - 180, F(lon) - 180)
        it += 1
        if it > 10 ** 5:
            break
    while not -180 <= lon <= 180:
        lon = op(lon - 360, F(lon) - 360) if lon > 180 else op(lon + 360, F(lon) + 360)
        it += 1
        if it > 2 * 10 ** 5:
            break
    return it, rounded


def oracle(c):
    """range and idempotence evaluated directly on the implementation's answer"""
    bad = []
    lo, la = c.longitude, c.latitude
    if not (-180 <= lo < 180):
        bad.append(('range', f'stored longitude {lo!r} is outside [-180,180)'))
    if not (-90 <= la <= 90):
        bad.append(('range', f'stored latitude {la!r} is outside [-90,90]'))
    r = build(lo, la)
    if r[0] != 'Ok' or (bits(r[1].longitude), bits(r[1].latitude)) != (bits(lo), bits(la)):
        bad.append(('idempotence', 'normalising the stored pair again gives '
                    + (repr((r[1].longitude, r[1].latitude)) if r[0] == 'Ok' else repr(r))))
    return bad


EDGES = [90.0, 180.0, 270.0, 360.0, 450.0, 540.0]


def gen_inputs(ck, tier):
    """(lon, lat, bounded, class) - lon/lat as handed to the constructor (float, int or str)"""
    rng = ck.rng
    out = []
    # 1. one ulp either side of +-90k and signed zeros / denormals: all pairs
    near = []
    for e in EDGES:
        for s in (1, -1):
            near += [s * e, nxt(s * e, True), nxt(s * e, False)]
    near += [0.0, -0.0, 5e-324, -5e-324]
    for lo in near:
        for la in near:
            out.append((lo, la, True, 'ulp-neighbour'))
    n = 220 if tier == 'quick' else 5800
    # 2. random doubles with all 53 bits in play
    # (rng.uniform(-b, b) = -b + 2b*random() lies on the grid of 2b*random(): not used here)
    def r53(big):
        return rng.choice([1, -1]) * (rng.random() * big)

    for _ in range(2 * n):
        big = rng.choice([200, 800, 5000, 100000])
        out.append((r53(big), r53(big), True, 'random-53-bit'))
    # 3. decimal strings (non-dyadic values reach the constructor as text)
    for _ in range(n // 2):
        big = rng.choice([200, 800, 100000])
        lo = f'{r53(big):.{rng.choice([1, 2, 5, 7, 14])}f}'
        la = f'{r53(big):.{rng.choice([1, 2, 5, 7, 14])}f}'
        out.append((lo, la, True, 'decimal-str'))
    for lo in ['179.99999999999997', '180.00000000000003', '-179.99999999999997', '-180.00000000000003',
               '180', '-180.0', '359.99999999999994', '540.0000000000001', '0.1', '-0.0', '1e-320', '99999.99999999999']:
        for la in ['90.00000000000001', '-90.00000000000001', '89.99999999999999', '90', '-90.0', '270.00000000000006',
                   '-450.0000000000001', '0.3', '-0.0', '99999.99999999999', '-1e5']:
            out.append((lo, la, True, 'decimal-str'))
    # 4. ints
    for _ in range(n // 2):
        big = rng.choice([400, 2000, 100000])
        out.append((rng.randrange(-big, big + 1), rng.randrange(-big, big + 1), True, 'int'))
    # 5. multiples of 90 far out (where an ulp is 2^-36) and their neighbours, against random partners
    for _ in range(n):
        k = rng.randrange(-1111, 1112)
        e = 90.0 * k
        x = rng.choice([e, nxt(e, True), nxt(e, False), e + rng.choice([1e-9, -1e-9, 0.1, -0.7])])
        y = rng.choice([r53(1e5), r53(200), 90.0 * rng.randrange(-1111, 1112)])
        out.append((x, y, True, 'far-multiple') if rng.random() < .5 else (y, x, True, 'far-multiple'))
    # 6. tiny / nearly-180 longitudes carried over a pole: lon +- 180 rounds
    for _ in range(n // 2):
        lo = rng.choice([1, -1]) * rng.choice([10.0 ** rng.randrange(-320, 1) * rng.random(),
                                               nxt(180.0, False) - rng.random() * 1e-12, 180.0 - rng.random()])
        la = rng.choice(EDGES + [91.0, 271.5, 100.1]) * rng.choice([1, -1]) + rng.choice([0, 0.25, -0.5, 1e-9, 1e-13])
        out.append((lo, la, True, 'rounding-lon-over-pole'))
    # 6b. ordinary longitudes against latitudes beyond a pole: lon +- 180 is inexact for most of them
    for _ in range(2 * n):
        lo = r53(180) if rng.random() < .7 else r53(2000)
        la = rng.choice([1, -1]) * (90 + rng.random() * rng.choice([10, 180, 1000, 99900]))
        out.append((lo, la, True, 'lon-over-pole'))
    # 7. _bounded=False
    for lo, la in [(180.0, 0.0), (-180.0, 5.0), (540.0, 100.0), (nxt(180.0, False), 0.0), (nxt(180.0, True), -0.0),
                   (-0.0, 91.0), (180, 91), ('180', '1e3'), (99999.9, -99999.9)]:
        out.append((lo, la, False, 'unbounded'))
    for _ in range(n // 10):
        out.append((rng.choice([180.0, r53(1e5)]), r53(1e5), False, 'unbounded'))
    return out


def run(ck, tier=None):
    tier = tier or ck.tier
    ok_build = True
    for t in ('theories/Props/C08f.vo', 'theories/Corr/CoordFK.vo'):
        if not os.path.exists(os.path.join(COQ, t)):
            ok_build = False
    if not ok_build:
        # c08.py is expected to list these two targets in its own ck.build_theories(); this is the fallback
        ck.build_theories(['theories/Props/C08f.vo', 'theories/Corr/CoordFK.vo'])
    try:
        import gen_coordf   # noqa  (tools/: translator tie of the float definitions)
        rep = gen_coordf.main(REPO, os.path.join(ck.rundir, 'CoordFGen.v'))
        ck.gen('CoordFGen.v', rep, 'CoordFGenEq.v')
    except ImportError:
        pass
    prev_chk = ck.cov.get('coqchk_axioms')
    ck.props('Props/C08f.v')
    if prev_chk is not None and 'coqchk_axioms' in ck.cov:      # thorough tier: keep C08.v's coqchk result too
        ck.cov['coqchk_axioms'] = sorted(set(prev_chk) | set(ck.cov['coqchk_axioms']))

    cases, meta = [], []
    nontrivial, rounded_inputs = set(), 0
    max_it = 0
    hangs = 0
    for lon_in, lat_in, bounded, cls in gen_inputs(ck, tier):
        try:
            lonv, latv = float(lon_in), float(lat_in)
        except (ValueError, OverflowError):
            continue
        r = build(lon_in, lat_in, bounded)
        mt = {'k': 'mkf', 'lon': repr(lon_in), 'lat': repr(lat_in), 'lon_hex': bits(lonv), 'lat_hex': bits(latv),
              'bounded': bounded, 'class': cls}
        if r[0] != 'Ok':
            hangs += 1
            mt['out'] = r[0] + ':' + str(r[1])
            if hangs <= 3:
                ck.violation({'kind': 'property-fails-on-implementation', 'case': mt,
                              'detail': 'the constructor did not return on a finite input (' + mt['out'] + ')',
                              'theorems': 'C08f_terminates (Props/C08f.v)'})
            cases.append(f'FHang {flit(lonv)} {flit(latv)}')
            meta.append(mt)
            continue
        c = r[1]
        it, rnd = replay_float(lonv, latv) if bounded else (0, 0)
        mt.update({'out': [repr(c.longitude), repr(c.latitude)], 'out_hex': [bits(c.longitude), bits(c.latitude)],
                   'iterations': it, 'rounded_operations': rnd})
        if bounded:
            bad = oracle(c)
            if bad:
                mt['property_clauses_violated'] = bad
        cases.append(f'FMk {flit(lonv)} {flit(latv)} {blit(bounded)} {flit(c.longitude)} {flit(c.latitude)}')
        meta.append(mt)
        ck.count(f'float:{cls}:{"rounded" if rnd else "exact"}')
        max_it = max(max_it, it)
        if bounded and (it > 0 or lonv == 180):
            nontrivial.add((bits(lonv), bits(latv)))
        if rnd:
            rounded_inputs += 1

    # non-finite inputs (outside the property): the loops spin; the model runs out of fuel likewise
    for lo, la in [(float('nan'), 0.0), (0.0, INF), (-INF, 10.0)]:
        r = build(lo, la, True, secs=0.2)
        HANGS[0] = 0
        if r[0] == 'Hang':
            cases.append(f'FHang {flit(lo)} {flit(la)}')
            meta.append({'k': 'mkf', 'lon': repr(lo), 'lat': repr(la), 'bounded': True, 'class': 'non-finite', 'out': 'Hang'})
            ck.count('float:non-finite')

    ck.cov['evaluations'] = ck.cov.get('evaluations', 0) + len(cases)
    ck.cov['distinct_nontrivial'] = ck.cov.get('distinct_nontrivial', 0) + len(nontrivial)
    ck.cov['max_loop_iterations'] = max(ck.cov.get('max_loop_iterations', 0), max_it)
    ck.cov['float_model_cases'] = len(cases)
    ck.cov['float_model_nontrivial'] = len(nontrivial)
    ck.cov['float_model_rounded_inputs'] = rounded_inputs      # some float operation of the loops is inexact there
    for i in (len(cases) // 3, 2 * len(cases) // 3):
        ck.sample(cases[i][:300], limit=8)

    bad, broken = ck.corr('coordf', IMPORTS, 'check', cases)
    bad = list(bad)
    for i, m in enumerate(meta):
        if 'property_clauses_violated' in m and i not in bad:
            bad.append(i)
    order = sorted(set(bad), key=lambda i: (0 if 'property_clauses_violated' in meta[i] else 1, i))
    for i in order[:5]:
        m = meta[i]
        ck.violation({'kind': 'property-fails-on-implementation' if 'property_clauses_violated' in m else 'model-vs-implementation',
                      'case': m, 'gallina_case': cases[i], 'model': 'CoordF.mkf (binary64, bit-exact)',
                      'theorems': THEOREMS,
                      'how_to_replay': 'bin/check C08 --replay <this file>'})
    return {'cases': len(cases), 'bad': len(bad), 'broken': len(broken), 'nontrivial': len(nontrivial),
            'rounded_inputs': rounded_inputs, 'max_iterations': max_it}


RULE = ('float model: all pairs of {+-90k (k<=6) and one ulp either side, +-0.0, +-5e-324}; seeded random 53-bit doubles in '
        '+-200/800/5000/1e5; decimal strings with 1-14 digits and fixed strings around the range ends; ints; multiples of 90 up '
        'to +-1e5 with their ulp neighbours; tiny and nearly-180 longitudes carried over a pole; _bounded=False; compared '
        'bit for bit with CoordF.mkf. non-trivial = distinct (lon,lat) bit patterns on which a loop iterates or 180 -> -180')
ASSUMPTIONS = ['float model: CPython float +,-,<,<=,== are IEEE-754 binary64 round-to-nearest-even operations (what Coq\'s '
               'primitive floats compute); float(str)/float(int) are taken as given (inputs are read after conversion)']


def replay(m):
    """called by c08.py's replay for cases with k == 'mkf'"""
    lon, lat = eval(m['lon']), eval(m['lat'])   # reprs of int/float/str written by this harness
    res = build(lon, lat, m.get('bounded', True))
    if res[0] == 'Ok':
        c = res[1]
        print('implementation now:', (c.longitude, c.latitude), (bits(c.longitude), bits(c.latitude)))
        print('iterations, rounded float operations:', replay_float(float(lon), float(lat)))
        print('property clauses violated now:', oracle(c))
    else:
        print('implementation now:', res)
