#!/usr/bin/env python3
"""C20 - collections survive a round trip through shapefile, GeoPandas and KML (PARTIAL claim).
Model: coq/theories/Model/ArchiveM.v (the in-library glue only).  pyshp, pandas/shapely and
fastkml/pygeoif are really run here on every generated case; their observed outputs are handed
to Coq, which checks (Corr/ArchiveK.v) the writer glue, the codec contract the theorems of
Props/C20.v assume (on that instance), and the reader glue.  The property itself is evaluated in
Python on the implementation as well (oracle()), so a broken tie comes with a failing input."""
import copy
import json
import logging
import os
import random
import shutil
import sys
import tempfile
import warnings
import zipfile
from datetime import datetime, timedelta, timezone
from fractions import Fraction

sys.path.insert(0, os.path.dirname(os.path.abspath(__file__)))
from lib import Check, guarded, zlit, blit, listlit, REPO   # noqa: E402
import c14 as G                                        # noqa: E402  literals / builders shared with C14
import c13 as W                                        # noqa: E402  the harness's own WKT tokenizer
import gen_archive                                     # noqa: E402  translator tie (ArchiveGen.v / ArchiveGenEq.v)

logging.disable(logging.CRITICAL)
warnings.filterwarnings('ignore')


def slit_utf8(s):
    """Gallina string literal of a Python str: Coq reads the UTF-8 bytes of the source as the characters of the
    [string], so a text of n UTF-8 bytes is a Coq string of length n and equality is byte equality (what a DBF cell,
    a pandas cell or a KML Data element must give back).  Control characters have no literal form."""
    assert all(ord(ch) >= 32 and ord(ch) != 127 for ch in s), s
    return '"' + s.replace('"', '""') + '"'


# the literal builders shared with C14 (jlit / dlit / obs_shape) look their string writer up in c14's namespace: in THIS
# process (the C20 check only) it is the UTF-8 one; c14.py itself is untouched and keeps its ASCII-only writer
G.slit = slit_utf8

from geostructures import (Coordinate, GeoBox, GeoCircle, GeoLineString, GeoPoint, GeoPolygon,   # noqa: E402
                           MultiGeoLineString, MultiGeoPoint, MultiGeoPolygon)
from geostructures.collections import FeatureCollection, Track                                 # noqa: E402
from geostructures._base import LineLikeMixin, PolygonLikeMixin                                  # noqa: E402

SC = 10 ** 7
EPOCH = G.EPOCH
FAMILIES = ['points', 'multipoints', 'lines', 'shapes']
REP_GEOM = {'point': '(GPoint (mkc 0 0 None))', 'mpoint': '(GMPoint [])', 'line': '(GLine [])', 'mline': '(GMLine [])',
            'poly': '(GPoly (mkpoly [] []))', 'mpoly': '(GMPoly [])', 'box': '(GBox (mkc 0 0 None) (mkc 0 0 None) [])',
            'circle': '(GRound 1 [])'}
FTYPE = {'C': 'FC', 'N': 'FN', 'L': 'FL'}

# findings this check knows (used until they are listed in KNOWN_FINDINGS.json)
BUILTIN = {
    'shp_float_truncated': {'id': 'D38', 'what': 'to_shapefile declares numeric fields with decimal=0: a float property 1.5 comes back as the int 1'},
    'shp_id_added': {'id': 'D39', 'what': "to_shapefile adds an 'ID' field: every shape read back has an extra property ID = its index in the layer"},
    'shp_missing_key_filled': {'id': 'D40', 'what': "a property key that only some members of a shapefile layer have comes back on the others as '' (text) or None (number, bool)"},
    'gpd_missing_key_nan': {'id': 'D42', 'what': 'a property key that only some members have comes back from to_geopandas/from_geopandas as nan / None on the others (and ints of that column as floats)'},
    'kml_subfolder_injected': {'id': 'D43', 'what': "from_fastkml_folder adds 'sub_folder_0' = folder name to the properties, but only of shapes that already have a property"},
    'shp_single_member_multi': {'id': 'D44', 'what': 'a MultiGeoLineString / MultiGeoPolygon with one member comes back from a shapefile as GeoLineString / GeoPolygon'},
    'kml_falsy_property_dropped': {'id': 'D46', 'what': "a falsy property value (0, False, '', 0.0) is dropped by to_fastkml_placemark: fastkml turns it into None and omits the Data element"},
    'kml_nonstring_property_raises': {'id': 'D45', 'what': 'to_fastkml_placemark raises AttributeError for a truthy property value that is not a string (fastkml Data calls value.strip())'},
}


# ------------------------------------------------------------------ literals
def enc(x):
    v = Fraction(repr(float(x))) * SC
    if v.denominator != 1:
        raise ValueError(f'{x!r} is not a multiple of 1e-7')
    return int(v)


def us_of(d):
    return G.us_of(d)


def xylit(p):
    return f'({zlit(enc(p[0]))}, {zlit(enc(p[1]))})'


def gi_lit(gi):
    t, cs = gi['type'], gi['coordinates']
    if t == 'Point':
        return f'(GiPoint {xylit(cs)})'
    if t in ('MultiPoint', 'LineString'):
        return f'(Gi{t} {listlit([xylit(p) for p in cs])})'
    if t in ('MultiLineString', 'Polygon'):
        return f'(Gi{t} {listlit([listlit([xylit(p) for p in r]) for r in cs])})'
    if t == 'MultiPolygon':
        return '(GiMultiPolygon ' + listlit([listlit([listlit([xylit(p) for p in r]) for r in pl]) for pl in cs]) + ')'
    raise TypeError(t)


def pshape_lit(sh):
    """a pyshp shape as read back -> (mkps kind parts z)"""
    kind = {1: 'LPoint', 11: 'LPoint', 21: 'LPoint', 8: 'LMultiPoint', 18: 'LMultiPoint', 28: 'LMultiPoint',
            3: 'LPolyline', 13: 'LPolyline', 23: 'LPolyline', 5: 'LPolygon', 15: 'LPolygon', 25: 'LPolygon'}[sh.shapeType]
    pts = [tuple(p[:2]) for p in sh.points]
    if kind in ('LPoint', 'LMultiPoint'):
        parts = [pts]
    else:
        idx = list(sh.parts) + [len(pts)]
        parts = [pts[a:b] for a, b in zip(idx, idx[1:])]
    z = getattr(sh, 'z', None)
    zl = 'None' if z is None else '(Some ' + listlit([zlit(enc(v)) for v in z]) + ')'
    return f'(mkps {kind} {listlit([listlit([xylit(p) for p in part]) for part in parts])} {zl})'


def dlit(d):
    return G.dlit(d, enc)


def res_shape_lit(r):
    return f'(Ok {G.obs_shape(r[1], enc)})' if r[0] == 'Ok' else f'(Err {r[1]})'


def pcell_lit(v):
    import pandas as pd
    if v is None:
        return 'PNone'
    if v is pd.NaT:
        return 'PNaT'
    if isinstance(v, float) and v != v:
        return 'PNaN'
    if isinstance(v, datetime):
        return f'(PDt {zlit(us_of(v.to_pydatetime() if hasattr(v, "to_pydatetime") else v))})'
    if hasattr(v, 'item'):
        v = v.item()
    return f'(PV {G.jlit(v, enc)})'


def prow_lit(items):
    return listlit([f'({G.slit(k)}, {pcell_lit(v)})' for k, v in items])


def ktime_lit(t):
    from fastkml.times import TimeSpan, TimeStamp
    if t is None:
        return 'None'
    if isinstance(t, TimeStamp):
        return f'(Some (KStamp {zlit(us_of(t.timestamp.dt))}))'
    if isinstance(t, TimeSpan):
        return f'(Some (KSpan {zlit(us_of(t.begin.dt))} {zlit(us_of(t.end.dt))}))'
    raise TypeError(type(t))


def tolist(x):
    if isinstance(x, (list, tuple)):
        return [tolist(y) for y in x]
    return x


# ------------------------------------------------------------------ generators
STR_VALUES = ['a', 'xy z', 'Main St 5', 'q"uote', 'UPPER', 'n/a', 'x' * 30]
KEYPOOL = [('s', 'str'), ('name', 'str'), ('i', 'int'), ('count', 'int'), ('b', 'bool'), ('f', 'float'), ('ratio', 'float'),
           # names that are not Python identifiers (hyphen, leading digit, leading underscore, keyword)
           ('max-speed', 'int'), ('2nd_name', 'str'), ('_note', 'str'), ('class', 'str')]


# ---- text that is not ASCII (seeded change C20-G).  Mechanism class: anything in the export glue that measures, pads, cuts,
# escapes or compares TEXT in one unit (characters, code units) while the codec stores another (UTF-8 bytes in a fixed-width
# DBF column; XML text; pandas objects) - column widths, truncation, normalisation, case folding, stripping.  The claimed
# domain stays what the unchanged writer supports: at most TEXT_MAX_BYTES UTF-8 bytes (pyshp's default 'C' column of 50
# bytes, which to_shapefile uses), no surrounding white space (pyshp and fastkml strip it, Unicode blanks included), no
# control characters.
TEXT_MAX_BYTES = 50
ALPHA = {1: list('abcXYZ09-_/. '), 2: list('ãéøÆÎßñüŁ'), 3: list('–€東京∑กあ‰'), 4: list('😀𝔘𝄞🗺'),
         'comb': ['e\u0301', 'a\u030a', 'n\u0303', 'o\u0308\u0304']}     # base letter + combining mark(s)
NONASCII_FIXED = ['São Paulo', 'Ærø–Fyn', 'Île-de-France', 'cafés', '東京都', 'Zürich–Genève', 'a😀b', 'Ångström'.replace('Å', 'A\u030a'),
                  'é', '東', '😀', 'ß' * 25, 'a' + 'é' * 24 + 'b', '京' * 16 + 'ab', '😀' * 12 + 'zz']      # the last four: exactly 50 bytes


def nbytes(t):
    return len(t.encode('utf-8'))


def rand_text(rng, nchars=None, widths=(1, 2, 3, 4, 'comb'), maxbytes=TEXT_MAX_BYTES):
    """a text of about nchars units drawn from the given UTF-8 width classes, <= maxbytes bytes, no surrounding blanks"""
    nchars = nchars or rng.randint(1, 14)
    out = ''
    for _ in range(nchars):
        ch = rng.choice(ALPHA[rng.choice(widths)])
        if nbytes(out + ch) > maxbytes:
            break
        out += ch
    out = out.strip() or rng.choice(ALPHA[2])
    return out


def text_column(rng, n, pattern):
    """n values of ONE text column of one layer.  The patterns vary how the byte length of the values relates to their
    character count and to the other values of the same column (the unit a writer could size the column by)."""
    if pattern == 'mixed':                # any widths, any lengths
        return [rand_text(rng) for _ in range(n)]
    if pattern == 'ascii-longest':        # the longest value (in characters) is ASCII; shorter ones are longer in BYTES
        L = rng.randint(4, 16)
        col = [''.join(rng.choice('abcdefgh') for _ in range(L))]
        while len(col) < max(n, 2):
            m = rng.randint(max(2, (L + 2) // 3), L - 1)
            t = rand_text(rng, m, widths=(rng.choice([2, 3, 4]),))
            col.append(t if nbytes(t) > L and len(t) < L else rand_text(rng, L - 1, widths=(4,)))
        rng.shuffle(col)
        return col[:max(n, 2)]
    if pattern == 'same-chars':           # equal character counts, different byte counts (excess 0, 1, 2, ... per value)
        L = rng.randint(1, 10)
        col = []
        for j in range(n):
            k = rng.randint(0, L)         # how many of the L characters are multi-byte
            cs = [rng.choice(ALPHA[rng.choice([2, 3, 4])]) for _ in range(k)] + [rng.choice('abcxyz') for _ in range(L - k)]
            rng.shuffle(cs)
            col.append(''.join(cs))
        return col
    if pattern == 'single':               # one character of 2, 3 or 4 bytes, or one combining sequence
        return [rng.choice(ALPHA[rng.choice([2, 3, 4, 'comb'])]) for _ in range(n)]
    if pattern == 'at-limit':             # exactly TEXT_MAX_BYTES bytes, the multi-byte characters ending on the limit
        col = []
        for _ in range(n):
            w = rng.choice([2, 3, 4])
            k = rng.randint(1, TEXT_MAX_BYTES // w)
            body = ''.join(rng.choice(ALPHA[w]) for _ in range(k))
            pad = TEXT_MAX_BYTES - nbytes(body)
            cut = rng.randint(0, pad)
            col.append('x' * cut + body + 'y' * (pad - cut) if rng.random() < .7 else body)
        return col
    if pattern == 'with-empty':           # '' next to non-ASCII values
        return [('' if j % 2 == 0 else rand_text(rng, widths=(2, 3, 4, 'comb'))) for j in range(n)]
    if pattern == 'fixed':
        return [rng.choice(NONASCII_FIXED) for _ in range(n)]
    raise KeyError(pattern)


TEXT_PATTERNS = ['mixed', 'ascii-longest', 'same-chars', 'single', 'at-limit', 'with-empty', 'fixed']
TEXT_FAMILY_KINDS = {'points': ['point'], 'multipoints': ['mpoint'], 'lines': ['line', 'mline'],
                     'shapes': ['poly', 'mpoly', 'box', 'circle'], 'all': None}


def text_collection(rng, family, pattern, z=False, track=False):
    """specs of one collection whose string properties follow `pattern`, column by column and layer by layer"""
    kinds = TEXT_FAMILY_KINDS[family] or (KINDSZ if z else KINDS2D)
    if z:
        kinds = [k for k in kinds if k in KINDSZ] or ['poly']
    n = rng.randint(1, 5)
    keys = ['label'] + rng.sample(['name', 'gr\u00f6\u00dfe', '_note'], rng.randint(0, 2))     # one key is itself not ASCII (7 bytes)
    cols = {k: text_column(rng, n, pattern if j == 0 else rng.choice(TEXT_PATTERNS)) for j, k in enumerate(keys)}
    out = []
    for i in range(n):
        sp = rand_member(rng, rng.choice(kinds), z)
        sp['dt'] = rand_dt(rng, need=track)
        sp['props'] = {k: cols[k][i] for k in keys if k == 'label' or rng.random() < .8}
        out.append(sp)
    return out


def rand_props(rng, keyset, allow_missing=True):
    d = {}
    for k, t in keyset:
        if allow_missing and rng.random() < 0.3:
            continue
        if t == 'str':
            d[k] = rng.choice(STR_VALUES) if rng.random() < .7 else (rng.choice(NONASCII_FIXED) if rng.random() < .5 else rand_text(rng))
        elif t == 'int':
            d[k] = rng.choice([0, 1, -7, 42, 123456789])
        elif t == 'bool':
            d[k] = rng.random() < 0.5
        else:
            d[k] = rng.choice([1.5, -2.25, 0.5, 3.0, 1234.75, -0.5])
    return d


def rand_dt(rng, need=False):
    r = rng.random()
    if r < 0.3 and not need:
        return None
    us = rng.choice([0, 0, 1, 250000])
    h = rng.randrange(0, 200)
    if r < 0.65:
        return ('i', h, us)
    return ('v', h, h + rng.choice([0, 1, 5, 48]), us)


def mk_dt(d, naive=False):
    if d is None:
        return None

    def one(h, us):
        t = EPOCH + timedelta(hours=h, microseconds=us)
        return t.replace(tzinfo=None) if naive else t
    if d[0] == 'i':
        return one(d[1], d[2])
    from geostructures.time import TimeInterval
    return TimeInterval(one(d[1], d[3]), one(d[2], d[3]))


def dt_pair(d):
    if d is None:
        return None
    if d[0] == 'i':
        t = d[1] * G.HOUR + d[2]
        return (t, t)
    return (d[1] * G.HOUR + d[3], d[2] * G.HOUR + d[3])


def spec_dt_lit(d):
    p = dt_pair(d)
    return 'None' if p is None else f'(Some ({zlit(p[0])}, {zlit(p[1])}))'


def zify(ring, base):
    """distinct Z per vertex (closing vertex = first), so that a wrong pop order is visible"""
    closed = len(ring) > 1 and ring[0][:2] == ring[-1][:2]
    n = len(ring) - 1 if closed else len(ring)
    out = [(ring[i][0], ring[i][1], base + 0.25 * (i + 1)) for i in range(n)]
    if closed:
        out.append(out[0])
    return out


def shell_ring(rng, cx, cy, rad, n):
    """a ring that is star-shaped about (cx, cy) with every angular gap below 180 degrees, so that the
    disc of radius 0.3 * rad around the centre lies inside it (n >= 5); random start, winding, closing"""
    import math
    for _ in range(50):
        pts = []
        for i in range(n):
            a = 2 * math.pi * (i + rng.uniform(0, 0.4)) / n
            r = rad * rng.uniform(0.5, 1.0)
            p = (round((cx + r * math.cos(a)) * G.S) / G.S, round((cy + r * math.sin(a)) * G.S) / G.S)
            if p not in pts:
                pts.append(p)
        if len(pts) == n and G.area2([(x, y, None) for x, y in pts]) != 0:
            break
    else:
        pts = [(cx - rad, cy - rad), (cx + rad, cy - rad), (cx + rad, cy + rad), (cx - rad, cy + rad)]
    j = rng.randrange(len(pts))
    pts = pts[j:] + pts[:j]
    if rng.random() < 0.5:
        pts.reverse()
    out = [(x, y, None) for x, y in pts]
    if rng.random() < 0.7:
        out.append(out[0])
    return out


def poly_spec(rng, z, cx=None, cy=None, rad=None, nholes=None):
    """a VALID polygon: holes inside the shell (pyshp groups holes by containment)"""
    if cx is None:
        cx, cy = G.rand_center(rng)
    rad = rad or rng.choice([4.0, 8.0, 15.0])
    nh = rng.choice([0, 0, 1, 2]) if nholes is None else nholes
    o = shell_ring(rng, cx, cy, rad, rng.randint(5, 8) if nh else rng.randint(3, 8))
    hs = []
    for j in range(nh):
        hx = round((cx + (j - 0.5) * rad * 0.2) * G.S) / G.S
        hs.append({'o': G.rand_ring(rng, hx, cy, max(rad * 0.08, 0.5), rng.randint(3, 5))})
    if z:
        o = zify(o, 10.0)
        for j, h in enumerate(hs):
            h['o'] = zify(h['o'], 100.0 * (j + 1))
    p = {'o': o}
    if hs:
        p['holes'] = hs
    return p


def rand_member(rng, kind, z):
    zmode = 'z' if z else None
    if kind == 'point':
        sp = {'kind': 'point', 'c': G.rand_coord(rng, zmode)}
    elif kind == 'line':
        vs = [G.rand_coord(rng) for _ in range(rng.randint(2, 6))]
        sp = {'kind': 'line', 'vs': zify(vs, 1.0) if z else vs}
    elif kind == 'poly':
        sp = dict(poly_spec(rng, z), kind='poly')
    elif kind == 'mpoint':
        cs = []
        while len(cs) < rng.randint(1, 4):
            c = G.rand_coord(rng)
            if c not in cs:
                cs.append(c)
        sp = {'kind': 'mpoint', 'cs': zify(cs, 2.0) if z else cs}
    elif kind == 'mline':
        ls = [[G.rand_coord(rng) for _ in range(rng.randint(2, 5))] for _ in range(rng.choice([1, 2, 2, 3]))]
        sp = {'kind': 'mline', 'ls': [zify(l, 5.0 * (j + 1)) for j, l in enumerate(ls)] if z else ls}
    elif kind == 'mpoly':
        # parts well apart and holes well inside their shell: pyshp groups holes by containment, the contract
        # (ESRI's rule read sequentially) is about valid multipolygons
        n = rng.choice([1, 2, 2, 3])
        cx0, cy = rng.randrange(-120, 20) * 1.0, rng.randrange(-50, 51) * 1.0
        sp = {'kind': 'mpoly', 'ps': [poly_spec(rng, z, cx0 + 40.0 * j, cy, rng.choice([8.0, 15.0])) for j in range(n)]}
    elif kind == 'box':
        x, y = G.rand_center(rng)
        w, h = rng.choice([0.25, 1.0, 7.5]), rng.choice([0.25, 2.0, 6.0])
        sp = {'kind': 'box', 'nw': (x, y + h, None), 'se': (x + w, y, None)}
        if w == 7.5 and h >= 2.0 and rng.random() < 0.6:
            sp['holes'] = [{'o': G.rand_ring(rng, x + 3.75, y + h / 2, 0.75, 4)}]
    elif kind == 'circle':
        x, y = G.rand_center(rng)
        sp = {'kind': 'circle', 'c': (x, y, None), 'r': rng.choice([500.0, 1000.0, 50000.0])}
    else:
        raise KeyError(kind)
    return sp


KINDS2D = ['point', 'line', 'poly', 'mpoint', 'mline', 'mpoly', 'box', 'circle']
KINDSZ = ['point', 'line', 'poly', 'mpoint', 'mline', 'mpoly']


def rand_collection(rng, n, z=False, track=False, keyset=None, strings_only=False, kinds=None):
    """specs of one collection.  Z is uniform over the collection (pyshp refuses a shape whose type
    differs from the layer's: a 2-D polygon cannot follow a POLYGONZ)."""
    kinds = kinds or (KINDSZ if z else KINDS2D)
    if keyset is None:
        keyset = rng.sample(KEYPOOL, rng.randint(0, 4))
    if strings_only:
        keyset = [kt for kt in keyset if kt[1] == 'str']
    out = []
    for _ in range(n):
        sp = rand_member(rng, rng.choice(kinds), z)
        sp['dt'] = rand_dt(rng, need=track)
        sp['props'] = rand_props(rng, keyset)
        out.append(sp)
    return out


def build(spec, naive=False):
    sp = dict(spec)
    d = sp.pop('dt', None)
    sp['dt'] = None
    obj = G.build(sp)
    t = mk_dt(d, naive)
    if t is not None:
        obj.set_dt(t)
    return obj


def shape_lit(spec, obj, n):
    """(literal, outer table) ; curved members get the identifier n"""
    sp = dict(spec)
    d = sp.pop('dt', None)
    g, outer, _ = G.geom_lit(sp, obj, enc, None)
    if spec['kind'] == 'circle':
        g = g.replace('(GRound 1 ', f'(GRound {n} ', 1)
        outer = [(n, outer[0][1])]
    g = g.replace('(mk_polygon 720 ', '(mk_polygon hf ').replace('(mk_hole 720 ', '(mk_hole hf ')
    return f'(mkshape {g} {spec_dt_lit(d)} {dlit(spec.get("props") or {})})', outer


def family_of(obj):
    """the writer's families, decided independently of collections.py"""
    if type(obj) is GeoPoint:
        return 'points'
    if type(obj) is MultiGeoPoint:
        return 'multipoints'
    if type(obj) in (GeoLineString, MultiGeoLineString):
        return 'lines'
    return 'shapes'


# ------------------------------------------------------------------ the property on the implementation
def rings3(obj):
    return [[(c.longitude, c.latitude, c.z) for c in r] for r in obj.linear_rings()]


def same_geometry(orig, back):
    """same geometry incl. parts, holes, orientation, Z.  Boxes / circles may come back as the
    GeoPolygon with the same linear rings.  Returns None or a text."""
    if isinstance(orig, (GeoBox, GeoCircle)):
        if not isinstance(back, GeoPolygon):
            return f'{type(orig).__name__} came back as {type(back).__name__}'
        return None if rings3(orig) == rings3(back) else 'linear rings differ'
    if type(orig) is not type(back):
        return f'{type(orig).__name__} came back as {type(back).__name__}'
    if isinstance(orig, GeoPolygon):
        return None if rings3(orig) == rings3(back) else 'linear rings differ'
    if isinstance(orig, MultiGeoPolygon):
        a, b = [rings3(p) for p in orig.geoshapes], [rings3(p) for p in back.geoshapes]
        return None if a == b else 'parts / linear rings differ'
    if isinstance(orig, GeoPoint):
        a, b = orig.centroid, back.centroid
        return None if (a.longitude, a.latitude, a.z) == (b.longitude, b.latitude, b.z) else 'coordinate differs'
    if isinstance(orig, GeoLineString):
        f = lambda s: [(c.longitude, c.latitude, c.z) for c in s.vertices]     # noqa: E731
        return None if f(orig) == f(back) else 'vertices differ'
    if isinstance(orig, MultiGeoPoint):
        f = lambda s: [(p.centroid.longitude, p.centroid.latitude, p.centroid.z) for p in s.geoshapes]   # noqa: E731
        return None if f(orig) == f(back) else 'points differ'
    if isinstance(orig, MultiGeoLineString):
        f = lambda s: [[(c.longitude, c.latitude, c.z) for c in l.vertices] for l in s.geoshapes]   # noqa: E731
        return None if f(orig) == f(back) else 'lines differ'
    return 'unknown type'


def same_value(a, b):
    if isinstance(a, bool) or isinstance(b, bool):
        return isinstance(a, bool) and isinstance(b, bool) and a == b
    if isinstance(a, (int, float)) and isinstance(b, (int, float)):
        return a == b
    return type(a) is type(b) and a == b


def is_missing(v):
    return v is None or v == '' or (isinstance(v, float) and v != v)


def compare_member(path, orig, back, group_keys, folder=None, props=None):
    """-> list of (clause, signature-or-None, text).  props: the property dictionary the member was BUILT from (its spec);
    the member's own dictionary is compared with it separately after the exports"""
    out = []
    g = same_geometry(orig, back)
    if g:
        sig = None
        if path == 'shp' and isinstance(orig, (MultiGeoLineString, MultiGeoPolygon)) and len(orig.geoshapes) == 1 \
                and type(back) in (GeoLineString, GeoPolygon):
            sig = 'shp_single_member_multi'
        out.append(('geometry', sig, g))
    if orig.dt != back.dt:
        out.append(('time bounds', None, f'{orig.dt} came back as {back.dt}'))
    op, bp = (orig._properties if props is None else props), dict(back._properties)
    for k, v in op.items():
        if k not in bp:
            out.append(('properties', 'kml_falsy_property_dropped' if path == 'kml' and not v else None, f'key {k!r} lost'))
            continue
        w = bp.pop(k)
        if not same_value(v, w):
            sig = None
            if path == 'shp' and isinstance(v, float) and v != int(v) and w == int(v):
                sig = 'shp_float_truncated'
            out.append(('properties', sig, f'{k!r}: {v!r} came back as {w!r}'))
    for k, w in bp.items():
        sig = None
        if path == 'shp' and k == 'ID':
            sig = 'shp_id_added'
        elif path == 'shp' and k in group_keys and is_missing(w):
            sig = 'shp_missing_key_filled'
        elif path == 'gpd' and k in group_keys and is_missing(w):
            sig = 'gpd_missing_key_nan'
        elif path == 'kml' and k == 'sub_folder_0' and w == folder and op:
            sig = 'kml_subfolder_injected'
        out.append(('properties', sig, f'extra key {k!r} = {w!r}'))
    return out


# ------------------------------------------------------------------ drivers
def shapefile_roundtrip(coll, cls):
    """-> (namelist, impl result or ('Err', kind), {layer: (fields, [(pyshp shape, gi, record)])})"""
    import shapefile
    d = tempfile.mkdtemp(prefix='c20-')
    try:
        zp = os.path.join(d, 'a.zip')
        try:
            with zipfile.ZipFile(zp, 'w') as z:
                coll.to_shapefile(z)
        except Exception as ex:      # noqa
            return None, ('Err', 'write:' + type(ex).__name__ + ':' + str(ex)[:80]), {}
        with zipfile.ZipFile(zp) as z:
            names = z.namelist()
        back = guarded(lambda: cls.from_shapefile(zp))
        layers = {}
        for nm in names:
            if nm.endswith('.shp'):
                r = shapefile.Reader(os.path.join(zp, nm))
                try:
                    fields = [f for f in r.fields if f[0] != 'DeletionFlag']
                    rows = []
                    for sh, rec in zip(r.shapes(), r.records()):
                        rows.append((sh, copy.deepcopy(sh.__geo_interface__), rec.as_dict()))
                    layers[nm[:-4]] = (fields, rows)
                except (UnicodeError, ValueError, shapefile.ShapefileException) as ex:
                    # the codec cannot read what the writer stored (e.g. a text cell cut inside a UTF-8 character)
                    layers[nm[:-4]] = ('unreadable', type(ex).__name__ + ': ' + str(ex)[:160])
                finally:
                    r.close()
        return names, back, layers
    finally:
        shutil.rmtree(d, ignore_errors=True)


def trunc_map(keys):
    m = {}
    for k in keys:
        if k[:10] in m:
            raise ValueError('field names collide after truncation')
        m[k[:10]] = k
    return m


def main():
    ck = Check('C20')
    ck.build_theories(['theories/Props/C20.vo', 'theories/Corr/ArchiveK.vo'])
    rep = gen_archive.main(REPO, os.path.join(ck.rundir, 'ArchiveGen.v')); ck.gen('ArchiveGen.v', rep, 'ArchiveGenEq.v')
    ck.props('Props/C20.v')
    rng = ck.rng
    quick = ck.tier == 'quick'
    cases, meta = [], []
    flagged = []          # (meta, clause, signature, text)
    nontrivial = set()

    def add(lit, m):
        cases.append(lit)
        meta.append(m)
        ck.count(m['op'])

    def known_or_flag(m, items):
        for clause, sig, text in items:
            flagged.append((m, clause, sig, text))

    # ---------------------------------------------------------------- collections
    n_coll = 70 if quick else 700
    colls = []
    for n in range(n_coll):
        z = n % 4 == 3
        track = n % 5 == 4
        size = rng.randint(0 if n % 7 == 0 and not track else 1, 7)
        colls.append({'specs': rand_collection(rng, size, z=z, track=track), 'track': track, 'z': z, 'naive': n % 6 == 1})
    # fixed regression corpus: two holes + Z, multipolygon with holes in both parts, every dt form, every property type
    sq = [(0.0, 0.0, None), (10.0, 0.0, None), (10.0, 10.0, None), (0.0, 10.0, None)]
    h1 = [(2.0, 2.0, None), (3.0, 2.0, None), (3.0, 3.0, None), (2.0, 3.0, None)]
    h2 = [(5.0, 5.0, None), (5.0, 6.0, None), (6.0, 6.0, None)]
    sq2 = [(40.0, 0.0, None), (50.0, 0.0, None), (50.0, 10.0, None), (40.0, 10.0, None), (40.0, 0.0, None)]
    h3 = [(42.0, 2.0, None), (42.0, 3.0, None), (43.0, 3.0, None)]
    colls.append({'track': False, 'z': False, 'naive': False, 'specs': [
        {'kind': 'poly', 'o': list(reversed(sq)), 'holes': [{'o': h1}, {'o': h2}], 'dt': ('v', 1, 5, 0), 'props': {'s': 'a', 'i': 1, 'b': True, 'f': 1.5}},
        {'kind': 'mpoly', 'ps': [{'o': sq, 'holes': [{'o': h1}, {'o': h2}]}, {'o': sq2, 'holes': [{'o': h3}]}], 'dt': ('i', 2, 1), 'props': {'s': 'b'}},
        {'kind': 'point', 'c': (1.0, 2.0, None), 'dt': None, 'props': {}},
        {'kind': 'box', 'nw': (30.0, 31.0, None), 'se': (31.0, 30.0, None), 'dt': ('v', 3, 3, 0), 'props': {'i': 2}},
        {'kind': 'mline', 'ls': [[(0.0, 0.0, None), (1.0, 1.0, None)], [(3.0, 3.0, None), (4.0, 5.0, None), (6.0, 6.0, None)]], 'dt': None, 'props': {'s': 'c'}},
        {'kind': 'line', 'vs': [(0.0, 0.0, None), (1.0, 1.0, None), (2.0, 0.0, None)], 'dt': ('i', 0, 0), 'props': {}},
        {'kind': 'mpoint', 'cs': [(0.0, 0.0, None), (1.0, 1.0, None)], 'dt': None, 'props': {'b': False}},
    ]})
    colls.append({'track': True, 'z': True, 'naive': False, 'specs': [
        {'kind': 'poly', 'o': zify(list(reversed(sq)), 1.0), 'holes': [{'o': zify(h1, 50.0)}, {'o': zify(h2, 70.0)}], 'dt': ('v', 9, 12, 250000), 'props': {'s': 'a'}},
        {'kind': 'mpoly', 'ps': [{'o': zify(sq, 1.0), 'holes': [{'o': zify(h1, 20.0)}]}, {'o': zify(sq2, 30.0), 'holes': [{'o': zify(h3, 40.0)}]}], 'dt': ('i', 2, 1), 'props': {}},
        {'kind': 'point', 'c': (1.0, 2.0, 7.5), 'dt': ('i', 5, 0), 'props': {'i': 3}},
        {'kind': 'mline', 'ls': [zify([(0.0, 0.0, None), (1.0, 1.0, None)], 1.0), zify([(3.0, 3.0, None), (4.0, 5.0, None)], 9.0)], 'dt': ('i', 5, 0), 'props': {}},
    ]})

    # text that is not ASCII: every column pattern x every geometry-family layer (+ mixed collections, Z, Tracks)
    for fi, family in enumerate(['points', 'multipoints', 'lines', 'shapes', 'all', 'all']):
        for pi_, pattern in enumerate(TEXT_PATTERNS):
            for rep_ in range(1 if quick else 8):
                z = family == 'all' and (fi + pi_ + rep_) % 3 == 0
                track = (fi + pi_ + rep_) % 5 == 4
                colls.append({'specs': text_collection(rng, family, pattern, z=z, track=track), 'track': track, 'z': z,
                              'naive': (fi + pi_) % 6 == 1, 'text': pattern})
    # fixed: the labels of seeded change C20-G's report and one value per UTF-8 width, one layer each
    lab = lambda kind, v, **kw: dict(rand_member(random.Random(7), kind, False), dt=None, props=dict({'label': v}, **kw))   # noqa: E731
    colls.append({'track': False, 'z': False, 'naive': False, 'text': 'fixed', 'specs': [
        lab('point', 'S\u00e3o Paulo'), lab('point', '\u00c6r\u00f8\u2013Fyn'), lab('mpoly', '\u00cele-de-France'), lab('poly', 'abc'),
        lab('line', 'caf\u00e9s', name='\u6771\u4eac'), lab('mline', 'abcdefghij', name='\U0001f600'), lab('mpoint', 'e\u0301')]})

    # deterministic replays of the known findings (fixed inputs; each prints its KNOWN-FINDING line only while it reproduces)
    pt = lambda x, **kw: dict({'kind': 'point', 'c': (x, 2.0, None), 'dt': None, 'props': {}}, **kw)     # noqa: E731
    colls.append({'track': False, 'z': False, 'naive': False, 'specs': [
        pt(1.0, props={'f': 1.5, 's': 'x', 'zero': 0}), pt(2.0),                                            # D38 D39 D40 D42 D43 D45 D46
        {'kind': 'mpoint', 'cs': [(0.0, 0.0, None), (1.0, 1.0, None)], 'dt': None, 'props': {}},              # D41 (repaired): regression
        {'kind': 'mline', 'ls': [[(0.0, 0.0, None), (1.0, 1.0, None)]], 'dt': None, 'props': {}},              # D44
        {'kind': 'mpoly', 'ps': [{'o': sq}], 'dt': None, 'props': {}}]})
    colls.append({'track': False, 'z': False, 'naive': False, 'specs': [pt(1.0, props={'s': 'x', 'e': ''}), pt(2.0, props={'s': 'y'})]})   # D43, D46

    # -------- order: dedicated collections whose members carry a unique id
    for n in range(40 if quick else 400):
        size = rng.randint(2, 12)
        kinds = [rng.choice(KINDS2D) for _ in range(size)]
        objs = []
        for i, kd in enumerate(kinds):
            sp = rand_member(rng, kd, False)
            sp['props'] = {'uid': i}
            sp['dt'] = None
            objs.append(build(sp))
        names, back, _ = shapefile_roundtrip(FeatureCollection(objs), FeatureCollection)
        m = {'op': 'order', 'kinds': kinds}
        if back[0] != 'Ok':
            flagged.append((m, 'order', None, f'round trip raised {back[1]}'))
            continue
        observed = [s._properties.get('uid') for s in back[1].geoshapes]
        add(f'KOrder {listlit([REP_GEOM[k] for k in kinds])} {listlit([zlit(-1 if u is None else u) for u in observed])}', dict(m, observed=observed))
        nontrivial.add(('order', tuple(kinds)))
        # the property itself: same order within each family
        famidx = {f: [i for i, o in enumerate(objs) if family_of(o) == f] for f in FAMILIES}
        want = [i for f in FAMILIES for i in famidx[f]]
        if observed != want:
            flagged.append((m, 'order', None, f'read back in order {observed}, expected {want}'))
        if names is not None and [x[:-4] for x in names if x.endswith('.shp')] != [f for f in FAMILIES if famidx[f]]:
            flagged.append((m, 'order', None, f'layers in the archive: {names}'))

    for cn, c in enumerate(colls):
        specs = c['specs']
        cls = Track if c['track'] else FeatureCollection
        if cn % 3 == 1:
            # the same collection reached through a history: built in an older state (each member without its last
            # property, and - outside Tracks - without time bounds), exported once by every route, then brought to the
            # target state by in-place updates of the members.  What is written afterwards must describe the members
            # as they are NOW (new keys and time columns included), whatever was exported before.
            objs0 = []
            for sp in specs:
                old = dict(sp)
                props = dict(sp.get('props') or {})
                last = list(props)[-1] if props else None
                if last is not None:
                    del props[last]
                old['props'] = props
                if not c['track']:
                    old['dt'] = None
                objs0.append(build(old, c['naive']))
            coll = cls(objs0)
            guarded(lambda: coll.to_geopandas())
            guarded(lambda: shapefile_roundtrip(coll, cls))
            guarded(lambda: coll.to_fastkml_folder('before'))
            for sp, o in zip(specs, objs0):
                props = sp.get('props') or {}
                if props:
                    last = list(props)[-1]
                    o.set_property(last, props[last])
                if not c['track'] and sp.get('dt') is not None:
                    o.set_dt(mk_dt(sp['dt'], c['naive']))
            ck.count('collection exported before its members were updated in place')
        else:
            objs0 = [build(sp, c['naive']) for sp in specs]
            coll = cls(objs0)
        order = [next(i for i, x in enumerate(objs0) if x is o) for o in coll.geoshapes]      # Track sorts (stably)
        specs = [specs[i] for i in order]
        objs = list(coll.geoshapes)
        base = {'coll': cn, 'track': c['track'], 'z': c['z'], 'naive': c['naive'], 'specs': specs}
        lits = [shape_lit(sp, o, i + 1) for i, (sp, o) in enumerate(zip(specs, objs))]
        outer = [t for _, tab in lits for t in tab]
        outer_lit = G.tablit(outer, enc)
        all_keys = {k for o in objs for k in o.properties}

        # ---------------- shapefile
        names, back, layers = shapefile_roundtrip(coll, cls)
        m = dict(base, op='shapefile')
        fam = {f: [i for i, o in enumerate(objs) if family_of(o) == f] for f in FAMILIES}
        if back[0] != 'Ok':
            flagged.append((m, 'shapefile', None, f'round trip raised {back[1]}'))
        else:
            got = back[1].geoshapes
            want_n = len(objs)
            if len(got) != want_n:
                flagged.append((m, 'order', None, f'{want_n} shapes written, {len(got)} read'))
            pos = 0
            for f in FAMILIES:
                idxs = fam[f]
                ids = [s_._properties.get('ID') for s_ in got if family_of(s_) == f or
                       (f == 'lines' and type(s_) is GeoLineString) or (f == 'shapes' and type(s_) is GeoPolygon)]
                if ids != list(range(len(idxs))):
                    flagged.append((m, 'order', None, f'family {f}: read back in layer order {ids}'))
                if not idxs:
                    continue
                if f in layers and layers[f][0] == 'unreadable':
                    flagged.append((dict(m, layer=f, members=idxs), 'properties', None,
                                    f'layer {f} was written but cannot be read back by the codec: {layers[f][1]}'))
                    pos += len(idxs)
                    continue
                if f not in layers or len(layers[f][1]) != len(idxs):
                    flagged.append((m, 'order', None, f'layer {f} missing or of the wrong size'))
                    pos += len(idxs)
                    continue
                fields, rows = layers[f]
                gkeys = {k for i in idxs for k in objs[i].properties}
                try:
                    tm = trunc_map(gkeys)
                    keys = [tm[fl[0]] for fl in fields if fl[0] != 'ID']
                except (KeyError, ValueError) as ex:
                    flagged.append((m, 'properties', None, f'fields {[fl[0] for fl in fields]} vs keys {sorted(gkeys)}: {ex}'))
                    pos += len(idxs)
                    continue
                types = [FTYPE.get(fl[1], 'FC') for fl in fields if fl[0] != 'ID']
                members = []
                if isinstance(back[1], Track):
                    # a Track re-sorts what it read: pair by the layer's ID instead of by position
                    layer_back = sorted([s for s in got if family_of_back(s, f)], key=lambda s: s._properties.get('ID', -1))
                else:
                    layer_back = got[pos:pos + len(idxs)]
                for j, i in enumerate(idxs):
                    sh, gi, rec = rows[j]
                    res = ('Ok', layer_back[j]) if j < len(layer_back) else ('Err', 'OtherError')
                    members.append(f'(mkmo {lits[i][0]} {pshape_lit(sh)} {gi_lit(gi)} {dlit(rec)} {res_shape_lit(res)})')
                    if res[0] == 'Ok':
                        known_or_flag(dict(m, member=i, layer=f), compare_member('shp', objs[i], res[1], gkeys, props=specs[i].get('props') or {}))
                add(f'KLayer {outer_lit} [] {listlit([G.slit(k) for k in keys])} {listlit(types)} {listlit(members)}',
                    dict(m, layer=f, members=idxs))
                nontrivial.add(('layer', cn, f))
                pos += len(idxs)

        # ---------------- GeoPandas
        m = dict(base, op='geopandas')
        has_mp = any(isinstance(o, MultiGeoPoint) for o in objs)
        df = guarded(lambda: coll.to_geopandas())
        if df[0] != 'Ok':
            flagged.append((m, 'geopandas', None, f'to_geopandas raised {df[1]}'))
        else:
            df = df[1]
            cols = [cname for cname in df.columns if cname != 'geometry']
            recs = df.to_dict('records')
            whole = guarded(lambda: cls.from_geopandas(df))
            if whole[0] != 'Ok':
                flagged.append((m, 'geopandas', None,      # (D41, the nested MULTIPOINT text of Shapely 2, is repaired: a refusal is a violation again)
                                f'from_geopandas raised {whole[1]}'))
            rows = []
            for i, (o, rec) in enumerate(zip(objs, recs)):
                one = guarded(lambda: FeatureCollection.from_geopandas(df.iloc[[i]]))
                tok = W.tokenize(rec['geometry'].wkt)
                if one[0] == 'Ok':
                    b = one[1].geoshapes[0]
                    props = [(k, b._properties[k]) for k in b._properties]
                    rl = f'(Ok (mkgshape {G.obs_geom(b, enc)} {G.dtlit(b.dt)} {prow_lit(props)}))'
                else:
                    rl = f'(Err {one[1]})'
                rows.append(f'(mkgo {lits[i][0]} {prow_lit([(k, rec[k]) for k in cols])} {W.wkt_lit(tok, enc)} {rl})')
            if set(cols) != set(all_keys):
                flagged.append((m, 'properties', None, f'columns {cols} vs keys {sorted(all_keys)}'))
            else:
                add(f'KGpd {outer_lit} [] {listlit([G.slit(k) for k in cols])} {listlit(rows)}', m)
                nontrivial.add(('gpd', cn))
            if whole[0] == 'Ok':
                got = whole[1].geoshapes
                if len(got) != len(objs):
                    flagged.append((m, 'order', None, 'row count differs'))
                elif not c['track'] or True:
                    for i, (o, b) in enumerate(zip(objs, got)):
                        known_or_flag(dict(m, member=i), compare_member('gpd', o, b, all_keys, props=specs[i].get('props') or {}))

        # ---------------- KML (string properties only are supported by fastkml; the rest is finding D45)
        m = dict(base, op='kml')
        folder_name = 'fold' + str(cn)
        pms = []
        for i, o in enumerate(objs):
            r = guarded(lambda: o.to_fastkml_placemark())
            mm = dict(m, member=i)
            nonstr = any(v and not isinstance(v, str) for v in o._properties.values())
            if r[0] != 'Ok':
                add(f'KKml {G.tablit(lits[i][1], enc)} [] {G.slit(folder_name)} {lits[i][0]} (KWriteErr {r[1]})', mm)
                flagged.append((mm, 'kml', 'kml_nonstring_property_raises' if nonstr else None, f'to_fastkml_placemark raised {r[1]}'))
                pms.append(None)
                continue
            pms.append(r[1])
        if all(p is not None for p in pms):
            from fastkml import Folder
            folder = Folder(name=folder_name, features=pms)
            whole = guarded(lambda: cls.from_fastkml_folder(coll.to_fastkml_folder(folder_name)))
            if whole[0] != 'Ok':
                flagged.append((m, 'kml', None, f'folder round trip raised {whole[1]}'))
            else:
                got = whole[1].geoshapes
                if len(got) != len(objs):
                    flagged.append((m, 'order', None, 'placemark count differs'))
                else:
                    for i, (o, b) in enumerate(zip(objs, got)):
                        known_or_flag(dict(m, member=i), compare_member('kml', o, b, all_keys, folder_name, props=specs[i].get('props') or {}))
            for i, (o, pm) in enumerate(zip(objs, pms)):
                gi = tolist(copy.deepcopy(pm.geometry.__geo_interface__))
                data = {e.name: e.value for e in (pm.extended_data.elements if pm.extended_data else [])}
                one = guarded(lambda: FeatureCollection.from_fastkml_folder(Folder(name=folder_name, features=[pm])).geoshapes[0])
                add(f'KKml {G.tablit(lits[i][1], enc)} [] {G.slit(folder_name)} {lits[i][0]} '
                    f'(KRead (mkpm {G.jlit(gi, enc)} {ktime_lit(pm.times)} {dlit(data)}) {res_shape_lit(one)})', dict(m, member=i))
            nontrivial.add(('kml', cn))

        # the exports must leave the members as they were built (the comparisons above are against the specs)
        for i, (sp, o) in enumerate(zip(specs, objs)):
            if dict(o._properties) != (sp.get('props') or {}):
                flagged.append((dict(base, op='shapefile', member=i), 'properties', None,
                                f'after the exports the member holds {o._properties!r}, built with {sp.get("props")!r}'))
        if 'text' in c:
            ck.count('text-collection:' + c['text'])
            for sp in specs:
                for v in (sp.get('props') or {}).values():
                    if isinstance(v, str) and nbytes(v) > len(v):
                        nontrivial.add(('text', v))
                        ck.count(f'text value with {min(nbytes(v) - len(v), 10)}{"+" if nbytes(v) - len(v) >= 10 else ""} bytes more than characters')

    # ---- observation only (never a violation, never a KNOWN-FINDING line): text beyond the 50-byte column that
    # to_shapefile declares (outside the claimed domain).  Counted so that the evidence shows what the tree does there:
    # cut at 50 bytes; unreadable layer when the cut falls inside a character; 254 is the DBF format's own limit.
    for label, v in (('51 bytes, cut inside a character', 'a' + '\u00e9' * 25), ('52 bytes, cut between characters', '\u00e9' * 26),
                     ('51 ASCII bytes', 'a' * 51), ('254 ASCII bytes', 'a' * 254), ('300 ASCII bytes', 'a' * 300)):
        o = GeoPoint(Coordinate(1.0, 2.0), properties={'label': v})
        _, back, _ = shapefile_roundtrip(FeatureCollection([o]), FeatureCollection)
        if back[0] != 'Ok':
            res = 'layer unreadable (' + str(back[1])[:40] + ')'
        else:
            w = back[1].geoshapes[0]._properties.get('label')
            res = 'kept' if w == v else f'cut to {nbytes(w)} bytes' if isinstance(w, str) and v.startswith(w) else 'changed'
        ck.count(f'observed beyond the 50-byte column: {label} -> {res}')

    ck.cov['evaluations'] = len(cases)
    ck.cov['distinct_nontrivial'] = len(nontrivial)
    for i in (0, len(cases) // 3, len(cases) // 2, len(cases) - 1):
        if cases:
            ck.sample(cases[min(i, len(cases) - 1)][:500])

    bad, broken = ck.corr('archive', 'From Coq Require Import String.\nFrom GV Require Import Prelude RingM GeoJsonM WktM ArchiveM ArchiveK.\n'
                          'Open Scope string_scope. Open Scope Z_scope.', 'check', cases, chunk=12)

    reported = 0
    for i in bad:
        if reported >= 5:
            break
        ck.violation({'kind': 'model-vs-implementation (writer glue, codec contract, or reader glue)', 'case': meta[i],
                      'gallina_case': cases[i][:20000],
                      'theorems': 'C20_* (Props/C20.v) are statements about the model at this input, under the codec contracts checked here',
                      'how_to_replay': 'bin/check C20 --replay <this file>'})
        reported += 1

    # known finding D54 (deterministic replay; the generators keep text within 50 UTF-8 bytes): longer text is cut at 50 bytes,
    # and a cut inside a multi-byte character makes the layer unreadable
    for f in ck.findings:
        if f.get('status') == 'open' and f.get('signature') == 'shp_text_over_50_bytes':
            def _rt(val):
                fc = FeatureCollection([GeoPoint(Coordinate(1.0, 2.0), properties={'label': val})])
                _n, back, _l = shapefile_roundtrip(fc, FeatureCollection)
                return back
            b1, b2 = _rt(f['replay']['cut']), _rt(f['replay']['unreadable'])
            cut = b1[0] == 'Ok' and b1[1].geoshapes[0].properties.get('label') == f['replay']['cut'][:50]
            if cut and b2[0] != 'Ok':
                ck.known(f)

    seen = set()
    for m, clause, sig, text in flagged:
        f = None
        if sig is not None:
            f = next((x for x in ck.findings if x.get('status') == 'open' and x.get('signature') == sig), None) or BUILTIN.get(sig)
        if f:
            ck.known(f)
            continue
        key = (m['op'], clause)
        if key in seen or reported >= 10:
            continue
        seen.add(key)
        ck.violation({'kind': 'property-fails-on-implementation', 'clause': clause, 'detail': text, 'case': m,
                      'how_to_replay': 'bin/check C20 --replay <this file>'})
        reported += 1

    ck.finish(rule='seeded: FeatureCollections and Tracks of 0..7 members of kinds point, line, polygon (0-2 holes), multipoint, '
                   'multiline (1-3), multipolygon (1-3 parts, holes), box (with hole), circle; dt {none, instant, interval; '
                   'microseconds; aware / naive}; properties string/int/bool/float with a uniform type per key and keys missing on '
                   'some members; with and without Z (uniform per collection, distinct per vertex); each really written to a zip '
                   'archive / frame / folder and read back; + dedicated collections with unique ids for the family order; '
                   'fixed corpus with two holes + Z and multipolygon holes; string properties that are not ASCII (column patterns: '
                   'mixed widths, longest value ASCII while a shorter one is longer in bytes, equal character counts, single '
                   'characters, exactly 50 bytes, empty next to non-ASCII) per geometry-family layer, through all three routes, '
                   'compared with the specs.  non-trivial = distinct (collection, layer | frame | folder | order) + distinct text values with more bytes than characters',
              assumptions=['CONTRACT pyshp: what to_pyshp hands over is what is stored; __geo_interface__ = ESRI rule read sequentially (esri_gi); '
                           'shape.z in written order; DBF: names cut to 10, C/N(decimal 0)/L cells as dbf_cell_ref — checked on every case',
                           'CONTRACT pandas/shapely: cells as pd_cell_ref for the inferred column kind; WKT body and keyword as the '
                           "library's to_wkt (a MultiPoint comes back in the nested OGC form, which the reader accepts since repair D41) — checked on every case",
                           'CONTRACT fastkml/pygeoif: geo interface keeps type and coordinates, times and extended data unchanged — checked on every case',
                           'coordinates are multiples of 1e-7 degree in canonical range; polygons are valid (holes inside their shell, parts disjoint); '
                           'non-zero ring areas; Z never 0 (D14) and uniform within a collection; field names <= 10 UTF-8 bytes, text <= 50 '
                           'UTF-8 bytes (the column width to_shapefile declares; ASCII and 2-, 3-, 4-byte characters and combining marks '
                           'are generated, compared byte for byte) without surrounding white space and control characters; M values '
                           'outside the property',
                           'datetime.isoformat/fromisoformat inverse (stdlib; observed)'])


def family_of_back(s, f):
    return family_of(s) == f


def replay(path):
    r = json.load(open(path))
    m = r.get('case') or {}
    print(json.dumps({k: v for k, v in r.items() if k != 'gallina_case'}, indent=1, default=str)[:4000])

    def tup(x):
        if isinstance(x, list):
            if len(x) == 3 and all(isinstance(v, (int, float)) or v is None for v in x) and isinstance(x[0], (int, float)):
                return tuple(x)
            return [tup(y) for y in x]
        if isinstance(x, dict):
            return {k: (tuple(v) if k == 'dt' and isinstance(v, list) else tup(v)) for k, v in x.items()}
        return x
    if 'specs' not in m:
        return
    specs = tup(m['specs'])
    cls = Track if m.get('track') else FeatureCollection
    objs = [build(sp, m.get('naive', False)) for sp in specs]
    coll = cls(objs)
    op = m.get('op')
    if op == 'shapefile':
        names, back, layers = shapefile_roundtrip(coll, cls)
        print('archive:', names)
        got = back[1].geoshapes if back[0] == 'Ok' else back
    elif op == 'geopandas':
        back = guarded(lambda: cls.from_geopandas(coll.to_geopandas()))
        got = back[1].geoshapes if back[0] == 'Ok' else back
    else:
        back = guarded(lambda: cls.from_fastkml_folder(coll.to_fastkml_folder('fold')))
        got = back[1].geoshapes if back[0] == 'Ok' else back
    print('written:')
    for o in coll.geoshapes:
        print('  ', type(o).__name__, o.dt, o._properties, o.to_wkt()[:300])
    print('read back now:')
    if isinstance(got, tuple):
        print('  ', got)
    else:
        for o in got:
            print('  ', type(o).__name__, o.dt, o._properties, o.to_wkt()[:300])


if __name__ == '__main__':
    if '--replay' in sys.argv:
        replay(sys.argv[sys.argv.index('--replay') + 1])
    else:
        main()
