#!/usr/bin/env python3
"""C12 - hashing a shape returns exactly the geohash cells it touches.  DESIGN.md section 5 / C12.

Tie (K): the flood fill, the multi-shape union and the group-by/aggregation are compared with the
model (FloodM.v) by vm_compute.  The per-cell test `touch` is NOT modelled: it is the table of
answers the implementation itself gives (niemeyer_to_geobox(cell).intersects_shape(shape)) for
every cell of an enlarged window; neighbours and the start cell are computed by the model
(through the C11 codec model), so `_get_surrounding` and the loop are what is being compared.
The property itself is also evaluated on the implementation's answers (result == touched set of
the window, multi == union of members, collection values == aggregation over exactly the shapes
whose own hash set has the cell).  H3 clauses: fixed corpus only, no theorem (see the evidence);
polygon-like shapes there (full GeoRings alone / in a MultiGeoPolygon / in a collection, wedges,
shapes with listed holes) are judged cell by cell over a neighbourhood with the shape's own analytic
contains_coordinate: centre inside => returned, centre outside => not returned."""
import itertools
import json
import math
import os
import signal
import sys
import traceback
from datetime import datetime, timedelta, timezone
from fractions import Fraction as F

sys.path.insert(0, os.path.dirname(os.path.abspath(__file__)))
from lib import Check, REPO, guarded, zlit, blit, qlit, listlit   # noqa: E402
import gen_geohash                                                  # noqa: E402  (tools/)
import gen_flood                                                    # noqa: E402  (tools/)

import logging                                                      # noqa: E402
logging.disable(logging.CRITICAL)
from geostructures import (Coordinate, GeoBox, GeoCircle, GeoLineString, GeoPoint, GeoPolygon, GeoRing)   # noqa: E402
from geostructures.multistructures import MultiGeoLineString, MultiGeoPoint, MultiGeoPolygon       # noqa: E402
from geostructures.collections import FeatureCollection, Track    # noqa: E402
from geostructures.time import TimeInterval                       # noqa: E402
from geostructures.utils import agg_functions                     # noqa: E402
from geostructures import geohash as GH                           # noqa: E402

CFG = GH._NIEMEYER_CONFIG
T0 = datetime(2021, 3, 4, 5, 6, 7, tzinfo=timezone.utc)


class CallTimeout(Exception):
    pass


TIMEOUTS = [0]


def timed(fn, secs=20):
    """run an implementation call under an alarm, so that a flood fill that no longer terminates
    becomes an answer ('Err', OtherError via guarded) instead of a hung check; after two timeouts
    the remaining calls get 2 s each (the run is a violation anyway)"""
    secs = secs if TIMEOUTS[0] < 2 else 2

    def handler(signum, frame):
        TIMEOUTS[0] += 1
        raise CallTimeout(f'no answer within {secs}s')
    old = signal.signal(signal.SIGALRM, handler)
    signal.alarm(secs)
    try:
        return fn()
    finally:
        signal.alarm(0)
        signal.signal(signal.SIGALRM, old)


# ------------------------------------------------------------------ literals
def slit(s):
    if all(32 <= ord(ch) < 127 and ch != '"' for ch in s):
        return f'(codes "{s}")'
    return listlit([f'{ord(ch)}%Z' for ch in s])


def fq(x):
    return qlit(F(x))


def setlit(cells):
    return listlit([slit(c) for c in cells])


# ------------------------------------------------------------------ shapes from constructor-level descriptions
def build(d):
    k = d['kind']
    C = lambda p: Coordinate(p[0], p[1])    # noqa: E731
    kw = {}
    if d.get('dt') is not None:
        a, b = d['dt']
        kw['dt'] = TimeInterval(T0 + timedelta(seconds=a), T0 + timedelta(seconds=b))
    if d.get('props') is not None:
        kw['properties'] = dict(d['props'])
    if k == 'point':
        return GeoPoint(C(d['p']), **kw)
    if k == 'line':
        return GeoLineString([C(p) for p in d['pts']], **kw)
    if k == 'poly':
        holes = [GeoPolygon([C(p) for p in h]) for h in d.get('holes', [])]
        return GeoPolygon([C(p) for p in d['pts']], holes=holes or None, **kw)
    if d.get('holes') and k in ('box', 'circle', 'ring'):
        kw['holes'] = [build(h) if isinstance(h, dict) else GeoPolygon([C(p) for p in h]) for h in d['holes']]
    if k == 'box':
        return GeoBox(C(d['nw']), C(d['se']), **kw)
    if k == 'circle':
        return GeoCircle(C(d['c']), d['r'], **kw)
    if k == 'ring':
        # full annulus (a0, a1 = 0, 360) or wedge; the inner void of a full ring is NOT in .holes
        return GeoRing(C(d['c']), d['r_in'], d['r_out'], d.get('a0', 0.0), d.get('a1', 360.0), **kw)
    if k == 'multipoint':
        return MultiGeoPoint([build(m) for m in d['members']], **kw)
    if k == 'multiline':
        return MultiGeoLineString([build(m) for m in d['members']], **kw)
    if k == 'multipoly':
        return MultiGeoPolygon([build(m) for m in d['members']], **kw)
    raise ValueError(k)


def outline_points(shape):
    if isinstance(shape, GeoLineString):
        return list(shape.vertices)
    return list(shape.bounding_coords())


def start_coord(shape):
    return shape.vertices[0] if isinstance(shape, GeoLineString) else shape.bounding_coords()[0]


def cell_dims(base, L):
    _, _, ex, ey = GH._decode_niemeyer(CFG[base]['charset'][0] * L, base)
    return 2 * ex, 2 * ey


def window_cells(shape, base, L, ring=2):
    """every cell overlapping the shape's vertex bounds enlarged by `ring` cells (grid-aligned)"""
    pts = outline_points(shape)
    xs = [p.longitude for p in pts]
    ys = [p.latitude for p in pts]
    w, h = cell_dims(base, L)
    lon0, lat0, _, _ = GH._decode_niemeyer(GH._coord_to_niemeyer(Coordinate(min(xs), min(ys)), L, base), base)
    nx = int(math.ceil((max(xs) - min(xs)) / w)) + 1
    ny = int(math.ceil((max(ys) - min(ys)) / h)) + 1
    out = []
    for i in range(-ring, nx + ring + 1):
        for j in range(-ring, ny + ring + 1):
            x, y = lon0 + i * w, lat0 + j * h
            if -180 < x < 180 and -90 < y < 90:
                out.append(GH._coord_to_niemeyer(Coordinate(x, y), L, base))
    return sorted(set(out))


def window_safe(shape, base, L, ring=4):
    """the enlarged window stays clear of lon +-180 (D12) and of the poles (Coordinate wrapping)"""
    pts = outline_points(shape)
    w, h = cell_dims(base, L)
    return (min(p.longitude for p in pts) - (ring + 1) * w > -180 and max(p.longitude for p in pts) + (ring + 1) * w < 180 and
            min(p.latitude for p in pts) - (ring + 1) * h > -88 and max(p.latitude for p in pts) + (ring + 1) * h < 88)


def touch_table(shape, base, cells):
    return {c: bool(GH.niemeyer_to_geobox(c, base).intersects_shape(shape)) for c in cells}


# ------------------------------------------------------------------ generators (seeded)
def star(rng, cx, cy, rx, ry, n, lo=0.45):
    angs = sorted(rng.uniform(0, 2 * math.pi) for _ in range(n))
    # keep the angular gaps below pi so that the polygon is star-shaped around the centre
    if max(b - a for a, b in zip(angs, angs[1:] + [angs[0] + 2 * math.pi])) > 2.6:
        angs = [2 * math.pi * (i + rng.uniform(0.1, 0.9)) / n for i in range(n)]
    pts = [(cx + rx * rng.uniform(lo, 1) * math.cos(a), cy + ry * rng.uniform(lo, 1) * math.sin(a)) for a in angs]
    return pts + [pts[0]]


def gen_single(rng, base, L, kind, scale):
    w, h = cell_dims(base, L)
    margin = 6                   # cells kept free between the shape and lon +-180 / lat +-88
    sx = min(w * rng.uniform(*scale), 340 - 2 * margin * w)
    sy = min(h * rng.uniform(*scale), 170 - 2 * margin * h)
    if sx < w or sy < h:
        raise RuntimeError('cells too large for a shape with a safe window')
    for _ in range(50):
        cx = rng.uniform(-175 + sx / 2 + margin * w, 175 - sx / 2 - margin * w)
        cy = rng.uniform(-86 + sy / 2 + margin * h, 86 - sy / 2 - margin * h)
        if kind == 'poly':
            d = {'kind': 'poly', 'pts': star(rng, cx, cy, sx / 2, sy / 2, rng.randint(4, 9))}
        elif kind == 'polyhole':
            outer = star(rng, cx, cy, sx / 2, sy / 2, rng.randint(5, 9), lo=0.8)
            hole = [(cx + (x - cx) * 0.45, cy + (y - cy) * 0.45) for x, y in outer]
            d = {'kind': 'poly', 'pts': outer, 'holes': [hole]}
        elif kind == 'line':
            d = {'kind': 'line', 'pts': [(cx + rng.uniform(-sx / 2, sx / 2), cy + rng.uniform(-sy / 2, sy / 2))
                                         for _ in range(rng.randint(2, 5))]}
        elif kind == 'box':
            d = {'kind': 'box', 'nw': (cx - sx / 2, cy + sy / 2), 'se': (cx + sx / 2, cy - sy / 2)}
        elif kind == 'circle':
            r_deg = min(sx, sy) / 2
            d = {'kind': 'circle', 'c': (cx, cy), 'r': r_deg * 111_000 * math.cos(math.radians(cy))}
        else:
            raise ValueError(kind)
        s = build(d)
        if window_safe(s, base, L):
            return d, s
    raise RuntimeError('no placement')


LENGTHS = {16: [3, 4, 5], 32: [2, 3, 4], 64: [2, 3]}

# Shapes WITHOUT entries in .holes that do not contain their own centroid (nor the centre of their bounds, nor the
# centre of their circumscribing circle).  Mechanism class: the flood fill is started from / pruned by a point or
# region DERIVED from the shape (centroid, bounds, centre) on the assumption that a hole-free shape contains it.
# Sizes are chosen in cells, so that the derived point's cell -- and usually its whole 3x3 neighbourhood -- is
# disjoint from the shape: U / C (all four openings), thin L, chevron polygons; GeoRing annuli (their void is not in
# .holes); wedges wider than 180 degrees (angle_min == 0: .centroid is the centre; otherwise the outline's centroid).
CONCAVE = ['U', 'ring', 'L', 'wedge', 'chevron']
CONCAVE_LENGTHS = {16: [4, 5], 32: [3, 4], 64: [3]}


def gen_concave(rng, base, L, kind):
    """-> (description, shape, info); info['centroid_cell'] in 'untouched-3x3' | 'untouched' | 'touched' (fallback)"""
    w, h = cell_dims(base, L)
    last = None
    for attempt in range(80):
        grow = 1 + (attempt // 20) * 0.3
        cx, cy = rng.uniform(-120, 120), rng.uniform(-45, 45)
        if kind in ('U', 'L', 'chevron'):
            t = rng.uniform(1.1, 1.6)
            if kind == 'U':
                W, H = rng.uniform(7.5, 10) * grow, rng.uniform(6.5, 9) * grow
                pts = [(0, 0), (W, 0), (W, H), (W - t, H), (W - t, t), (t, t), (t, H), (0, H)]
            elif kind == 'L':
                A, B = rng.uniform(8, 11) * grow, rng.uniform(8, 11) * grow
                pts = [(0, 0), (A, 0), (A, t), (t, t), (t, B), (0, B)]
            else:
                W, H, t2 = rng.uniform(15, 19) * grow, rng.uniform(8, 10) * grow, rng.uniform(1.5, 2.2)
                pts = [(0, 0), (W / 2, H), (W, 0), (W / 2, H - t2)]
            rot, flip = rng.randrange(4), rng.random() < 0.5
            out = []
            for u, v in pts:
                u, v = u + rng.uniform(-0.12, 0.12), v + rng.uniform(-0.12, 0.12)
                if flip:
                    u = -u
                for _ in range(rot):
                    u, v = -v, u
                out.append((cx + u * w, cy + v * h))
            first = rng.randrange(len(out))          # any vertex may be the first one of the outline
            out = out[first:] + out[:first]
            d = {'kind': 'poly', 'pts': out + [out[0]]}
        else:
            m = max(w * math.cos(math.radians(cy)), h) * 111_320
            r_in = rng.uniform(2.6, 3.2) * m * grow
            r_out = r_in + rng.uniform(1.0, 1.6) * m
            d = {'kind': 'ring', 'c': (cx, cy), 'r_in': r_in, 'r_out': r_out}
            if kind == 'wedge':
                a0 = 0.0 if rng.random() < 0.4 else rng.uniform(5, 170)
                d.update(a0=a0, a1=a0 + rng.uniform(200, 320))
        s = build(d)
        if not window_safe(s, base, L):
            continue
        c = s.centroid
        g = GH._coord_to_niemeyer(c, L, base)
        near = [g] + list(GH.NiemeyerHasher._get_surrounding(g, base))
        touched = [bool(GH.niemeyer_to_geobox(x, base).intersects_shape(s)) for x in near]
        info = {'centroid': list(c.to_float()), 'centroid_cell': 'touched' if touched[0] else 'untouched' if any(touched) else 'untouched-3x3',
                'contains_centroid': bool(s.contains_coordinate(c))}
        last = (d, s, info)
        if not touched[0] and not info['contains_centroid'] and (not any(touched) or attempt >= 40):
            return last
    if last is None:
        raise RuntimeError('no placement')
    return last


def main():
    ck = Check('C12')
    ck.build_theories(['theories/Props/C12.vo', 'theories/Props/C12b.vo', 'theories/Props/C12c.vo', 'theories/Corr/FloodK.vo'])
    # the flood's neighbours and start cell go through the C11 codec model: re-tie its tables
    rep = gen_geohash.main(REPO, os.path.join(ck.rundir, 'GeohashCfgGen.v'))
    ck.gen('GeohashCfgGen.v', rep, 'GeohashCfgGenEq.v')
    # translator tie (T) for NiemeyerHasher: flood-fill condition / step / visit, multi-shape union, hash_shape dispatch,
    # the group-by loops and _get_surrounding, regenerated from the working tree and proved equal to FloodM
    rep = gen_flood.main(REPO, os.path.join(ck.rundir, 'FloodGen.v'))
    ck.gen('FloodGen.v', rep, 'FloodGenEq.v')
    ck.props('Props/C12.v')
    ck.props('Props/C12b.v')     # connectivity hypothesis discharged for rectangles / L-convex cell sets and the concrete geohash neighbourhood
    ck.props('Props/C12c.v')     # C02b x C12b: for a hole-free GeoBox query the implementation-model per-cell test IS the geometric box test; hashing it is exact

    rng = ck.rng
    thorough = ck.tier == 'thorough'
    cases, meta, flagged = [], [], {}
    nontrivial = set()

    def add(lit, m):
        cases.append(lit)
        meta.append(m)
        return len(cases) - 1

    def flag(i, clause, detail):
        flagged.setdefault(i, []).append([clause, detail])

    def total(kind):
        """make a case builder total: an answer of an unexpected shape/type or an unexpected exception
        becomes a case that can only mismatch (KBad) carrying the arguments -- never a harness crash"""
        def deco(fn):
            def wrapped(*a, **kw):
                try:
                    return fn(*a, **kw)
                except Exception as ex:   # noqa
                    i = add('KBad', {'k': kind, 'args': [json.loads(json.dumps(x, default=repr)) for x in a],
                                     'harness_exception': traceback.format_exc()[-1500:]})
                    flag(i, 'malformed-answer', f'{kind}: the implementation\'s answer could not be encoded/evaluated ({ex!r})')
                    return None
            return wrapped
        return deco

    # ---------------------------------------------------------------- flood fill of single shapes
    @total('flood')
    def flood_case(d, base, L, source, check_contained=False, info=None):
        s = build(d)
        if d['kind'] in ('circle', 'ellipse', 'ring') or len(cases) % 2:
            # the shape has a past: it was exported and queried with coarse explicit resolutions before being hashed.
            # Hashing looks at the shape, not at how it was drawn last (the per-cell table below is taken on a fresh twin)
            guarded(lambda: (s.to_geojson(k=8), s.to_wkt(k=6), s.bounds, s.centroid,
                             s.intersects_shape(GH.niemeyer_to_geobox(GH._coord_to_niemeyer(start_coord(s), L, base), base), k=5)))
            ck.count('hashed after coarse-k exports / queries on the same object')
        hasher = GH.NiemeyerHasher(L, base)
        if len(cases) % 3 == 0:
            # answers are values, not shared storage: the same hasher answered for this very object before and the
            # caller consumed that answer in place (memoised / reused result sets would now be empty or foreign)
            def consumed():
                first = hasher.hash_shape(s)
                if isinstance(first, (set, list, dict)):
                    first.clear()
                    first.update({'tampered': 1}) if isinstance(first, dict) else None
            guarded(lambda: timed(consumed))
            ck.count('hashed again after the first answer was emptied in place')
        r = guarded(lambda: timed(lambda: sorted(hasher.hash_shape(s))))
        if r[0] != 'Ok':
            i = add(f'KFlood {base} {L} {fq(0)} {fq(0)} [] []', {'k': 'flood', 'shape': d, 'base': base, 'len': L, 'out': list(r)})
            flag(i, 'hash_shape', f'raised {r[1]}')
            return None
        got = r[1]
        cells = window_cells(s, base, L)
        tab = touch_table(build(d), base, cells)
        sc = start_coord(s)
        start = GH._coord_to_niemeyer(sc, L, base)
        touched = sorted(c for c in cells if tab[c])
        lit = (f'KFlood {base} {L} {fq(sc.longitude)} {fq(sc.latitude)} '
               f'{listlit([f"({slit(c)}, {blit(tab[c])})" for c in cells])} {setlit(got)}')
        m = {'k': 'flood', 'shape': d, 'base': base, 'len': L, 'source': source, 'start': start,
             'n_window': len(cells), 'n_touched': len(touched), 'out': got}
        if info:
            m['derived_points'] = info
        i = add(lit, m)
        ck.count(f'flood:{d["kind"]}{"+hole" if d.get("holes") else ""}:base{base}')
        nontrivial.add((base, L, json.dumps(d, sort_keys=True)))
        # the property on the implementation: result == every touched cell of the window (+ the start cell)
        exp = sorted(set(touched) | {start})
        if got != exp:
            flag(i, 'hash-exact', f'missing {sorted(set(exp) - set(got))[:6]}, extra {sorted(set(got) - set(exp))[:6]} '
                                  f'(touched cells of the enlarged window: {len(touched)}, returned: {len(got)})')
        if not tab.get(start, False):
            m['start_untouched'] = True
        if check_contained:
            # fixed corpus only: the cell of every vertex, and of every grid point the shape says it contains
            for p in outline_points(s):
                c = GH._coord_to_niemeyer(p, L, base)
                if c not in got:
                    flag(i, 'vertex-cell', f'cell {c!r} of vertex {p.to_float()} is not in the result')
            if not isinstance(s, GeoLineString):
                for c in cells:
                    lon, lat, _, _ = GH._decode_niemeyer(c, base)
                    if s.contains_coordinate(Coordinate(lon, lat)) and c not in got:
                        flag(i, 'contained-point-cell', f'cell {c!r}: its centre is inside the shape but the cell is not in the result')
        return got

    # fixed corpus: vertices exactly on cell edges / corners, interior cells, diagonal-only contact, holes
    w32, h32 = cell_dims(32, 3)      # 1.40625 x 1.40625
    x0, y0 = 10 * w32, 20 * h32      # a cell corner of the base-32 length-3 grid
    fixed = [
        ({'kind': 'box', 'nw': (x0, y0 + 3 * h32), 'se': (x0 + 4 * w32, y0)}, 32, 3),                          # box on grid lines
        ({'kind': 'box', 'nw': (x0 + 0.3, y0 + 3.2), 'se': (x0 + 6.1, y0 + 0.4)}, 32, 3),
        ({'kind': 'poly', 'pts': [(x0, y0), (x0 + 5 * w32, y0 + h32), (x0 + 4 * w32, y0 + 5 * h32), (x0 + w32 / 2, y0 + 4 * h32), (x0, y0)]}, 32, 3),  # first vertex on a cell corner
        ({'kind': 'poly', 'pts': [(x0 + w32 / 2, y0), (x0 + 5.3 * w32, y0 + 0.7 * h32), (x0 + 2.2 * w32, y0 + 4.4 * h32), (x0 + w32 / 2, y0)]}, 32, 3),  # first vertex on a cell edge
        ({'kind': 'line', 'pts': [(x0 + 0.2, y0 + 0.2), (x0 + 6 * w32 + 0.2, y0 + 6 * h32 + 0.2)]}, 32, 3),     # diagonal through corners' neighbourhoods
        ({'kind': 'line', 'pts': [(x0, y0), (x0 + 4 * w32, y0 + 4 * h32)]}, 32, 3),                               # exactly through cell corners
        ({'kind': 'line', 'pts': [(x0 + 0.1, y0 + 0.3), (x0 + 3.7, y0 + 0.9), (x0 + 3.9, y0 + 5.2), (x0 + 0.4, y0 + 4.1)]}, 32, 3),
        ({'kind': 'poly', 'pts': [(-30.2, -20.1), (-12.3, -21.7), (-10.9, -3.3), (-31.8, -5.2), (-30.2, -20.1)],
          'holes': [[(-25.1, -15.2), (-17.4, -15.9), (-16.8, -8.8), (-24.9, -9.3), (-25.1, -15.2)]]}, 32, 3),    # hole owning whole cells
        ({'kind': 'circle', 'c': (40.3, 33.7), 'r': 420_000}, 32, 3),
        # large circles far from the equator (their reported `bounds` are not a true envelope there: anything that
        # prunes cells by those bounds loses rim cells)
        ({'kind': 'circle', 'c': (24.94, 60.17), 'r': 55_000}, 16, 6), ({'kind': 'circle', 'c': (24.94, 60.17), 'r': 120_000}, 32, 4),
        ({'kind': 'circle', 'c': (18.96, 69.65), 'r': 70_000}, 32, 4), ({'kind': 'circle', 'c': (-68.30, -54.80), 'r': 70_000}, 16, 6),
        ({'kind': 'circle', 'c': (-3.19, 55.95), 'r': 90_000}, 16, 5),
        ({'kind': 'poly', 'pts': [(100.1, 10.2), (118.4, 12.9), (121.3, 28.8), (109.9, 35.1), (98.7, 24.4), (100.1, 10.2)]}, 16, 4),
        ({'kind': 'box', 'nw': (-60.4, -10.3), 'se': (-31.2, -33.9)}, 64, 2),
        ({'kind': 'line', 'pts': [(-75.3, 40.2), (-60.8, 45.9), (-58.1, 33.3)]}, 64, 2),
        ({'kind': 'poly', 'pts': [(5.05, 5.02), (5.95, 5.11), (6.07, 6.03), (5.01, 5.93), (5.05, 5.02)]}, 64, 3),
        ({'kind': 'circle', 'c': (-120.2, -44.4), 'r': 90_000}, 16, 5),
        # shapes inside a single cell (no neighbour touches: the result is the untested start cell alone)
        ({'kind': 'poly', 'pts': [(x0 + 0.3, y0 + 0.3), (x0 + 0.9, y0 + 0.35), (x0 + 0.6, y0 + 1.0), (x0 + 0.3, y0 + 0.3)]}, 32, 3),
        ({'kind': 'line', 'pts': [(x0 + 0.2, y0 + 0.2), (x0 + 1.1, y0 + 0.8)]}, 32, 3),
        ({'kind': 'box', 'nw': (x0 + 0.2, y0 + 1.2), 'se': (x0 + 1.2, y0 + 0.2)}, 32, 3),
        ({'kind': 'circle', 'c': (20.0, 20.0), 'r': 1000}, 16, 3),
        # two cells only
        ({'kind': 'line', 'pts': [(x0 + 0.2, y0 + 0.2), (x0 + w32 + 0.4, y0 + 0.8)]}, 32, 3),
        ({'kind': 'poly', 'pts': [(x0 + 0.9, y0 + 0.3), (x0 + w32 + 0.5, y0 + 0.35), (x0 + 1.2, y0 + 1.0), (x0 + 0.9, y0 + 0.3)]}, 32, 3),
    ]
    # paths that leave the cell of their first vertex and come BACK to it: closed loops and out-and-back tracks whose two
    # end points share a cell (a result derived from the end points alone returns that one cell), three grids
    for b_, L_ in ((32, 3), (16, 4), (64, 2)):
        wq, hq = cell_dims(b_, L_)
        xq, yq = 7 * wq, 9 * hq
        fixed += [
            ({'kind': 'line', 'pts': [(xq + 0.3 * wq, yq + 0.3 * hq), (xq + 3.4 * wq, yq + 0.6 * hq), (xq + 2.7 * wq, yq + 3.2 * hq), (xq + 0.3 * wq, yq + 0.3 * hq)]}, b_, L_),
            ({'kind': 'line', 'pts': [(xq + 0.4 * wq, yq + 0.5 * hq), (xq + 4.2 * wq, yq + 2.6 * hq), (xq + 0.6 * wq, yq + 0.4 * hq)]}, b_, L_),
            ({'kind': 'line', 'pts': [(xq + 0.5 * wq, yq + 0.5 * hq), (xq - 2.3 * wq, yq + 0.5 * hq), (xq - 2.3 * wq, yq - 1.8 * hq), (xq + 0.7 * wq, yq + 0.2 * hq)]}, b_, L_),
        ]
    # hole-free shapes that do not contain their centroid: U (opening north / east), thin L, chevron, annulus, wide wedges
    U = [(0, 0), (9, 0), (9, 8), (7.7, 8), (7.7, 1.3), (1.3, 1.3), (1.3, 8), (0, 8)]

    def cells32(pts, ox=0.31, oy=0.27, rot=0):
        out = []
        for u, v in pts:
            for _ in range(rot):
                u, v = -v, u
            out.append((x0 + (u + ox) * w32, y0 + (v + oy) * h32))
        return out + [out[0]]
    fixed += [
        ({'kind': 'poly', 'pts': cells32(U)}, 32, 3),
        ({'kind': 'poly', 'pts': cells32(U, rot=3)}, 32, 3),
        ({'kind': 'poly', 'pts': cells32([(0, 0), (9.5, 0), (9.5, 1.2), (1.2, 1.2), (1.2, 9), (0, 9)])}, 32, 3),
        ({'kind': 'poly', 'pts': cells32([(0, 0), (8.5, 9), (17, 0), (8.5, 7.2)])}, 32, 3),
        ({'kind': 'ring', 'c': (40.3, 33.7), 'r_in': 470_000, 'r_out': 660_000}, 32, 3),
        ({'kind': 'ring', 'c': (-71.3, -12.4), 'r_in': 120_000, 'r_out': 170_000}, 16, 5),
        ({'kind': 'ring', 'c': (12.3, 41.2), 'r_in': 110_000, 'r_out': 165_000, 'a0': 20.0, 'a1': 300.0}, 16, 5),
        ({'kind': 'ring', 'c': (100.7, 8.9), 'r_in': 250_000, 'r_out': 330_000, 'a0': 0.0, 'a1': 270.0}, 64, 3),
    ]
    for d, base, L in fixed:
        flood_case(d, base, L, 'fixed', check_contained=True)

    # seeded random shapes: 4..400 cells
    n_shapes = 600 if thorough else 30
    kinds = ['poly', 'polyhole', 'line', 'box', 'circle']
    for n in range(n_shapes):
        base = [16, 32, 64][n % 3]
        L = rng.choice(LENGTHS[base])
        kind = kinds[(n // 3) % len(kinds)]
        big = (n % 10 == 9)
        d, _ = gen_single(rng, base, L, kind, (6, 17) if big else (1.3, 7))
        flood_case(d, base, L, 'random')

    # concave hole-free shapes whose centroid / bounds centre lie outside them (see CONCAVE), hashed finely enough that
    # the cell of that point is disjoint from the shape; judged like every other shape (model flood from the first
    # vertex over the implementation's own per-cell table; result == touched cells of the enlarged window)
    n_conc = 150 if thorough else 15
    for n in range(n_conc):
        base = [16, 32, 64][n % 3]
        kind = CONCAVE[(n // 3) % len(CONCAVE)]
        L = rng.choice(CONCAVE_LENGTHS[base])
        r = guarded(lambda: gen_concave(rng, base, L, kind))
        if r[0] != 'Ok':
            ck.count('concave:no-placement')
            continue
        d, _, info = r[1]
        ck.count(f'concave:{kind}:centroid-cell-{info["centroid_cell"]}')
        flood_case(d, base, L, 'concave:' + kind, info=info)

    # ---------------------------------------------------------------- points and multi-shapes
    @total('multi')
    def multi_case(d, base, L):
        s = build(d)
        hasher = GH.NiemeyerHasher(L, base)
        r = guarded(lambda: timed(lambda: sorted(hasher.hash_shape(s))))
        mem = [guarded(lambda m=m: timed(lambda: sorted(hasher.hash_shape(m)))) for m in s.geoshapes]
        if r[0] != 'Ok' or any(x[0] != 'Ok' for x in mem):
            i = add('KMulti [] []', {'k': 'multi', 'shape': d, 'base': base, 'len': L, 'out': list(r)})
            flag(i, 'hash_shape', 'raised on a multi-shape or one of its members')
            return
        i = add(f'KMulti {listlit([setlit(x[1]) for x in mem])} {setlit(r[1])}',
                {'k': 'multi', 'shape': d, 'base': base, 'len': L, 'members_out': [x[1] for x in mem], 'out': r[1]})
        ck.count('multi:' + d['kind'])
        nontrivial.add((base, L, json.dumps(d, sort_keys=True)))
        if set(r[1]) != set().union(*[set(x[1]) for x in mem]):
            flag(i, 'multi-union', 'the multi-shape does not hash to the union of its members\' cells')

    @total('point')
    def point_case(m, base, L):
        p = build(m)
        got = timed(lambda: sorted(GH.NiemeyerHasher(L, base).hash_shape(p)))
        c = p.centroid
        i = add(f'KPoint {base} {L} {fq(c.longitude)} {fq(c.latitude)} {setlit(got)}',
                {'k': 'point', 'shape': m, 'base': base, 'len': L, 'out': got})
        lon, lat, ex, ey = GH._decode_niemeyer(got[0], base) if got else (0, 0, -1, -1)
        if len(got) != 1 or not (abs(c.longitude - lon) <= ex and abs(c.latitude - lat) <= ey):
            flag(i, 'point-cell', f'a point must hash to the one cell containing it, got {got}')

    n_multi = 60 if thorough else 9
    for n in range(n_multi):
        base = [16, 32, 64][n % 3]
        L = rng.choice(LENGTHS[base])
        mk = ['multipoly', 'multiline', 'multipoint'][(n // 3) % 3]
        w, h = cell_dims(base, L)
        cx, cy = rng.uniform(-120, 120), rng.uniform(-50, 50)
        members = []
        for _ in range(rng.randint(2, 4)):
            ox, oy = cx + rng.uniform(-4, 4) * w, cy + rng.uniform(-4, 4) * h
            if mk == 'multipoly':
                members.append(rng.choice([
                    {'kind': 'poly', 'pts': star(rng, ox, oy, w * rng.uniform(0.8, 2.5), h * rng.uniform(0.8, 2.5), rng.randint(4, 7))},
                    {'kind': 'box', 'nw': (ox - w * 1.3, oy + h * 0.9), 'se': (ox + w * 0.8, oy - h * 1.2)}]))
            elif mk == 'multiline':
                members.append({'kind': 'line', 'pts': [(ox + rng.uniform(-2, 2) * w, oy + rng.uniform(-2, 2) * h) for _ in range(rng.randint(2, 4))]})
            else:
                members.append({'kind': 'point', 'p': (ox, oy)})
        multi_case({'kind': mk, 'members': members}, base, L)
        # each point member also as a single point (cell through the C11 model)
        if mk == 'multipoint':
            for m in members:
                point_case(m, base, L)

    # ---------------------------------------------------------------- collections
    AGGS = [('AggLen', None), ('AggTotalTime', agg_functions.total_time), ('AggUnique', agg_functions.unique_entities),
            ('AggIds', lambda shapes: [x.properties['id'] for x in shapes])]

    def aggv(name, v):
        return f'(VL {listlit([zlit(x) + "%Z" for x in v])})' if name == 'AggIds' else f'(VZ {zlit(int(v))})'

    mstat = {'cells': 0, 'collections': 0}

    @total('collection')
    def collection_case(n):
        base = [16, 32, 64][n % 3]
        L = rng.choice(LENGTHS[base][:2])
        w, h = cell_dims(base, L)
        cx, cy = rng.uniform(-120, 120), rng.uniform(-50, 50)
        descs = []
        for j in range(rng.randint(3, 6)):
            ox, oy = cx + rng.uniform(-2, 2) * w, cy + rng.uniform(-2, 2) * h
            d = rng.choice([
                {'kind': 'box', 'nw': (ox - w * rng.uniform(0.3, 2), oy + h * rng.uniform(0.3, 2)), 'se': (ox + w * rng.uniform(0.3, 2), oy - h * rng.uniform(0.3, 2))},
                {'kind': 'point', 'p': (ox, oy)},
                {'kind': 'line', 'pts': [(ox, oy), (ox + rng.uniform(-3, 3) * w, oy + rng.uniform(-3, 3) * h)]},
                {'kind': 'poly', 'pts': star(rng, ox, oy, w * rng.uniform(0.5, 2), h * rng.uniform(0.5, 2), 5)},
                {'kind': 'multipoint', 'members': [{'kind': 'point', 'p': (ox, oy)}, {'kind': 'point', 'p': (ox + w, oy - h)}]}])
            d = dict(d)
            as_track = (n % 4 == 3)
            if as_track or rng.random() < 0.7:
                a = rng.randrange(0, 5000)
                d['dt'] = (a, a + rng.choice([0, 1, 60, 3600, 86399]))
            d['props'] = {'id': j}
            if rng.random() < 0.7:
                d['props']['entity'] = rng.choice([3, 5, 8])
            descs.append(d)
        # equal-but-distinct shapes (same geometry and dt, other properties), exact duplicates of one
        # object, interleaved with the others in a shuffled order: multiplicity must reach agg_fn
        mode = n % 5            # 4: pairwise distinct shapes only
        nid = len(descs)
        if mode in (0, 1, 3):
            k = rng.randrange(len(descs))
            for _ in range(rng.randint(1, 3)):
                twin = json.loads(json.dumps(descs[k]))
                twin['props'] = {'id': nid}
                if rng.random() < 0.8:
                    twin['props']['entity'] = rng.choice([3, 5, 8, 13])
                nid += 1
                descs.append(twin)
        if mode in (1, 2):
            k = rng.randrange(len(descs))
            for _ in range(rng.randint(1, 2)):
                descs.append({'same_object_as': k})
        if mode in (0, 1, 3):
            # shuffle, keeping 'same_object_as' references valid
            perm = list(range(len(descs)))
            rng.shuffle(perm)
            pos = {old: new for new, old in enumerate(perm)}
            descs = [dict(descs[old], same_object_as=pos[descs[old]['same_object_as']]) if 'same_object_as' in descs[old] else descs[old]
                     for old in perm]
        run_collection(descs, n % 4 == 3, base, L, 'random')

    @total('collection')
    def run_collection(descs, as_track, base, L, source):
        built = {}

        def get(i):
            if i not in built:
                d = descs[i]
                built[i] = get(d['same_object_as']) if 'same_object_as' in d else build(d)
            return built[i]
        shapes = [get(i) for i in range(len(descs))]
        n_equal = sum(1 for x, y in itertools.combinations(shapes, 2) if x == y)
        coll = Track(shapes) if as_track else FeatureCollection(shapes)
        hasher = GH.NiemeyerHasher(L, base)
        order = list(coll.geoshapes)
        own = [timed(lambda s=s: sorted(hasher.hash_shape(s))) for s in order]
        # cells of a multi-shape that two or more of its MEMBERS cover (the shape must still count once there)
        shared = 0
        for s, ks in zip(order, own):
            if isinstance(s, (MultiGeoPoint, MultiGeoLineString, MultiGeoPolygon)):
                per = [set(timed(lambda m_=m_: hasher.hash_shape(m_))) for m_ in s.geoshapes]
                shared += sum(1 for c in ks if sum(c in p_ for p_ in per) >= 2)
        mstat['cells'] += shared
        mstat['collections'] += bool(shared)
        items = listlit([
            f'(mkitem {s.properties["id"]} {int(s.dt.elapsed.total_seconds()) if s.dt else 0} '
            f'{"(Some " + str(s.properties["entity"]) + "%Z)" if "entity" in s.properties else "None"} {setlit(ks)})'
            for s, ks in zip(order, own)])
        for name, fn in AGGS:
            r = guarded(lambda: timed(lambda: hasher.hash_collection(coll, agg_fn=fn) if fn else hasher.hash_collection(coll)))
            m = {'k': 'collection', 'agg': name, 'shapes': descs, 'track': isinstance(coll, Track), 'base': base, 'len': L, 'source': source, 'equal_pairs': n_equal,
                 'cells_covered_by_2+_members_of_one_multi_shape': shared,
                 'out': r[1] if r[0] == 'Ok' else list(r)}
            if r[0] != 'Ok':
                i = add(f'KCollection {name} {items} []', m)
                flag(i, 'hash_collection', f'raised {r[1]}')
                continue
            out = r[1]
            i = add(f'KCollection {name} {items} {listlit([f"({slit(k)}, {aggv(name, v)})" for k, v in out.items()])}', m)
            ck.count('collection:' + name)
            if n_equal:
                ck.count('collection-with-equal-shapes:' + name)
            if shared:
                ck.count('collection-with-cells-covered-by-2+-members-of-one-multi-shape:' + name)
            nontrivial.add((base, L, name, json.dumps(descs, sort_keys=True)))
            # the property: value at c == agg of exactly the collection's shapes -- WITH multiplicity, equal (==)
            # shapes and repeated objects included -- whose own hash set has c, in collection order
            f_agg = fn or len
            keys = set().union(*[set(k) for k in own])
            if set(out) != keys:
                flag(i, 'collection-keys', 'keys are not the union of the shapes\' hash sets')
            for c in keys & set(out):
                exp = f_agg([s for s, ks in zip(order, own) if c in ks])
                if out[c] != exp:
                    flag(i, 'collection-value', f'cell {c!r}: {out[c]!r}, expected {exp!r}')
                    break

    # fixed corpus: shapes that compare equal (same geometry and dt) but are distinct objects / carry other
    # properties; one object listed twice; simultaneous pings at one place in a Track
    P = {'kind': 'point', 'p': (12.3, 45.6), 'dt': (100, 100)}
    B = {'kind': 'box', 'nw': (12.0, 46.0), 'se': (13.1, 45.2), 'dt': (0, 3600)}
    Ln = {'kind': 'line', 'pts': [(11.9, 45.1), (13.4, 46.2)]}

    def wp(d, i, ent=None):
        return dict(d, props=dict({'id': i}, **({'entity': ent} if ent is not None else {})))
    FIXED_COLL = [
        ([wp(P, 0, 3), wp(P, 1, 5), wp(P, 2, 5), wp(P, 3)], False),                         # co-located points, same timestamp
        ([wp(P, 0, 3), wp(P, 1, 5), wp(P, 2, 8)], True),                                    # Track: simultaneous pings at one place
        ([wp(B, 0, 3), wp(Ln, 1, 5), wp(B, 2, 8), wp(P, 3, 3), wp(B, 4), wp(Ln, 5, 13)], False),   # equal shapes interleaved with others
        ([wp(Ln, 5, 13), wp(B, 4), wp(P, 3, 3), wp(B, 2, 8), wp(Ln, 1, 5), wp(B, 0, 3)], False),   # ... in the reverse order
        ([wp(B, 0, 3), {'same_object_as': 0}, wp(P, 1, 5), {'same_object_as': 0}, {'same_object_as': 2}], False),   # one object several times
        ([wp(B, 0, 3), wp(dict(B, dt=(0, 3601)), 1, 5), wp(B, 2, 8), {'same_object_as': 2}], True),  # Track: equal + nearly equal + repeated
        ([wp({'kind': 'multipoint', 'members': [{'kind': 'point', 'p': (12.3, 45.6)}, {'kind': 'point', 'p': (12.9, 45.9)}]}, 0, 3),
          wp({'kind': 'multipoint', 'members': [{'kind': 'point', 'p': (12.3, 45.6)}, {'kind': 'point', 'p': (12.9, 45.9)}]}, 1, 5),
          wp(dict(P, dt=None), 2, 5), wp(dict(P, dt=None), 3, 8)], False),
    ]
    for k, (descs, as_track) in enumerate(FIXED_COLL):
        for base, L in [((32, 3), (16, 4), (64, 2))[k % 3], (32, 4)]:
            run_collection(descs, as_track, base, L, 'fixed-equal-shapes')

    n_coll = 48 if thorough else 8
    for n in range(n_coll):
        collection_case(n)

    # hash twins in one collection.  Mechanism class: hash_collection (or anything under it) identifying member shapes by
    # hash(shape) / a dict or set of shapes instead of visiting each.  The library's hashes ignore HOLES and VERTEX ORDER,
    # so a solid box / polygon and the same outline with a hole owning interior cells - or two different rings over one
    # vertex set - share a hash without being equal.  Both orders, with and without equal time bounds; judged like every
    # other collection (result[cell] = agg_fn of exactly the shapes whose own hash set has the cell).
    def twin_collection_case(n):
        base = [16, 32, 64][n % 3]
        L = LENGTHS[base][0]
        w, h = cell_dims(base, L)
        cx, cy = rng.uniform(-100, 100), rng.uniform(-40, 40)
        dt = None if n % 2 else (100, 4000)
        hole = [(cx - 1.6 * w, cy - 1.6 * h), (cx + 1.6 * w, cy - 1.6 * h), (cx + 1.6 * w, cy + 1.6 * h), (cx - 1.6 * w, cy + 1.6 * h)]
        if n % 4 < 2:
            solid = {'kind': 'box', 'nw': (cx - 3.3 * w, cy + 3.3 * h), 'se': (cx + 3.3 * w, cy - 3.3 * h)}
            holed = dict(solid, holes=[hole])
        else:
            ring_ = [(cx - 3.3 * w, cy - 3.3 * h), (cx + 3.3 * w, cy - 3.3 * h), (cx + 3.3 * w, cy + 3.3 * h), (cx - 3.3 * w, cy + 3.3 * h)]
            solid = {'kind': 'poly', 'pts': ring_}
            holed = {'kind': 'poly', 'pts': ring_, 'holes': [hole]}
        # two rings over ONE vertex set: a square with an interior vertex, the notch opening west / east
        sq = [(cx - 3 * w, cy - 9 * h), (cx + 3 * w, cy - 9 * h), (cx + 3 * w, cy - 5 * h), (cx - 3 * w, cy - 5 * h)]
        mid = (cx + 0.4 * w, cy - 7 * h)
        notch_w = {'kind': 'poly', 'pts': [sq[0], sq[1], sq[2], sq[3], mid]}
        notch_e = {'kind': 'poly', 'pts': [sq[0], sq[1], mid, sq[2], sq[3]]}
        descs = [solid, holed, notch_w, notch_e]
        if n % 8 >= 4:
            descs = [holed, solid, notch_e, notch_w]
        descs = [dict(d_, props={'id': j, 'entity': [3, 5, 8][j % 3]}, **({'dt': dt} if dt else {})) for j, d_ in enumerate(descs)]
        run_collection(descs, False, base, L, 'hash-twins')
    for n in range(8 if ck.tier == 'quick' else 24):
        twin_collection_case(n)

    # ---------------------------------------------------------------- collections holding multi-shapes whose MEMBERS share cells
    # Mechanism class: the group-by of hash_collection (or an aggregator) fed from a stream of cells that is not the
    # shape's own hash SET - a per-member / per-part / per-visit generator, a list concatenation of the members' cells,
    # a cell yielded again when the flood reaches it from another side - so that a shape is filed under one cell once
    # per member covering it instead of once.  Only visible where two or more members of ONE multi-shape cover a common
    # cell: points of a MultiGeoPoint in one cell, identical members, crossing / chained / retraced lines of a
    # MultiGeoLineString, overlapping, nested or merely neighbouring polygons of a MultiGeoPolygon (and, as control,
    # members with pairwise disjoint cell sets), mixed with single shapes that fall into the same cells, with equal twins
    # of the multi-shape and with the multi-shape object listed twice (multiplicity that MUST reach agg_fn), in
    # FeatureCollections and Tracks.  Judged by the law of C12_hash_collection_spec, through the same KCollection case and
    # the same oracle as every other collection: result[cell] = agg_fn([s for s in shapes if cell in hash_shape(s)]) for
    # len (default), total_time (the multi-shapes carry dt of positive length), unique_entities and the list of ids.
    def shared_multi(mode, mk, ox, oy, w, h, base, L):
        lon, lat, ex, ey = GH._decode_niemeyer(GH._coord_to_niemeyer(Coordinate(ox, oy), L, base), base)
        inc = lambda: (lon + ex * rng.uniform(-0.85, 0.85), lat + ey * rng.uniform(-0.85, 0.85))    # noqa: E731  a point of that one cell
        if mk == 'multipoint':
            pts = [inc() for _ in range(rng.randint(2, 4))]
            if mode == 'identical':
                pts = [pts[0]] * rng.randint(2, 3)
            elif mode == 'disjoint':
                pts = [(lon + 2 * i * w, lat - 2 * i * h) for i in range(rng.randint(2, 3))]
            elif rng.random() < 0.5:
                pts.insert(rng.randrange(len(pts) + 1), (lon + rng.choice([-2, 2]) * w, lat + rng.choice([-1, 0, 1]) * h))   # + one elsewhere
            return {'kind': mk, 'members': [{'kind': 'point', 'p': p_} for p_ in pts]}
        if mk == 'multiline':
            a, b = rng.uniform(0.6, 2.2) * w, rng.uniform(0.6, 2.2) * h
            if mode == 'identical':
                ln = [(ox - a, oy - b), (ox + a, oy + b * rng.uniform(-1, 1))]
                lines = [ln, list(ln)] if rng.random() < 0.5 else [ln, ln[::-1]]
            elif mode == 'disjoint':
                lines = [[(ox + 3 * i * w, oy), (ox + 3 * i * w + a / 2, oy + b / 2)] for i in range(2)]
            else:
                form = rng.choice(['cross', 'chain', 'same-cell'])
                if form == 'cross':
                    lines = [[(ox - a, oy - b), (ox + a, oy + b)], [(ox - a, oy + b), (ox + a, oy - b)]]
                elif form == 'chain':
                    p1 = (ox + rng.uniform(-1, 1) * w, oy + rng.uniform(-1, 1) * h)
                    lines = [[(ox - a, oy - b), p1], [p1, (ox + a, oy - b)], [(ox + a, oy - b), (ox + a, oy + b)]][: rng.randint(2, 3)]
                else:
                    lines = [[inc(), inc()] for _ in range(rng.randint(2, 3))]
            return {'kind': mk, 'members': [{'kind': 'line', 'pts': ln} for ln in lines]}
        bx = lambda x, y, a, b: {'kind': 'box', 'nw': (x - a, y + b), 'se': (x + a, y - b)}    # noqa: E731
        a, b = rng.uniform(0.4, 1.6) * w, rng.uniform(0.4, 1.6) * h
        if mode == 'identical':
            mem = [bx(ox, oy, a, b)] * 2
        elif mode == 'disjoint':
            mem = [bx(ox + 3 * i * w, oy, 0.4 * w, 0.4 * h) for i in range(2)]
        else:
            form = rng.choice(['overlap', 'nested', 'neighbours', 'star'])
            if form == 'overlap':
                mem = [bx(ox, oy, a, b), bx(ox + rng.uniform(0.3, 1) * a, oy + rng.uniform(-1, 1) * b, a, b)]
                if rng.random() < 0.4:
                    mem.append(bx(ox - rng.uniform(0.3, 1) * a, oy - rng.uniform(0.3, 1) * b, a * 0.7, b * 0.7))
            elif form == 'nested':
                mem = [bx(ox, oy, a, b), bx(ox, oy, a * 0.4, b * 0.4)]
            elif form == 'neighbours':        # geometrically disjoint, in one cell
                mem = [bx(lon - 0.5 * ex, lat - 0.4 * ey, 0.3 * ex, 0.3 * ey), bx(lon + 0.45 * ex, lat + 0.4 * ey, 0.3 * ex, 0.3 * ey)]
            else:
                mem = [{'kind': 'poly', 'pts': star(rng, ox, oy, a, b, rng.randint(4, 7))},
                       {'kind': 'poly', 'pts': star(rng, ox + 0.5 * a, oy - 0.3 * b, a, b, rng.randint(4, 7))}]
            rng.shuffle(mem)
        return {'kind': mk, 'members': mem}

    @total('collection')
    def multi_collection_case(n):
        base = [16, 32, 64][n % 3]
        L = rng.choice(LENGTHS[base][:2])
        w, h = cell_dims(base, L)
        cx, cy = rng.uniform(-100, 100), rng.uniform(-50, 50)
        as_track = (n % 3 == 2)
        descs = []
        mks = ['multipoint', 'multiline', 'multipoly']
        for j in range(rng.randint(1, 3)):
            mode = 'disjoint' if rng.random() < 0.12 else 'identical' if rng.random() < 0.2 else 'shared'
            mk = mks[(n + j) % 3] if j == 0 else rng.choice(mks)
            ox, oy = cx + rng.uniform(-1.5, 1.5) * w, cy + rng.uniform(-1.5, 1.5) * h
            descs.append(shared_multi(mode, mk, ox, oy, w, h, base, L))
        for j in range(rng.randint(1, 4)):       # single shapes around (and inside the cells of) the multi-shapes
            ox, oy = cx + rng.uniform(-2, 2) * w, cy + rng.uniform(-2, 2) * h
            descs.append(rng.choice([
                {'kind': 'point', 'p': (ox, oy)},
                {'kind': 'box', 'nw': (ox - w * rng.uniform(0.3, 2), oy + h * rng.uniform(0.3, 2)), 'se': (ox + w * rng.uniform(0.3, 2), oy - h * rng.uniform(0.3, 2))},
                {'kind': 'line', 'pts': [(ox, oy), (ox + rng.uniform(-3, 3) * w, oy + rng.uniform(-3, 3) * h)]},
                {'kind': 'poly', 'pts': star(rng, ox, oy, w * rng.uniform(0.5, 2), h * rng.uniform(0.5, 2), 5)}]))
        if rng.random() < 0.5:                     # an equal twin of a multi-shape (another object, other properties)
            descs.append(json.loads(json.dumps(descs[0])))
        for j, d in enumerate(descs):
            multi = d['kind'].startswith('multi')
            if as_track or multi or rng.random() < 0.6:
                a = rng.randrange(0, 5000) if j else 0
                d['dt'] = (a, a + (rng.choice([1, 60, 3600, 86399]) if multi else rng.choice([0, 1, 60, 3600])))
            d['props'] = {'id': j}
            if rng.random() < 0.8:
                d['props']['entity'] = rng.choice([3, 5, 8])
        if descs[-1]['kind'] == descs[0]['kind'] and descs[-1].get('members') == descs[0].get('members'):
            descs[-1]['dt'] = descs[0]['dt']       # the twin compares equal
        if rng.random() < 0.3:
            descs.append({'same_object_as': 0})    # the multi-shape OBJECT twice: here multiplicity 2 is right
        perm = list(range(len(descs)))
        rng.shuffle(perm)
        pos = {old: new for new, old in enumerate(perm)}
        descs = [dict(descs[old], same_object_as=pos[descs[old]['same_object_as']]) if 'same_object_as' in descs[old] else descs[old]
                 for old in perm]
        run_collection(descs, as_track, base, L, 'multi-shapes-whose-members-share-cells')

    # fixed: two points of one MultiGeoPoint in one cell next to a single point there; crossing lines; overlapping boxes
    MP2 = {'kind': 'multipoint', 'members': [{'kind': 'point', 'p': (12.3, 45.6)}, {'kind': 'point', 'p': (12.31, 45.62)}, {'kind': 'point', 'p': (15.9, 44.1)}], 'dt': (0, 600)}
    ML2 = {'kind': 'multiline', 'members': [{'kind': 'line', 'pts': [(11.9, 45.1), (13.4, 46.2)]}, {'kind': 'line', 'pts': [(11.9, 46.2), (13.4, 45.1)]}], 'dt': (0, 60)}
    MB2 = {'kind': 'multipoly', 'members': [{'kind': 'box', 'nw': (12.0, 46.0), 'se': (13.1, 45.2)}, {'kind': 'box', 'nw': (12.6, 45.7), 'se': (13.9, 44.8)}], 'dt': (10, 3610)}
    for k, (descs, as_track) in enumerate([
            ([wp(MP2, 0, 3), wp(dict(P, dt=None), 1, 5), wp(ML2, 2, 5), wp(B, 3, 8)], False),
            ([wp(MB2, 0, 3), wp(P, 1, 3), wp(MB2, 2, 5), {'same_object_as': 0}, wp(ML2, 3)], True),
            ([wp(MP2, 0), wp(MB2, 1, 8), wp(ML2, 2, 8), wp(Ln, 3, 3)], False)]):
        for base, L in [((32, 3), (16, 4), (64, 2))[k % 3], (32, 4)]:
            run_collection(descs, as_track, base, L, 'fixed-multi-shapes-whose-members-share-cells')

    n_mcoll = 72 if thorough else 12
    for n in range(n_mcoll):
        multi_collection_case(n)
    ck.cov['collections_with_a_cell_covered_by_2+_members_of_one_multi_shape'] = mstat['collections']
    ck.cov['such_(multi-shape, cell)_pairs'] = mstat['cells']

    # ---------------------------------------------------------------- hash_coordinates
    @total('coords')
    def coords_case(n):
        base = [16, 32, 64][n % 3]
        L = rng.randint(1, 8)
        w, h = cell_dims(base, L)
        cx, cy = rng.uniform(-170, 170), rng.uniform(-80, 80)
        pts = [Coordinate(cx + rng.uniform(-2, 2) * w, max(-90.0, min(90.0, cy + rng.uniform(-2, 2) * h))) for _ in range(rng.randint(5, 40))]
        if n % 2:
            # the cell a coordinate is filed under is a function of that coordinate alone, not of its neighbours in the
            # call: successive coordinates exactly on the W/S/E/N edges and the four corners of the cell of the coordinate
            # before them (each preceded by an interior point of that cell), then the random points, then the track reversed
            lon, lat, ex, ey = GH._decode_niemeyer(GH._coord_to_niemeyer(Coordinate(cx, cy), L, base), base)
            ins = [(lon, lat), (lon + ex * rng.uniform(-0.9, 0.9), lat + ey * rng.uniform(-0.9, 0.9))]
            sp = [(lon - ex, lat), (lon, lat - ey), (lon + ex, lat), (lon, lat + ey),
                  (lon - ex, lat - ey), (lon - ex, lat + ey), (lon + ex, lat - ey), (lon + ex, lat + ey)]
            rng.shuffle(sp)
            track = [Coordinate(x, max(-90.0, min(90.0, y))) for q in sp for (x, y) in (rng.choice(ins), q)]
            pts = track + pts[:10] + track[::-1]
            ck.count('coords:edge-and-corner-track')
        pts += [pts[0], pts[-1]]        # repeated coordinates
        hasher = GH.NiemeyerHasher(L, base)
        r1 = guarded(lambda: hasher.hash_coordinates(pts))
        r2 = guarded(lambda: hasher.hash_coordinates(pts, agg_fn=lambda cs: [c.to_float() for c in cs]))
        m = {'k': 'coords', 'base': base, 'len': L, 'pts': [p.to_float() for p in pts], 'out': r1[1] if r1[0] == 'Ok' else list(r1)}
        if r1[0] != 'Ok' or r2[0] != 'Ok':
            i = add(f'KCoords {base} {L} [] [] []', m)
            flag(i, 'hash_coordinates', 'raised')
            return
        lit = (f'KCoords {base} {L} {listlit([f"({fq(p.longitude)}, {fq(p.latitude)})" for p in pts])} '
               f'{listlit([f"({slit(k)}, {zlit(v)}%Z)" for k, v in r1[1].items()])} '
               + listlit([f'({slit(k)}, {listlit(["(" + fq(a) + ", " + fq(b) + ")" for a, b in v])})' for k, v in r2[1].items()]))
        i = add(lit, m)
        ck.count('coords')
        nontrivial.add((base, L, tuple(p.to_float() for p in pts)))
        enc = [GH._coord_to_niemeyer(p, L, base) for p in pts]
        for c in set(enc) | set(r1[1]):
            if r1[1].get(c) != enc.count(c) or r2[1].get(c) != [p.to_float() for p, e in zip(pts, enc) if e == c]:
                flag(i, 'coordinates-value', f'cell {c!r}: count {r1[1].get(c)}, expected {enc.count(c)}')
                break

    n_hc = 60 if thorough else 12
    for n in range(n_hc):
        coords_case(n)

    # ---------------------------------------------------------------- _get_surrounding (fixed, exhaustive small depth)
    @total('surround')
    def surround_case(g, base):
        lon, lat, ex, ey = GH._decode_niemeyer(g, base)
        if not (-90 <= lat - ey and lat + ey <= 90):
            return
        if len(cases) % 4 == 0:
            # the returned list is the caller's: reordering / emptying it must not change the next answer
            def consumed():
                first = GH.NiemeyerHasher._get_surrounding(g, base)
                first.reverse()
                first.pop()
            guarded(consumed)
        r = guarded(lambda: GH.NiemeyerHasher._get_surrounding(g, base))
        if r[0] != 'Ok':
            i = add(f'KSurround {base} {slit(g)} []', {'k': 'surround', 'base': base, 'hash': g, 'out': list(r)})
            flag(i, 'get_surrounding', f'raised {r[1]}')
            return
        add(f'KSurround {base} {slit(g)} {setlit(r[1])}', {'k': 'surround', 'base': base, 'hash': g, 'out': r[1]})
        ck.count('surround')

    sur_depth = {16: 2, 32: 2, 64: 2} if thorough else {16: 2, 32: 2, 64: 1}
    for base in (16, 32, 64):
        for L in range(1, sur_depth[base] + 1):
            for tup in itertools.product(CFG[base]['charset'], repeat=L):
                surround_case(''.join(tup), base)

    ck.cov['evaluations'] = len(cases)
    ck.cov['distinct_nontrivial'] = len(nontrivial)
    for i in (0, 16, len(cases) - 1):
        ck.sample(cases[max(0, min(i, len(cases) - 1))][:600])

    bad, broken = ck.corr('flood', 'From Coq Require Import QArith String.\nFrom GV Require Import Prelude GeohashM GeohashK FloodM FloodK.\n'
                                   'Open Scope string_scope. Open Scope Z_scope. Open Scope Q_scope.', 'check', cases, chunk=60)
    if os.environ.get('VERIF_DEBUG'):
        for i in bad[:12]:
            print('DEBUG bad', i, json.dumps(meta[i])[:500])

    # ---------------------------------------------------------------- H3 (fixed corpus, no theorem)
    try:
        h3_obs = h3_corpus(ck)
    except Exception as ex:   # noqa
        h3_obs = {'failures': 1, 'exception': repr(ex)}
        ck.violation({'kind': 'property-fails-on-implementation', 'clause': 'H3 (fixed corpus; no theorem covers it)',
                      'case': {'h3': 'exception', 'traceback': traceback.format_exc()[-1500:]}})

    allbad = sorted(set(bad) | set(flagged))
    allbad.sort(key=lambda i: (i not in flagged, i))
    for i in allbad[:5]:
        m = dict(meta[i])
        if i in flagged:
            m['property_clauses_violated'] = flagged[i]
        ck.violation({'kind': 'property-fails-on-implementation' if i in flagged else 'model-vs-implementation',
                      'case': m, 'gallina_case': cases[i], 'model_disagrees': i in bad,
                      'theorems': 'C12_* (Props/C12.v): the model value at this input is the one the theorems pin',
                      'how_to_replay': 'bin/check C12 --replay <this file>'})

    # D12: deterministic replay of the known finding (fixed input)
    for f in ck.findings:
        if f.get('status') == 'open' and f.get('signature') == 'shape_in_east_column':
            try:
                rp = f['replay']
                s = GeoBox(Coordinate(*rp['nw']), Coordinate(*rp['se']))
                got = GH.NiemeyerHasher(rp['length'], rp['base']).hash_shape(s)
                miss = []
                for c in rp.get('expected_missing', []):
                    lon, lat, ex, ey = GH._decode_niemeyer(c, rp['base'])
                    overlaps = (lon - ex < rp['se'][0] and rp['nw'][0] < lon + ex and lat - ey < rp['nw'][1] and rp['se'][1] < lat + ey)
                    if overlaps and c not in got and lon + ex == 180:
                        miss.append(c)
                if miss:
                    ck.known(f)
            except Exception:   # noqa
                pass

    ck.finish(rule='fixed corpus of 20 shapes (single-cell and two-cell shapes, vertices on cell corners/edges, holes owning cells, diagonal lines) + seeded random '
                   'single shapes (star polygons, polygons with a hole, polylines, boxes, circles) sized 1.3-17 cells across in bases '
                   '16/32/64, away from lon 180 and the poles; for each, the per-cell test is evaluated by the implementation on every '
                   'cell of the vertex bounds enlarged by 2 cells and the returned set is compared with the model flood and with the '
                   'touched set; multi-shapes against the union of their members; FeatureCollections/Tracks with len/total_time/'
                   'unique_entities/custom agg, and collections holding MultiGeoPoint / MultiGeoLineString / MultiGeoPolygon whose members share cells '
                   '(points in one cell, identical members, crossing / chained lines, overlapping / nested / neighbouring polygons; disjoint as control) '
                   'mixed with single shapes, equal twins and repeated objects, same four aggregations, same law; hash_coordinates with default and custom agg; _get_surrounding for every in-range '
                   'cell of small depth; hole-free shapes that do not contain their own centroid / bounds centre (U, thin L, chevron polygons in '
                   'all orientations, GeoRing annuli, wedges wider than 180 degrees), fixed and seeded, sized in cells so that the centroid\'s cell '
                   '(usually its 3x3 neighbourhood) is disjoint from the shape; every third shape is hashed a second time on the same hasher after '
                   'the first answer was emptied in place.  non-trivial = distinct (base, length, shape description)',
              assumptions=['the per-cell test niemeyer_to_geobox(cell).intersects_shape(shape) is taken from the implementation (not modelled, not proved to be geometric truth)',
                           'the touched cells of a connected shape are 8-connected (not proved; it is the hypothesis of C12_hash_exact_partial)',
                           'H3 clauses are observed on a fixed corpus only (no seeded inputs) and are covered by no theorem: '
                           + json.dumps(h3_obs)],
              extra={'h3_fixed_corpus': h3_obs})


def h3_corpus(ck):
    """H3 delegation: point -> latlng_to_cell with (lat, lon) order; polygon cells have their centre inside;
    collections count.  Deterministic inputs only."""
    obs = {'points': 0, 'polygons': 0, 'cells': 0, 'collections': 0, 'failures': 0}
    try:
        import h3
    except Exception as ex:   # noqa
        obs['skipped'] = f'h3 not importable: {ex}'
        return obs
    bad = []
    pts = [(-73.9857, 40.7484), (2.2945, 48.8584), (139.6917, 35.6895), (-0.1276, 51.5072), (151.2093, -33.8688),
           (18.4241, -33.9249), (-122.4194, 37.7749), (77.209, 28.6139), (-43.1729, -22.9068), (100.5018, 13.7563)]
    for res in (2, 5, 8, 10):
        for lon, lat in pts:
            got = GH.H3Hasher(res).hash_shape(GeoPoint(Coordinate(lon, lat)))
            obs['points'] += 1
            if got != {h3.latlng_to_cell(lat, lon, res)}:
                bad.append({'h3': 'point', 'lon': lon, 'lat': lat, 'res': res, 'got': sorted(got)})
    polys = [
        ({'kind': 'poly', 'pts': [(-74.1, 40.6), (-73.7, 40.62), (-73.72, 40.92), (-74.05, 40.9), (-74.1, 40.6)]}, 7),
        ({'kind': 'box', 'nw': (2.0, 49.0), 'se': (2.6, 48.6)}, 7),
        ({'kind': 'poly', 'pts': [(10.0, 10.0), (12.0, 10.1), (12.2, 12.1), (9.9, 11.8), (10.0, 10.0)],
          'holes': [[(10.6, 10.6), (11.4, 10.7), (11.3, 11.4), (10.7, 11.3), (10.6, 10.6)]]}, 5),
        ({'kind': 'circle', 'c': (139.7, 35.7), 'r': 20_000}, 7),
    ]
    for d, res in polys:
        s = build(d)
        got = GH.H3Hasher(res).hash_shape(s)
        obs['polygons'] += 1
        obs['cells'] += len(got)
        if not got:
            bad.append({'h3': 'polygon-empty', 'shape': d, 'res': res})
        for c in got:
            la, lo = h3.cell_to_latlng(c)
            if not s.contains_coordinate(Coordinate(lo, la)):
                bad.append({'h3': 'polygon-centre-outside', 'shape': d, 'res': res, 'cell': c})
                break
    # --- centre-inside semantics judged by the shape's OWN analytic membership test (GeoRing: radii and bearing, not the
    # drawn outline), for every cell of a neighbourhood of the shape: a cell whose centre is inside must be returned, a cell
    # whose centre is outside must not.  Cells whose centre is within `margin` of the boundary are not judged (the outline
    # handed to H3 is a polygon drawn with finitely many points).  Mechanism class: which rings reach H3 (outline, .holes,
    # voids that exist only in linear_rings() such as a full GeoRing's inner circle), their order and their (lat, lon) order.
    def leaves(d):
        return [x for m in d['members'] for x in leaves(m)] if d['kind'] == 'multipoly' else [d]

    def judge(d, res, got, tag):
        members = [(m, build(m)) for m in leaves(d)]
        pts = [p for _, ms in members for p in ms.bounding_coords()]
        lo_x, hi_x = min(p.longitude for p in pts), max(p.longitude for p in pts)
        lo_y, hi_y = min(p.latitude for p in pts), max(p.latitude for p in pts)
        px, py = 0.15 * (hi_x - lo_x), 0.15 * (hi_y - lo_y)
        frame = [(lo_y - py, lo_x - px), (lo_y - py, hi_x + px), (hi_y + py, hi_x + px), (hi_y + py, lo_x - px)]
        cand = set(h3.polygon_to_cells(h3.LatLngPoly(frame), res)) | set(got)
        n_in = n_out = 0
        verdicts = []
        for c in sorted(cand):
            la, lo = h3.cell_to_latlng(c)
            votes = set()
            for md, ms in members:
                # metres -> degrees; curved shapes: 0.6 % of the largest radius (sagitta of a 36-gon is 0.38 %) + 1 m
                mm = 1.0 + 0.006 * max(md.get('r', 0), md.get('r_out', 0))
                dy = mm / 111_000
                dx = dy / max(0.2, math.cos(math.radians(la)))
                probes = [(lo, la)] + [(lo + dx * math.cos(2 * math.pi * j / 16), la + dy * math.sin(2 * math.pi * j / 16)) for j in range(16)]
                votes.add(frozenset(bool(ms.contains_coordinate(Coordinate(x, y))) for x, y in probes))
            inside = any(v == frozenset([True]) for v in votes)
            outside = all(v == frozenset([False]) for v in votes)
            if inside:
                n_in += 1
                if c not in got:
                    verdicts.append({'h3': 'polygon-centre-inside-cell-missing', 'cell': c, 'centre_lon_lat': [lo, la]})
            elif outside:
                n_out += 1
                if c in got:
                    verdicts.append({'h3': 'polygon-centre-outside', 'cell': c, 'centre_lon_lat': [lo, la]})
        obs['cells_judged_inside'] = obs.get('cells_judged_inside', 0) + n_in
        obs['cells_judged_outside'] = obs.get('cells_judged_outside', 0) + n_out
        if n_in == 0 or n_out == 0:
            verdicts.append({'h3': 'corpus-entry-judges-nothing', 'inside': n_in, 'outside': n_out})
        for v in verdicts[:2]:
            bad.append(dict(v, shape=d, res=res, through=tag, n_returned=len(got), n_wrong=len(verdicts)))
        return n_in

    RING = {'kind': 'ring', 'c': (10.0, 45.0), 'r_in': 3000, 'r_out': 6000}
    HOLE = [(10.05, 45.01), (10.065, 45.01), (10.065, 45.02), (10.05, 45.02), (10.05, 45.01)]     # inside the annulus, east of the void
    corpus2 = [
        (RING, 8), (RING, 9),
        ({'kind': 'ring', 'c': (-73.9, 40.7), 'r_in': 8000, 'r_out': 15000}, 7),
        ({'kind': 'ring', 'c': (151.2, -33.9), 'r_in': 2500, 'r_out': 5000}, 8),
        ({'kind': 'ring', 'c': (24.9, 60.2), 'r_in': 4000, 'r_out': 4800}, 8),                         # thin annulus, high latitude
        (dict(RING, holes=[HOLE]), 8),                                                                  # the void AND a listed hole
        ({'kind': 'ring', 'c': (10.0, 45.0), 'r_in': 3000, 'r_out': 6000, 'a0': 30.0, 'a1': 150.0}, 8),  # wedges
        ({'kind': 'ring', 'c': (10.0, 45.0), 'r_in': 3000, 'r_out': 6000, 'a0': 20.0, 'a1': 300.0}, 8),
        ({'kind': 'ring', 'c': (-43.2, -22.9), 'r_in': 2000, 'r_out': 7000, 'a0': 300.0, 'a1': 420.0}, 8),   # through north
        ({'kind': 'ring', 'c': (77.2, 28.6), 'r_in': 3000, 'r_out': 6000, 'a0': 0.0, 'a1': 270.0, 'holes': [
            [(77.16, 28.63), (77.17, 28.63), (77.17, 28.64), (77.16, 28.64), (77.16, 28.63)]]}, 8),
        ({'kind': 'circle', 'c': (2.3, 48.85), 'r': 6000, 'holes': [{'kind': 'circle', 'c': (2.3, 48.85), 'r': 2500}]}, 8),   # void as a listed hole
        ({'kind': 'box', 'nw': (18.3, -33.8), 'se': (18.6, -34.0), 'holes': [
            [(18.35, -33.95), (18.45, -33.95), (18.45, -33.85), (18.35, -33.85), (18.35, -33.95)],
            {'kind': 'circle', 'c': (18.53, -33.9), 'r': 3000}]}, 7),                                       # two holes
        ({'kind': 'poly', 'pts': [(100.4, 13.6), (100.7, 13.62), (100.72, 13.9), (100.55, 13.78), (100.38, 13.88), (100.4, 13.6)],
          'holes': [[(100.45, 13.66), (100.52, 13.66), (100.5, 13.74), (100.45, 13.66)],
                    [(100.58, 13.68), (100.66, 13.7), (100.62, 13.78), (100.58, 13.68)]]}, 7),             # concave, two holes
        # the ring as a member of a multi-polygon (one member far away, one overlapping part of the void)
        ({'kind': 'multipoly', 'members': [RING, {'kind': 'box', 'nw': (10.2, 45.05), 'se': (10.3, 44.98)}]}, 8),
        ({'kind': 'multipoly', 'members': [{'kind': 'box', 'nw': (9.99, 45.005), 'se': (10.03, 44.99)}, RING]}, 8),
    ]
    for d, res in corpus2:
        s = build(d)
        got = GH.H3Hasher(res).hash_shape(s)
        obs['polygons'] += 1
        obs['cells'] += len(got)
        judge(d, res, set(got), 'hash_shape')
        # resolution passed per call instead of at construction: same cells
        if d['kind'] != 'multipoly' and GH.H3Hasher().hash_shape(build(d), resolution=res) != got:
            bad.append({'h3': 'resolution-kwarg', 'shape': d, 'res': res})
    # ... and inside a collection: every cell is credited to exactly the shapes whose own analytic test has its centre
    members = [dict(RING, props={'id': 0}), {'kind': 'box', 'nw': (9.97, 45.02), 'se': (10.02, 44.99), 'props': {'id': 1}},
               {'kind': 'ring', 'c': (10.08, 45.0), 'r_in': 1500, 'r_out': 4000, 'a0': 200.0, 'a1': 340.0, 'props': {'id': 2}},
               {'kind': 'point', 'p': (10.0, 45.0), 'props': {'id': 3}}]
    for coll_cls in (FeatureCollection,):
        built = [build(m) for m in members]
        credit = GH.H3Hasher(8).hash_collection(coll_cls(built), agg_fn=lambda shapes: sorted(x.properties['id'] for x in shapes))
        obs['collections'] += 1
        for m in members[:3]:
            mine = {c for c, ids in credit.items() if m['props']['id'] in ids}
            judge({k: v for k, v in m.items() if k != 'props'}, 8, mine, f'hash_collection (cells credited to shape {m["props"]["id"]})')
        if {c for c, ids in credit.items() if 3 in ids} != {h3.latlng_to_cell(45.0, 10.0, 8)}:
            bad.append({'h3': 'collection-point-credit'})
        counts = GH.H3Hasher(8).hash_collection(coll_cls(built))
        if counts != {c: len(ids) for c, ids in credit.items()}:
            bad.append({'h3': 'collection-count-vs-credit'})

    shapes = [build(dict(d, props={'id': i})) for i, (d, _) in enumerate(polys[:2])] + [GeoPoint(Coordinate(-73.9, 40.75), properties={'id': 9})]
    coll = FeatureCollection(shapes)
    out = GH.H3Hasher(7).hash_collection(coll)
    own = [GH.H3Hasher(7).hash_shape(s) for s in shapes]
    obs['collections'] += 1
    if out != {c: sum(1 for o in own if c in o) for c in set().union(*own)}:
        bad.append({'h3': 'collection-count'})
    obs['failures'] = len(bad)
    for b in bad[:3]:
        ck.violation({'kind': 'property-fails-on-implementation', 'case': b, 'clause': 'H3 (fixed corpus; no theorem covers it)'})
    return obs


def replay(path):
    r = json.load(open(path))
    m = r.get('case') or {}
    print(json.dumps({k: v for k, v in m.items() if k not in ('out',)}, indent=1)[:3000])
    if m.get('k') == 'flood':
        s = build(m['shape'])
        got = sorted(GH.NiemeyerHasher(m['len'], m['base']).hash_shape(s))
        cells = window_cells(s, m['base'], m['len'])
        tab = touch_table(s, m['base'], cells)
        exp = sorted({c for c in cells if tab[c]} | {GH._coord_to_niemeyer(start_coord(s), m['len'], m['base'])})
        print('implementation now:', got)
        print('touched cells of the window:', exp)
        print('missing:', sorted(set(exp) - set(got)), 'extra:', sorted(set(got) - set(exp)))
    elif m.get('k') == 'collection':
        descs, built = m['shapes'], {}

        def get(i):
            if i not in built:
                built[i] = get(descs[i]['same_object_as']) if 'same_object_as' in descs[i] else build(descs[i])
            return built[i]
        shapes = [get(i) for i in range(len(descs))]
        coll = Track(shapes) if m.get('track') else FeatureCollection(shapes)
        hasher = GH.NiemeyerHasher(m['len'], m['base'])
        fn = {'AggLen': len, 'AggTotalTime': agg_functions.total_time, 'AggUnique': agg_functions.unique_entities,
              'AggIds': lambda xs: [x.properties['id'] for x in xs]}[m['agg']]
        out = hasher.hash_collection(coll, agg_fn=fn)
        own = [hasher.hash_shape(s) for s in coll.geoshapes]
        exp = {c: fn([s for s, ks in zip(coll.geoshapes, own) if c in ks]) for c in set().union(*own)}
        print('implementation now:', dict(sorted(out.items())))
        print('aggregation over exactly the shapes (with multiplicity) whose hash set has the cell:', dict(sorted(exp.items())))
    elif m.get('k') == 'multi':
        s = build(m['shape'])
        print('implementation now:', sorted(GH.NiemeyerHasher(m['len'], m['base']).hash_shape(s)))
    elif m.get('h3') and m.get('shape') and m.get('cell'):
        import h3
        s = build(m['shape'])
        got = GH.H3Hasher(m['res']).hash_shape(s)
        la, lo = h3.cell_to_latlng(m['cell'])
        inside = [bool(x.contains_coordinate(Coordinate(lo, la))) for x in (s.geoshapes if hasattr(s, 'geoshapes') else [s])]
        print(f'implementation now: hash_shape returns {len(got)} cells; cell {m["cell"]} (centre lon/lat {lo}, {la}) returned: {m["cell"] in got}; '
              f'centre inside the shape (its own contains_coordinate, per member): {inside}')
    print('gallina case:', (r.get('gallina_case') or '')[:2000])
    lit = r.get('gallina_case')
    if lit:
        import tempfile
        from lib import COQ, sh
        os.makedirs(os.path.join(os.path.dirname(COQ), '.run'), exist_ok=True)
        with tempfile.TemporaryDirectory(dir=os.path.join(os.path.dirname(COQ), '.run')) as d:
            f = os.path.join(d, 'replay.v')
            extra = ''
            if m.get('k') == 'flood' and lit.startswith('KFlood'):
                extra = ('Definition model_flood (k : fcase) := match k with KFlood base len slon slat table out => '
                         'match cfg_of_base base with Some c => niemeyer_flood c (Z.to_nat len) (slon, slat) '
                         '(fun gh => match dfind str_eqb gh table with Some b => b | None => false end) (2 * length table + 8) '
                         '| None => None end | _ => None end.\n'
                         f'Eval vm_compute in model_flood ({lit}).\n')
            open(f, 'w').write('From Coq Require Import QArith String.\nFrom GV Require Import Prelude GeohashM GeohashK FloodM FloodK.\n'
                               'Open Scope string_scope. Open Scope Z_scope. Open Scope Q_scope.\n'
                               + extra + f'Eval vm_compute in check ({lit}).\n')
            rc, out = sh(['coqc', '-Q', os.path.join(COQ, 'theories'), 'GV', f], cwd=d, timeout=300)
            print('model (flood result as code-point lists, then whether model and recorded implementation answer agree):')
            print(out[-3000:])


if __name__ == '__main__':
    if '--replay' in sys.argv:
        replay(sys.argv[sys.argv.index('--replay') + 1])
    else:
        main()
