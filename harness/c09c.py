"""C09, last sentence ("... the bounds match the true extents of the curve to within 1% of the radius"):
the ties of Model/BoundsCurveM.v to /repo and the property evaluated on the implementation.
Called from harness/c09.py:

    import c09c
    ...
    c09c.run(ck)            # before ck.finish(...)

T  tools/gen_curvebounds.py regenerates CurveBoundsGen.v (GeoCircle.bounds, GeoEllipse.centroid / bounds, the
   full-ring branch of GeoRing.bounds) from the working tree; coq/geneq/CurveBoundsGenEq.v proves the generated
   definitions equal to BoundsCurveM.circle_bounds_rounded / ellipse_bounds_rounded / ring_bounds_full_opt for
   all arguments.
K  per sampled circle / full ring / ellipse Coq proves with `interval` (Corr/BoundsCurveK.v) that the four
   numbers of the UNROUNDED model (circle_bounds / ring_full_bounds / ellipse_bounds, degrees; longitudes modulo
   the constructor's wrap) are within 6e-8 degrees of `shape.bounds` (5e-8 is the 7-decimal rounding of the
   corner destinations: Proofs/BoundsCurveP6.v).
Oracle: the clause itself on the implementation's floats, with an independent geodesy (unit vectors): for circles
   and full rings against the closed-form extents (lat +- r/R, lon +- asin(sin(r/R)/cos lat)), for ellipses
   against the extents of 1440 curve points; tolerance r/100 + 5.6 mm (+ the sampling slack for ellipses).
"""
import json
import math
import os
import re
import sys

sys.path.insert(0, os.path.dirname(os.path.abspath(__file__)))
from lib import REPO, COQ, guarded   # noqa: E402
import c07                            # noqa: E402  (exact literals, the interval-lemma runner)
from c07 import rlit, epslit, R_EARTH  # noqa: E402

from geostructures.structures import GeoCircle, GeoEllipse, GeoRing     # noqa: E402
from geostructures.coordinates import Coordinate                        # noqa: E402

K_HEADER = ('From GV Require Import Prelude SphereM CurveM BoundsCurveM BoundsCurveK.\n'
            'From Coq Require Import Reals Lra.\nFrom Interval Require Import Tactic.\nOpen Scope R_scope.\n')
EPS_DEG = 6e-8
TARGETS = ['theories/Props/C09c.vo', 'theories/Corr/BoundsCurveK.vo']
THEOREMS = ('C09_circle_bounds_rounded_match_extents / C09_ring_bounds_rounded_match_extents / '
            'C09_ellipse_bounds_rounded_match_extents (Props/C09c.v)')
RULE = ('curved bounds: fixed circles / full rings / ellipses at latitudes 0, +-75 and longitudes +-179.9 with radii 1 m and '
        '10 km, plus seeded random ones (|lat| <= 75, any longitude, radius 1 m .. 10 km log-uniform, axis ratio 0.05 .. 1, any '
        'rotation, ring angle ranges [a, a+360]); every other shape first goes through 1-3 random read-only calls that carry an '
        'outline resolution k; each compared with the real-number model by four interval lemmas and with the '
        'independent extents. non-trivial = distinct shapes whose four bounds were checked')
ASSUMPTIONS = ['curved bounds: a Python float is a real number up to the tolerance of the interval lemmas (6e-8 deg, of which '
               '5e-8 is the code\'s own rounding); math.sin/cos/asin/atan2/sqrt are accurate to a few ulp']


# ------------------------------------------------------------------ shapes
def build(sh):
    c = Coordinate(sh['c'][0], sh['c'][1])
    if sh['t'] == 'circle':
        return GeoCircle(c, sh['r'])
    if sh['t'] == 'ellipse':
        return GeoEllipse(c, sh['a'], sh['b'], sh['rot'])
    return GeoRing(c, sh['rin'], sh['rout'], sh['amin'], sh['amax'])


def radius_of(sh):
    return {'circle': sh.get('r'), 'ellipse': sh.get('a'), 'ring': sh.get('rout')}[sh['t']]


def gen_shapes(rng, n):
    out = []
    # fixed: the corners of the clause's range, both hemispheres, next to the antimeridian
    for lat, lon in ((75.0, 179.9), (75.0, -179.9), (-75.0, 179.9), (-75.0, 10.0), (0.0, -179.9)):
        for r in (1.0, 10000.0):
            out.append({'t': 'circle', 'c': (lon, lat), 'r': r})
    out.append({'t': 'ring', 'c': (179.95, 75.0), 'rin': 100.0, 'rout': 10000.0, 'amin': 0.0, 'amax': 360.0})
    out.append({'t': 'ring', 'c': (-20.0, -75.0), 'rin': 0.5, 'rout': 1.0, 'amin': -10.0, 'amax': 350.0})
    out.append({'t': 'ellipse', 'c': (-179.9, 75.0), 'a': 10000.0, 'b': 500.0, 'rot': 25.0})
    out.append({'t': 'ellipse', 'c': (10.0, -75.0), 'a': 10000.0, 'b': 10000.0, 'rot': 90.0})
    out.append({'t': 'ellipse', 'c': (0.0, 40.0), 'a': 1.0, 'b': 0.25, 'rot': 333.0})
    while len(out) < n:
        lat = round(rng.choice([rng.uniform(-75, 75), rng.uniform(60, 75), rng.uniform(-75, -60)]), 6)
        lon = round(rng.choice([rng.uniform(-180, 180), rng.choice([-1, 1]) * rng.uniform(179.8, 179.999)]), 6)
        r = round(math.exp(rng.uniform(0.0, math.log(10000.0))), 3)
        kind = rng.choice(['circle', 'ring', 'ellipse', 'ellipse'])
        if kind == 'circle':
            out.append({'t': 'circle', 'c': (lon, lat), 'r': r})
        elif kind == 'ring':
            a0 = float(rng.choice([0, 0, -30, 45, -360]))
            out.append({'t': 'ring', 'c': (lon, lat), 'rin': round(r * rng.uniform(0.05, 0.9), 3), 'rout': r,
                        'amin': a0, 'amax': a0 + 360.0})
        else:
            out.append({'t': 'ellipse', 'c': (lon, lat), 'a': r, 'b': max(0.001, round(r * rng.uniform(0.05, 1.0), 3)),
                        'rot': round(rng.uniform(0, 360), 3)})
    return out[:n]


# ------------------------------------------------------------------ histories of resolution-carrying calls
# Mechanism class covered: STATE LEFT BEHIND BY READ-ONLY CALLS.  bounds / circumscribing_rectangle /
# circumscribing_circle are functions of the shape; every public call that takes the outline resolution `k`
# (exports, outline accessors, binary predicates) is read-only.  A history is a short random sequence of such
# calls, with k coarser than, equal to (None) or finer than the shape's default, evaluated on the object BEFORE
# the first read of bounds; the answers afterwards must be those of a twin built from the same arguments that
# had no history (c09.py) and must satisfy the model / the 1% clause (interval lemmas below, KBnd in c09.py).
K_COARSE, K_FINE = (1, 2, 3, 4, 5, 7), (37, 61, 100)
K_CALLS = {
    'to_wkt': lambda S, k, o: S.to_wkt(k=k),
    'to_polygon': lambda S, k, o: S.to_polygon(k=k),
    'to_geojson': lambda S, k, o: S.to_geojson(k=k),
    'to_geojson+bbox': lambda S, k, o: tuple(S.to_geojson(k=k, include_bbox=True)['geometry']['bbox']),
    'bounding_coords': lambda S, k, o: S.bounding_coords(k=k),
    'bounding_edges': lambda S, k, o: S.bounding_edges(k=k),
    'linear_rings': lambda S, k, o: S.linear_rings(k=k),
    'edges': lambda S, k, o: S.edges(k=k),
    'intersects_shape': lambda S, k, o: S.intersects_shape(o, k=k),
    'contains_shape': lambda S, k, o: S.contains_shape(o, k=k),
}
K_CALL_NAMES = sorted(K_CALLS)


def k_history(rng, n=None):
    """a random history: [[call name, k], ...] (JSON-able); k None = the call without an explicit resolution"""
    n = n or rng.choice([1, 1, 2, 3])
    return [[rng.choice(K_CALL_NAMES), rng.choice([*K_COARSE, *K_COARSE, *K_FINE, None])] for _ in range(n)]


def apply_history(S, hist):
    """evaluates the history on S (exceptions are part of the history, not of the verdict: a degenerate k may be
    refused); returns the bboxes that exports with include_bbox=True handed out on the way"""
    r = getattr(S, 'radius', None) or getattr(S, 'semi_major', None) or getattr(S, 'outer_radius', None)
    other = GeoCircle(S.center, r / 2)          # built from the constructor arguments only: S itself is not consulted
    boxes = []
    for name, k in hist:
        got = guarded(lambda: K_CALLS[name](S, k, other))
        if name == 'to_geojson+bbox' and got[0] == 'Ok':
            boxes.append(tuple(float(x) for x in got[1]))
    return boxes


# ------------------------------------------------------------------ the model in floats (to choose k and to describe a mismatch)
def dest_float(p, ang_deg, dist):
    r = dist / R_EARTH
    x0, y0, t = math.radians(p[0]), math.radians(p[1]), math.radians(ang_deg)
    s2 = math.sin(y0) * math.cos(r) + math.cos(y0) * math.sin(r) * math.cos(t)
    fl = math.asin(s2)
    fo = x0 + math.atan2(math.sin(t) * math.sin(r) * math.cos(y0), math.cos(r) - math.sin(y0) * s2)
    return math.degrees(fo), math.degrees(fl)


def ellipse_dxy(sh):
    w = math.radians(sh['rot'])
    a2, b2 = sh['a'] ** 2, sh['b'] ** 2
    return (math.sqrt(a2 * math.sin(w) ** 2 + b2 * math.cos(w) ** 2), math.sqrt(a2 * math.cos(w) ** 2 + b2 * math.sin(w) ** 2))


def model_bounds(sh):
    """(min lon, min lat, max lon, max lat) of the unrounded, un-wrapped model"""
    c = sh['c']
    if sh['t'] == 'ellipse':
        dx, dy = ellipse_dxy(sh)
        return (dest_float(c, 270, dx)[0], dest_float(c, 180, dy)[1], dest_float(c, 90, dx)[0], dest_float(c, 0, dy)[1])
    r = radius_of(sh) * math.sqrt(2)
    nw, se = dest_float(c, 315, r), dest_float(c, 135, r)
    return nw[0], se[1], se[0], nw[1]


def k_lemma(name, sh, ob):
    """the interval lemma for one shape; ob = implementation's bounds"""
    mb = model_bounds(sh)
    kw, ke = round((mb[0] - ob[0]) / 360), round((mb[2] - ob[2]) / 360)
    l, f = rlit(sh['c'][0]), rlit(sh['c'][1])
    eps = epslit(EPS_DEG)
    vals = f'{rlit(ob[0])} {rlit(ob[1])} {rlit(ob[2])} {rlit(ob[3])} {eps}'
    four = (f'Rabs (rb_minlon b - 360 * IZR ({kw})%Z - {rlit(ob[0])}) <= {eps} /\\\n'
            f'  Rabs (rb_minlat b - {rlit(ob[1])}) <= {eps} /\\\n'
            f'  Rabs (rb_maxlon b - 360 * IZR ({ke})%Z - {rlit(ob[2])}) <= {eps} /\\\n'
            f'  Rabs (rb_maxlat b - {rlit(ob[3])}) <= {eps}')
    if sh['t'] == 'circle':
        return (f'Lemma {name} : let b := circle_bounds ({l}, {f}) {rlit(sh["r"])} in\n  {four}.\n'
                f'Proof. apply (K_circle_bounds ({kw})%Z ({ke})%Z); kb_ivl. Qed.\n')
    if sh['t'] == 'ring':
        s = f'(mkring ({l}, {f}) {rlit(sh["rin"])} {rlit(sh["rout"])} {rlit(sh["amin"])} {rlit(sh["amax"])} [])'
        return (f'Lemma {name} : ring_bounds_full_opt {s} = Some (circle_bounds_rounded ({l}, {f}) {rlit(sh["rout"])}) /\\\n'
                f'  let b := ring_full_bounds {s} in\n  {four}.\n'
                f'Proof. apply (K_ring_bounds ({kw})%Z ({ke})%Z {l} {f} {rlit(sh["rin"])} {rlit(sh["rout"])} '
                f'{rlit(sh["amin"])} {rlit(sh["amax"])} {vals}); [lra | kb_ivl | kb_ivl | kb_ivl | kb_ivl]. Qed.\n')
    s = f'(mkellipse ({l}, {f}) {rlit(sh["a"])} {rlit(sh["b"])} {rlit(sh["rot"])} [])'
    return (f'Lemma {name} : let b := ellipse_bounds {s} in\n  {four}.\n'
            f'Proof. apply (K_ellipse_bounds ({kw})%Z ({ke})%Z {l} {f} {rlit(sh["a"])} {rlit(sh["b"])} {rlit(sh["rot"])} '
            f'{vals}); kb_ivl. Qed.\n')


# ------------------------------------------------------------------ oracle: the clause on the implementation (independent geodesy)
def direct_uv(p, b_deg, d):
    """destination by unit vectors -> (lon, lat) degrees, longitude un-wrapped relative to p"""
    f1, t, r = math.radians(p[1]), math.radians(b_deg), d / R_EARTH
    # local frame at the centre with longitude 0: u = up, n = north, e = east
    u = (math.cos(f1), 0.0, math.sin(f1))
    n = (-math.sin(f1), 0.0, math.cos(f1))
    e = (0.0, 1.0, 0.0)
    v = [math.cos(r) * u[i] + math.sin(r) * (math.cos(t) * n[i] + math.sin(t) * e[i]) for i in range(3)]
    return p[0] + math.degrees(math.atan2(v[1], v[0])), math.degrees(math.atan2(v[2], math.hypot(v[0], v[1])))


def true_extents(sh):
    """((min lon, min lat, max lon, max lat) un-wrapped, slack in metres)"""
    c = sh['c']
    if sh['t'] == 'ellipse':
        a, b, rot = sh['a'], sh['b'], sh['rot']
        n = 1440
        pts = []
        for i in range(n):
            t = 2 * math.pi * i / n
            rho = a * b / math.sqrt(a * a * math.sin(t) ** 2 + b * b * math.cos(t) ** 2)
            pts.append(direct_uv(c, math.degrees(t) + rot, rho))
        lons, lats = [q[0] for q in pts], [q[1] for q in pts]
        # between two samples the support function of the ellipse changes by at most a * (1 - cos(pi/n)) (+ curvature, second order)
        return (min(lons), min(lats), max(lons), max(lats)), a * (1 - math.cos(math.pi / n)) * 1.5 + 1e-6
    r = radius_of(sh)
    e = r / R_EARTH
    phi = math.radians(c[1])
    T = math.degrees(math.asin(math.sin(e) / math.cos(phi)))
    return (c[0] - T, c[1] - math.degrees(e), c[0] + T, c[1] + math.degrees(e)), 1e-6


def lon_diff(a, b):
    return (a - b + 180.0) % 360.0 - 180.0


def oracle(sh, ob):
    """list of (which bound, error in metres, allowed) where the clause fails on the implementation"""
    te, slack = true_extents(sh)
    r = radius_of(sh)
    m_lat = math.pi * R_EARTH / 180
    m_lon = m_lat * math.cos(math.radians(sh['c'][1]))
    errs = [abs(lon_diff(ob[0], te[0])) * m_lon, abs(ob[1] - te[1]) * m_lat,
            abs(lon_diff(ob[2], te[2])) * m_lon, abs(ob[3] - te[3]) * m_lat]
    allowed = 0.01 * r + 0.0056 + slack
    return [(nm, err, allowed) for nm, err in zip(('min_lon', 'min_lat', 'max_lon', 'max_lat'), errs) if not err <= allowed], max(errs) / r


# ------------------------------------------------------------------ entry point
def run(ck, tier=None):
    tier = tier or ck.tier
    if not all(os.path.exists(os.path.join(COQ, t)) for t in TARGETS):
        # c09.py is expected to list TARGETS in its own ck.build_theories(); this is the fallback
        ck.build_theories(TARGETS)
    import gen_curvebounds   # noqa  (tools/: translator tie)
    rep = gen_curvebounds.main(REPO, os.path.join(ck.rundir, 'CurveBoundsGen.v'))
    ok_gen = ck.gen('CurveBoundsGen.v', rep, 'CurveBoundsGenEq.v')
    if not any(o['kind'] == 'theorem' and o['name'] == 'C09_circle_bounds_rounded_match_extents' for o in ck.obligations):
        # (c09.py may already have compiled the property file)
        prev_chk = ck.cov.get('coqchk_axioms')
        ck.props('Props/C09c.v')
        if prev_chk is not None and 'coqchk_axioms' in ck.cov:      # thorough tier: keep the other property files' result too
            ck.cov['coqchk_axioms'] = sorted(set(prev_chk) | set(ck.cov['coqchk_axioms']))

    n = 40 if tier == 'quick' else 400
    if not ok_gen:
        n *= 2                   # the translator tie broke: look harder for a concrete failing input
    shapes = gen_shapes(ck.rng, n)
    lemmas, meta, prop_bad = [], {}, []
    worst = 0.0
    for i, sh in enumerate(shapes):
        ck.count('curved-bounds:' + sh['t'])
        S = build(sh)
        m = {'k': 'curved-bounds', 'shape': sh}
        if i % 2:
            # every other shape: read-only calls carrying an outline resolution k come first; what bounds answers
            # afterwards goes to the same interval lemmas and the same oracle (see k_history above)
            m['history'] = k_history(ck.rng)
            m['bboxes_exported_during_history'] = apply_history(S, m['history'])
            ck.count('curved-bounds-read-after-k-history')
        got = guarded(lambda: tuple(float(x) for x in S.bounds))
        if got[0] != 'Ok' or len(got[1]) != 4 or not all(math.isfinite(x) for x in got[1]):
            prop_bad.append(dict(m, clause='bounds is a 4-tuple of finite floats', detail=repr(got)))
            continue
        ob = got[1]
        m['bounds'] = list(ob)
        m['model_bounds_float'] = list(model_bounds(sh))
        for bb in m.get('bboxes_exported_during_history', []):
            if tuple(bb) != tuple(ob):
                prop_bad.append(dict(m, clause='the bbox exported by to_geojson(k=.., include_bbox=True) is the bounds of the shape', bbox=list(bb)))
        fails, rel = oracle(sh, ob)
        worst = max(worst, rel)
        if fails:
            prop_bad.append(dict(m, clause='curved bounds within 1% of the radius of the true extents',
                                 detail=[{'bound': nm, 'error_m': err, 'allowed_m': al} for nm, err, al in fails]))
        nm = f'kb_{i}'
        txt = k_lemma(nm, sh, ob)
        lemmas.append((nm, txt))
        meta[nm] = dict(m, lemma=txt)
    bad, broken = c07.run_lemmas(ck, 'curvebounds', lemmas, per_file=4 if tier == 'quick' else 6, header=K_HEADER)

    ck.cov['evaluations'] = ck.cov.get('evaluations', 0) + 4 * len(lemmas)
    ck.cov['distinct_nontrivial'] = ck.cov.get('distinct_nontrivial', 0) + len({json.dumps(s, sort_keys=True) for s in shapes})
    ck.cov['curved_bounds_shapes'] = len(shapes)
    ck.cov['curved_bounds_interval_lemmas'] = len(lemmas)
    ck.cov['curved_bounds_worst_error_over_radius'] = worst
    if lemmas:
        ck.sample(lemmas[len(lemmas) // 2][1][:400], limit=8)

    for pb in prop_bad[:3]:
        ck.violation({'kind': 'property-fails-on-implementation', 'case': pb, 'theorems': THEOREMS,
                      'how_to_replay': 'bin/check C09 --replay <this file>'})
    shown = 0
    for nm in sorted(bad, key=lambda x: int(x.split('_')[1])):
        if shown >= 4:
            break
        m = meta[nm]
        d = [abs(lon_diff(m['bounds'][j], m['model_bounds_float'][j])) if j in (0, 2) else abs(m['bounds'][j] - m['model_bounds_float'][j])
             for j in range(4)]
        ck.violation({'kind': 'model-vs-implementation', 'case': m, 'model': 'BoundsCurveM.circle_bounds / ring_full_bounds / ellipse_bounds (unrounded, real numbers)',
                      'difference_deg_float_estimate': d, 'tolerance_deg': EPS_DEG, 'coq_says': bad[nm][-300:],
                      'theorems': THEOREMS, 'how_to_replay': 'bin/check C09 --replay <this file>'})
        shown += 1
    return {'shapes': len(shapes), 'lemmas': len(lemmas), 'bad': len(bad), 'broken': len(broken), 'property_bad': len(prop_bad),
            'worst_error_over_radius': worst, 'translator_ok': ok_gen}


def replay(m):
    """called by c09.py's replay for cases with k == 'curved-bounds'"""
    sh = m['shape']
    S = build(sh)
    if m.get('history'):
        print('history replayed first:', m['history'], '-> bboxes exported:', apply_history(S, m['history']))
        print('fresh twin (no history):', tuple(float(x) for x in build(sh).bounds))
    ob = tuple(float(x) for x in S.bounds)
    print('implementation now:', ob)
    print('model (floats, unrounded, un-wrapped):', model_bounds(sh))
    print('clause on the implementation now:', oracle(sh, ob))
